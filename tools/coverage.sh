#!/bin/bash
# usage: tools/coverage.sh [tier] — line coverage of /repo/src under the scripts of all 17 checks (a measure of generator quality,
# not a check). Builds an instrumented copy of the harness against a scratch worktree of /repo, runs every property's scripts
# (and the corpus), prints the llvm-cov report and the uncovered lines of the modelled files, and removes the scratch directory.
tier=${1:-quick}
S=$(mktemp -d /tmp/verifcov.XXXXXX)
B=$(dirname $(rustup +nightly which rustc))/../lib/rustlib/x86_64-unknown-linux-gnu/bin
export CARGO_NET_OFFLINE=true
git -C /repo worktree add --detach $S/repo HEAD -q || exit 1
( cd /repo && git diff ) | ( cd $S/repo && git apply 2>/dev/null )       # the current working tree, not only HEAD
rsync -a --exclude target /verif/harness/ $S/harness/
sed -i "s#path = \"/repo\"#path = \"$S/repo\"#" $S/harness/Cargo.toml
( cd $S/harness && RUSTFLAGS="-C instrument-coverage" cargo +nightly build --offline 2>&1 | tail -1 )
python3 /verif/tools/gen_scripts.py $S/scripts $tier > /dev/null
cat /verif/corpus/*.script > $S/scripts/corpus.script
mkdir -p $S/prof
for f in $S/scripts/*.script; do
  LLVM_PROFILE_FILE=$S/prof/$(basename $f).profraw timeout 3600 $S/harness/target/debug/pharness $f > /dev/null 2>&1
done
$B/llvm-profdata merge -sparse $S/prof/*.profraw -o $S/all.profdata
$B/llvm-cov report $S/harness/target/debug/pharness -instr-profile=$S/all.profdata --sources $S/repo/src | sed "s#$S/repo/src/##" | cut -c1-40,95-130,150-190
for f in client/context.rs client/handle.rs client/utils.rs client/stream.rs io/packet_stream.rs; do
  echo "== uncovered lines of $f"
  $B/llvm-cov show $S/harness/target/debug/pharness -instr-profile=$S/all.profdata --sources $S/repo/src/$f 2>/dev/null | grep -E "^ +[0-9]+\| +0\|" | cut -c1-150
done
git -C /repo worktree remove --force $S/repo
rm -rf "$S"
