#!/usr/bin/env python3
"""usage: tools/gen_scripts.py <outdir> <tier> [seed]  — writes the scripts each property's check would run (one file per property)."""
import os, random, sys
ROOT = os.path.dirname(os.path.dirname(os.path.abspath(__file__)))
sys.path.insert(0, ROOT)
from checklib import families
out, tier = sys.argv[1], sys.argv[2]
seed = int(sys.argv[3]) if len(sys.argv) > 3 else 20260929
os.makedirs(out, exist_ok=True)
for prop in sorted(families.FAMILIES):
    rng = random.Random(f'{seed}-{prop}')
    sc = families.FAMILIES[prop](rng, tier)
    with open(os.path.join(out, f'{prop}.script'), 'w') as fh:
        for n, lines in sc:
            fh.write(f'BEGIN {n}\n' + '\n'.join(lines) + '\nEND\n')
    print(prop, len(sc))
