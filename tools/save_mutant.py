#!/usr/bin/env python3
"""save_mutant.py <worktree> <seed-id> <property> <caught-by comma list> <"needs" text>"""
import json, os, shutil, sys
wt, sid, prop, caught, needs = sys.argv[1:6]
d = f'/verif/seeded/{sid}'
os.makedirs(d, exist_ok=True)
shutil.copy(f'{wt}/out/patch.diff', f'{d}/patch.diff')
shutil.copy(f'{wt}/out/demo.rs', f'{d}/demo.rs')
if os.path.exists(f'{wt}/out/README.md'):
    shutil.copy(f'{wt}/out/README.md', f'{d}/README.md')
meta = dict(id=sid, property=prop, source='independent sub-agent given only the property text and a scratch worktree',
            needs_to_manifest=needs,
            confirmed=dict(unit_tests_with_change='93 passed (cargo test --offline --lib in the scratch worktree)',
                           demo_with_change='fails', demo_without_change='passes',
                           how='tools/try_mutant.sh <worktree> <id> <props>: applies out/patch.diff, runs the 93 tests and tests/demo.rs, reverts, runs demo again; then git -C /repo apply, ./check run, git -C /repo checkout -- .'),
            caught_by=[c for c in caught.split(',') if c])
json.dump(meta, open(f'{d}/meta.json', 'w'), indent=1)
print('saved', d)
