#!/usr/bin/env python3
"""Regenerates /verif/MANIFEST.json from the table below. A property is claimed when all Lean modules that `check`
lists for it exist; otherwise it is listed under not_applicable with the reason 'under construction'."""
import importlib.machinery
import importlib.util
import json
import os

ROOT = os.path.dirname(os.path.dirname(os.path.abspath(__file__)))
loader = importlib.machinery.SourceFileLoader('check', os.path.join(ROOT, 'check'))
spec = importlib.util.spec_from_loader('check', loader)
check = importlib.util.module_from_spec(spec)
loader.exec_module(check)

TIE = (" The model is tied to /repo on every run: the Rust harness drives the real library in-process under a deterministic "
       "waker-strict executor, the Lean driver executes the model on the same generated scripts, and the two transcripts must be "
       "identical (scripts: per-property families, kitchen-sink walks over every cross-cutting dimension, and for C05-C13 and C15 "
       "reactive-broker scripts expanded against the implementation's own output); independent Python oracles (own MQTT parsers) "
       "judge the implementation's transcripts directly and supply the failing input.")
TRUST = ("Trusted: Lean 4.33 kernel; axioms propext, Classical.choice, Quot.sound only (audited by #print axioms on every run); the "
         "hand-written model being the code — checked by differential execution, which samples; futures channels / select! / async "
         "lowering / bytes / derive_builder modelled as parameters with their documented semantics. ")

T = {
 'C01': ("28 kernel-checked theorems: for every in-domain request of every kind the code-shaped encoder's output parses, with an "
         "independently written MQTT 5 parser, to exactly one packet holding exactly the caller's values (enc_*_parses), remaining/"
         "property length fields exact (*_lengths), packetLen = encoded length (*_packetLen), refusal exactly for the missing-mandatory-"
         "part cases (*_valid_iff). Whole executions (Properties/C01World): every packet the client builds is exactly one frame; everything handed to the transport is the concatenation of the submitted packets (wire_is_submitted), the W lines of every transcript are those packets (transcript_wires), no partial packet is ever left (no_wraw), every W line parses with the independent parser to the packet of a request of the script with the identifiers the library assigned (wire_lines_from_callers); refusal changes nothing (startOp_refused, connect_refused). TxPacketStream::write = write_all over an ARBITRARY writer oracle (TxStream.lean, Properties/C01Tx, 22 theorems; the WCALLS line of every script runs this model against the code): accepted ++ remaining = packet after every poll (write_all_conserves), Ok only with the whole packet taken, an error only from the transport, Pending answers and the fragmentation invisible (delays_are_invisible, fragmentation_is_invisible), the wire after a sequence of writes = the completed packets in submission order then a proper prefix of the next (wire_is_whole_packets_then_a_proper_prefix), read back by the reference framing as exactly those packets (wire_frames_to_the_completed_packets), and under any transport a prefix of — when all writes completed equal to — the model's World.sent (any_transport_yields_the_models_wire).",
         "Partial / pending writes of the AsyncWrite half: write_all itself is modelled and proved for every transport (C01Tx); the World model still hands whole packets to the transport (a context task suspended INSIDE a write is outside World), and the tie of write_all to the code is the correspondence run under the four writer policies one/pend/pendone/all, which mock_transport_writes_everything shows to be instances of the oracle. "),
 'C02': ("dec_of_spec (+ one theorem per packet type): for every well-formed server packet p (independent spec encoder, decidable WF) "
         "decodeRx (encodeServer p) = ok (expected p): all 11 types, all short forms, any property order, repeated user properties, "
         "standard defaults for absent properties. Whole executions (Properties/C02World, C03World): for a well-formed server packet p the observation the client logs carries exactly the SPEC-side values of p — *_accessors per packet type (DONE with reason / reason string / user properties in order / reason list, RET connack with every default spelled out, RET auth, RET disconnected or Ok for reason 0 in all three forms, the ITEM a stream yields field by field); fed_server_packet_is_decoded ties it to scripts (any chunking).",
         "The accessor layer (rsp.rs/error.rs/collections.rs) is the model's observation rendering; it is exercised by the correspondence run through every public accessor (evidence lists all 137 public methods of src/client and that the harness calls each); std::str::from_utf8 is mirrored by utf8Valid."),
 'C03': ("12 theorems over the model of RxPacketStream::poll_next, for unbounded streams and every chunking: "
         "framing_chunking_independent, framing_same_as_whole_packets, framing_eof_exact, framing_no_spurious_end, "
         "framing_malformed_exact, framing_no_lost_wakeup, framing_reads_positive, framing_index_safe. Whole executions (Properties/C03World): for every script the frames the context hands to the decoder are a prefix of the reference framing of everything fed, whatever the chunking (decoded_frames_are_reference_frames, chunking_independence_world), a sleeping context has consumed every complete frame (asleep_context_has_consumed_everything), SocketClosed is returned only for a cause (socket_closed_only_for_a_cause).",
         "AsyncRead contract (Ready(0) only for an empty buffer or EOF) assumed; native stack depth / allocation size outside the model "
         "(a process abort is detected by the orchestrator)."),
 'C04': ("decodeRx_never_panics, decVar_no_overflow (u32 arithmetic cannot overflow: debug and release agree), framing_index_safe, and "
         "the actor part: unknown identifiers ignored, CONNACK/AUTH while running ignored, unexpected first packet is an error, panics "
         "enumerated (only the documented assertion is reachable), transport faults return SocketClosed, no sleep on unread input. Whole executions (Properties/C04World, C05World): for every script with pairwise distinct OP identifiers the only PANIC line a transcript can contain is the documented assertion, and only after a CONNACK without subscription-identifier support (only_documented_panic, assert_subid_only_from_connack); the executor's drain provably reaches quiescence after every step (drain_fuel_always_suffices) and a script that never holds the context task never logs STALL (never_stalls).",
         "Search: exhaustive short byte strings over a boundary alphabet, mutations of every packet type at every phase, read/write faults "
         "at every offset, debug and release, catch_unwind + stall detection."),
 'C05': ("actionId_injective, removeFirst_spec, only_own_ack_completes (a oneshot is completed only by the packet whose type and identifier "
         "it was registered under, first registered first), msg_replies_only_to_its_own_slot, registered_on_send / pings_fifo, "
         "awaiting_keys_nodup_preserved, pending_stays_pending, resumeOp_content (the result carries exactly the acknowledgement's content), "
         "pollOp_absent (never twice). Whole executions (Properties/C05World): for every script each operation completes at most once (each_operation_completes_at_most_once), DONE is logged only by the operation's own poll, and with pairwise distinct OP identifiers a value found in a waiting operation's oneshot is an acknowledgement of its own kind registered under its own action identifier (filled_oneshot_matches_its_operation, oneshot_filled_only_by_own_acknowledgement), so the unreachable!() of the handle futures is dead code (no_unreachable_panic).",
         "Script-level theorems that depend on channel identity assume pairwise distinct OP identifiers in the script (the script language names oneshots after them; checked on every script by pmdriver hyps). 'Exactly once' is proved as 'at most once' + (C14/C16/C04 packages) 'the executor never leaves a ready operation unpolled'."),
 'C06': ("startOp_publish_qos0/qos12 (exactly one message with the encoded packet, identifier iff QoS>0), publish_written_once_dup0 + "
         "encode_dup_clear (DUP=0 on the wire, DUP set only on the stored copy), qos0_completes_when_written, puback/pubrec/pubcomp_outcome "
         "(the 0x80 threshold, PUBREL built from the PUBREC's identifier, none after a failing PUBREC), pubrel_only_from_pubrec. Whole executions (Properties/C06World): in every moment of every execution every PUBREL held in the queue or the retransmit queue stems from a PUBREC with reason < 0x80 for that identifier (pubrel_held_only_after_successful_pubrec), a failing PUBREC queues nothing, every DONE of a publish has one of the documented causes with the acknowledgement's reason/string/properties (publish_result_mapping), exactly one first transmission with DUP=0 is queued per accepted publish.",
         "Script-level theorems for publish requests with QoS <= 2 (the model's Req does not bound it). A transcript-level count of W lines per publish is not proved (per-message chain instead)."),
 'C07': ("dispatch_spec (delivered to exactly the live subscriptions whose identifier the PUBLISH carries, in order, unchanged), "
         "registered_when_subscribe_is_sent, subs_changed_only_by_subscribe_and_dead_receivers, channel_fifo, "
         "stream_ends_only_without_sender. Whole executions (Properties/C07World): every script is a trace of labelled moves; per stream the conservation law items yielded ++ buffer = messages delivered (stream_yields_exactly_what_was_delivered), who_gets_delivered_what (one copy per subscription identifier with a registered live receiver, QoS 2 re-deliveries excluded), delivery before SUBACK / before stream(), stream_ends_only_after_end_cause (context dropped, expired-session reset, own SUBSCRIBE refused), independence from other streams and operations.",
         "Script-level theorems assume pairwise distinct OP identifiers (channels are named after them) and fewer than 2^28-1 subscribes."),
 'C08': ("acks_exact / acks_in_arrival_order: for every history of inputs served by run(), the acknowledgements written are exactly the "
         "acknowledgements owed, packet by packet, in order — whatever the subscriptions, dead streams or identifiers; decodeRx_wf makes the "
         "unreachable!() of the PUBLISH arm unreachable. Whole executions (Properties/CtxLift): every poll of run() in every world drives the context through exactly a served history of decoder-well-formed inputs (world_poll_is_serve) and, with an unlimited transport, the bytes it hands to the transport are exactly the acknowledgements owed / the requests' own packets in order (world_poll_acks_exact, world_run_poll_is_serve). Properties/HistWorld: the same over the whole history of every connection of every script (c08_every_segment) and for all bytes a script hands to the transport (c08_bytes_of_a_script).",
         "Per-history theorems over Ctx.serve, lifted to every poll of run() and to the whole history of every connection of every script."),
 'C09': ("inQos2_is_pending, redelivery_suppressed, first_delivery, pubrel_releases, qos2_delivered_once: along every history a QoS 2 PUBLISH "
         "is dispatched iff its identifier is not pending since the last PUBREL, and is always answered with PUBREC. Whole executions (Properties/CtxLift): inbound_qos2 has no duplicates and only identifiers in 1..65535 in every reachable world (world_inQos2, world_inQos2_range); after every poll it is the q2Step fold of the poll's history (world_poll_inQos2). Properties/HistWorld: c09_every_qos2_publish / c09_pubrel_releases characterise every QoS 2 PUBLISH and PUBREL event of every script against the pending set of the whole session history, and c09_stream_holds_what_the_history_gave ties it to what each stream yields.",
         "Per-history theorems over Ctx.serve, lifted to every poll of run() in every world."),
 'C10': ("quota_invariant: for EVERY Receive Maximum R and every input history the executable monitor P_C10 (outstanding ≤ R, QuotaExceeded "
         "exactly at R outstanding, every completion frees one slot) accepts the history, by a simulation relation quota + outstanding = R; "
         "quota_bounded, qos0_and_others_never_limited, quota_after_connack. Whole executions (Properties/CtxLift): quota <= Receive Maximum in every reachable world of every script (world_quota_bounded); the monitor accepts the history of every poll of run() from every related state (world_poll_quota, world_poll_quota_fresh). Properties/HistWorld: the monitor accepts the WHOLE history of every connection of every script (c10_every_segment, c10_segment_after_connack), across all polls and cancelled-and-restarted run() calls.",
         "Histories with non-conformant acknowledgements leave the monitor's domain (stated in the monitor). Resumed sessions re-arm the quota "
         "to R while re-sent packets are in flight: outside C10's single-connection histories, noted in DESIGN.md."),
 'C11': ("alloc_closed_form, alloc_nonzero, alloc_unique_window, alloc_period (any two of fewer than 65535 consecutive allocations differ, "
         "never 0, across the wrap), the same for subscription identifiers, alloc_interleaving_irrelevant, startOp_allocates_before_build. Whole executions (Properties/C11World): identifiers enter the outstanding set only by allocation (identifiers_enter_only_by_allocation); along every execution path satisfying the window condition (allocAge < 65535 for every outstanding identifier — WindowOk; shown tight) the outstanding identifiers are pairwise distinct at every moment and a written identifier differs from all others outstanding (outstanding_identifiers_pairwise_distinct, written_identifier_differs_from_all_others); unconditional below 65535 identifier-taking operations; subscription identifiers non-zero and handed out once; the first poll never panics in any world.",
         "The multi-thread case rests on the atomicity of AtomicU16::fetch_update (one alloc step per operation); exercised single-threaded "
         "with > 65536 operations from three clones."),
 'C12': ("sizeOk_iff, too_big_refused (state unchanged, not one byte written, only the error reply), fits_written_whole, maxPkt_from_connack; "
         "with *_packetLen of C01 the length compared is the true encoded length. Whole executions (Properties/CtxLift): serving never changes the limit (world_poll_maxPkt); the context state moves only by the documented transitions (world_ctx_transitions). Whole executions (Properties/C12World): refused iff maxPkt = some M and M < L, exact at L = M, with L the encoded length of the completed request (request_refused_iff_longer_than_limit); a refusal leaves the context, the transport and every other oneshot untouched (too_big_request_in_world); every handler call of every script refuses exactly the too big (every_handler_call_refuses_exactly_the_too_big); the limit in force is the last announced one and CONNECT options never set it (limit_in_force_is_last_announced); DONE MaximumPacketSizeExceeded iff such a refusal.",
         "Exactness at L = M is also swept by the correspondence run (M = 1..47 around every kind's L)."),
 'C13': ("handlePkt_flow / handleMsg_flow / flowRet_mapping, runLoop_returns_only_for_a_cause, handleClosed_only_when_no_sender, "
         "nothing_after_return, first_response_mapping, connect_refused_before_writing. Whole executions (Properties/C13World): RET lines are logged only by a poll of the context task and at most once per call (each_call_returns_at_most_once); every RET run r of every transcript has its documented cause per result (run_returns_only_for_a_cause, run_result_causes) and a poll that leaves run() pending saw none (run_pending_only_without_cause); nothing is written after a return until the next call (nothing_written_after_return, nothing_written_after_user_disconnect); the same for connect()/authorize().",
         "select! order between a ready packet and a ready message is outside the model (scripts keep one kind pending)."),
 'C14': ("dropCtx_closes, dropCtx_wakes, closed_slot_completes, start_after_drop, stream_drains_then_ends, full_slot_still_delivers. Whole executions (Properties/C14World): the sender-ownership invariant holds in every reachable world (ownInv_script); once the context is dropped every oneshot of a waiting operation is closed or full, every channel's sender is gone, the executor provably reaches quiescence (executor_quiescent_after_drop) and nothing is left pending except tasks the script itself holds (nothing_pending_after_drop); an operation started afterwards fails at once.",
         "Rests on the channel parameters (a dropped sender wakes the receiver). The stream half needs pairwise distinct OP identifiers (channels are named after them)."),
 'C15': ("dropOp_frame, late_ack_absorbed, bookkeeping_independent_of_waiter, dead_stream_only_unregisters, drop_stream_frame, runHandler_c. Whole executions (Properties/C15World): cancelling_is_never_polling_again — for every script the world after dropping a future equals, up to that future's private state and its own transcript lines, the world after holding it forever (so every other DONE, every RET, ITEM and wire line is the same: everybody_else_completes_the_same); the same for dropped streams; no sequence of drops makes run() return while a handle exists; the late acknowledgement frees the slot whoever waits; K1 is stated and proved as a theorem pair (k1_no_pubrel_is_ever_sent, k1_slot_stays_taken).",
         "One known finding K1 (known_findings.json): a QoS 2 publish future dropped before its PUBREL was sent leaves its exchange and slot "
         "unfinished — reported as KNOWN-FINDING, any other violation is reported."),
 'C16': ("pollOp_spurious, pollStream_spurious, pollCtx_spurious_running/connecting (a poll without a wakeup changes only registration flags), "
         "pending_implies_registered, wake_on_every_event, framing_pending_only_from_reader (framing_no_lost_wakeup). Whole executions (Properties/C16World, C16Fuel): in a quiescent world a spurious poll and a sweep change NOTHING (w.apply (.poll t) = w, w.sweep = w); for every script with pairwise distinct OP identifiers World.run with the sweeping executor equals World.run with the wake-only executor (sweep_irrelevant) and an inserted spurious poll only adds its own event line (spurious_poll_inserted).",
         "The writing side (Properties/C01Tx): one poll of write_all returns Pending only when the transport itself answered Pending (it holds the waker) or has nothing more to say (write_pending_only_from_the_transport), and never calls poll_write with an empty buffer. "
         "The theorems are about the executor of PROTOCOL.md; read chunkings and write policies are compared on the implementation by the oracle (groups of scripts), and implementation = model on each."),
 'C17': ("sessionExpired_iff, resume_first_connection, resume_not_expired (re-sends exactly the queue, in order, keeps the waiters), resume_expired "
         "(re-sends nothing, drops every waiter), retx_is_unfinished / resume_resends_unfinished (the queue is the fold over the history: "
         "DUP-marked PUBLISH without PUBACK/PUBREC, PUBREL without PUBCOMP), acked_not_resent, retx_order_preserved, retx_dup_marked, setDup_spec. Whole executions (Properties/CtxLift): the first poll of run() after a recorded disconnection re-sends exactly the retransmit queue before anything else (world_run_poll_is_serve) and the queue after every poll is the unfinished handshakes of its history (world_poll_retx). Properties/HistWorld: the retransmit queue is the unfinished handshakes of the whole session history over all connections (c17_retx_is_session_unfinished); every run() prelude re-sends exactly them before anything else, or nothing and drops every waiter when expired (c17_every_run_prelude, c17_resent_before_anything_else). Properties/C17World: an expired session closes every waiter and the abandoned operations log ContextExited within the same script step unless held (expired_session_fails_abandoned_operations), its streams end after their backlog, nothing is re-sent; a live session keeps every waiter and an acknowledgement on the new connection completes the ORIGINAL future with its content (ack_on_new_connection_completes_original_future).",
         "The clock is a parameter (seconds since disconnection) and hook H1 records the disconnection (production code never does)."),
}

# session 5: statements added across properties (Properties/ActionOrder, HandlerOver, Reconnect)
_AO = ("Order of the handlers' actions and what a write fault leaves behind, for every context state (Properties/ActionOrder): one request "
       "writes at most its own packet, once; Ok(()) to a fire-and-forget caller only after the write and only if the transport took it "
       "(success_reply_follows_the_write); a local refusal writes nothing, changes nothing, keeps run() serving (refusal_writes_nothing); a "
       "write fault at an acknowledgement leaves the same bookkeeping and the same deliveries as a successful write "
       "(ack_write_fault_changes_only_the_outcome); the acknowledgement is the last action for a PUBLISH; a PUBREL releases its identifier "
       "and is answered whatever its reason.")
_HO = ("handle_message / handle_packet over EVERY transport (TxHandler.lean, Properties/HandlerOver): composed with the write_all loop over an "
       "arbitrary writer oracle the handler has a third outcome, suspended inside the write; the wire holds a prefix of the request's own "
       "packet, the caller is told 'written' only when every byte is with the transport (told_written_means_written), a suspended handler "
       "has told nobody anything (suspended_handler_has_told_nobody), over good / failing transports the result is the model's wok = true / "
       "false result, and the bookkeeping for an inbound packet does not depend on what becomes of its acknowledgement's write.")
_RC = ("Properties/Reconnect: set_up on a Context that was connected before yields, for every world, an empty framer / reader / writer and "
       "leaves session, queue, operations and handles untouched (setup_starts_a_fresh_connection); the first read of the new connection is "
       "framed as on a brand-new Context.")
for _k, _v in {'C01': [_HO], 'C14': [_AO, _HO], 'C07': [_AO], 'C09': [_AO], 'C12': [_AO], 'C15': [_AO], 'C02': [_RC], 'C03': [_RC]}.items():
    T[_k] = (T[_k][0] + ' ' + ' '.join(_v),) + tuple(T[_k][1:])


def main():
    props = [json.loads(l) for l in open(os.path.join(ROOT, 'properties.jsonl'))]
    checks, na = [], []
    for p in props:
        pid = p['id']
        mods = check.PROPS[pid]['modules']
        ok = all(os.path.exists(check.module_path(m)) for m in mods)
        if not ok:
            na.append(dict(property_id=pid, reason="theorem module under construction (model, correspondence run and oracle exist; see DESIGN.md section 7)"))
            continue
        text, note = T[pid]
        checks.append(dict(
            property_id=pid, quick_cmd=f"./check run {pid} --tier quick", thorough_cmd=f"./check run {pid} --tier thorough",
            evidence_file=f"/verif/evidence/{pid}.json", replay_cmd_template="./check replay {path}",
            engine="lean4-proof+correspondence",
            level_claimed=dict(category="proof", text="Kernel-checked Lean 4 theorems: " + text + TIE, design_ref="DESIGN.md section 7, " + pid),
            level_note=TRUST + note,
            technique="machine-checked proof in Lean 4 over a hand-written executable model + differential correspondence check against the implementation"))
    m = dict(version=1, setup_cmd="./check setup",
             hooks=dict(guard="cargo feature verif-hooks",
                        enable='the harness depends on poster with features = ["verif-hooks"] (harness/Cargo.toml)',
                        baseline_off_cmd="cd /repo && cargo test --workspace --no-fail-fast --offline",
                        source_commits=["0544fba"], add_only=True),
             engines=[dict(name="lean4-proof+correspondence", path="/verif/check", serves_properties=[c['property_id'] for c in checks],
                           kind_free_text="Lean 4 theorems over an executable model of codec, framing machine and actor (lean/); Rust harness "
                           "(harness/) drives the real library under a deterministic executor; transcripts diffed line by line; Python oracles "
                           "(checklib/oracles.py) search for failing inputs; corpus/ holds regression scripts of every repaired defect")],
             checks=checks, notes="see DESIGN.md; checks share builds under a lock; work/ is scratch; known_findings.json lists K1 (C15) and the 21 repaired defects; seeded/ holds 153 independently written breaking changes (tools/seeded_regress.sh)",
             not_applicable=na)
    json.dump(m, open(os.path.join(ROOT, 'MANIFEST.json'), 'w'), indent=1)
    print('claimed', [c['property_id'] for c in checks], 'not yet', [x['property_id'] for x in na])


if __name__ == '__main__':
    main()
