#!/bin/bash
# usage: tools/seeded_regress.sh [id ...]   — re-applies every kept seeded change to /repo, runs the quick check of the
# property it was written for, expects a VIOLATION, and restores /repo. Prints one line per change.
cd /verif
ids="$@"; [ -z "$ids" ] && ids=$(ls seeded)
for id in $ids; do
  prop=$(python3 -c "import json;print(json.load(open('seeded/$id/meta.json'))['property'])")
  if ! git -C /repo apply --check /verif/seeded/$id/patch.diff 2>/dev/null; then echo "$id $prop PATCH-DOES-NOT-APPLY"; continue; fi
  git -C /repo apply /verif/seeded/$id/patch.diff
  out=$(./check run $prop --tier quick 2>&1)
  git -C /repo checkout -- .
  n=$(echo "$out" | grep -c '^VIOLATION')
  nf=$(echo "$out" | grep -c 'no-failing-input-found')
  echo "$id $prop violations=$n no-failing-input=$nf $(echo "$out" | grep '^  ' | head -1 | cut -c1-140)"
done
