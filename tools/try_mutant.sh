#!/bin/bash
# usage: try_mutant.sh <worktree> <seed-id> <props...>
# 1. confirm in the scratch worktree: 93 tests pass with the change, demo fails with it and passes without
# 2. apply to /repo, run the checks, undo
wt=$1; id=$2; shift 2
export CARGO_NET_OFFLINE=true
cd $wt || exit 1
git checkout -q -- src 2>/dev/null; git apply out/patch.diff || { echo "patch does not apply in worktree"; exit 1; }
mkdir -p tests; cp out/demo.rs tests/demo.rs 2>/dev/null
t=$(cargo test --offline --lib 2>&1 | grep "^test result" | head -1)
d1=$(cargo test --offline $DEMO_FEATURES --test demo 2>&1 | grep "^test result" | head -1)
git checkout -q -- src
d0=$(cargo test --offline $DEMO_FEATURES --test demo 2>&1 | grep "^test result" | head -1)
git apply out/patch.diff
echo "CONFIRM unit tests with change: $t"
echo "CONFIRM demo with change:      $d1"
echo "CONFIRM demo without change:   $d0"
cd /repo && git apply $wt/out/patch.diff || { echo "patch does not apply to /repo"; exit 1; }
for p in "$@"; do
  out=$(cd /verif && ./check run $p 2>&1)
  echo "[$id -> $p] $(echo "$out" | grep -c '^VIOLATION') violation line(s); $(echo "$out" | grep -v '^VIOLATION\|^KNOWN' | sed -n '1,2p' | cut -c1-300 | tr '\n' '|')"
done
cd /repo && git checkout -- . && git status --short | head -3
