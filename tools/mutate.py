#!/usr/bin/env python3
"""Mass syntactic mutation of /repo/src to look for blind spots of the checks (a search aid, not a proof).

usage: tools/mutate.py [--seed N] [--max N] [--files a.rs,b.rs] [--out work/mutants.jsonl]

For each mutant (one token / one line changed outside `#[cfg(test)]` regions):
  1. apply it to /repo's working tree; 2. `cargo test --offline --lib` in /repo: a mutant the 93 tests kill (or that does
  not compile) is uninteresting; 3. run the quick checks in a fixed order until one prints VIOLATION; 4. `git checkout`.
A mutant that compiles, passes the tests and raises no alarm is logged as SURVIVED: either equivalent (no behaviour any
property speaks about changes) or a blind spot to be looked at by hand. Never commits anything in /repo."""
import argparse
import json
import os
import random
import re
import subprocess
import sys
import time

REPO = '/repo'
VERIF = os.path.dirname(os.path.dirname(os.path.abspath(__file__)))
FILES = ['src/client/context.rs', 'src/client/handle.rs', 'src/client/utils.rs', 'src/client/stream.rs', 'src/client/rsp.rs',
         'src/client/message.rs', 'src/io/packet_stream.rs', 'src/core/base_types.rs', 'src/core/properties.rs', 'src/core/utils.rs',
         'src/codec/ack.rs', 'src/codec/connect.rs', 'src/codec/connack.rs', 'src/codec/publish.rs', 'src/codec/subscribe.rs',
         'src/codec/suback.rs', 'src/codec/unsubscribe.rs', 'src/codec/unsuback.rs', 'src/codec/disconnect.rs', 'src/codec/auth.rs',
         'src/codec/packet.rs', 'src/codec/pingreq.rs', 'src/codec/pingresp.rs']
ORDER = ['C04', 'C03', 'C02', 'C01', 'C05', 'C06', 'C07', 'C08', 'C09', 'C10', 'C12', 'C13', 'C14', 'C15', 'C16', 'C17', 'C11']

REL = {'<=': '<', '>=': '>', '==': '!=', '!=': '==', '<': '<=', '>': '>='}


def code_lines(path):
    """(index, line) of lines outside test modules and comments"""
    lines = open(path).read().split('\n')
    out = []
    in_test = False
    for i, l in enumerate(lines):
        if re.match(r'\s*#\[cfg\(test\)\]', l):
            in_test = True
        if in_test:
            continue
        st = l.strip()
        if not st or st.startswith('//') or st.startswith('#[') or st.startswith('use ') or st.startswith('///'):
            continue
        out.append((i, l))
    return lines, out


def mutants_of(path):
    lines, cl = code_lines(path)
    ms = []
    for i, l in cl:
        # relational operators with spaces around (avoids generics and arrows)
        for mm in re.finditer(r' (<=|>=|==|!=|<|>) ', l):
            if '->' in l[max(0, mm.start() - 2):mm.end() + 1] or '=>' in l[max(0, mm.start() - 1):mm.end() + 1]:
                continue
            op = mm.group(1)
            ms.append((i, l[:mm.start(1)] + REL[op] + l[mm.end(1):], f'{op} -> {REL[op]}'))
        for a, b in [(' && ', ' || '), (' || ', ' && ')]:
            for mm in re.finditer(re.escape(a), l):
                ms.append((i, l[:mm.start()] + b + l[mm.end():], f'{a.strip()} -> {b.strip()}'))
        for mm in re.finditer(r'\b(0x80|0x7f|0x0f|0xf0|127|128|255|256|65535|512|16383|2097151|268435455)\b', l):
            v = mm.group(1)
            nv = hex(int(v, 16) + 1) if v.startswith('0x') else str(int(v) + 1)
            ms.append((i, l[:mm.start()] + nv + l[mm.end():], f'{v} -> {nv}'))
        for mm in re.finditer(r'(\+=|-=) 1\b', l):
            ms.append((i, l[:mm.start()] + ('-= 1' if mm.group(1) == '+=' else '+= 1') + l[mm.end():], 'inc <-> dec'))
        for mm in re.finditer(r' (\+|-) 1\b', l):
            ms.append((i, l[:mm.start()] + (' - 1' if mm.group(1) == '+' else ' + 1') + l[mm.end():], '+1 <-> -1'))
        for a, b in [('true', 'false'), ('false', 'true')]:
            for mm in re.finditer(r'\b' + a + r'\b', l):
                ms.append((i, l[:mm.start()] + b + l[mm.end():], f'{a} -> {b}'))
        for mm in re.finditer(r'\b(push_back|push_front)\b', l):
            o = 'push_front' if mm.group(1) == 'push_back' else 'push_back'
            ms.append((i, l[:mm.start()] + o + l[mm.end():], f'{mm.group(1)} -> {o}'))
        for mm in re.finditer(r'<< (\d)\b', l):
            ms.append((i, l[:mm.start()] + f'<< {int(mm.group(1)) + 1}' + l[mm.end():], 'shift + 1'))
        # statement deletion: a whole simple statement line
        st = l.strip()
        if st.endswith(';') and not st.startswith(('let ', 'return', 'pub ', 'fn ', 'const ', 'type ')) and '(' in st and st.count('(') == st.count(')'):
            ms.append((i, re.match(r'\s*', l).group(0) + '// deleted: ' + st, 'statement deleted'))
        if re.match(r'\s*return ', l) is None and re.search(r'\bif\b.*\{\s*$', l) and ' else ' not in l:
            mm = re.search(r'\bif (.*) \{\s*$', l)
            if mm and 'let ' not in mm.group(1):
                ms.append((i, l[:mm.start(1)] + '!(' + mm.group(1) + ')' + l[mm.end(1):], 'condition negated'))
    return lines, ms


def sh(cmd, cwd, timeout=1800):
    env = dict(os.environ, CARGO_NET_OFFLINE='true')
    p = subprocess.run(cmd, cwd=cwd, env=env, capture_output=True, text=True, timeout=timeout, shell=isinstance(cmd, str))
    return p.returncode, p.stdout + p.stderr


def main():
    ap = argparse.ArgumentParser()
    ap.add_argument('--seed', type=int, default=1)
    ap.add_argument('--max', type=int, default=40)
    ap.add_argument('--files', default='')
    ap.add_argument('--out', default=os.path.join(VERIF, 'work', 'mutants.jsonl'))
    ap.add_argument('--budget-min', type=float, default=120)
    a = ap.parse_args()
    rng = random.Random(a.seed)
    files = a.files.split(',') if a.files else FILES
    allm = []
    for f in files:
        p = os.path.join(REPO, f)
        if not os.path.exists(p):
            continue
        lines, ms = mutants_of(p)
        for m in ms:
            allm.append((f, m))
    rng.shuffle(allm)
    print(f'{len(allm)} candidate mutants in {len(files)} files; trying up to {a.max}', flush=True)
    rc, out = sh(['git', 'status', '--short', '--', 'src'], REPO)
    if out.strip():
        print('refusing: /repo/src has uncommitted changes')
        return 2
    t0 = time.time()
    tried = 0
    with open(a.out, 'a') as log:
        for f, (i, newline, what) in allm:
            if tried >= a.max or (time.time() - t0) / 60 > a.budget_min:
                break
            p = os.path.join(REPO, f)
            orig = open(p).read()
            lines = orig.split('\n')
            old = lines[i]
            if old == newline:
                continue
            lines[i] = newline
            rec = dict(file=f, line=i + 1, what=what, old=old.strip(), new=newline.strip())
            try:
                open(p, 'w').write('\n'.join(lines))
                rc, out = sh('cargo test --offline --lib 2>&1 | tail -5', REPO, 900)
                mm = re.search(r'test result: (\w+)\. (\d+) passed; (\d+) failed', out)
                if not mm:
                    rec['status'] = 'no-compile'
                elif mm.group(1) != 'ok':
                    rec['status'] = 'killed-by-tests'
                else:
                    tried += 1
                    rec['status'] = 'SURVIVED'
                    for prop in ORDER:
                        rc, out = sh(['./check', 'run', prop, '--tier', 'quick'], VERIF, 1800)
                        if 'VIOLATION' in out:
                            v = [l for l in out.split('\n') if l.startswith('  ')][:1]
                            nf = 'no-failing-input-found' in out and not any('oracle_failures=' in l and 'oracle_failures=0' not in l for l in out.split('\n'))
                            rec['status'] = 'caught'
                            rec['by'] = prop
                            rec['how'] = 'correspondence-only' if nf else 'oracle'
                            rec['msg'] = (v[0].strip()[:200] if v else '')
                            break
            finally:
                open(p, 'w').write(orig)
            rec['t'] = round(time.time() - t0)
            log.write(json.dumps(rec) + '\n')
            log.flush()
            print(json.dumps(rec), flush=True)
    sh(['git', 'checkout', '--', 'src'], REPO)
    return 0


if __name__ == '__main__':
    sys.exit(main())
