"""Independent MQTT 5 packet parsers (written from the standard) used by the oracles on the bytes the
implementation wrote (`W` lines) and on the bytes the scripts feed. `None`/exception = not a well-formed packet."""

from .mqtt import PROP_TYPE


class Bad(Exception):
    pass


class Rd:
    def __init__(self, b):
        self.b = bytes(b)
        self.i = 0

    def left(self):
        return len(self.b) - self.i

    def u8(self):
        if self.left() < 1:
            raise Bad('short u8')
        v = self.b[self.i]
        self.i += 1
        return v

    def u16(self):
        if self.left() < 2:
            raise Bad('short u16')
        v = (self.b[self.i] << 8) | self.b[self.i + 1]
        self.i += 2
        return v

    def u32(self):
        if self.left() < 4:
            raise Bad('short u32')
        v = int.from_bytes(self.b[self.i:self.i + 4], 'big')
        self.i += 4
        return v

    def var(self):
        n, mult = 0, 1
        for k in range(4):
            b = self.u8()
            n += (b & 127) * mult
            mult *= 128
            if not b & 128:
                if k > 0 and n < 128 ** k:
                    raise Bad('variable byte integer not minimally encoded')      # [MQTT-1.5.5-1]
                return n
        raise Bad('varint > 4 bytes')

    def take(self, n):
        if self.left() < n:
            raise Bad('short take')
        v = self.b[self.i:self.i + n]
        self.i += n
        return v

    def bin(self):
        return self.take(self.u16())

    def str(self):
        s = self.bin()
        try:
            s.decode('utf-8')
        except UnicodeDecodeError:
            raise Bad('utf8')
        return s

    def rest(self):
        return self.take(self.left())


def props(r, allowed, multi=(38,)):
    n = r.var()
    blk = Rd(r.take(n))
    out = []
    seen = set()
    while blk.left():
        pid = blk.u8()
        if pid not in PROP_TYPE or pid not in allowed:
            raise Bad(f'property {pid} not allowed')
        if pid in seen and pid not in multi:
            raise Bad(f'property {pid} twice')
        seen.add(pid)
        t = PROP_TYPE[pid]
        if t == 'u8':
            v = blk.u8()
            if pid != 36 and v > 1:
                raise Bad('bool')
        elif t == 'u16':
            v = blk.u16()
        elif t == 'u32':
            v = blk.u32()
        elif t == 'var':
            v = blk.var()
        elif t == 'str':
            v = blk.str()
        elif t == 'bin':
            v = blk.bin()
        else:
            v = (blk.str(), blk.str())
        if pid in (33, 35, 39, 11) and v == 0:
            raise Bad('zero')
        out.append((pid, v))
    return out


def frame(b):
    """(header byte, body) of exactly one packet occupying all of b"""
    r = Rd(b)
    h = r.u8()
    n = r.var()
    if r.left() != n:
        raise Bad(f'remaining length {n} but {r.left()} bytes follow')
    return h, Rd(r.rest())


def parse_client(b):
    """parse one client->server packet; returns a dict; raises Bad"""
    h, r = frame(b)
    t, fl = h >> 4, h & 15
    d = dict(type=t)
    if t == 1:
        if fl != 0:
            raise Bad('flags')
        if r.str() != b'MQTT' or r.u8() != 5:
            raise Bad('protocol')
        cf = r.u8()
        if cf & 1:
            raise Bad('reserved connect flag')
        d['clean_start'] = bool(cf & 2)
        will = bool(cf & 4)
        wq, wr = (cf >> 3) & 3, bool(cf & 32)
        if wq == 3 or (not will and (wq or wr)):
            raise Bad('will flags')
        d['keep_alive'] = r.u16()
        d['props'] = props(r, {17, 33, 39, 34, 25, 23, 38, 21, 22})
        d['client_id'] = r.str()
        if will:
            wp = props(r, {24, 1, 2, 3, 8, 9, 38})
            d['will'] = dict(qos=wq, retain=wr, props=wp, topic=r.str(), payload=r.bin())
        else:
            d['will'] = None
        d['username'] = r.str() if cf & 128 else None
        d['password'] = r.bin() if cf & 64 else None
    elif t == 3:
        qos = (fl >> 1) & 3
        if qos == 3:
            raise Bad('qos 3')
        d.update(dup=bool(fl & 8), qos=qos, retain=bool(fl & 1), topic=r.str())
        d['pid'] = r.u16() if qos else None
        if qos and d['pid'] == 0:
            raise Bad('pid 0')
        d['props'] = props(r, {1, 2, 35, 8, 9, 38, 3})
        d['payload'] = r.rest()
    elif t in (4, 5, 6, 7):
        if fl != (2 if t == 6 else 0):
            raise Bad('flags')
        d['pid'] = r.u16()
        if d['pid'] == 0:
            raise Bad('pid 0')
        d['reason'], d['props'] = 0, []
        if r.left():
            d['reason'] = r.u8()
            if r.left():
                d['props'] = props(r, {31, 38})
    elif t == 8:
        if fl != 2:
            raise Bad('flags')
        d['pid'] = r.u16()
        if d['pid'] == 0:
            raise Bad('pid 0')
        d['props'] = props(r, {11, 38})
        fs = []
        while r.left():
            f = r.str()
            o = r.u8()
            if o & 0xc0 or (o & 3) == 3 or ((o >> 4) & 3) == 3:
                raise Bad('subscription options')
            fs.append((f, f'{o & 3}{(o >> 2) & 1}{(o >> 3) & 1}{(o >> 4) & 3}'))
        if not fs:
            raise Bad('no filter')
        d['filters'] = fs
    elif t == 10:
        if fl != 2:
            raise Bad('flags')
        d['pid'] = r.u16()
        if d['pid'] == 0:
            raise Bad('pid 0')
        d['props'] = props(r, {38})
        fs = []
        while r.left():
            fs.append(r.str())
        if not fs:
            raise Bad('no filter')
        d['filters'] = fs
    elif t == 12:
        if fl != 0 or r.left():
            raise Bad('pingreq')
    elif t == 14:
        if fl != 0:
            raise Bad('flags')
        d['reason'], d['props'] = 0, []
        if r.left():
            d['reason'] = r.u8()
            if r.left():
                d['props'] = props(r, {17, 31, 38, 28})
    elif t == 15:
        if fl != 0:
            raise Bad('flags')
        d['reason'], d['props'] = 0, []
        if r.left():
            d['reason'] = r.u8()
            d['props'] = props(r, {21, 22, 31, 38})
    else:
        raise Bad(f'type {t}')
    if r.left():
        raise Bad('trailing bytes')
    return d


def parse_server(b):
    """parse one server->client packet; returns a dict; raises Bad"""
    h, r = frame(b)
    t, fl = h >> 4, h & 15
    d = dict(type=t)
    if t == 2:
        if fl:
            raise Bad('flags')
        sp = r.u8()
        if sp > 1:
            raise Bad('connack flags')
        d.update(sp=sp, reason=r.u8(), props=props(r, {17, 33, 36, 37, 39, 18, 34, 31, 38, 40, 41, 42, 19, 26, 28, 21, 22}))
    elif t == 3:
        qos = (fl >> 1) & 3
        if qos == 3:
            raise Bad('qos')
        d.update(dup=bool(fl & 8), qos=qos, retain=bool(fl & 1), topic=r.str())
        d['pid'] = r.u16() if qos else None
        d['props'] = props(r, {1, 2, 35, 8, 9, 38, 11, 3}, multi=(38, 11))
        d['payload'] = r.rest()
    elif t in (4, 5, 6, 7):
        if fl != (2 if t == 6 else 0):
            raise Bad('flags')
        d['pid'] = r.u16()
        d['reason'], d['props'] = 0, []
        if r.left():
            d['reason'] = r.u8()
            if r.left():
                d['props'] = props(r, {31, 38})
    elif t in (9, 11):
        if fl:
            raise Bad('flags')
        d['pid'] = r.u16()
        d['props'] = props(r, {31, 38})
        d['reasons'] = list(r.rest())
    elif t == 13:
        if fl or r.left():
            raise Bad('pingresp')
    elif t == 14:
        if fl:
            raise Bad('flags')
        d['reason'], d['props'] = 0, []
        if r.left():
            d['reason'] = r.u8()
            if r.left():
                d['props'] = props(r, {17, 31, 38, 28})
    elif t == 15:
        if fl:
            raise Bad('flags')
        d['reason'], d['props'] = 0, []
        if r.left():
            d['reason'] = r.u8()
            d['props'] = props(r, {21, 22, 31, 38})
    else:
        raise Bad(f'type {t}')
    if r.left():
        raise Bad('trailing')
    return d


def try_server(b):
    try:
        return parse_server(b)
    except Bad:
        return None


def try_client(b):
    try:
        return parse_client(b)
    except Bad:
        return None
