"""Trace oracles: the given properties evaluated on a transcript (of the implementation, or of the model).
Each oracle returns a list of failures `(script, segment index, message)`; `KNOWN:<key>` messages mark a recorded finding.
They read only inputs (script events) and observations (PROTOCOL.md section 6) and use independent parsers (wire.py)."""

from . import mqtt as m
from . import wire


def parse_transcript(text):
    """name -> list of [event line, [observation lines]] ; segment 0 has event None (observations before any event)"""
    out = {}
    cur = None
    for l in text.split('\n'):
        if l.startswith('BEGIN '):
            cur = []
            out[l[6:]] = cur
        elif cur is None or not l:
            continue
        elif l == 'END':
            cur = None
        elif l.startswith('> '):
            cur.append([l[2:], []])
        else:
            if not cur:
                cur.append([None, []])
            cur[-1][1].append(l)
    return out


def kvdict(toks):
    d = {}
    for t in toks:
        if '=' in t:
            k, v = t.split('=', 1)
            d.setdefault(k, []).append(v)
    return d


def unhex(s):
    return bytes.fromhex(s)


DONE_ERRORS = ('ContextExited', 'CodecError', 'QuotaExceeded', 'MaximumPacketSizeExceeded', 'PubackError', 'PubrecError', 'PubcompError')
ERR_LOCAL = ('CodecError', 'MaximumPacketSizeExceeded', 'QuotaExceeded', 'ContextExited')


class Op:
    def __init__(self, oid, h, kind, toks, seg):
        self.id, self.h, self.kind, self.seg = oid, h, kind, seg
        self.f = kvdict(toks)
        self.toks = toks
        self.qos = int(self.f.get('q', ['0'])[0]) if kind == 'PUBLISH' else None
        self.w = []            # (segment, parsed client packet, raw) attributed to this op
        self.done = None       # (segment, text)
        self.dropped = None    # segment
        self.pid = None
        self.sid = None
        self.polled = False


class Interp:
    """One pass over a script's transcript: attributes written packets to operations, parses what was fed."""

    def __init__(self, name, lines, segs):
        self.name = name
        self.cfg = kvdict(lines[0].split(' ')[1:]) if lines and lines[0].startswith('CFG') else {}
        self.segs = segs
        self.ops = {}
        self.fifo = []             # ops whose first packet has not appeared on the wire yet
        self.q2_by_pid = {}
        self.held = set()
        self.events = []           # flat list of dict(seg=, kind=..., ...) in order
        self.bad = None
        self.inbuf = b''
        self.ctx = None            # None | 'connect' | 'authorize' | 'run'
        # operations the library refused locally (their DONE line says so): they never reach the wire, so the packet
        # attribution below must not wait for them — several requests can be handled in one poll of run(), and then the
        # W lines of later requests come before the DONE lines of earlier, refused ones
        # Only a refusal of the request itself counts: the DONE line must follow the operation's first poll with no inbound
        # bytes fed in between (an error reported after an acknowledgement was fed — e.g. for the PUBREL phase of a QoS 2
        # publish — belongs to an operation that DID reach the wire).
        self.refused = set()
        import bisect
        held, start, feeds = set(), {}, []
        for si, (line, obs) in enumerate(segs):
            t = line.split(' ') if line else []
            if t[:1] == ['HOLD']:
                held.add(t[1])
            elif t[:1] == ['RELEASE']:
                held.discard(t[1])
                if t[1].startswith('op') and t[1][2:].isdigit() and int(t[1][2:]) not in start:
                    start[int(t[1][2:])] = si
            elif t[:1] == ['POLL'] and t[1].startswith('op') and t[1][2:].isdigit() and int(t[1][2:]) not in start:
                start[int(t[1][2:])] = si
            elif t[:1] == ['OP'] and f'op{t[1]}' not in held:
                start[int(t[1])] = si
            elif t[:1] == ['FEED']:
                feeds.append(si)
            for o in obs:
                ot = o.split(' ')
                if ot[0] == 'DONE' and len(ot) >= 4 and ot[2] == 'err' and ot[3] in ('QuotaExceeded', 'MaximumPacketSizeExceeded', 'CodecError'):
                    k = int(ot[1][2:])
                    st = start.get(k, -1)
                    j = bisect.bisect_right(feeds, st)          # first FEED segment after the operation's first poll
                    if not (j < len(feeds) and feeds[j] <= si):
                        self.refused.add(k)
        self.run()

    def ev(self, **kw):
        self.events.append(kw)

    def first_poll(self, op, seg):
        if op.polled or op.dropped is not None:
            return
        op.polled = True
        if op.kind != 'STREAMX':
            self.fifo.append(op)
        self.ev(seg=seg, kind='start', op=op)

    def run(self):
        for si, (line, obs) in enumerate(self.segs):
            toks = line.split(' ') if line else []
            head = toks[0] if toks else None
            if head in ('CONNECT', 'AUTHORIZE', 'RUN'):
                self.ctx = {'CONNECT': 'connect', 'AUTHORIZE': 'authorize', 'RUN': 'run'}[head]
                self.ev(seg=si, kind='call', call=self.ctx, f=kvdict(toks[1:]), toks=toks[1:])
            elif head == 'SETUP':
                self.inbuf = b''
                self.ev(seg=si, kind='setup')
            elif head == 'OP':
                op = Op(int(toks[1]), toks[2], toks[3], toks[4:], si)
                self.ops[op.id] = op
                if f'op{op.id}' not in self.held:
                    self.first_poll(op, si)
            elif head in ('HOLD', 'RELEASE', 'POLL'):
                t = toks[1]
                if head == 'HOLD':
                    self.held.add(t)
                if head == 'RELEASE':
                    self.held.discard(t)
                if head in ('RELEASE', 'POLL') and t.startswith('op'):
                    op = self.ops.get(int(t[2:]))
                    if op and op.done is None:
                        self.first_poll(op, si)
                self.ev(seg=si, kind=head.lower(), task=t)
            elif head == 'DROP':
                t = toks[1]
                if t.startswith('op'):
                    op = self.ops.get(int(t[2:]))
                    if op and op.done is None and op.dropped is None:
                        op.dropped = si
                self.ev(seg=si, kind='drop', task=t)
            elif head == 'FEED':
                self.inbuf += unhex(toks[1])
                frames, self.inbuf = m.split_frames(self.inbuf)
                for fr in frames:
                    self.ev(seg=si, kind='in', raw=fr, pkt=wire.try_server(fr), ctx=self.ctx, ctxheld='ctx' in self.held)
                if m.malformed_length(self.inbuf):
                    self.ev(seg=si, kind='in', raw=self.inbuf, pkt=None, ctx=self.ctx, ctxheld='ctx' in self.held)
                    self.inbuf = b''
            elif head in ('FEEDEOF', 'FEEDERR'):
                self.ev(seg=si, kind='eof', ctx=self.ctx)
            elif head is not None:
                self.ev(seg=si, kind=head.lower(), toks=toks[1:])
            for o in obs:
                ot = o.split(' ')
                if ot[0] == 'W':
                    raw = unhex(ot[1])
                    pk = wire.try_client(raw)
                    owner = None
                    t = raw[0] >> 4
                    if t in (3, 8, 10, 12, 14):
                        want = {3: 'PUBLISH', 8: 'SUBSCRIBE', 10: 'UNSUBSCRIBE', 12: 'PING', 14: 'DISCONNECT'}[t]
                        if pk is not None and t == 3 and pk.get('dup'):
                            owner = 'retransmit'
                        else:
                            # (a request CANCELLED while it waited in the queue and then refused locally has no DONE line
                            #  to say so: when the packet at hand cannot be its packet — another QoS or payload — it is
                            #  taken for refused and the packet goes to the next request: DESIGN.md false alarm (9))
                            for x in list(self.fifo):
                                if x.dropped is not None and not x.w and x.kind == 'PUBLISH' and want == 'PUBLISH' and pk is not None \
                                        and (x.qos != pk['qos'] or unhex(x.f.get('p', [''])[0]) != bytes(pk['payload'])):
                                    self.refused.add(x.id)
                                elif x.dropped is not None and not x.w and x.kind != want and x.kind in ('PUBLISH', 'SUBSCRIBE', 'UNSUBSCRIBE'):
                                    # requests leave the queue in order: a later request's packet on the wire means this one was refused
                                    self.refused.add(x.id)
                                else:
                                    break
                            first = next((x for x in self.fifo if x.id not in self.refused), None)
                            if first is not None and first.kind == want:
                                owner = first
                                self.fifo.remove(owner)
                            else:
                                owner = 'unexpected'
                    elif t == 6 and pk is not None:
                        owner = self.q2_by_pid.get(pk['pid'], 'unexpected')
                    elif t in (1, 15):
                        owner = 'ctx'
                    elif t in (4, 5, 7):
                        owner = 'ack'
                    if isinstance(owner, Op):
                        owner.w.append((si, pk, raw))
                        if pk is not None and t in (3, 8, 10) and owner.pid is None:
                            owner.pid = pk.get('pid')
                            if t == 3 and owner.qos == 2:
                                self.q2_by_pid[owner.pid] = owner
                        if pk is not None and t == 8:
                            sids = [v for i, v in pk['props'] if i == 11]
                            owner.sid = sids[0] if sids else None
                    self.ev(seg=si, kind='w', raw=raw, pkt=pk, owner=owner)
                elif ot[0] == 'DONE':
                    op = self.ops.get(int(ot[1][2:]))
                    txt = ' '.join(ot[2:])
                    if op:
                        op.done = (si, txt)
                        if op in self.fifo:
                            self.fifo.remove(op)
                    self.ev(seg=si, kind='done', op=op, text=txt, toks=ot[2:])
                elif ot[0] == 'RET':
                    self.ev(seg=si, kind='ret', call=ot[1], text=' '.join(ot[2:]), toks=ot[2:])
                    self.ctx = None
                elif ot[0] == 'ITEM':
                    self.ev(seg=si, kind='item', st=int(ot[1][2:]), text=' '.join(ot[2:]))
                elif ot[0] == 'END':
                    self.ev(seg=si, kind='endst', st=int(ot[1][2:]))
                elif ot[0] == 'PANIC':
                    if ot[1] == 'ctx':
                        self.ctx = None
                    self.ev(seg=si, kind='panic', task=ot[1], cls=ot[2])
                elif ot[0] in ('STALL', 'BADSCRIPT', 'WRAW', 'STATE'):
                    self.ev(seg=si, kind=ot[0].lower(), text=' '.join(ot[1:]), ctxheld='ctx' in self.held)


# ---------------------------------------------------------------- rendering expectations from parsed packets
def ostr(v):
    return '-' if v is None else bytes(v).hex()


def pget(ps, pid):
    for i, v in ps:
        if i == pid:
            return v
    return None


def upstr(ps):
    u = [v for i, v in ps if i == 38]
    return '-' if not u else ','.join(f'{k.hex()}:{v.hex()}' for k, v in u)


def onum(v):
    return '-' if v is None else str(v)


def view_item(p):
    ps = p['props']
    return (f"dup={int(p['dup'])} retain={int(p['retain'])} qos={p['qos']} t={p['topic'].hex()} pfi={onum(pget(ps, 1))} "
            f"ta={onum(pget(ps, 35))} mei={onum(pget(ps, 2))} cd={ostr(pget(ps, 9))} rt={ostr(pget(ps, 8))} "
            f"ct={ostr(pget(ps, 3))} up={upstr(ps)} p={p['payload'].hex()}")


def view_connack(p):
    ps = p['props']

    def dflt(pid, d):
        v = pget(ps, pid)
        return d if v is None else v
    if p['reason'] >= 0x80:
        return f"err ConnectError r={p['reason']} rs={ostr(pget(ps, 31))} sr={ostr(pget(ps, 28))} up={upstr(ps)}"
    return (f"ok connack sp={p['sp']} r={p['reason']} wsa={dflt(40, 1)} sia={dflt(41, 1)} ssa={dflt(42, 1)} mq={dflt(36, 2)} "
            f"ra={dflt(37, 1)} ska={onum(pget(ps, 19))} rm={dflt(33, 65535)} tam={dflt(34, 0)} sei={onum(pget(ps, 17))} "
            f"mps={onum(pget(ps, 39))} aci={ostr(pget(ps, 18))} rs={ostr(pget(ps, 31))} ri={ostr(pget(ps, 26))} "
            f"sr={ostr(pget(ps, 28))} am={ostr(pget(ps, 21))} ad={ostr(pget(ps, 22))} up={upstr(ps)}")


def view_auth(p):
    ps = p['props']
    return f"ok auth r={p['reason']} rs={ostr(pget(ps, 31))} am={ostr(pget(ps, 21))} ad={ostr(pget(ps, 22))} up={upstr(ps)}"


def view_disconnect(p):
    ps = p['props']
    if p['reason'] == 0:
        return 'ok'
    return f"err Disconnected r={p['reason']} sei=0 rs={ostr(pget(ps, 31))} sr={ostr(pget(ps, 28))} up={upstr(ps)}"


def view_ack_done(kind, p):
    """expected DONE text of the operation completed by acknowledgement packet p (None: it does not complete it)"""
    ps = p.get('props', [])
    if kind in ('puback', 'pubrec', 'pubcomp'):
        if p['reason'] >= 0x80:
            return f"err {kind.capitalize()}Error r={p['reason']} rs={ostr(pget(ps, 31))} up={upstr(ps)}"
        return None if kind == 'pubrec' else 'ok'
    if kind in ('suback', 'unsuback'):
        return f"ok {kind} rs={ostr(pget(ps, 31))} up={upstr(ps)} pl={bytes(p['reasons']).hex()}"
    return 'ok'


ACK_KIND = {4: 'puback', 5: 'pubrec', 6: 'pubrel', 7: 'pubcomp', 9: 'suback', 11: 'unsuback', 13: 'pingresp'}


# ---------------------------------------------------------------- oracles
def o_generic(I):
    """never acceptable anywhere: a panic (other than the documented assertion), a stall"""
    out = []
    for e in I.events:
        if e['kind'] == 'panic' and e['cls'] != 'assert-subid':
            out.append((I.name, e['seg'], f"panic {e['task']} {e['cls']}"))
        if e['kind'] == 'panic' and e['cls'] == 'assert-subid':
            # legitimate only for a successful CONNACK announcing Subscription Identifiers unavailable
            ok = any(x['kind'] == 'in' and x['seg'] <= e['seg'] and x['pkt'] and x['pkt']['type'] == 2 and x['pkt']['reason'] < 0x80
                     and pget(x['pkt']['props'], 41) == 0 for x in I.events)
            if not ok:
                out.append((I.name, e['seg'], 'documented assertion fired without its cause'))
        if e['kind'] == 'done' and e['text'].startswith('err ') and e['text'].split(' ')[1] not in DONE_ERRORS:
            # an operation fails with: ContextExited, a local refusal, or the error acknowledgement addressed to it — nothing else
            # (in particular never SocketClosed / HandleClosed / InternalError: theorems done_has_a_documented_cause, no_internal_error)
            out.append((I.name, e['seg'], f"op{e['op'].id if e['op'] else '?'} completed with `{e['text']}`: not an outcome an operation can have"))
        if e['kind'] == 'stall' and not e.get('ctxheld'):
            # (while the SCRIPT holds the context task unread input is the script's doing: theorem stall_only_when_context_held)
            out.append((I.name, e['seg'], 'stall: unread transport input while the context task sleeps'))
    return out


def fields_props_connect(f):
    ps = []
    for k, pid, conv in [('sei', 17, int), ('rm', 33, int), ('mps', 39, int), ('tam', 34, int), ('rri', 25, int), ('rpi', 23, int),
                         ('am', 21, unhex), ('ad', 22, unhex)]:
        if k in f:
            ps.append((pid, conv(f[k][-1])))
    for u in f.get('up', []):
        k, v = u.split(':')
        ps.append((38, (unhex(k), unhex(v))))
    return ps


def same_props(a, b):
    """same properties: user properties in order, the rest as a set"""
    ua = [v for i, v in a if i == 38]
    ub = [v for i, v in b if i == 38]
    ra = sorted((i, v) for i, v in a if i != 38)
    rb = sorted((i, v) for i, v in b if i != 38)
    return ua == ub and ra == rb


def o_C01(I):
    out = []
    limited = 'werr' in I.cfg or 'wzero' in I.cfg
    calls = [e for e in I.events if e['kind'] == 'call']
    for e in I.events:
        if e['kind'] == 'wraw' and not limited:
            out.append((I.name, e['seg'], 'bytes on the wire that are not a whole packet: ' + e['text']))
        if e['kind'] != 'w':
            continue
        pk, raw = e['pkt'], e['raw']
        if pk is None:
            try:
                wire.parse_client(raw)
            except wire.Bad as x:
                out.append((I.name, e['seg'], f'written packet is not well-formed MQTT 5 ({x}): {raw.hex()}'))
            continue
        if e['owner'] == 'unexpected':
            out.append((I.name, e['seg'], f'packet out of submission order or unrequested: {raw.hex()}'))
        t = pk['type']
        if t in (1, 15):
            c = [x for x in calls if x['seg'] == e['seg']]
            if not c:
                out.append((I.name, e['seg'], 'CONNECT/AUTH written without a call'))
                continue
            f = c[0]['f']
            if t == 1:
                exp_will = None
                if 'wt' in f and 'wp' in f:
                    wps = []
                    for k, pid, conv in [('wdi', 24, int), ('wpfi', 1, int), ('wmei', 2, int), ('wct', 3, unhex), ('wrt', 8, unhex), ('wcd', 9, unhex)]:
                        if k in f:
                            wps.append((pid, conv(f[k][-1])))
                    for u in f.get('wup', []):
                        k, v = u.split(':')
                        wps.append((38, (unhex(k), unhex(v))))
                    exp_will = dict(qos=int(f.get('wq', ['0'])[-1]), retain=bool(int(f.get('wr', ['0'])[-1])), props=wps,
                                    topic=unhex(f['wt'][-1]), payload=unhex(f['wp'][-1]))
                in_domain = exp_will is not None or not any(k in f for k in ('wq', 'wr', 'wdi', 'wpfi', 'wmei', 'wct', 'wrt', 'wcd', 'wup', 'wt', 'wp'))
                if not in_domain:
                    continue
                exp = dict(clean_start=bool(int(f.get('cs', ['0'])[-1])), keep_alive=int(f.get('ka', ['0'])[-1]),
                           client_id=unhex(f.get('cid', [''])[-1]),
                           username=unhex(f['un'][-1]) if 'un' in f else None, password=unhex(f['pw'][-1]) if 'pw' in f else None)
                for k, v in exp.items():
                    if pk[k] != v:
                        out.append((I.name, e['seg'], f'CONNECT {k}: wrote {pk[k]!r}, caller gave {v!r}'))
                if not same_props(pk['props'], fields_props_connect(f)):
                    out.append((I.name, e['seg'], f"CONNECT properties differ: wrote {pk['props']!r}"))
                if (pk['will'] is None) != (exp_will is None):
                    out.append((I.name, e['seg'], 'CONNECT will presence differs'))
                elif exp_will is not None:
                    for k in ('qos', 'retain', 'topic', 'payload'):
                        if pk['will'][k] != exp_will[k]:
                            out.append((I.name, e['seg'], f'CONNECT will {k} differs'))
                    if not same_props(pk['will']['props'], exp_will['props']):
                        out.append((I.name, e['seg'], 'CONNECT will properties differ'))
            else:
                exp_ps = []
                for k, pid in [('am', 21), ('ad', 22), ('rs', 31)]:
                    if k in f:
                        exp_ps.append((pid, unhex(f[k][-1])))
                for u in f.get('up', []):
                    k, v = u.split(':')
                    exp_ps.append((38, (unhex(k), unhex(v))))
                if pk['reason'] != int(f.get('r', ['0'])[-1]) or not same_props(pk['props'], exp_ps):
                    out.append((I.name, e['seg'], f'AUTH differs from the request: {raw.hex()}'))
        elif isinstance(e['owner'], Op):
            op = e['owner']
            f = op.f
            ups = []
            for u in f.get('up', []):
                k, v = u.split(':')
                ups.append((38, (unhex(k), unhex(v))))
            if t == 3:
                exp_ps = []
                for k, pid, conv in [('pfi', 1, int), ('ta', 35, int), ('mei', 2, int), ('cd', 9, unhex), ('rt', 8, unhex), ('ct', 3, unhex)]:
                    if k in f:
                        exp_ps.append((pid, conv(f[k][-1])))
                exp = dict(dup=False, qos=op.qos, retain=bool(int(f.get('r', ['0'])[-1])), topic=unhex(f['t'][-1]) if 't' in f else None,
                           payload=unhex(f.get('p', [''])[-1]))
                for k, v in exp.items():
                    if pk[k] != v:
                        out.append((I.name, e['seg'], f'PUBLISH {k}: wrote {pk[k]!r}, caller gave {v!r}'))
                if (pk['pid'] is None) != (op.qos == 0):
                    out.append((I.name, e['seg'], 'PUBLISH packet identifier presence wrong'))
                if not same_props(pk['props'], exp_ps + ups):
                    out.append((I.name, e['seg'], f"PUBLISH properties differ: wrote {pk['props']!r}"))
            elif t == 8:
                expf = [(unhex(x.split(':')[0]), x.split(':')[1]) for x in f.get('f', [])]
                if pk['filters'] != expf:
                    out.append((I.name, e['seg'], f"SUBSCRIBE filters/options: wrote {pk['filters']!r}, caller gave {expf!r}"))
                rest = [(i, v) for i, v in pk['props'] if i != 11]
                if not same_props(rest, ups) or len([1 for i, v in pk['props'] if i == 11]) != 1:
                    out.append((I.name, e['seg'], 'SUBSCRIBE properties differ'))
            elif t == 10:
                if pk['filters'] != [unhex(x) for x in f.get('f', [])] or not same_props(pk['props'], ups):
                    out.append((I.name, e['seg'], 'UNSUBSCRIBE differs from the request'))
            elif t == 14:
                exp_ps = ([(17, int(f['sei'][-1]))] if 'sei' in f else []) + ([(31, unhex(f['rs'][-1]))] if 'rs' in f else [])
                if pk['reason'] != int(f.get('r', ['0'])[-1]) or not same_props(pk['props'], exp_ps + ups):
                    out.append((I.name, e['seg'], f'DISCONNECT differs from the request: {raw.hex()}'))
    # refusals: exactly the requests missing a mandatory part
    for e in I.events:
        if e['kind'] == 'done' and e['op'] is not None:
            op = e['op']
            refused = e['text'] == 'err CodecError'
            should = (op.kind == 'PUBLISH' and 't' not in op.f) or (op.kind in ('SUBSCRIBE', 'UNSUBSCRIBE') and 'f' not in op.f)
            if refused != should:
                out.append((I.name, e['seg'], f'op{op.id} {op.kind}: refused={refused}, expected {should}'))
            if refused and op.w:
                out.append((I.name, e['seg'], f'op{op.id}: refused but something was written'))
        if e['kind'] == 'ret' and e['call'] in ('connect', 'authorize') and e['text'] == 'err CodecError':
            c = [x for x in calls if x['seg'] <= e['seg']][-1]
            f = c['f']
            had_input = any(x['kind'] == 'in' and x['seg'] <= e['seg'] for x in I.events)
            if had_input:
                continue
            if c['call'] == 'connect':
                should = 'ad' in f and 'am' not in f
            else:
                short = int(f.get('r', ['0'])[-1]) == 0 and not any(k in f for k in ('am', 'ad', 'rs', 'up'))
                should = not short and not ('am' in f and 'ad' in f)
            if not should:
                out.append((I.name, e['seg'], f"{c['call']} refused although nothing mandatory is missing"))
            if any(x['kind'] == 'w' and x['seg'] == e['seg'] for x in I.events):
                out.append((I.name, e['seg'], 'refused request wrote something'))
    return out


def o_C02(I):
    out = []
    ev = I.events
    ks = [e['kind'] for e in ev]
    if not any(k in ('hold', 'drop', 'dropctx', 'dropfut', 'eof', 'panic', 'markdisc') for k in ks) and ks.count('setup') <= 1 \
            and not any(e['kind'] == 'ret' and e['call'] == 'run' for e in ev):
        # every accepted PUBLISH that names a taken stream is handed to it ("the client accepts the packet")
        exp = expected_items(I)
        taken = {int(e['toks'][0]) for e in ev if e['kind'] == 'stream'}
        got = {}
        for e in ev:
            if e['kind'] == 'item':
                got.setdefault(e['st'], []).append(e['text'])
        for st in taken:
            want = [v for sg, v in exp.get(st, [])]
            if got.get(st, []) != want:
                k = next((i for i, (a, b) in enumerate(zip(got.get(st, []), want)) if a != b), min(len(got.get(st, [])), len(want)))
                out.append((I.name, exp[st][k][0] if k < len(want) else 0,
                            f'st{st}: message {k} fed to the client was not handed to its stream as encoded (got {len(got.get(st, []))} of {len(want)} messages)'))
    for n, e in enumerate(ev):
        if e['kind'] != 'in' or e['pkt'] is None:
            continue
        p, seg = e['pkt'], e['seg']
        t = p['type']
        later = [x for x in ev[n + 1:] if x['seg'] == seg]
        rets = [x for x in later if x['kind'] == 'ret']
        if e['ctx'] in ('connect', 'authorize') and t in (2, 15):
            if t == 2 and p['reason'] < 0x80 and pget(p['props'], 41) == 0:
                continue          # documented assertion
            exp = view_connack(p) if t == 2 else view_auth(p)
            if not rets or rets[0]['text'] != exp:
                out.append((I.name, seg, f"first response {e['raw'].hex()}: expected `{exp}`, got `{rets[0]['text'] if rets else None}`"))
        elif e['ctx'] == 'run':
            bad = [x for x in rets if 'CodecError' in x['text'] or 'SocketClosed' in x['text']]
            if bad and ('werr' in I.cfg or 'wzero' in I.cfg or any(x['kind'] == 'in' and x['pkt'] is None and x['seg'] == seg for x in ev)):
                continue          # (the transport refused the answer, or the same read carried something undecodable)
            if bad:
                out.append((I.name, seg, f"well-formed packet {e['raw'].hex()} rejected: {bad[0]['text']}"))
                continue
            if t == 14:
                exp = view_disconnect(p)
                if not rets or rets[0]['text'] != exp:
                    out.append((I.name, seg, f"DISCONNECT {e['raw'].hex()}: expected `RET run {exp}`, got `{rets[0]['text'] if rets else None}`"))
            if t == 3:
                for x in later:
                    if x['kind'] == 'item' and x['text'] != view_item(p):
                        # an item of this segment that is not this packet's view (segments feed one packet in this family)
                        if sum(1 for y in ev if y['kind'] == 'in' and y['seg'] == seg) == 1:
                            out.append((I.name, seg, f"item differs from the packet: expected `{view_item(p)}`, got `{x['text']}`"))
            if t in (4, 5, 7, 9, 11, 13):
                kind = ACK_KIND[t]
                dones = [x for x in later if x['kind'] == 'done' and x['op'] is not None and x['op'].dropped is None]
                exp = view_ack_done(kind, p)
                okind = {4: 'PUBLISH', 5: 'PUBLISH', 7: 'PUBLISH', 9: 'SUBSCRIBE', 11: 'UNSUBSCRIBE', 13: 'PING'}[t]
                for x in dones:
                    op = x['op']
                    # several packets may be fed in one segment: only the operation this acknowledgement is addressed to
                    if op.kind != okind or (t != 13 and op.pid != p['pid']):
                        continue
                    if t == 13 and sum(1 for y in ev if y['kind'] == 'in' and y['seg'] == seg) > 1:
                        continue
                    if exp is not None and x['text'] != exp and not x['text'].startswith('err ContextExited'):
                        out.append((I.name, seg, f"op{op.id} completed with `{x['text']}`, the {kind} says `{exp}`"))
    return out


def obs_only(segs):
    return [o for _, obs in segs for o in obs]


def channels(segs):
    """observations per observable channel: the bytes written (in order), each operation's result, each stream's items,
    the calls' return values. The relative order *between* channels within one event is the executor's business."""
    ch = {}
    for o in obs_only(segs):
        t = o.split(' ')
        if t[0] == 'WCALLS':
            continue          # (how often the transport was asked is the writer policy's business, not an observable of the client)
        key = t[0] if t[0] in ('W', 'WRAW', 'RET', 'STALL', 'PANIC', 'BADSCRIPT', 'STATE') else t[0] + ' ' + t[1]
        if t[0] == 'END':
            key = 'ITEM ' + t[1]
        ch.setdefault(key, []).append(o)
    return ch


def o_group_equal(groups, tr):
    """groups: base name -> list of member names; every member's observations must equal the reference member's"""
    out = []
    for g, members in groups.items():
        ref = [x for x in members if x.endswith('#whole') or x.endswith('#wake')]
        if not ref:
            continue
        r = channels(tr[ref[0]])
        for x in members:
            if x == ref[0] or x not in tr:
                continue
            o = channels(tr[x])
            for key in sorted(set(o) | set(r)):
                a, b = o.get(key, []), r.get(key, [])
                if a != b:
                    k = next((i for i, (u, v) in enumerate(zip(a, b)) if u != v), min(len(a), len(b)))
                    out.append((x, 0, f'`{key}` observations differ from {ref[0]} at #{k}: `{(a[k] if k < len(a) else None)!s:.200}` vs `{(b[k] if k < len(b) else None)!s:.200}`'))
                    break
    return out


def completion_check(I, strict_pending=True):
    """C05 core: every DONE of an acknowledged operation follows the acknowledgement addressed to it and carries its
    content; operations whose acknowledgement has not arrived have no DONE."""
    out = []
    fed = []       # (seg, kind, pid, pkt) acknowledgements fed so far while run() is serving
    fed_by_pid = {}
    ping_queue = []      # pings whose PINGREQ was written, in issue order (a dropped one still owns the next PINGRESP)
    ping_released = set()
    for e in I.events:
        if e['kind'] == 'w' and isinstance(e['owner'], Op) and e['owner'].kind == 'PING':
            ping_queue.append(e['owner'])
        if e['kind'] == 'in' and e['pkt'] is not None and e['ctx'] == 'run' and e['pkt']['type'] in ACK_KIND:
            p = e['pkt']
            if p['type'] == 13 and ping_queue:
                ping_released.add(ping_queue.pop(0).id)
            fed.append((e['seg'], ACK_KIND[p['type']], p.get('pid'), p))
            fed_by_pid.setdefault(p.get('pid'), []).append(fed[-1])
        if e['kind'] != 'done' or e['op'] is None:
            continue
        op, txt = e['op'], e['text']
        if any(txt == 'err ' + k for k in ERR_LOCAL) or txt.startswith('err SocketClosed'):
            continue
        if op.kind == 'PUBLISH' and op.qos == 0 or op.kind == 'DISCONNECT':
            if txt != 'ok':
                out.append((I.name, e['seg'], f'op{op.id} fire-and-forget completed with `{txt}`'))
            elif not op.w:
                out.append((I.name, e['seg'], f'op{op.id} ({op.kind}) reported success but its packet was never written'))
            continue
        if op.kind == 'PING':
            uncertain = any(o.kind == 'PING' and o.dropped is not None and (not o.w or o.w[0][0] > o.dropped) for o in I.ops.values())
            if op.id not in ping_released and not uncertain:
                out.append((I.name, e['seg'], f'op{op.id}: ping completed although the PINGRESP for it (one per ping, in issue order) has not arrived'))
            continue
        if op.pid is None:
            out.append((I.name, e['seg'], f'op{op.id} completed with `{txt}` but never reached the wire'))
            continue
        want = {'PUBLISH': ['puback'] if op.qos == 1 else ['pubrec', 'pubcomp'], 'SUBSCRIBE': ['suback'], 'UNSUBSCRIBE': ['unsuback']}[op.kind]
        mine = [(s, k, p) for s, k, pid, p in fed_by_pid.get(op.pid, []) if k in want and s >= op.w[0][0]]
        ok = False
        for s, k, p in mine:
            exp = view_ack_done(k, p)
            if exp is not None and exp == txt:
                ok = True
        if not ok:
            out.append((I.name, e['seg'], f"op{op.id} ({op.kind} pid {op.pid}) completed with `{txt}` but no acknowledgement addressed to it says so (fed: {[(k, p['reason'] if 'reason' in p else None) for s, k, p in mine]})"))
    out += completion_liveness(I)
    return out


def completion_liveness(I):
    """the other half: an operation whose final acknowledgement HAS been fed to a serving run() is complete at the end of the
    script, unless the script still holds its future (or the context task) at the end. Only judged on scripts without
    DROPCTX / DROPFUT / transport faults / a second SETUP, and only while run() has not returned."""
    out = []
    ks = [e['kind'] for e in I.events]
    if any(k in ('dropctx', 'dropfut', 'eof', 'panic', 'markdisc') for k in ks) or ks.count('setup') > 1:
        return out
    if 'ctx' in I.held:
        return out
    if any(e['kind'] == 'ret' and e['call'] == 'run' for e in I.events) or 'werr' in I.cfg or 'wzero' in I.cfg:
        return out
    last = {}
    npingresp = 0
    for e in I.events:
        if e['kind'] == 'in' and e['pkt'] is not None and e['ctx'] == 'run':
            p = e['pkt']
            if p['type'] == 13:
                npingresp += 1
            elif p['type'] in (4, 7, 9, 11) or (p['type'] == 5 and p['reason'] >= 0x80):
                last[(p['type'], p['pid'])] = e['seg']
    pings = [op for op in I.ops.values() if op.kind == 'PING' and op.w]
    pings.sort(key=lambda o: o.w[0][0])
    for op in pings[:npingresp]:
        if op.done is None and op.dropped is None and f'op{op.id}' not in I.held:
            out.append((I.name, op.seg, f'op{op.id}: its PINGRESP was fed but the ping never completed'))
    for op in I.ops.values():
        if op.done is not None or op.dropped is not None or op.pid is None or not op.w or f'op{op.id}' in I.held:
            continue
        kinds = {'PUBLISH': [4] if op.qos == 1 else [7, 5], 'SUBSCRIBE': [9], 'UNSUBSCRIBE': [11]}.get(op.kind, [])
        for t in kinds:
            sg = last.get((t, op.pid))
            if t == 7 and sg is not None:
                # a PUBCOMP concludes the exchange only when it answers the PUBREL (written before it was fed)
                rel = [w[0] for w in op.w if w[2][0] >> 4 == 6]
                if not rel or rel[0] > sg:
                    continue
            if sg is not None and sg >= op.w[0][0]:
                out.append((I.name, sg, f'op{op.id} ({op.kind} pid {op.pid}): its acknowledgement (type {t}) was fed at segment {sg} but the operation never completed'))
                break
    return out


def o_C05(I):
    return completion_check(I)


def o_C06(I):
    out = []
    if any(e['kind'] == 'markdisc' for e in I.events):
        return out           # resumed sessions re-send PUBLISH/PUBREL by design: judged by C17
    fed = {}
    order = []
    for e in I.events:
        if e['kind'] == 'in' and e['pkt'] is not None and e['ctx'] == 'run' and e['pkt']['type'] in (4, 5, 7):
            fed.setdefault((ACK_KIND[e['pkt']['type']], e['pkt']['pid']), []).append((e['seg'], e['pkt']))
    for op in I.ops.values():
        if op.kind != 'PUBLISH' or not op.polled:
            continue
        refused = op.done is not None and any(op.done[1] == 'err ' + k for k in ERR_LOCAL) and not op.w
        pubs = [(s, pk) for s, pk, raw in op.w if pk and pk['type'] == 3]
        rels = [(s, pk) for s, pk, raw in op.w if pk and pk['type'] == 6]
        if refused:
            continue
        if op.dropped is not None and not pubs:
            continue
        if len(pubs) != 1 and not (op.dropped is not None or op.done is None and not pubs):
            out.append((I.name, op.seg, f'op{op.id}: {len(pubs)} PUBLISH packets written for one publish()'))
        if pubs:
            s, pk = pubs[0]
            if pk['dup']:
                out.append((I.name, s, f'op{op.id}: first PUBLISH carries DUP=1'))
            if op.qos == 0 and op.done is not None and (op.done[0] != s or op.done[1] != 'ok') and 'ctx' not in [x.get('task') for x in I.events if x['kind'] == 'hold']:
                out.append((I.name, s, f'op{op.id}: QoS 0 publish did not complete when written: {op.done}'))
        if pubs and op.done is not None and op.done[1] in ('err QuotaExceeded', 'err MaximumPacketSizeExceeded'):
            out.append((I.name, op.done[0], f'op{op.id}: `{op.done[1]}` reported for a publish whose PUBLISH is on the wire'))
        if op.qos == 2 and pubs:
            recs = [x for x in fed.get(('pubrec', op.pid), []) if x[0] >= pubs[0][0]]
            okrec = [x for x in recs if x[1]['reason'] < 0x80]
            badrec = [x for x in recs if x[1]['reason'] >= 0x80]
            if (okrec and not rels and op.done is not None and op.dropped is None and (not badrec or okrec[0][0] < badrec[0][0])
                    and op.done[0] >= okrec[0][0] and op.done[1] not in ('err ContextExited', 'err SocketClosed')
                    and not any(e['kind'] in ('ret', 'dropctx', 'dropfut') and e['seg'] <= op.done[0] and e['seg'] >= okrec[0][0] for e in I.events)):
                out.append((I.name, op.done[0], f'op{op.id}: completed with `{op.done[1]}` after a successful PUBREC without ever sending PUBREL'))
            if len(rels) > 1:
                out.append((I.name, op.seg, f'op{op.id}: {len(rels)} PUBREL packets'))
            for s, pk in rels:
                if pk['pid'] != op.pid:
                    out.append((I.name, s, f'op{op.id}: PUBREL pid {pk["pid"]} for PUBLISH pid {op.pid}'))
                if not okrec or okrec[0][0] > s:
                    out.append((I.name, s, f'op{op.id}: PUBREL written before a successful PUBREC'))
                if badrec and badrec[0][0] <= s and (not okrec or badrec[0][0] < okrec[0][0]):
                    out.append((I.name, s, f'op{op.id}: PUBREL written after a failing PUBREC'))
    return out


def expected_items(I):
    """per subscribe op id: list of (seg, view) the stream must yield, from what was fed (C07 + the C09 rule)"""
    sid_of = {}
    wseg = {}
    for op in I.ops.values():
        if op.kind == 'SUBSCRIBE' and op.sid is not None and op.w:
            sid_of[op.id] = op.sid
            wseg[op.id] = op.w[0][0]
    exp = {o: [] for o in sid_of}
    inq2 = set()
    alive = True
    for e in I.events:
        if e['kind'] == 'ret' and e['call'] == 'run':
            alive = False
        if e['kind'] == 'call' and e['call'] == 'run':
            alive = True
        if e['kind'] != 'in' or e['ctx'] != 'run' or not alive:
            continue
        p = e['pkt']
        if p is None:
            alive = False
            continue
        if p['type'] == 14:
            alive = False
        if p['type'] == 6:
            inq2.discard(p['pid'])
        if p['type'] == 3:
            if p['qos'] == 2:
                if p['pid'] in inq2:
                    continue
                inq2.add(p['pid'])
            for i, v in p['props']:
                if i == 11:
                    for o, sid in sid_of.items():
                        if sid == v and wseg[o] <= e['seg']:
                            exp[o].append((e['seg'], view_item(p)))
    return exp


def o_C07(I, check_end=True):
    out = []
    exp = expected_items(I)
    got = {}
    ended = {}
    dropctx = [e['seg'] for e in I.events if e['kind'] == 'dropctx']
    removed = set()      # streams dropped / held: only the prefix relation is required
    # a packet the standard calls malformed (e.g. a Variable Byte Integer in a longer than minimal form) leaves the property's
    # domain, whatever the client makes of it: nothing from that read on is judged here (the correspondence still compares it)
    cut = min([e['seg'] for e in I.events if e['kind'] == 'in' and e['pkt'] is None and e.get('ctx') == 'run'], default=None)
    for e in I.events:
        if cut is not None and e['seg'] >= cut:
            break
        if e['kind'] == 'item':
            got.setdefault(e['st'], []).append((e['seg'], e['text']))
        if e['kind'] == 'endst':
            ended[e['st']] = e['seg']
        if e['kind'] in ('drop', 'hold') and e['task'].startswith(('st', 'rsp')):
            removed.add(int(e['task'].lstrip('strp')))
    expired = any(e['kind'] == 'markdisc' for e in I.events)
    for st, items in got.items():
        want = [v for s, v in exp.get(st, [])]
        have = [v for s, v in items]
        if have != want[:len(have)]:
            k = next((i for i, (a, b) in enumerate(zip(have, want)) if a != b), min(len(have), len(want)))
            out.append((I.name, items[min(k, len(items) - 1)][0], f'st{st}: item {k} is `{have[k] if k < len(have) else None}`, expected `{want[k] if k < len(want) else None}`'))
    streams = {int(e['toks'][0]) for e in I.events if e['kind'] == 'stream'}
    for st in streams:
        if st in removed or dropctx and st not in ended or cut is not None:
            continue
        want = [v for s, v in exp.get(st, [])]
        have = [v for s, v in got.get(st, [])]
        if len(have) < len(want) and not dropctx and 'ctx' not in [x.get('task') for x in I.events if x['kind'] == 'hold']:
            out.append((I.name, len(I.segs) - 1, f'st{st}: {len(want) - len(have)} message(s) never delivered, first `{want[len(have)]}`'))
    if check_end and cut is None:
        for st, seg in ended.items():
            if not dropctx or seg < dropctx[0]:
                if not expired:
                    out.append((I.name, seg, f'st{st} ended while the context is alive'))
    return out


def o_C08(I):
    out = []
    limited = 'werr' in I.cfg or 'wzero' in I.cfg
    if limited:
        return out
    owed, wrote = [], []
    alive = False
    for e in I.events:
        if e['kind'] == 'call':
            alive = e['call'] == 'run'
        if e['kind'] in ('ret', 'dropctx', 'dropfut') or e['kind'] == 'panic' and e['task'] == 'ctx':
            alive = False
        if e['kind'] == 'in' and e['ctx'] == 'run' and alive:
            p = e['pkt']
            if p is None:
                continue
            # (fed while the script holds the context task: owed all the same, due once the task runs again)
            sg = e['seg'] if not e['ctxheld'] else -1
            if p['type'] == 3 and p['qos'] == 1:
                owed.append((4, p['pid'], sg))
            if p['type'] == 3 and p['qos'] == 2:
                owed.append((5, p['pid'], sg))
            if p['type'] == 6:
                owed.append((7, p['pid'], sg))
        if e['kind'] == 'w' and e['pkt'] is not None and e['pkt']['type'] in (4, 5, 7):
            wrote.append((e['pkt']['type'], e['pkt']['pid'], e['seg']))
            if e['pkt']['reason'] != 0 or e['pkt']['props']:
                out.append((I.name, e['seg'], 'acknowledgement with a reason/properties nobody asked for'))
    # a packet that ends run() (undecodable, DISCONNECT) may precede owed ones in the same segment: compare the prefix
    a = [(t, p) for t, p, s in wrote]
    b = [(t, p) for t, p, s in owed]
    if a != b[:len(a)]:
        k = next((i for i, (x, y) in enumerate(zip(a, b)) if x != y), min(len(a), len(b)))
        out.append((I.name, wrote[k][2] if k < len(wrote) else 0, f'acknowledgement {k}: wrote {a[k] if k < len(a) else None}, owed {b[k] if k < len(b) else None}'))
    elif len(a) < len(b):
        # missing acknowledgements are acceptable only after run() ended
        s = owed[len(a)][2]
        # the packet was fed to a live, not held run(): its acknowledgement is due within the same script step, unless an
        # earlier packet of the same read ended run() in that step; fed to a held run(): due by the end of the script unless
        # run() is still held then, or ended / was cancelled at some point
        if s >= 0:
            ended = [e['seg'] for e in I.events if e['kind'] in ('ret', 'panic') and e['seg'] == s]
        else:
            ended = 'ctx' in I.held or [e for e in I.events if e['kind'] in ('ret', 'panic', 'dropfut', 'dropctx', 'eof')]
        if not ended:
            out.append((I.name, max(s, 0), f'{b[len(a)]} owed for the packet fed here was never written'))
    return out


def o_C09(I):
    return o_C07(I, check_end=False)


def recv_max(I):
    R = 65535
    for e in I.events:
        if e['kind'] == 'in' and e['pkt'] and e['pkt']['type'] == 2 and e['ctx'] in ('connect', 'authorize'):
            v = pget(e['pkt']['props'], 33)
            R = v if v is not None else 65535
    return R


def o_C10(I, known=None):
    out = []
    R = 65535
    outstanding = []
    domain = True
    reconnects = sum(1 for e in I.events if e['kind'] == 'setup')
    if reconnects > 1 and any(e['kind'] == 'markdisc' for e in I.events):
        return out          # resumed sessions: C10 quantifies over the histories of one connection (DESIGN.md section 8)
    for e in I.events:
        if e['kind'] == 'in' and e['pkt'] and e['pkt']['type'] == 2 and e['ctx'] in ('connect', 'authorize'):
            v = pget(e['pkt']['props'], 33)
            R = v if v is not None else 65535
            outstanding = []          # the quota belongs to the connection: a new CONNACK starts a new count
            domain = True
        if not domain:
            break
        if e['kind'] == 'w' and e['pkt'] and e['pkt']['type'] == 3 and e['pkt']['qos'] > 0 and not e['pkt']['dup']:
            if len(outstanding) >= R:
                out.append((I.name, e['seg'], f'PUBLISH written with {len(outstanding)} outstanding, Receive Maximum {R}'))
            outstanding.append(e['pkt']['pid'])
        if e['kind'] == 'in' and e['pkt'] and e['ctx'] == 'run':
            p = e['pkt']
            if p['type'] in (4, 7) or p['type'] == 5 and p['reason'] >= 0x80:
                if p['pid'] in outstanding:
                    outstanding.remove(p['pid'])
                else:
                    domain = False        # not a conformant acknowledgement: the history left the property's domain
        if e['kind'] == 'done' and e['op'] is not None and e['text'] == 'err QuotaExceeded':
            op = e['op']
            if op.kind != 'PUBLISH' or op.qos == 0:
                out.append((I.name, e['seg'], f'op{op.id} ({op.kind}, QoS {op.qos}) limited by the send quota'))
            elif len(outstanding) < R:
                out.append((I.name, e['seg'], f'op{op.id} refused with QuotaExceeded at {len(outstanding)} outstanding, Receive Maximum {R}'))
            if op.w:
                out.append((I.name, e['seg'], f'op{op.id}: QuotaExceeded but something was written'))
    return out


def o_C11(I):
    out = []
    outstanding = {}
    sids = set()
    for e in I.events:
        if e['kind'] == 'panic' and e['cls'] != 'assert-subid':      # (the documented assertion is judged by o_generic)
            out.append((I.name, e['seg'], f"panic {e['task']} {e['cls']}"))
        if e['kind'] == 'w' and e['pkt'] and not (e['pkt']['type'] == 3 and e['pkt'].get('dup')):
            p = e['pkt']
            if p['type'] in (8, 10) or p['type'] == 3 and p['qos'] > 0:
                if p['pid'] == 0:
                    out.append((I.name, e['seg'], 'packet identifier 0'))
                if p['pid'] in outstanding:
                    out.append((I.name, e['seg'], f"packet identifier {p['pid']} reused while still outstanding"))
                outstanding[p['pid']] = p['type']
            if p['type'] == 8:
                for i, v in p['props']:
                    if i == 11:
                        if v in sids:
                            out.append((I.name, e['seg'], f'subscription identifier {v} assigned twice'))
                        sids.add(v)
        if e['kind'] == 'in' and e['pkt'] and e['ctx'] == 'run':
            p = e['pkt']
            t = p['type']
            done = (t == 4 and outstanding.get(p['pid']) == 3 or t == 7 and outstanding.get(p['pid']) == 3
                    or t == 5 and p['reason'] >= 0x80 and outstanding.get(p['pid']) == 3
                    or t == 9 and outstanding.get(p['pid']) == 8 or t == 11 and outstanding.get(p['pid']) == 10)
            if done:
                del outstanding[p['pid']]
    return out


def publish_len(op):
    """length of the PUBLISH packet a publish request encodes to (MQTT 5 section 3.3), from the request alone"""
    f = op.f
    pl = 0
    for k, n in [('pfi', 2), ('ta', 3), ('mei', 5)]:
        if k in f:
            pl += n
    for k in ('cd', 'rt', 'ct'):
        if k in f:
            pl += 3 + len(unhex(f[k][-1]))
    for u in f.get('up', []):
        k, v = u.split(':')
        pl += 5 + len(unhex(k)) + len(unhex(v))
    rem = 2 + len(unhex(f.get('t', [''])[-1])) + (2 if op.qos else 0) + len(m.varint(pl)) + pl + len(unhex(f.get('p', [''])[-1]))
    return 1 + len(m.varint(rem)) + rem


def request_len(op, sid=1):
    """length of the packet a request encodes to (MQTT 5 sections 3.3, 3.8, 3.10, 3.12, 3.14), from the request alone;
    `sid` = the subscription identifier the library will assign (only its varint size matters)"""
    f = op.f
    ups = 0
    for u in f.get('up', []):
        k, v = u.split(':')
        ups += 5 + len(unhex(k)) + len(unhex(v))
    if op.kind == 'PUBLISH':
        return publish_len(op) if 't' in f else None
    if op.kind == 'PING':
        return 2
    if op.kind == 'SUBSCRIBE':
        fl = [x.split(':')[0] for x in f.get('f', [])]
        if not fl:
            return None
        pl = 1 + len(m.varint(sid)) + ups
        rem = 2 + len(m.varint(pl)) + pl + sum(3 + len(unhex(x)) for x in fl)
        return 1 + len(m.varint(rem)) + rem
    if op.kind == 'UNSUBSCRIBE':
        fl = f.get('f', [])
        if not fl:
            return None
        rem = 2 + len(m.varint(ups)) + ups + sum(2 + len(unhex(x)) for x in fl)
        return 1 + len(m.varint(rem)) + rem
    if op.kind == 'DISCONNECT':
        pl = ups + (5 if 'sei' in f else 0) + (3 + len(unhex(f['rs'][-1])) if 'rs' in f else 0)
        rem = 1 + len(m.varint(pl)) + pl
        return 1 + len(m.varint(rem)) + rem
    return None


def o_C12(I, ref_len):
    """ref_len: op id -> length of the packet that operation writes when no limit applies (from the reference script)"""
    out = []
    # the limit in force for an operation is the one announced by the most recent CONNACK before it (absent = no limit)
    announced = [(e['seg'], pget(e['pkt']['props'], 39)) for e in I.events
                 if e['kind'] == 'in' and e['pkt'] and e['pkt']['type'] == 2 and e['ctx'] in ('connect', 'authorize')]
    for op in I.ops.values():
        if op.done is None and not op.w:
            continue
        # (the moment that counts is when the context takes the request off its queue — its packet appears or its refusal is
        #  reported —, not when the caller issued it: requests may be queued before connect() has seen the CONNACK)
        at = max([op.seg] + [min(([op.w[0][0]] if op.w else []) + ([op.done[0]] if op.done is not None else []))])
        M = ([None] + [v for sg, v in announced if sg <= at])[-1]
        L = ref_len.get(op.id)
        if L is None:
            nsub = len([o for o in I.ops.values() if o.kind == 'SUBSCRIBE' and o.id <= op.id])
            L = request_len(op, max(nsub, 1))
        if L is None:
            continue
        too_big = M is not None and L > M
        got = op.done is not None and op.done[1] == 'err MaximumPacketSizeExceeded'
        if too_big and not got and not op.w and op.done is not None and op.done[1] == 'err ContextExited':
            continue        # the request never reached a serving context (it is C14's): nothing to judge about its size
        if too_big != got:
            out.append((I.name, op.seg, f'op{op.id} {op.kind}: packet of {L} bytes, Maximum Packet Size {M}: refused={got}'))
        if got and op.w:
            out.append((I.name, op.seg, f'op{op.id}: refused for its size but {len(op.w)} packet(s) were written'))
        if not too_big and op.w and len(op.w[0][2]) != L:
            out.append((I.name, op.seg, f'op{op.id}: wrote {len(op.w[0][2])} bytes, reference {L}'))
    # "if L <= M, or no M was announced, the packet is written in full": a request that fits and was handed to a serving
    # context is on the wire at the end of a script that never holds / drops / faults the context
    ks = [e['kind'] for e in I.events]
    if not any(k in ('hold', 'drop', 'dropctx', 'dropfut', 'eof', 'panic', 'markdisc') for k in ks) and 'werr' not in I.cfg and 'wzero' not in I.cfg:
        ended = [e['seg'] for e in I.events if e['kind'] == 'ret' and e['call'] == 'run']
        for op in I.ops.values():
            if op.w or not op.polled or op.done is not None and op.done[1].startswith('err '):
                continue
            nsub = len([o for o in I.ops.values() if o.kind == 'SUBSCRIBE' and o.id <= op.id])
            L = ref_len.get(op.id) or request_len(op, max(nsub, 1))
            M = ([None] + [v for sg, v in announced if sg <= op.seg])[-1]
            legit_end = [sg for sg in ended if sg <= op.seg]
            if L is not None and (M is None or L <= M) and not legit_end:
                why = f'run() had returned at segment {ended[0]}' if ended else 'run() is still serving'
                out.append((I.name, op.seg, f'op{op.id} {op.kind}: packet of {L} bytes fits Maximum Packet Size {M} but was never written ({why})'))
    return out


def o_C13(I):
    out = []
    cause = None
    due = None
    udisc_seg = None
    for n, e in enumerate(I.events):
        k = e['kind']
        if k == 'call':
            cause = None
            due = None
        if e.get('ctx') == 'run' or k in ('w', 'drophandle', 'done'):
            if k == 'in':
                p = e['pkt']
                if cause is None:
                    if p is None:
                        cause = ('err', e['seg'])
                    elif p['type'] == 14:
                        cause = ('ret', e['seg'], view_disconnect(p))
                        # read by a serving run() that the script does not hold: run() returns in this very step
                        due = e['seg'] if not e.get('ctxheld') and 'rdp' not in I.cfg else None
            if k == 'eof' and cause is None:
                cause = ('ret', e['seg'], 'err SocketClosed')
        if k == 'w' and e['pkt'] and e['pkt']['type'] == 14 and cause is None:
            cause = ('ret', e['seg'], 'ok')
            udisc_seg = (e['seg'], n)
        if k == 'w' and udisc_seg is not None and n > udisc_seg[1] and not (e['pkt'] and e['pkt']['type'] in (1, 15)):
            out.append((I.name, e['seg'], f"written after the user's DISCONNECT: {e['raw'].hex()}"))
        if k == 'setup':
            udisc_seg = None
        if k == 'ret' and e['call'] == 'run':
            limited = 'werr' in I.cfg or 'wzero' in I.cfg
            if e['text'] == 'err HandleClosed':
                handles = {'h0'}
                for x in I.events[:n]:
                    if x['kind'] == 'clone':
                        handles.add(x['toks'][1])
                    if x['kind'] == 'drophandle':
                        handles.discard(x['toks'][0])
                live = [x['op'].id for x in I.events[:n] if x['kind'] == 'start' and x['op'].kind != 'STREAMX'
                        and (x['op'].done is None or x['op'].done[0] >= e['seg']) and (x['op'].dropped is None or x['op'].dropped >= e['seg'])]
                if handles:
                    out.append((I.name, e['seg'], f"run() returned HandleClosed although handle(s) {sorted(handles)} exist"))
                continue
            if cause is None:
                if not (limited and e['text'] == 'err SocketClosed'):
                    out.append((I.name, e['seg'], f"run() returned `{e['text']}` although nothing ended the connection"))
            elif cause[0] == 'ret' and e['text'] != cause[2] and not limited:
                out.append((I.name, e['seg'], f"run() returned `{e['text']}`, the cause at segment {cause[1]} calls for `{cause[2]}`"))
            elif cause[0] == 'ret' and due is not None and e['seg'] != due:
                out.append((I.name, due, f"the server's DISCONNECT was read at segment {due} but run() returned only at segment {e['seg']}"))
            elif cause[0] == 'err' and not e['text'].startswith('err '):
                out.append((I.name, e['seg'], f"run() returned `{e['text']}` on undecodable input"))
            due = None
            cause = 'done'
    # a cause without a return
    if cause not in (None, 'done') and not any(e['kind'] in ('dropctx', 'dropfut') for e in I.events) and 'ctx' not in I.held:
        out.append((I.name, cause[1], f'run() did not return after its terminating cause {cause}'))
    # first response of connect()/authorize(): checked by o_C02 (mapping) and here (transport end)
    for n, e in enumerate(I.events):
        if e['kind'] == 'eof' and e['ctx'] in ('connect', 'authorize'):
            later = [x for x in I.events[n + 1:] if x['seg'] == e['seg'] and x['kind'] == 'ret']
            if not later or not later[0]['text'].startswith('err '):
                out.append((I.name, e['seg'], f"{e['ctx']}() did not fail when the transport ended first"))
    return out


def o_C14(I):
    # (round 10, C14-j: a QoS 2 publish awaiting its PUBCOMP at the drop reported success — an operation pending at the drop
    #  may report a value only if the acknowledgement saying so had been fed: completion_check's rule)
    out = [x for x in completion_check(I) if 'was never written' in x[2] or 'no acknowledgement addressed to it' in x[2]
           or 'PINGRESP for it' in x[2]]
    d = [n for n, e in enumerate(I.events) if e['kind'] == 'dropctx']
    if not d:
        return out
    n0 = d[0]
    seg0 = I.events[n0]['seg']
    for op in I.ops.values():
        if op.dropped is not None:
            continue
        if op.seg > seg0:
            # started afterwards: must fail in its first poll
            if op.polled and (op.done is None or op.done[0] != op.seg or op.done[1] not in ('err ContextExited', 'err CodecError')):
                out.append((I.name, op.seg, f'op{op.id} started after the context was dropped: {op.done}'))
        else:
            held = f'op{op.id}' in I.held
            if op.done is None and op.polled and not held:
                out.append((I.name, seg0, f'op{op.id} ({op.kind}) still pending at the end, the context is gone'))
            if op.done is not None and op.done[0] >= seg0 and not op.done[1].startswith(('err ContextExited', 'ok', 'err')):
                out.append((I.name, op.done[0], f'op{op.id}: `{op.done[1]}` after the context was dropped'))
            if op.done is not None and op.done[0] > seg0 and op.done[1] == 'ok' and op.kind not in ('SUBSCRIBE',):
                # completing with a value that was already delivered to its oneshot is fine; anything else is not
                pass
    streams = {int(e['toks'][0]) for e in I.events if e['kind'] == 'stream'}
    ended = {e['st'] for e in I.events if e['kind'] == 'endst'}
    dropped = {int(e['task'][2:]) for e in I.events if e['kind'] == 'drop' and e['task'].startswith('st')}
    for st in streams - ended - dropped:
        if f'st{st}' not in I.held:
            out.append((I.name, seg0, f'st{st} neither ended nor was dropped after the context was dropped'))
    exp = expected_items(I)
    got = {}
    for e in I.events:
        if e['kind'] == 'item':
            got.setdefault(e['st'], []).append(e['text'])
    for st in ended & streams:
        want = [v for s, v in exp.get(st, []) if s <= seg0]
        if got.get(st, []) != want:
            out.append((I.name, seg0, f'st{st} ended with {len(got.get(st, []))} of {len(want)} buffered messages delivered'))
    return out


def o_C15(I):
    """cancellation: run() returns only for a C13 cause, the others complete properly, quota accounting stays exact.
    K1 (known finding): a QoS 2 publish dropped before it sent PUBREL leaves its exchange (and slot) unfinished."""
    out = o_C13(I) + completion_check(I) + o_C10(I) + o_C07(I)
    # a cancelled QoS 2 publish: either it never got to queue its PUBREL (K1, known finding), or it did — then the
    # PUBREL must still be written, otherwise the exchange (and its flow-control slot) is lost
    for op in I.ops.values():
        if op.kind == 'PUBLISH' and op.qos == 2 and op.dropped is not None and op.pid is not None and op.w:
            rels = [1 for s, pk, raw in op.w if pk and pk['type'] == 6]
            okrec = [e for e in I.events if e['kind'] == 'in' and e['pkt'] and e['pkt']['type'] == 5 and e['pkt']['pid'] == op.pid
                     and e['pkt']['reason'] < 0x80 and e['seg'] >= op.w[0][0] and e['ctx'] == 'run']
            if not okrec or rels:
                continue
            f = okrec[0]['seg']
            if f > op.dropped:
                queued = False                       # dropped while awaiting PUBREC
            else:
                held_at_f = False
                polled_later = False
                for e in I.events:
                    if e['seg'] > op.dropped or (e['seg'] == op.dropped and e['kind'] == 'drop'):
                        break
                    if e['kind'] == 'hold' and e['task'] == f'op{op.id}' and e['seg'] <= f:
                        held_at_f = True
                    if e['kind'] == 'release' and e['task'] == f'op{op.id}' and e['seg'] <= f:
                        held_at_f = False
                    if e['kind'] in ('release', 'poll') and e['task'] == f'op{op.id}' and e['seg'] > f:
                        polled_later = True
                queued = (not held_at_f) or polled_later
            if not queued:
                out.append((I.name, op.dropped, 'KNOWN:K1 QoS 2 publish future dropped before its PUBREL was sent: the exchange is never completed'))
            elif 'ctx' not in I.held and not any(e['kind'] in ('ret', 'dropctx', 'dropfut') for e in I.events if e['seg'] >= f and e.get('call', 'run') == 'run'):
                out.append((I.name, op.dropped, f'op{op.id}: the PUBREL queued by a QoS 2 publish that was then cancelled was never written: its exchange and send-quota slot are lost'))
    return out


def o_C17(I):
    """every resumed run() (a RUN after a MARKDISC) first re-sends exactly the unfinished handshakes, or nothing when expired"""
    out = []
    if not any(e['kind'] == 'markdisc' for e in I.events):
        return out
    sei = 0
    ago = None
    unfinished = []      # (key, raw as it must be re-sent) in original order
    resume_seg = None
    resent = []
    want = None
    expired = False

    def close_resume():
        nonlocal resume_seg, resent, want
        if resume_seg is not None and want is not None and resent != want:
            out.append((I.name, resume_seg, f'resumed session re-sent {[x.hex() for x in resent]}, expected {[x.hex() for x in want]} (expired={expired})'))
        resume_seg, resent, want = None, [], None

    for e in I.events:
        if resume_seg is not None and e['seg'] != resume_seg:
            close_resume()
        k = e['kind']
        if k == 'call' and e['call'] == 'connect':
            sei = int(e['f'].get('sei', ['0'])[-1])
        if k == 'in' and e['pkt'] and e['pkt']['type'] == 2:
            v = pget(e['pkt']['props'], 17)
            if v is not None:
                sei = v
        if k == 'markdisc':
            ago = int(e['toks'][0])
        if k == 'call' and e['call'] == 'run' and ago is not None:
            if sei not in (0, 4294967295) and abs(sei - ago) <= 1:
                ago = None           # on the one-second boundary: not judged
                unfinished = None
                continue
            expired = sei == 0 or (sei != 4294967295 and sei < ago)
            if unfinished is None:
                ago = None
                continue
            if expired:
                unfinished = []
            resume_seg, resent, want = e['seg'], [], [raw for key, raw in unfinished]
            ago = None
            continue
        if unfinished is None:
            continue
        if k == 'w' and e['pkt']:
            p = e['pkt']
            if resume_seg is not None and e['seg'] == resume_seg:
                resent.append(e['raw'])
                continue
            if p['type'] == 3 and p['qos'] > 0 and not p['dup']:
                unfinished.append((('pub', p['pid']), bytes([e['raw'][0] | 8]) + e['raw'][1:]))
            if p['type'] == 6:
                unfinished.append((('rel', p['pid']), e['raw']))
        if k == 'in' and e['pkt'] and e['ctx'] == 'run':
            p = e['pkt']
            if p['type'] in (4, 5):
                unfinished = [x for x in unfinished if x[0] != ('pub', p['pid'])]
            if p['type'] == 7:
                unfinished = [x for x in unfinished if x[0] != ('rel', p['pid'])]
    close_resume()
    return out + completion_check(I) + resumed_completions(I)


def resumed_completions(I):
    """the other half of C17: while the session state is kept (no resume found it expired) a QoS>0 publish whose PUBLISH was
    written neither fails with ContextExited when its connection ends, nor stays pending once its final acknowledgement has
    been read by a later run(). Not judged after an expiry, on the one-second boundary, or when the Context was dropped."""
    out = []
    sei, ago, lost = 0, None, False
    last = {}
    for e in I.events:
        k = e['kind']
        if k == 'dropctx':
            lost = True
        if k == 'call' and e['call'] == 'connect':
            sei = int(e['f'].get('sei', ['0'])[-1])
        if k == 'in' and e['pkt'] and e['pkt']['type'] == 2:
            v = pget(e['pkt']['props'], 17)
            if v is not None:
                sei = v
        if k == 'markdisc':
            ago = int(e['toks'][0])
        if k == 'call' and e['call'] == 'run' and ago is not None:
            if sei == 0 or (sei != 4294967295 and sei <= ago + 1):
                lost = True          # expired, or too close to the boundary to judge
            ago = None
        if k == 'done' and e['op'] is not None and e['text'] == 'err ContextExited' and not lost:
            op = e['op']
            if op.kind == 'PUBLISH' and op.qos > 0 and op.w:
                out.append((I.name, e['seg'], f'op{op.id} (QoS {op.qos} publish, written) failed with ContextExited although the session state was kept'))
        if k == 'in' and e['pkt'] is not None and e['ctx'] == 'run' and not e.get('ctxheld') and not lost:
            p = e['pkt']
            if p['type'] in (4, 7) or (p['type'] == 5 and p['reason'] >= 0x80):
                last[(p['type'], p['pid'])] = e['seg']
    if lost or 'ctx' in I.held or 'werr' in I.cfg or 'wzero' in I.cfg:
        return out
    for op in I.ops.values():
        if op.kind != 'PUBLISH' or not op.qos or op.done is not None or op.dropped is not None or op.pid is None or not op.w \
                or f'op{op.id}' in I.held:
            continue
        for t in ([4] if op.qos == 1 else [7, 5]):
            sg = last.get((t, op.pid))
            if t == 7 and sg is not None:
                rel = [w[0] for w in op.w if w[2][0] >> 4 == 6]
                if not rel or rel[0] > sg:
                    continue
            if sg is not None and sg > op.w[0][0]:
                out.append((I.name, sg, f'op{op.id} (QoS {op.qos} publish pid {op.pid}): its final acknowledgement (type {t}) was read at segment {sg} but the original future never completed'))
                break
    return out
