"""Generator-side MQTT 5 helpers: byte encoders for *server* packets fed to the client under test, and
script-line builders for client requests (PROTOCOL.md). These only produce test inputs; nothing here
judges an outcome."""

# property id -> type  (MQTT 5 section 2.2.2.2)
PROP_TYPE = {
    1: 'u8', 2: 'u32', 3: 'str', 8: 'str', 9: 'bin', 11: 'var', 17: 'u32', 18: 'str', 19: 'u16', 21: 'str',
    22: 'bin', 23: 'u8', 24: 'u32', 25: 'u8', 26: 'str', 28: 'str', 31: 'str', 33: 'u16', 34: 'u16', 35: 'u16',
    36: 'u8', 37: 'u8', 38: 'pair', 39: 'u32', 40: 'u8', 41: 'u8', 42: 'u8',
}


RECORD = None      # when a list: every server packet built below is also recorded as (description, bytes)


def _pdesc(ps):
    if not ps:
        return '-'
    out = []
    for i, v in ps:
        t = PROP_TYPE[i]
        if t == 'u8':
            out.append(f'{i}:n:{int(v)}' if i == 36 else f'{i}:b:{int(v)}')
        elif t in ('u16', 'u32'):
            out.append(f'{i}:n:{v}')
        elif t == 'var':
            out.append(f'{i}:v:{v}')
        elif t in ('str', 'bin'):
            out.append(f'{i}:s:{bytes(v).hex()}')
        else:
            out.append(f'{i}:p:{bytes(v[0]).hex()}~{bytes(v[1]).hex()}')
    return ','.join(out)


def _rec(desc, data):
    if RECORD is not None:
        RECORD.append((desc, data))
    return data


def varint(n):
    out = bytearray()
    while True:
        b = n % 128
        n //= 128
        if n:
            out.append(b | 0x80)
        else:
            out.append(b)
            return bytes(out)


def varint_padded(n, width):
    """non-canonical encoding of n on exactly `width` bytes (1..4)"""
    out = bytearray()
    for i in range(width):
        b = n % 128
        n //= 128
        out.append(b | (0x80 if i < width - 1 else 0))
    assert n == 0
    return bytes(out)


def u16(n):
    return bytes([(n >> 8) & 0xff, n & 0xff])


def u32(n):
    return bytes([(n >> 24) & 0xff, (n >> 16) & 0xff, (n >> 8) & 0xff, n & 0xff])


def mstr(b):
    return u16(len(b)) + bytes(b)


def prop(pid, val):
    t = PROP_TYPE[pid]
    out = bytes([pid])
    if t == 'u8':
        return out + bytes([int(val)])
    if t == 'u16':
        return out + u16(val)
    if t == 'u32':
        return out + u32(val)
    if t == 'var':
        return out + varint(val)
    if t in ('str', 'bin'):
        return out + mstr(val)
    if t == 'pair':
        return out + mstr(val[0]) + mstr(val[1])
    raise ValueError(t)


def props(ps):
    body = b''.join(prop(i, v) for i, v in ps)
    return varint(len(body)) + body


def packet(hdr, body, rl_width=None):
    rl = varint(len(body)) if rl_width is None else varint_padded(len(body), rl_width)
    return bytes([hdr]) + rl + body


def connack(sp=0, reason=0, ps=()):
    return _rec(f'connack {sp} {reason} {_pdesc(ps)}', packet(0x20, bytes([sp, reason]) + props(ps)))


def auth(reason=0, ps=(), short=False):
    if short:
        return _rec('auth empty 0 -', packet(0xf0, b''))
    return _rec(f'auth full {reason} {_pdesc(ps)}', packet(0xf0, bytes([reason]) + props(ps)))


def publish(topic, payload=b'', qos=0, pid=None, dup=0, retain=0, ps=(), rl_width=None):
    hdr = 0x30 | (dup << 3) | (qos << 1) | retain
    body = mstr(topic)
    if qos > 0:
        body += u16(pid)
    body += props(ps) + bytes(payload)
    if rl_width is not None:
        return packet(hdr, body, rl_width)        # non-canonical remaining length: not an image of the spec encoder
    return _rec(f"publish {dup} {qos} {retain} {bytes(topic).hex() or '-'} {pid if qos else '-'} {_pdesc(ps)} {bytes(payload).hex() or '-'}",
                packet(hdr, body))


ACK_HDR = {'puback': 0x40, 'pubrec': 0x50, 'pubrel': 0x62, 'pubcomp': 0x70}


def ack(kind, pid, reason=None, ps=None):
    """reason None -> remaining length 2; ps None -> remaining length 3; else the full form"""
    body = u16(pid)
    form = 'id'
    if reason is not None:
        body += bytes([reason])
        form = 'reason'
        if ps is not None:
            body += props(ps)
            form = 'full'
    return _rec(f"{kind} {form} {pid} {reason or 0} {_pdesc(ps or []) if form == 'full' else '-'}", packet(ACK_HDR[kind], body))


def suback(pid, reasons, ps=()):
    return _rec(f"suback {pid} {_pdesc(ps)} {bytes(reasons).hex() or '-'}", packet(0x90, u16(pid) + props(ps) + bytes(reasons)))


def unsuback(pid, reasons, ps=()):
    return _rec(f"unsuback {pid} {_pdesc(ps)} {bytes(reasons).hex() or '-'}", packet(0xb0, u16(pid) + props(ps) + bytes(reasons)))


def pingresp():
    return _rec('pingresp', b'\xd0\x00')


def disconnect(reason=0, ps=None, form='full'):
    if form == 'empty':
        return _rec('disconnect empty 0 -', packet(0xe0, b''))
    if form == 'reason' or ps is None:
        return _rec(f'disconnect reason {reason} -', packet(0xe0, bytes([reason])))
    return _rec(f'disconnect full {reason} {_pdesc(ps)}', packet(0xe0, bytes([reason]) + props(ps)))


CONNECT_REASONS = [0x00, 0x80, 0x81, 0x82, 0x83, 0x84, 0x85, 0x86, 0x87, 0x88, 0x89, 0x8a, 0x8c, 0x90, 0x95, 0x97,
                   0x99, 0x9a, 0x9b, 0x9c, 0x9d, 0x9f]
PUBACK_REASONS = [0x00, 0x10, 0x80, 0x83, 0x87, 0x90, 0x91, 0x97, 0x99]
PUBREC_REASONS = PUBACK_REASONS
PUBREL_REASONS = [0x00, 0x92]
PUBCOMP_REASONS = [0x00, 0x92]
SUBACK_REASONS = [0x00, 0x01, 0x02, 0x80, 0x83, 0x87, 0x8f, 0x91, 0x97, 0x9e, 0xa1, 0xa2]
UNSUBACK_REASONS = [0x00, 0x11, 0x80, 0x83, 0x87, 0x8f, 0x91]
DISCONNECT_REASONS = [0x00, 0x04, 0x80, 0x81, 0x82, 0x83, 0x87, 0x89, 0x8b, 0x8d, 0x8e, 0x8f, 0x90, 0x93, 0x94, 0x95,
                      0x96, 0x97, 0x98, 0x99, 0x9a, 0x9b, 0x9c, 0x9d, 0x9e, 0x9f, 0xa0, 0xa1, 0xa2]
AUTH_REASONS = [0x00, 0x18, 0x19]


# ---------------------------------------------------------------- script lines
def hx(b):
    return bytes(b).hex()


def kvs(fields):
    """fields: list of (key, value); value bytes -> hex, bool -> 0/1, int -> decimal, (k, v) pair -> hex:hex"""
    out = []
    for k, v in fields:
        if isinstance(v, bool):
            out.append(f'{k}={int(v)}')
        elif isinstance(v, int):
            out.append(f'{k}={v}')
        elif isinstance(v, tuple):
            out.append(f'{k}={hx(v[0])}:{hx(v[1])}')
        else:
            out.append(f'{k}={hx(v)}')
    return ' '.join(out)


def feed(data, cuts=None):
    if cuts:
        return f'FEED {hx(data)} cuts=' + ','.join(str(c) for c in cuts)
    return f'FEED {hx(data)}'


def split_frames(data):
    """independent splitter of a byte string into whole MQTT packets (used by generators only)"""
    out = []
    i = 0
    while i < len(data):
        j = i + 1
        n = 0
        mult = 1
        while True:
            if j >= len(data):
                return out, data[i:]
            b = data[j]
            n += (b & 127) * mult
            mult *= 128
            j += 1
            if not b & 128:
                break
            if j - i > 4:
                return out, data[i:]          # malformed remaining length (a 5th byte would be needed)
        if j + n > len(data):
            return out, data[i:]
        out.append(data[i:j + n])
        i = j + n
    return out, b''


def malformed_length(data):
    """the unframed tail starts with a fixed header followed by 4 continuation bytes: no packet can ever complete"""
    return len(data) >= 5 and all(b & 128 for b in data[1:5])
