"""Script generators, one family per property (DESIGN.md section 5.4 / 5.5).

Every generator takes (rng, tier) and returns a list of (name, [lines]) scripts; all randomness comes from `rng`
(one random.Random seeded from VERIF_SEED). Generators keep at most one *kind* of input (inbound bytes vs. handle
messages) pending per context poll, so the implementation is deterministic under `futures::select!`."""

import itertools
import os
import random
from . import mqtt as m

STRS = [b'', b'a', b't/1', 'hé'.encode(), b'x' * 7, '\ufeffb'.encode(), 'q\U0001d11e'.encode()]
LONG = [127, 128]
TOPICS = [b'a', b't/1', b'sensor/+/x', 'café'.encode(), '\ufefft/1'.encode(), 't/\ufeff1'.encode()]     # (MQTT-1.5.4-3: a BOM is data)


def pick_str(rng, big=False):
    r = rng.random()
    if big and r < 0.15:
        return bytes([97 + (i % 26) for i in range(rng.choice(LONG + [200, 300]))])
    return rng.choice(STRS)


def ups(rng, mx=2):
    return [(pick_str(rng), pick_str(rng)) for _ in range(rng.randint(0, mx))]


class Sess:
    """Builds one script and tracks what the client will do (identifier counters, outstanding operations)."""
    EXTRA_RNG = None           # set by `with_extras`: random stateless CONNACK properties in every family's handshakes
    STATELESS_CONNACK = [18, 19, 26, 28, 31, 34, 36, 37, 40, 42]

    def __init__(self, name, cfg=None):
        self.name = name
        self.lines = []
        # (session 5) every script without a byte budget also asks both sides for the transport statistics (`WCALLS`): the
        # implementation's write loop against the Lean model of write_all (TxStream / TxMock) under the script's writer policy
        if not cfg:
            cfg = 'wtrace=1'
        elif 'werr' not in cfg and 'wzero' not in cfg and 'wtrace' not in cfg:
            cfg += ' wtrace=1'
        if cfg:
            self.lines.append('CFG ' + cfg)
        self.pid = 1
        self.sub = 1
        self.next_op = 1
        self.handles = [0]
        self.live_ops = {}      # op id -> dict(kind=..., pid=..., qos=..., phase=...)
        self.subs = {}          # op id -> sub id   (subscribe ops whose SUBSCRIBE was written)
        self.rsps = set()
        self.streams = set()

    # -- plumbing
    def add(self, line):
        self.lines.append(line)

    def alloc_pid(self):
        p = self.pid
        self.pid = 1 if self.pid >= 65535 else self.pid + 1
        return p

    def alloc_sub(self):
        s = self.sub
        self.sub = 1 if self.sub >= 268435455 else self.sub + 1
        return s

    def new_op(self):
        o = self.next_op
        self.next_op += 1
        return o

    def script(self):
        return (self.name, self.lines)

    # -- connection
    def connect(self, fields=(('cid', b'c'),), connack_ps=(), reason=0, run=True, cuts=None, via_auth=False, sp=0):
        self.add('SETUP')
        if via_auth:
            # extended authentication: CONNECT with a method, AUTH challenge, authorize(), and only then the CONNACK
            # (which is the one that carries Receive Maximum, Maximum Packet Size, Session Expiry ...)
            fields = [f for f in fields if f[0] not in ('am', 'ad')] + [('am', b'm'), ('ad', b'd')]
            self.add(('CONNECT ' + m.kvs(fields)).strip())
            self.add(m.feed(m.auth(0x18, [(21, b'm'), (22, b'x')])))
            self.add('AUTHORIZE r=24 am=6d ad=64')
        else:
            self.add(('CONNECT ' + m.kvs(fields)).strip())
        x = Sess.EXTRA_RNG
        if x is not None and reason == 0 and x.random() < 0.35:
            # what else a broker may say in a successful CONNACK: the client keeps no state for any of these properties
            connack_ps = list(connack_ps) + [(pid, prop_value(x, pid)) for pid in x.sample(Sess.STATELESS_CONNACK, x.choice([1, 2, 4]))
                                             if not any(q == pid for q, _ in connack_ps)]
            x.shuffle(connack_ps)
        self.add(m.feed(m.connack(sp, reason, connack_ps), cuts))
        if run:
            self.add('RUN')

    def feed(self, data, cuts=None):
        self.add(m.feed(data, cuts))

    # -- operations
    def publish(self, qos=0, h=0, fields=None, topic=b'a'):
        op = self.new_op()
        f = []
        if qos is not None:
            f.append(('q', qos))
        if topic is not None:
            f.append(('t', topic))
        f += list(fields or [])
        pid = self.alloc_pid() if qos in (1, 2) else None
        self.add(f'OP {op} h{h} PUBLISH ' + m.kvs(f))
        self.live_ops[op] = dict(kind='publish', pid=pid, qos=qos or 0, phase=0)
        return op, pid

    def subscribe(self, filters=((b'a', '2000'),), h=0, up=()):
        op = self.new_op()
        pid = self.alloc_pid()
        sid = self.alloc_sub()
        toks = [f'f={m.hx(f)}:{o}' for f, o in filters] + [f'up={m.hx(k)}:{m.hx(v)}' for k, v in up]
        self.add((f'OP {op} h{h} SUBSCRIBE ' + ' '.join(toks)).strip())
        self.live_ops[op] = dict(kind='subscribe', pid=pid, sid=sid)
        if filters:
            self.subs[op] = sid
        return op, pid, sid

    def unsubscribe(self, filters=(b'a',), h=0, up=()):
        op = self.new_op()
        pid = self.alloc_pid()
        toks = [f'f={m.hx(f)}' for f in filters] + [f'up={m.hx(k)}:{m.hx(v)}' for k, v in up]
        self.add((f'OP {op} h{h} UNSUBSCRIBE ' + ' '.join(toks)).strip())
        self.live_ops[op] = dict(kind='unsubscribe', pid=pid)
        return op, pid

    def ping(self, h=0):
        op = self.new_op()
        self.add(f'OP {op} h{h} PING')
        self.live_ops[op] = dict(kind='ping')
        return op

    def disconnect(self, fields=(), h=0):
        op = self.new_op()
        self.add((f'OP {op} h{h} DISCONNECT ' + m.kvs(fields)).strip())
        return op

    def subscribed_stream(self, filters=((b'a', '2000'),)):
        """subscribe, SUBACK, STREAM: returns (op, sid)"""
        op, pid, sid = self.subscribe(filters)
        self.feed(m.suback(pid, [0] * len(filters)))
        self.live_ops.pop(op, None)
        self.add(f'STREAM {op}')
        self.streams.add(op)
        return op, sid


# =============================================================================================== C01
CONNECT_OPTS = [
    ('ka', lambda r: r.choice([0, 1, 60, 65535])),
    ('sei', lambda r: r.choice([0, 1, 300, 4294967295])),
    ('rm', lambda r: r.choice([1, 10, 65535])),
    ('mps', lambda r: r.choice([1, 256, 4294967295])),
    ('tam', lambda r: r.choice([0, 5, 65535])),
    ('rri', lambda r: r.random() < 0.5),
    ('rpi', lambda r: r.random() < 0.5),
    ('am', lambda r: pick_str(r)),
    ('ad', lambda r: pick_str(r, True)),
    ('cs', lambda r: r.random() < 0.5),
    ('cid', lambda r: pick_str(r, True)),
    ('un', lambda r: pick_str(r, True)),
    ('pw', lambda r: pick_str(r, True)),
]
WILL_OPTS = [
    ('wq', lambda r: r.choice([0, 1, 2])),
    ('wr', lambda r: r.random() < 0.5),
    ('wdi', lambda r: r.choice([0, 7, 4294967295])),
    ('wpfi', lambda r: r.random() < 0.5),
    ('wmei', lambda r: r.choice([0, 9, 4294967295])),
    ('wct', lambda r: pick_str(r)),
    ('wrt', lambda r: pick_str(r)),
    ('wcd', lambda r: pick_str(r, True)),
]


def connect_fields(rng, p=0.4, will=None, in_domain=True):
    f = []
    for k, g in CONNECT_OPTS:
        if rng.random() < p:
            f.append((k, g(rng)))
    if in_domain and any(k == 'ad' for k, _ in f) and not any(k == 'am' for k, _ in f):
        if rng.random() < 0.8:
            f.append(('am', pick_str(rng)))
    for _ in range(rng.choice([0, 0, 1, 2, 3])):
        f.append(('up', (pick_str(rng), pick_str(rng, True))))
    if will is None:
        will = rng.random() < 0.5
    if will:
        f.append(('wt', rng.choice(TOPICS)))
        f.append(('wp', pick_str(rng, True)))
        for k, g in WILL_OPTS:
            if rng.random() < p:
                f.append((k, g(rng)))
        for _ in range(rng.choice([0, 0, 1, 2])):
            f.append(('wup', (pick_str(rng), pick_str(rng))))
    rng.shuffle(f)
    return f


PUB_OPTS = [
    ('r', lambda r: r.random() < 0.5),
    ('p', lambda r: pick_str(r, True)),
    ('pfi', lambda r: r.random() < 0.5),
    ('ta', lambda r: r.choice([1, 2, 65535])),
    ('mei', lambda r: r.choice([0, 60, 4294967295])),
    ('cd', lambda r: pick_str(r, True)),
    ('rt', lambda r: pick_str(r)),
    ('ct', lambda r: pick_str(r, True)),
]

WR_POLICIES = [None, 'wr=one', 'wr=pend', 'wr=pendone']


def fam_C01(rng, tier):
    out = []
    n = 120 if tier == 'quick' else 3000
    # CONNECT
    for i in range(n):
        s = Sess(f'c01-connect-{i}', rng.choice(WR_POLICIES))
        s.add('SETUP')
        s.add(('CONNECT ' + m.kvs(connect_fields(rng, rng.choice([0.15, 0.5, 0.9]),
                                                 in_domain=rng.random() < 0.9))).strip())
        out.append(s.script())
    # every option alone, and all together
    for k, g in CONNECT_OPTS + WILL_OPTS:
        s = Sess(f'c01-connect-only-{k}')
        s.add('SETUP')
        f = [(k, g(rng))]
        if k.startswith('w'):
            f += [('wt', b'w'), ('wp', b'p')]
        s.add('CONNECT ' + m.kvs(f))
        out.append(s.script())
    # boundary lengths: property length / remaining length around 127/128 (and 16383/16384 in thorough)
    sizes = [100, 110, 118, 119, 120, 121, 122, 123, 124, 125, 126, 127, 128, 129, 130]
    if tier != 'quick':
        sizes += [16360, 16370, 16375, 16376, 16377, 16378, 16379, 16380, 16381, 16382, 16383, 16384, 65535]
    for z in sizes:
        s = Sess(f'c01-connect-len-{z}')
        s.add('SETUP')
        s.add('CONNECT ' + m.kvs([('cid', b'c'), ('up', (b'k', b'v' * z))]))
        out.append(s.script())
        s = Sess(f'c01-connect-idlen-{z}')
        s.add('SETUP')
        s.add('CONNECT ' + m.kvs([('cid', b'i' * z)]))
        out.append(s.script())
    # every length field exactly on its encoding boundaries
    targets = [127, 128, 16383, 16384]
    for tg in targets:
        cases = [
            ('c-plen', ['SETUP', 'CONNECT ' + m.kvs([('cid', b'c'), ('up', (b'k', b'v' * (tg - 6)))])]),
            ('c-rlen', ['SETUP', 'CONNECT ' + m.kvs([('cid', b'i' * (tg - 13))])]),
            ('c-wplen', ['SETUP', 'CONNECT ' + m.kvs([('cid', b'c'), ('wt', b'w'), ('wp', b'p'), ('wup', (b'k', b'v' * (tg - 6)))])]),
            ('a-plen', ['SETUP', 'AUTHORIZE ' + m.kvs([('r', 24), ('am', b'm'), ('ad', b'd' * (tg - 7))])]),
        ]
        for nm, ls in cases:
            out.append((f'c01-exact-{nm}-{tg}', ls))
        s = Sess(f'c01-exact-ops-{tg}')
        s.connect()
        s.publish(0, fields=[('p', b'z' * (tg - 4))], topic=b'a')
        s.publish(1, fields=[('up', (b'k', b'v' * (tg - 6)))], topic=b'a')
        s.subscribe([(b'f' * (tg - 8), '2000')])
        s.unsubscribe([b'f' * (tg - 5)])
        s.disconnect([('r', 0), ('rs', b'r' * (tg - 3))])
        out.append(s.script())
    if True:
        # the three-byte / four-byte boundary of the remaining length (2 MiB packets): also in the quick tier, one request each
        for tg in [2097151, 2097152]:
            s = Sess(f'c01-exact-ops-{tg}')
            s.connect()
            s.publish(0, fields=[('p', b'z' * (tg - 4))], topic=b'a')
            out.append(s.script())
    # publish by topic alias: a ZERO-LENGTH topic name is a topic name (only an absent one is a missing mandatory part)
    s = Sess('c01-alias')
    s.connect()
    s.publish(0, fields=[('ta', 7), ('p', b'hi')], topic=b'first/name')
    s.publish(0, fields=[('ta', 7), ('p', b'hi')], topic=b'')
    s.publish(1, fields=[('ta', 7)], topic=b'')
    s.publish(2, fields=[('ta', 1), ('p', b''), ('up', (b'', b''))], topic=b'')
    s.publish(0, topic=None)                      # no topic at all: refused
    out.append(s.script())
    # AUTHORIZE: all subsets
    i = 0
    for r in [None, 0, 24, 25]:
        for am, ad, rs in itertools.product([0, 1], repeat=3):
            for nup in [0, 1, 2]:
                f = []
                if r is not None:
                    f.append(('r', r))
                if am:
                    f.append(('am', pick_str(rng)))
                if ad:
                    f.append(('ad', pick_str(rng, True)))
                if rs:
                    f.append(('rs', pick_str(rng)))
                f += [('up', (pick_str(rng), pick_str(rng))) for _ in range(nup)]
                s = Sess(f'c01-auth-{i}', rng.choice(WR_POLICIES))
                i += 1
                s.add('SETUP')
                s.add(('AUTHORIZE ' + m.kvs(f)).strip())
                out.append(s.script())
    # PUBLISH: all subsets of the 8 optional parts x QoS, packed 16 per script
    combos = list(itertools.product([0, 1], repeat=len(PUB_OPTS)))
    rng.shuffle(combos)
    if tier == 'quick':
        combos = combos[:96]
    k = 0
    # (every other script after a CONNACK that denies every optional capability — QoS 0 only, no retain, no topic aliases, no
    # wildcard / shared subscriptions: the client passes the caller's request on unchanged, it is the broker's to refuse)
    NOCAPS = [(36, 0), (37, 0), (34, 0), (40, 0), (42, 0), (19, 5)]
    for base in range(0, len(combos), 16):
        s = Sess(f'c01-publish-{base}', rng.choice(WR_POLICIES))
        s.connect(connack_ps=NOCAPS if (base // 16) % 2 else ())
        for combo in combos[base:base + 16]:
            f = [(key, g(rng)) for (key, g), on in zip(PUB_OPTS, combo) if on]
            f += [('up', (pick_str(rng), pick_str(rng))) for _ in range(rng.choice([0, 0, 1, 2]))]
            rng.shuffle(f)
            qos = [None, 0, 1, 2][k % 4]
            k += 1
            s.publish(qos, fields=f, topic=rng.choice(TOPICS) if rng.random() < 0.93 else None)
        out.append(s.script())
    # payload sizes crossing the remaining-length boundaries
    zs = list(range(115, 131)) + ([16360 + d for d in range(0, 26)] if tier != 'quick' else [])
    s = Sess('c01-publish-sizes')
    s.connect()
    for z in zs:
        s.publish(rng.choice([0, 1]), fields=[('p', b'z' * z)])
    out.append(s.script())
    # SUBSCRIBE: every subscription-options value
    opts = [f'{q}{nl}{rap}{rh}' for q in range(3) for nl in range(2) for rap in range(2) for rh in range(3)]
    for base in range(0, len(opts), 6):
        s = Sess(f'c01-subscribe-{base}', rng.choice(WR_POLICIES))
        s.connect(connack_ps=NOCAPS if (base // 6) % 2 else ())
        for o in opts[base:base + 6]:
            nf = rng.choice([1, 1, 2, 3])
            fl = [(rng.choice(TOPICS), o)] + [(rng.choice(TOPICS), rng.choice(opts)) for _ in range(nf - 1)]
            s.subscribe(fl, up=ups(rng))
        s.subscribe((), up=ups(rng))       # no topic filter: refused
        out.append(s.script())
    # UNSUBSCRIBE
    s = Sess('c01-unsubscribe')
    s.connect()
    for nf in [0, 1, 2, 3]:
        for nup in [0, 1, 2]:
            s.unsubscribe([rng.choice(TOPICS) for _ in range(nf)],
                          up=[(pick_str(rng), pick_str(rng, True)) for _ in range(nup)])
    s.ping()
    out.append(s.script())
    # DISCONNECT
    combos = [(r, sei, rs, nup) for r in m.DISCONNECT_REASONS for sei in [None, 0, 5, 4294967295]
              for rs in [0, 1] for nup in [0, 2]]
    rng.shuffle(combos)
    if tier == 'quick':
        combos = combos[:80]
    for i, (r, sei, rs, nup) in enumerate(combos):
        s = Sess(f'c01-disconnect-{i}', rng.choice(WR_POLICIES))
        s.connect()
        f = [('r', r)] if rng.random() < 0.9 else []
        if sei is not None:
            f.append(('sei', sei))
        if rs:
            f.append(('rs', pick_str(rng, True)))
        f += [('up', (pick_str(rng), pick_str(rng))) for _ in range(nup)]
        s.disconnect(f)
        out.append(s.script())
    return out


# =============================================================================================== C02
def rand_props(rng, legal, multi=(38,), p=0.4, pools=None):
    ps = []
    for pid in legal:
        if rng.random() < p:
            ps.append((pid, prop_value(rng, pid)))
    for pid in multi:
        if pid in legal or pid == 38:
            for _ in range(rng.choice([0, 0, 1, 2, 4])):
                ps.append((pid, prop_value(rng, pid)))
    rng.shuffle(ps)
    return ps


def prop_value(rng, pid):
    t = m.PROP_TYPE[pid]
    if pid == 36:
        return rng.choice([0, 1])
    if t == 'u8':
        return rng.choice([0, 1])
    if pid in (33, 35):
        return rng.choice([1, 2, 255, 256, 65535])
    if pid == 39:
        return rng.choice([1, 100, 65536, 4294967295])
    if t == 'u16':
        return rng.choice([0, 1, 255, 256, 65535])
    if t == 'u32':
        return rng.choice([0, 1, 65536, 4294967295])
    if t == 'var':
        return rng.choice([1, 127, 128, 16383, 16384, 2097151, 2097152, 268435455])
    if t in ('str', 'bin'):
        return pick_str(rng, True)
    return (pick_str(rng), pick_str(rng, True))


CONNACK_PROPS = [17, 33, 36, 37, 39, 18, 34, 31, 40, 42, 19, 26, 28, 21, 22]   # 41 handled separately


def user_property_order_scripts(prefix):
    """several user properties with the same key and other keys in between: exposed in the order they were encoded"""
    out = []
    seqs = [[(b'a', b'1'), (b'b', b'2'), (b'a', b'3')], [(b'a', b'1'), (b'a', b'2'), (b'b', b'3'), (b'a', b'4'), (b'b', b'5')],
            [(b'k', b''), (b'', b'v'), (b'k', b''), (b'', b'')]]
    for i, sq in enumerate(seqs):
        ps = [(38, kv) for kv in sq]
        s = Sess(f'{prefix}-uporder-connack-{i}')
        s.add('SETUP'); s.add('CONNECT cid=63'); s.add(m.feed(m.connack(0, 0, ps)))
        out.append(s.script())
        s = Sess(f'{prefix}-uporder-connack-refused-{i}')
        s.add('SETUP'); s.add('CONNECT cid=63'); s.add(m.feed(m.connack(0, 0x87, ps)))
        out.append(s.script())
        s = Sess(f'{prefix}-uporder-auth-{i}')
        s.add('SETUP'); s.add('CONNECT cid=63 am=6d'); s.add(m.feed(m.auth(0x18, [(21, b'm')] + ps)))
        out.append(s.script())
        for kind in ('pub0', 'pub1', 'puback', 'puback-err', 'pubrec-err', 'pubcomp-err', 'suback', 'unsuback', 'disconnect'):
            s = Sess(f'{prefix}-uporder-{kind}-{i}')
            s.connect()
            if kind in ('pub0', 'pub1'):
                op, sid = s.subscribed_stream()
                s.feed(m.publish(b'a', b'x', int(kind[3]), 7 if kind == 'pub1' else None, 0, 0, [(11, sid)] + ps))
            elif kind.startswith('puback'):
                o, p2 = s.publish(1)
                s.feed(m.ack('puback', p2, 0x97 if 'err' in kind else 0, ps))
            elif kind == 'pubrec-err':
                o, p2 = s.publish(2)
                s.feed(m.ack('pubrec', p2, 0x97, ps))
            elif kind == 'pubcomp-err':
                o, p2 = s.publish(2)
                s.feed(m.ack('pubrec', p2))
                s.feed(m.ack('pubcomp', p2, 0x92, ps))
            elif kind == 'suback':
                o, p2, sid = s.subscribe()
                s.feed(m.suback(p2, [0], ps))
            elif kind == 'unsuback':
                o, p2 = s.unsubscribe()
                s.feed(m.unsuback(p2, [0], ps))
            else:
                s.feed(m.disconnect(0x8b, ps))
            out.append(s.script())
    return out


def fam_C02(rng, tier):
    out = []
    n = 150 if tier == 'quick' else 4000
    # CONNACK through connect()
    for i in range(n):
        reason = rng.choice(m.CONNECT_REASONS) if rng.random() < 0.6 else 0
        ps = rand_props(rng, CONNACK_PROPS, p=rng.choice([0.1, 0.4, 0.8]))
        if rng.random() < 0.3:
            ps.insert(rng.randint(0, len(ps)), (41, 1 if reason < 0x80 else rng.choice([0, 1])))
        s = Sess(f'c02-connack-{i}')
        s.add('SETUP')
        s.add('CONNECT cid=63')
        s.feed(m.connack(rng.choice([0, 1]) if reason == 0 else 0, reason, ps))
        out.append(s.script())
    for r in m.CONNECT_REASONS:
        s = Sess(f'c02-connack-reason-{r}')
        s.add('SETUP')
        s.add('CONNECT cid=63')
        s.feed(m.connack(0, r, []))
        out.append(s.script())
    # AUTH through connect() / authorize()
    for i in range(n // 3):
        r = rng.choice(m.AUTH_REASONS)
        ps = [(21, pick_str(rng))] + rand_props(rng, [22, 31], p=0.5)
        rng.shuffle(ps)
        s = Sess(f'c02-auth-{i}')
        s.add('SETUP')
        if rng.random() < 0.5:
            s.add('CONNECT cid=63 am=6d ad=64')
        else:
            s.add('AUTHORIZE r=24 am=6d ad=64')
        s.feed(m.auth(r, ps))
        out.append(s.script())
    s = Sess('c02-auth-short')
    s.add('SETUP')
    s.add('CONNECT cid=63 am=6d ad=64')
    s.feed(m.auth(short=True))
    out.append(s.script())
    # inbound PUBLISH through a subscription stream (and its acknowledgement on the wire)
    PUBP = [1, 35, 2, 9, 8, 3]
    for i in range(n):
        s = Sess(f'c02-publish-{i}')
        s.connect()
        op, sid = s.subscribed_stream()
        k = rng.choice([1, 1, 2, 3])
        for _ in range(k):
            qos = rng.choice([0, 1, 2])
            ps = rand_props(rng, PUBP, p=rng.choice([0.1, 0.5, 0.9]))
            ps.insert(rng.randint(0, len(ps)), (11, sid))
            z = rng.choice([0, 1, 5, 100, 490, 500, 505, 510, 511, 512, 513, 1000, 1020, 1024, 1030, 3000])
            if tier != 'quick' and rng.random() < 0.05:
                z = rng.choice([16000, 16384, 70000])
            s.feed(m.publish(rng.choice(TOPICS), bytes([i % 251] * z), qos,
                             rng.choice([1, 2, 255, 256, 65535]) if qos else None,
                             rng.choice([0, 1]), rng.choice([0, 1]), ps))
        out.append(s.script())
    # packets whose ENCODED length sits exactly on / next to the receive buffer's growth steps (512 bytes), alone and as the
    # last packet of a burst whose total length does
    def publish_total(total, sid, fill):
        n = max(0, total - 12)
        while True:
            pk = m.publish(b'a', bytes([fill] * n), 0, None, 0, 0, [(11, sid)])
            if len(pk) == total:
                return pk
            n += total - len(pk)
    totals = [510, 511, 512, 513, 514, 515, 1023, 1024, 1025, 1026] + ([] if tier == 'quick' else
                                                                       [1535, 1536, 1537, 2047, 2048, 2049, 4096, 4097, 16383, 16384, 16385])
    for L in totals:
        s = Sess(f'c02-exact-{L}')
        s.connect()
        op, sid = s.subscribed_stream()
        s.feed(publish_total(L, sid, 7))
        out.append(s.script())
        s = Sess(f'c02-exactburst-{L}')
        s.connect()
        op, sid = s.subscribed_stream()
        s.feed(publish_total(300, sid, 1) + publish_total(L - 300, sid, 2))
        out.append(s.script())
    # PUBACK / PUBREC / PUBCOMP through publish(), every reason and form
    i = 0
    for kind, reasons in [('puback', m.PUBACK_REASONS), ('pubrec', m.PUBREC_REASONS), ('pubcomp', m.PUBCOMP_REASONS)]:
        for r in reasons:
            for form in ['id', 'reason', 'full0', 'full']:
                if form == 'id' and r != 0:
                    continue
                s = Sess(f'c02-{kind}-{i}')
                i += 1
                s.connect()
                qos = 1 if kind == 'puback' else 2
                op, pid = s.publish(qos)
                ps = None if form == 'reason' else ([] if form == 'full0' else rand_props(rng, [31], p=0.6))
                a = m.ack(kind, pid, None if form == 'id' else r, ps)
                if kind == 'pubcomp':
                    s.feed(m.ack('pubrec', pid))
                s.feed(a)
                out.append(s.script())
    # SUBACK / UNSUBACK
    for i in range(n // 3):
        s = Sess(f'c02-suback-{i}')
        s.connect()
        nf = rng.choice([1, 2, 3])
        op, pid, sid = s.subscribe([(rng.choice(TOPICS), '2000')] * nf)
        s.feed(m.suback(pid, [rng.choice(m.SUBACK_REASONS) for _ in range(nf)], rand_props(rng, [31], p=0.5)))
        op, pid = s.unsubscribe([b'a'] * nf)
        s.feed(m.unsuback(pid, [rng.choice(m.UNSUBACK_REASONS) for _ in range(nf)], rand_props(rng, [31], p=0.5)))
        s.ping()
        s.feed(m.pingresp())
        out.append(s.script())
    # DISCONNECT through run(), every reason and form; PUBREL inbound
    i = 0
    for r in m.DISCONNECT_REASONS:
        for form in ['empty', 'reason', 'full0', 'full']:
            if form == 'empty' and r != 0:
                continue
            s = Sess(f'c02-disconnect-{i}')
            i += 1
            s.connect()
            if form == 'empty':
                pkt = m.disconnect(0, None, 'empty')
            elif form == 'reason':
                pkt = m.disconnect(r, None, 'reason')
            elif form == 'full0':
                pkt = m.disconnect(r, [], 'full')
            else:
                pkt = m.disconnect(r, rand_props(rng, [31, 28], p=0.6), 'full')
            s.feed(pkt)
            out.append(s.script())
    s = Sess('c02-pubrel')
    s.connect()
    for pid in [1, 2, 255, 256, 65535]:
        s.feed(m.ack('pubrel', pid))
        s.feed(m.ack('pubrel', pid, 0x92, [(31, b'nf')]))
    out.append(s.script())
    # a PUBLISH by topic alias: after CONNECT announced Topic Alias Maximum > 0 the server may send an EMPTY topic name with an
    # alias it has bound before (round 11, C02-k: "topic names are at least one character long" added to the decoder)
    for qos in (0, 1, 2):
        for tam in (1, 4, 65535):
            s = Sess(f'c02-alias-empty-{qos}-{tam}')
            s.connect([('cid', b'c'), ('tam', tam)])
            op, sid = s.subscribed_stream()
            s.feed(m.publish(b'a/b', b'one', qos, 11 if qos else None, 0, 0, [(35, 1), (11, sid)]))
            if qos == 2:
                s.feed(m.ack('pubrel', 11))
            s.feed(m.publish(b'', b'two', qos, 12 if qos else None, 0, 0, [(35, 1), (11, sid)]))
            s.feed(m.publish(b'', b'', qos, 13 if qos else None, 0, 1, [(11, sid), (35, tam)]))
            s.ping()
            s.feed(m.pingresp())
            out.append(s.script())
    return out


# =============================================================================================== C03
def stream_prefix(s):
    s.connect()
    op, sid = s.subscribed_stream()
    return op, sid


def compositions(n):
    """all ways to cut a string of length n: lists of cut offsets"""
    for mask in range(1 << (n - 1)):
        yield [i + 1 for i in range(n - 1) if mask >> i & 1]


def fam_C03(rng, tier):
    """Each group = one byte stream delivered under several chunkings; the group key is the part of the name before
    '#'. The check compares every member's observations with the group's `#whole` member."""
    out = []

    def group(gname, mkstream, variants):
        for vname, cfg, cutter in variants:
            s = Sess(f'{gname}#{vname}', cfg)
            op, sid = stream_prefix(s)
            pkts = mkstream(sid)
            data = b''.join(pkts)
            for _ in range(sum(1 for p in pkts if p == m.pingresp())):
                s.ping()                  # every PINGRESP of the stream completes a ping: its arrival is observable
            if cutter == 'perpacket':
                for p in pkts:
                    s.feed(p)
            else:
                s.feed(data, cutter(data))
            out.append(s.script())

    def small(sid):
        return [m.pingresp(), m.publish(b'a', b'x', 0, None, 0, 0, [(11, sid)]), m.ack('pubrel', 7)]

    # exhaustive: all compositions of a short stream (CONNACK-sized packets)
    def tiny(sid):
        return [m.pingresp(), m.publish(b'a', b'', 1, 9, 0, 0, [(11, sid)])]
    n = len(b''.join(tiny(1)))
    comps = list(compositions(n))
    if tier == 'quick':
        comps = [c for c in comps if rng.random() < 0.25]
    variants = [('whole', None, 'perpacket')] + [(f'comp{i}', None, (lambda c: (lambda d: c))(c)) for i, c in enumerate(comps)]
    group('c03-tiny', tiny, variants)
    # every single cut position, bytewise, with yields, fill mode
    for gi in range(6 if tier == 'quick' else 40):
        sizes = [rng.choice([0, 1, 3, 100, 126, 127, 128, 200, 505, 509, 510, 511, 512, 513, 600, 1017, 1020, 1021, 1022,
                             1023, 1024, 1025, 1500, 2500]) for _ in range(rng.choice([2, 3, 4]))]
        seed = rng.random()

        def mk(sid, sizes=sizes, gi=gi):
            pk = []
            for j, z in enumerate(sizes):
                pk.append(m.publish(b'a', bytes([(gi + j) % 256] * z), j % 3, (j + 1) if j % 3 else None, 0, 0, [(11, sid)],
                                    rl_width=(3 if z == 3 else None)))
            pk.append(m.pingresp())
            return pk
        total = len(b''.join(mk(1)))
        cutset = sorted(set(rng.sample(range(1, total), min(total - 1, 24 if tier == 'quick' else 120))))
        variants = [('whole', None, 'perpacket'), ('one', None, lambda d: None),
                    ('fill', 'rd=fill', lambda d: None),
                    ('fillcut', 'rd=fill', lambda d: sorted(rng.sample(range(1, len(d)), min(5, len(d) - 1)))),
                    ('yield', 'rdp=1', lambda d: sorted(rng.sample(range(1, len(d)), min(6, len(d) - 1))))]
        if total <= 400:
            variants.append(('bytewise', None, lambda d: list(range(1, len(d)))))
        for c in cutset:
            variants.append((f'cut{c}', None, (lambda c: (lambda d: [c]))(c)))
        for k in range(4 if tier == 'quick' else 30):
            variants.append((f'rand{k}', None, lambda d: sorted(rng.sample(range(1, len(d)), min(rng.choice([2, 5, 17]), len(d) - 1)))))
        group(f'c03-g{gi}', mk, variants)
    # a LARGE packet in three or more reads, the read that completes it carrying the first 1 / 2 / 3 bytes of the next packet
    # (round 11, C03-k: the over-grown buffer replaced by a fresh one "between packets" — with the next packet's first byte in it)
    for big in ([6000, 20000] if tier == 'quick' else [4097, 5000, 6000, 9000, 20000, 70000]):
        def mkbig(sid, big=big):
            return [m.publish(b'a', b'L' * big, 0, None, 0, 0, [(11, sid)]),
                    m.publish(b'a', b'next', 1, 7, 0, 0, [(11, sid)]), m.pingresp(),
                    m.publish(b'a', b'M' * big, 1, 8, 0, 0, [(11, sid)]), m.pingresp()]
        first = len(mkbig(1)[0])
        variants = [('whole', None, 'perpacket')]
        for parts in (3, 4):
            for over in (1, 2, 3):
                cuts = [first * k // parts for k in range(1, parts)] + [first + over, first + over + 1]
                variants.append((f'p{parts}o{over}', None, (lambda c: (lambda d: c))(cuts)))
                variants.append((f'p{parts}o{over}f', 'rd=fill', (lambda c: (lambda d: c))(cuts)))
        group(f'c03-bigtail-{big}', mkbig, variants)
    # remaining lengths of 2, 3 and 4 bytes (padded encodings, accepted by the decoder) cut after every one of their bytes,
    # alone and behind another packet in the same read
    for w in [2, 3, 4]:
        def mkw(sid, w=w):
            return [m.publish(b'a', b'first', 0, None, 0, 0, [(11, sid)]),
                    m.publish(b'a', bytes([w] * 40), 1, 5, 0, 0, [(11, sid)], rl_width=w), m.pingresp()]
        n0 = len(m.publish(b'a', b'first', 0, None, 0, 0, [(11, 1)]))
        variants = [('whole', None, 'perpacket')]
        for c in range(1, 8):
            variants.append((f'cutA{c}', None, (lambda c: (lambda d: [n0 + c]))(c)))
            variants.append((f'cutB{c}', None, (lambda c: (lambda d: [n0, n0 + c]))(c)))
        group(f'c03-rlw{w}', mkw, variants)
    # the hand-off from connect() to run(): bytes of the packets that FOLLOW the CONNACK arrive in the same read(s) as
    # the CONNACK (a broker resuming a session sends CONNACK and queued packets in one segment), before run() is called
    ca = m.connack(0, 0, [])
    rest = [m.publish(b'a', b'q1', 1, 7, 0, 0, []), m.ack('pubrel', 9), m.pingresp(),
            m.publish(b'a', bytes(200), 2, 8, 0, 0, []), m.disconnect(0, [])]
    data = ca + b''.join(rest)

    def hs(vname, lines):
        out.append((f'c03-handoff#{vname}', ['SETUP', 'CONNECT cid=63'] + lines))
    hs('whole', [m.feed(ca), 'RUN'] + [m.feed(p) for p in rest])
    hs('oneread', [m.feed(data), 'RUN'])
    hs('oneread-late', [m.feed(ca + rest[0][:3]), 'RUN', m.feed(rest[0][3:] + b''.join(rest[1:]))])
    cuts = list(range(1, min(len(data), 40))) + ([] if tier == 'quick' else list(range(40, len(data), 7)))
    for c in cuts:
        hs(f'cut{c}-before', [m.feed(data, [c]), 'RUN'])
        if c >= len(ca):
            hs(f'cut{c}-around', [m.feed(data[:c]), 'RUN', m.feed(data[c:])])
    # streams whose packet boundaries and read sizes fall exactly on the receive buffer's steps (512 / 1024 bytes):
    # a read that fills the offered buffer exactly, with nothing (yet) behind it
    def sized_publish(total, sid, qos=0, pid=None):
        # total = 1 + len(varint) + 2 + 1 + (2 if qos) + 1 + 2 + payload  (topic 'a', one subscription identifier)
        for z in range(0, total):
            pk = m.publish(b'a', bytes([z % 251] * z), qos, pid, 0, 0, [(11, sid)])
            if len(pk) == total:
                return pk
            if len(pk) > total:
                break
        raise ValueError(total)
    gi = 0
    for totals in [[512], [1024], [511], [513], [512, 512], [256, 256], [1536], [2048], [100, 412, 512], [512, 3, 509]]:
        def mk(sid, totals=totals):
            return [sized_publish(t, sid, j % 2, (j + 1) if j % 2 else None) if t >= 12 else m.pingresp() + b'' for j, t in enumerate(totals)]
        tot = sum(len(x) for x in mk(1))
        variants = [('whole', None, 'perpacket'), ('one', None, lambda d: None), ('fill', 'rd=fill', lambda d: None),
                    ('at512', None, lambda d: [c for c in range(512, len(d), 512)]),
                    ('at512fill', 'rd=fill', lambda d: [c for c in range(512, len(d), 512)]),
                    ('at1024', None, lambda d: [c for c in range(1024, len(d), 1024)]),
                    ('yield512', 'rdp=1', lambda d: [c for c in range(512, len(d), 512)]),
                    ('off511', None, lambda d: [c for c in range(511, len(d), 512)]),
                    ('off513', None, lambda d: [c for c in range(513, len(d), 512)])]
        group(f'c03-exact{gi}', mk, variants)
        gi += 1
    # two-byte packets (PINGRESP, short DISCONNECT) behind other packets in the same read
    def tail2(sid):
        return [m.publish(b'a', b'x', 1, 3, 0, 0, [(11, sid)]), m.pingresp(), m.ack('pubrel', 9), m.pingresp()]
    def tail2d(sid):
        return [m.pingresp(), m.publish(b'a', b'y', 0, None, 0, 0, [(11, sid)]), m.disconnect(0, None, 'empty')]
    for nm, mk in [('c03-tail2', tail2), ('c03-tail2d', tail2d)]:
        n = len(b''.join(mk(1)))
        group(nm, mk, [('whole', None, 'perpacket'), ('one', None, lambda d: None), ('fill', 'rd=fill', lambda d: None),
                       ('bytewise', None, lambda d: list(range(1, len(d))))]
              + [(f'cut{c}', None, (lambda c: (lambda d: [c]))(c)) for c in range(1, n)])
    # many small packets in one read that totals exactly 512 bytes
    def burst(sid):
        return [m.publish(b'a', b'', 0, None, 0, 0, [(11, sid)]) for _ in range(64)]      # 64 x 8 bytes
    assert sum(len(x) for x in burst(1)) == 512
    group('c03-burst512', burst, [('whole', None, 'perpacket'), ('one', None, lambda d: None), ('fill', 'rd=fill', lambda d: None)])
    # the CONNACK itself, chunked (connect phase)
    ck = m.connack(0, 0, [(33, 10), (38, (b'k', b'v'))])
    for i, c in enumerate(compositions(len(ck))):
        if tier == 'quick' and i % 37:
            continue
        s = Sess(f'c03-connack#{"whole" if not c else "comp%d" % i}')
        s.add('SETUP')
        s.add('CONNECT cid=63')
        s.feed(ck, c)
        out.append(s.script())
    # the connection ends (end of stream / read error) with 0, 1, 2, 5 or 600 bytes of an unfinished packet buffered; the same
    # Context then gets a new transport: framing starts afresh, whatever was left over
    big = m.publish(b'a', b'z' * 700, 0, None, 0, 0, [])
    for how in ('eof', 'err'):
        for k in (0, 1, 2, 5, 600):
            s = Sess(f'c03-reconn-{how}#{"whole" if k == 0 else "left%d" % k}')
            op, sid = stream_prefix(s)
            s.feed(m.publish(b'a', b'x', 0, None, 0, 0, [(11, sid)]))
            if k:
                s.feed(big[:k])
            s.add('FEEDEOF' if how == 'eof' else 'FEEDERR')
            s.add('SETUP')
            s.add('CONNECT cid=63')
            s.feed(m.connack(0, 0, []))
            s.add('RUN')
            s.ping()
            s.feed(m.pingresp())
            s.feed(m.publish(b'a', b'y', 1, 4, 0, 0, []))
            out.append(s.script())
    return out


# =============================================================================================== C04
ALPHA = [0x00, 0x01, 0x02, 0x7f, 0x80, 0xff, 0x20, 0x30, 0x32, 0x40, 0x62, 0x90, 0xd0, 0xe0, 0xf0, 0x0b]


def valid_packets(rng):
    return [
        m.connack(0, 0, [(33, 7), (39, 100), (38, (b'k', b'v')), (18, b'id')]),
        m.connack(0, 0x87, [(31, b'no')]),
        m.auth(0x18, [(21, b'm'), (22, b'd')]),
        m.publish(b'a', b'xyz', 0, None, 0, 0, [(11, 1), (3, b'ct')]),
        m.publish(b't/1', b'p', 1, 5, 1, 1, [(2, 60), (38, (b'a', b'b'))]),
        m.publish(b'a', b'', 2, 6, 0, 0, []),
        m.ack('puback', 1), m.ack('puback', 1, 0x10), m.ack('puback', 2, 0x80, [(31, b'r')]),
        m.ack('pubrec', 1), m.ack('pubrel', 1), m.ack('pubcomp', 1, 0x92, []),
        m.suback(1, [0, 1, 0x80], [(31, b's')]), m.unsuback(1, [0, 0x11], []),
        m.pingresp(), m.disconnect(0x8b, [(31, b'bye'), (28, b'srv')]), m.disconnect(0, None, 'empty'),
    ]


def mutations(rng, pkt, tier):
    out = []
    for i in range(1, len(pkt)):          # truncations (as a complete stream followed by EOF)
        out.append(('trunc', pkt[:i]))
    for i in range(len(pkt)):             # length-field style perturbations of every byte
        for v in ([pkt[i] ^ 0x01, pkt[i] ^ 0x80, 0, 0xff, (pkt[i] + 1) & 0xff, (pkt[i] - 1) & 0xff, (pkt[i] * 2) & 0xff]):
            if v != pkt[i]:
                out.append(('mut', pkt[:i] + bytes([v]) + pkt[i + 1:]))
    if tier == 'quick':
        rng.shuffle(out)
        out = out[:40]
    return out


def one_prop_value(pid):
    t = m.PROP_TYPE[pid]
    return {'u8': 1, 'u16': 1, 'u32': 1, 'var': 1, 'str': b'a', 'bin': b'a'}.get(t, (b'k', b'v'))


def prop_by_type_scripts(prefix):
    """every property identifier of MQTT 5 in every packet type a server can send: legal ones are accepted, a property that
    exists but does not belong in that packet type is a protocol error (never a panic, never a stall)"""
    out = []
    for pid in sorted(m.PROP_TYPE):
        ps = [(pid, one_prop_value(pid))]
        for both in (False, True):
            ps2 = ps + [(31, b'r')] if both else ps         # alone, and next to a property that is legal almost everywhere
            tag = f'{pid}{"b" if both else ""}'
            s = Sess(f'{prefix}-propx-connack-{tag}')
            s.add('SETUP')
            s.add('CONNECT cid=63')
            s.add(m.feed(m.connack(0, 0, ps2)))
            s.add('RUN')
            s.ping()
            s.feed(m.pingresp())
            out.append(s.script())
            s = Sess(f'{prefix}-propx-authc-{tag}')
            s.add('SETUP')
            s.add('CONNECT cid=63 am=6d')
            s.add(m.feed(m.auth(0x18, [(21, b'm')] + [x for x in ps2 if x[0] != 21])))
            out.append(s.script())
            for kind in ('pub0', 'pub1', 'pub2', 'puback', 'pubrec', 'pubcomp', 'pubrel', 'suback', 'unsuback', 'disconnect', 'auth'):
                s = Sess(f'{prefix}-propx-{kind}-{tag}')
                s.connect()
                if kind.startswith('pub') and kind[3:].isdigit():
                    q = int(kind[3])
                    s.feed(m.publish(b'a', b'x', q, 7 if q else None, 0, 0, ps2))
                elif kind == 'puback':
                    o, p2 = s.publish(1)
                    s.feed(m.ack('puback', p2, 0, ps2))
                elif kind == 'pubrec':
                    o, p2 = s.publish(2)
                    s.feed(m.ack('pubrec', p2, 0, ps2))
                elif kind == 'pubcomp':
                    o, p2 = s.publish(2)
                    s.feed(m.ack('pubrec', p2))
                    s.feed(m.ack('pubcomp', p2, 0, ps2))
                elif kind == 'pubrel':
                    s.feed(m.publish(b'a', b'x', 2, 7))
                    s.feed(m.ack('pubrel', 7, 0, ps2))
                elif kind == 'suback':
                    o, p2, sid = s.subscribe()
                    s.feed(m.suback(p2, [0], ps2))
                elif kind == 'unsuback':
                    o, p2 = s.unsubscribe()
                    s.feed(m.unsuback(p2, [0], ps2))
                elif kind == 'disconnect':
                    s.feed(m.disconnect(0x8b, ps2))
                else:
                    s.feed(m.auth(0x19, ps2))
                s.ping()
                s.feed(m.pingresp())
                out.append(s.script())
    return out


def padded_subid_scripts(prefix):
    """the Subscription Identifier of an inbound PUBLISH in a longer than necessary Variable Byte Integer form (the decoder takes
    it): the message still belongs to the subscription with that VALUE"""
    out = []
    for nsub in (1, 2, 130):
        for width in (2, 3, 4):
            for qos in (0, 1):
                s = Sess(f'{prefix}-padsubid-{nsub}-{width}-{qos}')
                s.connect()
                sids = []
                for _ in range(nsub):
                    op, sid = s.subscribed_stream()
                    sids.append(sid)
                sid = sids[-1]
                s.feed(m.publish(b'a', b'm1', qos, 1 if qos else None, 0, 0, [(11, sid)]))
                # hand-made: property 0x0b with the value padded to `width` bytes
                body = m.mstr(b'a') + (m.u16(2) if qos else b'')
                pv = bytes([0x0b]) + m.varint_padded(sid, width)
                if nsub >= 2:
                    pv += bytes([0x0b]) + m.varint_padded(sids[0], width)
                body += m.varint(len(pv)) + pv + b'm2'
                s.feed(m.packet(0x30 | (qos << 1), body))
                s.feed(m.publish(b'a', b'm3', qos, 3 if qos else None, 0, 0, [(11, sid)]))
                out.append(s.script())
    return out


def reason_sweep_scripts(prefix, tier):
    """every value of the reason-code byte in every packet type that has one (known codes of that packet, codes of other
    packets, unassigned values), in the short and the full form"""
    out = []
    vals = range(256)
    for r in vals:
        for kind in ('connack', 'puback', 'pubrec', 'pubcomp', 'pubrel', 'suback', 'unsuback', 'disconnect', 'auth', 'authc'):
            if tier == 'quick' and kind in ('pubrel', 'authc') and r % 4:
                continue
            s = Sess(f'{prefix}-rsweep-{kind}-{r}')
            if kind == 'connack':
                s.add('SETUP')
                s.add('CONNECT cid=63')
                s.add(m.feed(m.connack(0, r)))
                out.append(s.script())
                continue
            if kind == 'authc':
                s.add('SETUP')
                s.add('CONNECT cid=63 am=6d')
                s.add(m.feed(m.auth(r, [(21, b'm')])))
                out.append(s.script())
                continue
            s.connect()
            full = [(31, b'r')] if r % 2 else None
            if kind == 'puback':
                o, p2 = s.publish(1)
                s.feed(m.ack('puback', p2, r, full))
            elif kind == 'pubrec':
                o, p2 = s.publish(2)
                s.feed(m.ack('pubrec', p2, r, full))
            elif kind == 'pubcomp':
                o, p2 = s.publish(2)
                s.feed(m.ack('pubrec', p2))
                s.feed(m.ack('pubcomp', p2, r, full))
            elif kind == 'pubrel':
                s.feed(m.publish(b'a', b'x', 2, 7))
                s.feed(m.ack('pubrel', 7, r, full))
            elif kind == 'suback':
                o, p2, sid = s.subscribe()
                s.feed(m.suback(p2, [r]))
            elif kind == 'unsuback':
                o, p2 = s.unsubscribe()
                s.feed(m.unsuback(p2, [r]))
            elif kind == 'disconnect':
                s.feed(m.disconnect(r, full) if full else m.disconnect(r, None, 'reason'))
            else:
                s.feed(m.auth(r, [(21, b'm')]))
            s.ping()
            s.feed(m.pingresp())
            out.append(s.script())
    return out


def submission_order_scripts(rng, tier, prefix):
    """three and more requests already queued when the context task takes the first (issued from clones between two polls of
    run()): the wire is the concatenation of their packets in submission order"""
    out = []
    for i in range(24 if tier == 'quick' else 400):
        s = Sess(f'{prefix}-order-{i}', rng.choice(WR_POLICIES))
        s.connect()
        for h in (1, 2):
            s.add(f'CLONE h0 h{h}')
        for _ in range(rng.choice([1, 2])):
            s.add('HOLD ctx')
            for j in range(rng.choice([3, 4, 5, 8])):
                k = rng.choice(['pub0', 'pub0', 'pub1', 'pub2', 'sub', 'unsub', 'ping'])
                h = rng.choice([0, 1, 2])
                if k.startswith('pub'):
                    s.publish(int(k[3]), h, [('p', bytes([65 + j]))], rng.choice(TOPICS))
                elif k == 'sub':
                    s.subscribe([(rng.choice(TOPICS), '1000')], h)
                elif k == 'unsub':
                    s.unsubscribe([rng.choice(TOPICS)], h)
                else:
                    s.ping(h)
            s.add('RELEASE ctx')
        out.append(s.script())
    return out


def congruent_id_scripts(prefix, tier):
    """two inbound QoS 2 exchanges whose identifiers coincide modulo a power of two: every sequence of deliveries and releases"""
    out = []
    pairs = [(3, 67), (1, 257), (5, 1029)] + ([] if tier == 'quick' else [(2, 2 + 16384), (9, 9 + 4096), (7, 7 + 32768)])
    i = 0
    for a, b in pairs:
        syms = [('P', a), ('P', b), ('R', a), ('R', b)]
        for k in range(2, 5 if tier == 'quick' else 6):
            for seq in itertools.product(syms, repeat=k):
                if seq[0][0] != 'P' or len({x[1] for x in seq if x[0] == 'P'}) < 2:
                    continue
                s = Sess(f'{prefix}-cong-{a}-{b}-{i}')
                i += 1
                s.connect()
                op, sid = s.subscribed_stream()
                for n, (t, pid) in enumerate(seq):
                    if t == 'P':
                        s.feed(m.publish(b'a', bytes([65 + n]), 2, pid, 0, 0, [(11, sid)]))
                    else:
                        s.feed(m.ack('pubrel', pid))
                out.append(s.script())
    return out


def bad_utf8_scripts(prefix):
    """ill-formed UTF-8 (a lone 0xff, an overlong form, a surrogate, a code point above U+10FFFF, a truncated sequence) and the
    null character in every string-valued field of every packet type a server can send"""
    out = []
    BAD = [b'\xff', b'\xc0\x80', b'\xed\xa0\x80', b'a\xffb', b'\xf4\x90\x80\x80', b'\xe2\x82', b'a\x00b']
    i = 0
    for bad in BAD:
        fields = {'connack': [(18, bad), (26, bad), (28, bad), (31, bad), (21, bad), (38, (bad, b'v')), (38, (b'k', bad))],
                  'publish': [(8, bad), (3, bad), (38, (bad, b'v')), (38, (b'k', bad)), 'topic'],
                  'ack': [(31, bad), (38, (bad, b'v')), (38, (b'k', bad))],
                  'disconnect': [(31, bad), (28, bad), (38, (bad, b'v')), (38, (b'k', bad))],
                  'auth': [(21, bad), (31, bad), (38, (bad, b'v')), (38, (b'k', bad))]}
        for f in fields['connack']:
            s = Sess(f'{prefix}-badutf8-connack-{i}'); i += 1
            s.add('SETUP'); s.add('CONNECT cid=63'); s.add(m.feed(m.connack(0, 0, [f])))
            out.append(s.script())
        for f in fields['auth']:
            s = Sess(f'{prefix}-badutf8-authc-{i}'); i += 1
            s.add('SETUP'); s.add('CONNECT cid=63 am=6d'); s.add(m.feed(m.auth(0x18, [f] if f[0] == 21 else [(21, b'm'), f])))
            out.append(s.script())
        for f in fields['publish']:
            for qos in (0, 1):
                s = Sess(f'{prefix}-badutf8-publish-{i}'); i += 1
                s.connect()
                op, sid = s.subscribed_stream()
                if f == 'topic':
                    s.feed(m.publish(bad, b'x', qos, 7 if qos else None, 0, 0, [(11, sid)]))
                else:
                    s.feed(m.publish(b'a', b'x', qos, 7 if qos else None, 0, 0, [(11, sid), f]))
                s.ping(); s.feed(m.pingresp())
                out.append(s.script())
        for kind in ('puback', 'pubrec', 'pubcomp', 'pubrel', 'suback', 'unsuback'):
            for f in fields['ack']:
                s = Sess(f'{prefix}-badutf8-{kind}-{i}'); i += 1
                s.connect()
                if kind == 'puback':
                    o, p2 = s.publish(1); s.feed(m.ack('puback', p2, 0x97, [f]))
                elif kind == 'pubrec':
                    o, p2 = s.publish(2); s.feed(m.ack('pubrec', p2, 0x97, [f]))
                elif kind == 'pubcomp':
                    o, p2 = s.publish(2); s.feed(m.ack('pubrec', p2)); s.feed(m.ack('pubcomp', p2, 0x92, [f]))
                elif kind == 'pubrel':
                    s.feed(m.publish(b'a', b'x', 2, 7)); s.feed(m.ack('pubrel', 7, 0x92, [f]))
                elif kind == 'suback':
                    o, p2, sid = s.subscribe(); s.feed(m.suback(p2, [0], [f]))
                else:
                    o, p2 = s.unsubscribe(); s.feed(m.unsuback(p2, [0], [f]))
                s.ping(); s.feed(m.pingresp())
                out.append(s.script())
        for f in fields['disconnect']:
            s = Sess(f'{prefix}-badutf8-disconnect-{i}'); i += 1
            s.connect(); s.publish(1); s.feed(m.disconnect(0x8b, [f]))
            out.append(s.script())
        for f in fields['auth']:
            s = Sess(f'{prefix}-badutf8-auth-{i}'); i += 1
            s.connect(); s.feed(m.auth(0x19, [f] if f[0] == 21 else [(21, b'm'), f])); s.ping(); s.feed(m.pingresp())
            out.append(s.script())
    return out


def bad_property_value_scripts(prefix):
    """a property given twice, a boolean property with the value 2, a zero where the standard forbids it, Maximum QoS 2 / 3, in
    the packet types where the property is legal"""
    out = []
    LEGAL = {'connack': [17, 33, 36, 37, 39, 18, 34, 31, 40, 41, 42, 19, 26, 28, 21, 22], 'publish': [1, 2, 35, 8, 9, 3],
             'puback': [31], 'suback': [31], 'disconnect': [17, 31, 28], 'auth': [21, 22, 31]}
    i = 0
    for kind, pids in LEGAL.items():
        for pid in pids:
            variants = [[(pid, one_prop_value(pid)), (pid, one_prop_value(pid))]]
            if m.PROP_TYPE[pid] == 'u8':
                variants += [[(pid, 2)], [(pid, 255)]]
            if pid in (33, 39, 35, 34, 19, 17, 2):
                variants += [[(pid, 0)]]
            if pid == 36:
                variants += [[(pid, 3)]]
            for ps in variants:
                s = Sess(f'{prefix}-badprop-{kind}-{pid}-{i}'); i += 1
                if kind == 'connack':
                    s.add('SETUP'); s.add('CONNECT cid=63'); s.add(m.feed(m.connack(0, 0, ps))); s.add('RUN'); s.ping(); s.feed(m.pingresp())
                    out.append(s.script())
                    continue
                s.connect()
                if kind == 'publish':
                    op, sid = s.subscribed_stream()
                    s.feed(m.publish(b'a', b'x', 1, 7, 0, 0, [(11, sid)] + ps))
                elif kind == 'puback':
                    o, p2 = s.publish(1); s.feed(m.ack('puback', p2, 0x97, ps))
                elif kind == 'suback':
                    o, p2, sid = s.subscribe(); s.feed(m.suback(p2, [0], ps))
                elif kind == 'disconnect':
                    s.feed(m.disconnect(0x8b, ps))
                else:
                    s.feed(m.auth(0x19, [(21, b'm')] + [x for x in ps if x[0] != 21] if pid != 21 else ps))
                s.ping(); s.feed(m.pingresp())
                out.append(s.script())
    return out


def fam_C04(rng, tier):
    out = []
    # (1) exhaustive short byte strings over the boundary alphabet, in both phases
    maxlen = 2 if tier == 'quick' else 3
    strs = []
    for L in range(1, maxlen + 1):
        for t in itertools.product(ALPHA, repeat=L):
            strs.append(bytes(t))
    extra = 300 if tier == 'quick' else 6000
    for _ in range(extra):
        strs.append(bytes(rng.choice(ALPHA) for _ in range(rng.choice([3, 4, 5, 6, 8]))))
    for i, b in enumerate(strs):
        phase = i % 3
        s = Sess(f'c04-bytes-{i}')
        if phase == 0:
            s.add('SETUP')
            s.add('CONNECT cid=63')
        elif phase == 1:
            s.add('SETUP')
            s.add('AUTHORIZE r=24 am=6d ad=64')
        else:
            s.connect()
            s.publish(1)
            s.ping()
        s.feed(b, [1] if len(b) > 1 and i % 2 else None)
        s.add('FEEDEOF')
        out.append(s.script())
    # (2) mutations of valid packets of every type, at every phase
    k = 0
    for pkt in valid_packets(rng):
        for kind, b in mutations(rng, pkt, tier):
            for phase in ([0, 2] if tier != 'quick' else [k % 3]):
                s = Sess(f'c04-{kind}-{k}')
                k += 1
                if phase == 0:
                    s.add('SETUP')
                    s.add('CONNECT cid=63')
                elif phase == 1:
                    s.add('SETUP')
                    s.add('AUTHORIZE r=24 am=6d ad=64')
                else:
                    s.connect()
                    s.subscribed_stream()
                    s.publish(1)
                    s.publish(2)
                s.feed(b)
                s.add('FEEDEOF' if k % 2 else 'FEEDERR')
                out.append(s.script())
    # (3) every packet type at every phase (unexpected packets), unknown identifiers
    for j, pkt in enumerate(valid_packets(rng)):
        for phase in range(3):
            s = Sess(f'c04-phase-{j}-{phase}')
            if phase == 0:
                s.add('SETUP')
                s.add('CONNECT cid=63')
            elif phase == 1:
                s.add('SETUP')
                s.add('AUTHORIZE r=24 am=6d ad=64')
            else:
                s.connect()
            s.feed(pkt)
            s.feed(m.pingresp())
            out.append(s.script())
    # (3b) correctly FRAMED packets (fixed header, remaining length and property length consistent) whose LAST property is
    # truncated from the inside: a length prefix inside the property data swallows everything up to the end of the property
    # data, leaving 0 or 1 byte for what should follow (user property: the value's length prefix; string / binary properties)
    def inner(kind, extra):
        if kind == 'userprop':          # 0x26, key length, key ... then `extra` bytes where the 2-byte value length should be
            return bytes([0x26, 0, 3]) + b'abc' + bytes(extra)
        if kind == 'userprop-val':      # complete key, value length announces more than is there
            return bytes([0x26, 0, 1]) + b'k' + bytes([0, 9]) + b'v' * extra
        if kind == 'reason-string':     # 0x1f, length announces more than is there
            return bytes([0x1f, 0, 9]) + b'r' * extra
        return bytes([0x26]) + bytes(extra)      # identifier alone, then 0 / 1 byte
    crafted = []
    for kind in ['userprop', 'userprop-val', 'reason-string', 'bare']:
        for extra in [0, 1]:
            pr = inner(kind, extra)
            pl = m.varint(len(pr)) + pr
            crafted += [
                ('publish', m.packet(0x30, m.mstr(b'a') + pl)),
                ('publish1', m.packet(0x32, m.mstr(b'a') + m.u16(5) + pl)),
                ('puback', m.packet(0x40, m.u16(1) + bytes([0]) + pl)),
                ('pubrec', m.packet(0x50, m.u16(1) + bytes([0]) + pl)),
                ('pubrel', m.packet(0x62, m.u16(1) + bytes([0]) + pl)),
                ('pubcomp', m.packet(0x70, m.u16(1) + bytes([0]) + pl)),
                ('suback', m.packet(0x90, m.u16(1) + pl)),
                ('unsuback', m.packet(0xb0, m.u16(1) + pl)),
                ('disconnect', m.packet(0xe0, bytes([0x8b]) + pl)),
                ('connack', m.packet(0x20, bytes([0, 0]) + pl)),
                ('auth', m.packet(0xf0, bytes([0x18]) + pl)),
            ]
    for j, (nm, pkt) in enumerate(crafted):
        for phase in ([0, 2] if nm in ('connack', 'auth') else [2]):
            s = Sess(f'c04-inner-{nm}-{j}-{phase}')
            if phase == 0:
                s.add('SETUP')
                s.add('CONNECT cid=63')
            else:
                s.connect()
                s.publish(1)
            s.feed(pkt)
            s.feed(m.pingresp())
            out.append(s.script())
    # (4) transport faults at every byte offset of a short session
    sess_bytes = m.connack() + m.ack('puback', 1) + m.pingresp()
    for cut in range(len(sess_bytes) + 1):
        for ev in ['FEEDEOF', 'FEEDERR']:
            s = Sess(f'c04-fault-rd-{cut}-{ev}')
            s.add('SETUP')
            s.add('CONNECT cid=63')
            first = sess_bytes[:min(cut, 5)]
            if first:
                s.feed(first)
            if cut >= 5:
                s.add('RUN')
                s.publish(1)
                s.ping()
                if sess_bytes[5:cut]:
                    s.feed(sess_bytes[5:cut])
            s.add(ev)
            if cut < 5:
                pass
            out.append(s.script())
    for lim in range(0, 40):
        for key in ['werr', 'wzero']:
            s = Sess(f'c04-fault-wr-{key}-{lim}', f'{key}={lim}' + (' wr=one' if lim % 2 else ''))
            s.connect()
            s.publish(1, fields=[('p', b'hello')])
            s.ping()
            s.feed(m.publish(b'a', b'x', 1, 3, 0, 0, []))
            out.append(s.script())
    return out


# =============================================================================================== actor walks
class Walk:
    """Weighted random walk over client operations and broker responses (conformant broker unless told otherwise)."""

    def __init__(self, rng, name, cfg=None, recv_max=None, max_pkt=None, clones=1, sei=None, weights=None,
                 allow_hold=False, allow_drop=False, allow_poll=False, nonconformant=0.0, subid_modes=None, snap=True,
                 via_auth=None, batch=0.0, coalesce=0.35, connect_opts=True, rich=0.0):
        self.rng = rng
        self.rich = rich
        self.max_pkt = max_pkt
        if rich and cfg is None and rng.random() < rich:
            # executor and transport behaviour are not the client's to choose: any mix of them
            cfg = ' '.join(x for x in [rng.choice(['', '', 'exec=sweep']), rng.choice(['', '', 'wk=fresh']), rng.choice(['', '', 'rd=fill']),
                                       rng.choice(['', '', 'rdp=1']), rng.choice(['', '', 'wr=one', 'wr=pend', 'wr=pendone']),
                                       rng.choice(['', '', 'wflush=err', 'wflush=pend']), rng.choice(['', '', 'wclose=err', 'wclose=pend'])] if x) or None
        self.s = Sess(name, cfg)
        ps = []
        self.R = recv_max if recv_max is not None else 65535
        if recv_max is not None:
            ps.append((33, recv_max))
        if max_pkt is not None:
            ps.append((39, max_pkt))
        fields = [('cid', b'c')]
        if sei is not None:
            fields.append(('sei', sei))
        if connect_opts:
            # what the client announces about ITSELF in CONNECT (its own receive maximum, maximum packet size, topic alias
            # maximum, keep alive, credentials ...) must not change anything it does afterwards
            for k, g in [('ka', lambda r: r.choice([0, 60, 65535])), ('rm', lambda r: r.choice([1, 2, 10])),
                         ('mps', lambda r: r.choice([1, 16, 40, 256])), ('tam', lambda r: r.choice([0, 5])),
                         ('rri', lambda r: r.random() < 0.5), ('rpi', lambda r: r.random() < 0.5),
                         ('cs', lambda r: r.random() < 0.5), ('un', lambda r: b'u'), ('pw', lambda r: b'p')]:
                if rng.random() < 0.25:
                    fields.append((k, g(rng)))
        if rich:
            # what else a broker may say in CONNACK (the client keeps no state for any of these)
            for pid in (18, 19, 26, 28, 31, 34, 36, 37, 40, 42):     # (41 = 0 trips the documented assertion: own family)
                if rng.random() < rich * 0.3:
                    ps.append((pid, prop_value(rng, pid)))
            if rng.random() < rich * 0.3:
                ps.append((38, (b'k', b'v')))
            rng.shuffle(ps)
        self.s.connect(fields, ps, via_auth=via_auth if via_auth is not None else rng.random() < 0.25,
                       sp=1 if rng.random() < 0.3 else 0)
        for h in range(1, clones):
            self.s.add(f'CLONE h0 h{h}')
            self.s.handles.append(h)
        self.w = dict(pub0=2, pub1=4, pub2=4, sub=2, unsub=1, ping=1, ack=8, inbound=3, pubrel=1, stream=1)
        if weights:
            self.w.update(weights)
        self.snap = snap
        self.allow_hold = allow_hold
        self.allow_drop = allow_drop
        self.allow_poll = allow_poll
        self.nonconf = nonconformant
        self.outstanding = 0            # QoS>0 publishes written and not completed
        self.inq2 = set()
        self.held = set()
        self.subid_modes = subid_modes or ['reg', 'reg', 'unreg', 'absent', 'multi']
        self.batch = batch
        self.in_batch = False
        self.coalesce = coalesce

    def h(self):
        return self.rng.choice(self.s.handles)

    def maybe_hold(self, op):
        """the application's executor is slow to poll an operation's future again after its first poll"""
        if self.rich and not self.in_batch and op in self.s.live_ops and self.rng.random() < self.rich * 0.15:
            self.s.add(f'HOLD op{op}')
            self.held.add(op)

    def late_ack(self):
        """the broker answers an operation whose future the application has dropped (it cannot know)"""
        rng, s = self.rng, self.s
        cands = [d for d in getattr(self, 'dropped', []) if d.get('pid') and not d.get('refused') and not d.get('answered')]
        if not cands:
            return False
        d = rng.choice(cands)
        pid = d['pid']
        if d['kind'] == 'publish' and d['qos'] == 1:
            s.feed(m.ack('puback', pid, rng.choice([None, 0, 0x10, 0x80])))
            d['answered'] = True
            self.outstanding -= 1
        elif d['kind'] == 'publish' and d['qos'] == 2:
            if d['phase'] == 0:
                r = rng.choice([0, 0, 0x80])
                s.feed(m.ack('pubrec', pid, r or None))
                if r >= 0x80:
                    self.outstanding -= 1
                d['answered'] = True          # (a successful PUBREC for a dropped future: known finding K1, nothing follows)
            else:
                s.feed(m.ack('pubcomp', pid))
                d['answered'] = True
                self.outstanding -= 1
        elif d['kind'] == 'subscribe':
            s.feed(m.suback(pid, [0]))
            d['answered'] = True
        elif d['kind'] == 'unsubscribe':
            s.feed(m.unsuback(pid, [0]))
            d['answered'] = True
        else:
            return False
        return True

    def pending_acks(self):
        """list of (op, kind, pid) that a conformant broker may send now"""
        out = []
        for op, d in self.s.live_ops.items():
            if d.get('refused'):
                continue
            if d['kind'] == 'publish':
                if d['qos'] == 1:
                    out.append((op, 'puback', d['pid']))
                elif d['qos'] == 2:
                    out.append((op, 'pubrec' if d['phase'] == 0 else 'pubcomp', d['pid']))
            elif d['kind'] == 'subscribe':
                out.append((op, 'suback', d['pid']))
            elif d['kind'] == 'unsubscribe':
                out.append((op, 'unsuback', d['pid']))
        pings = [op for op, d in self.s.live_ops.items() if d['kind'] == 'ping']
        if pings:
            out.append((min(pings), 'pingresp', None))
        return out

    def step(self):
        rng, s = self.rng, self.s
        if self.batch and not self.in_batch and rng.random() < self.batch:
            # several requests reach the context in ONE poll of run(): the task is held while they are issued
            opk = [k for k in ('pub0', 'pub1', 'pub2', 'sub', 'unsub', 'ping') if self.w.get(k, 0) > 0]
            if opk:
                self.in_batch = True
                s.add('HOLD ctx')
                for _ in range(rng.choice([2, 2, 3, 5])):
                    before = set(s.live_ops)
                    self.step_kind(rng.choices(opk, [self.w[x] for x in opk])[0])
                    fresh = sorted(set(s.live_ops) - before)
                    if self.allow_drop and fresh and rng.random() < 0.2:
                        # the caller gives up after its request was queued and BEFORE the context task takes it: the request
                        # is served all the same (written in full if it fits), only the outcome has nowhere to go
                        o = fresh[0]
                        s.add(f'DROP op{o}')
                        self.held.discard(o)
                        self.dropped = getattr(self, 'dropped', [])
                        self.dropped.append(s.live_ops.pop(o))
                s.add('RELEASE ctx')
                self.in_batch = False
                return
        kinds = [k for k, v in self.w.items() if v > 0]
        k = rng.choices(kinds, [self.w[x] for x in kinds])[0]
        self.step_kind(k)
        if self.snap and not self.held and rng.random() < 0.06:
            # compare the whole bookkeeping state: cancel run(), snapshot through the hook, call run() again
            s.add('DROPFUT')
            s.add('SNAP')
            s.add('RUN')
        if self.allow_poll and rng.random() < 0.2:
            tasks = ['ctx'] + [f'op{o}' for o in s.live_ops] + [f'st{o}' for o in s.streams]
            s.add('POLL ' + rng.choice(tasks))
        if self.allow_drop and rng.random() < 0.12:
            self.drop_something()

    def step_kind(self, k):
        rng, s = self.rng, self.s
        if k in ('pub0', 'pub1', 'pub2'):
            qos = int(k[3])
            f = [('p', pick_str(rng))] if rng.random() < 0.7 else []
            if self.rich and self.max_pkt is None and rng.random() < self.rich:
                f = [(k2, g(rng)) for k2, g in PUB_OPTS if rng.random() < 0.35]
                f += [('up', (pick_str(rng), pick_str(rng, True))) for _ in range(rng.choice([0, 0, 1, 2]))]
                rng.shuffle(f)
            op, pid = s.publish(qos, self.h(), f, rng.choice(TOPICS))
            if qos == 0:
                s.live_ops.pop(op)
            elif self.outstanding >= self.R:
                s.live_ops.pop(op)          # refused with QuotaExceeded, nothing written
            else:
                self.outstanding += 1
                self.maybe_hold(op)
        elif k == 'pubbig':
            # far above the announced Maximum Packet Size (walks with max_pkt use 64): refused, nothing written, no slot taken
            qos = rng.choice([0, 1, 2])
            op, pid = s.publish(qos, self.h(), [('p', bytes(100 + rng.randrange(50)))], rng.choice(TOPICS))
            s.live_ops.pop(op)       # (its packet identifier is consumed all the same: Sess.publish allocated it)
        elif k == 'sub':
            nf = rng.choice([1, 2, 3, 5]) if self.rich and self.max_pkt is None and rng.random() < self.rich else 1
            fl = [(rng.choice(TOPICS), rng.choice(['2000', '2000', '0000', '1000', '2100', '1010', '0111', '2002']) if nf > 1 else '2000')
                  for _ in range(nf)]
            up = [(b'k', b'v')] if nf > 1 and rng.random() < 0.3 else ()
            op, _, _ = s.subscribe(fl, self.h(), up)
            s.live_ops[op]['nf'] = nf
            self.maybe_hold(op)
        elif k == 'unsub':
            nf = rng.choice([1, 2, 3]) if self.rich and self.max_pkt is None and rng.random() < self.rich else 1
            op, _ = s.unsubscribe([rng.choice(TOPICS) for _ in range(nf)], self.h())
            s.live_ops[op]['nf'] = nf
            self.maybe_hold(op)
        elif k == 'ping':
            self.maybe_hold(s.ping(self.h()))
        elif k == 'release':
            if self.held:
                o = rng.choice(sorted(self.held))
                self.held.discard(o)
                s.add(f'RELEASE op{o}')
        elif k == 'ack':
            if self.allow_drop and rng.random() < 0.35 and self.late_ack():
                return
            pa = self.pending_acks()
            if not pa:
                return
            op, kind, pid = rng.choice(pa)
            self.ack(op, kind, pid)
        elif k == 'inbound':
            self.inbound()
        elif k == 'pubrel':
            pid = rng.choice(sorted(self.inq2)) if self.inq2 and rng.random() < 0.8 else rng.choice([1, 2, 3, 256, 65535])
            self.inq2.discard(pid)
            # every form of PUBREL releases the identifier: short, with reason 0x00 / 0x92, with properties
            form = rng.choice(['id', 'id', 'r0', 'r92', 'full0', 'full92'])
            s.feed(m.ack('pubrel', pid, None if form == 'id' else (0x92 if '92' in form else 0),
                         rand_props(rng, [31], p=0.5) if form.startswith('full') else None))
        elif k == 'stream':
            cands = sorted(s.rsps)
            if cands:
                op = rng.choice(cands)
                s.rsps.discard(op)
                s.streams.add(op)
                s.add(f'STREAM {op}')

    def ack(self, op, kind, pid, reason=None):
        rng, s = self.rng, self.s
        d = s.live_ops[op]
        full = lambda: rand_props(rng, [31], p=0.5) if rng.random() < 0.3 else None      # noqa: E731
        if kind == 'puback':
            r = reason if reason is not None else rng.choice(m.PUBACK_REASONS if rng.random() < 0.4 else [0])
            fp = full()
            s.feed(m.ack('puback', pid, r if r or fp is not None or rng.random() < 0.5 else None, fp))
            s.live_ops.pop(op)
            self.outstanding -= 1
        elif kind == 'pubrec':
            r = reason if reason is not None else rng.choice(m.PUBREC_REASONS if rng.random() < 0.4 else [0])
            fp = full()
            s.feed(m.ack('pubrec', pid, r if r or fp is not None or rng.random() < 0.5 else None, fp))
            if r >= 0x80:
                s.live_ops.pop(op)
                self.outstanding -= 1
            else:
                d['phase'] = 1
        elif kind == 'pubcomp':
            r = reason if reason is not None else rng.choice(m.PUBCOMP_REASONS if rng.random() < 0.3 else [0])
            fp = full()
            s.feed(m.ack('pubcomp', pid, r if r or fp is not None or rng.random() < 0.5 else None, fp))
            s.live_ops.pop(op)
            self.outstanding -= 1
        elif kind == 'suback':
            nr = d.get('nf', 1)
            if self.rich and rng.random() < 0.1 * self.rich:
                nr = max(1, nr + rng.choice([-1, 1, 2]))        # a broker answering with fewer / more reason codes than filters
            s.feed(m.suback(pid, [rng.choice([0, 1, 2, 0x80, 0x87, 0x97]) for _ in range(nr)], rand_props(rng, [31], p=0.3)))
            s.live_ops.pop(op)
            s.rsps.add(op)
        elif kind == 'unsuback':
            nr = d.get('nf', 1)
            if self.rich and rng.random() < 0.1 * self.rich:
                nr = max(1, nr + rng.choice([-1, 1, 2]))
            s.feed(m.unsuback(pid, [rng.choice(m.UNSUBACK_REASONS) for _ in range(nr)], rand_props(rng, [31], p=0.3)))
            s.live_ops.pop(op)
        elif kind == 'pingresp':
            s.feed(m.pingresp())
            s.live_ops.pop(op)

    def inbound(self):
        rng, s = self.rng, self.s
        qos = rng.choice([0, 1, 2])
        pid = rng.choice([1, 2, 3, 1, 2, 3, 255, 256, 65534, 65535]) if qos else None
        # inbound and outbound identifiers are separate number spaces: make them collide on purpose
        live = sorted({d['pid'] for d in s.live_ops.values() if d.get('pid')})
        if qos and live and rng.random() < 0.5:
            pid = rng.choice(live)
        mode = rng.choice(self.subid_modes)
        ps = []
        if mode == 'reg' and s.subs:
            ps = [(11, rng.choice(sorted(s.subs.values())))]
        elif mode == 'multi' and len(s.subs) >= 2:
            ps = [(11, x) for x in rng.sample(sorted(s.subs.values()), 2)]
        elif mode == 'unreg':
            ps = [(11, 9999)]
        dup = rng.choice([0, 1]) if qos else 0
        if self.rich and rng.random() < self.rich:
            ps = ps + rand_props(rng, [1, 2, 3, 8, 9], p=0.35)
            rng.shuffle(ps)
        if qos == 2:
            self.inq2.add(pid)
        s.feed(m.publish(rng.choice(TOPICS), pick_str(rng), qos, pid, dup, rng.choice([0, 1]), ps))

    def drop_something(self):
        rng, s = self.rng, self.s
        cands = [('op', o) for o in s.live_ops] + [('st', o) for o in s.streams] + [('rsp', o) for o in s.rsps]
        if not cands:
            return
        kind, o = rng.choice(cands)
        s.add(f'DROP {kind}{o}')
        if kind == 'op':
            self.held.discard(o)
            d = s.live_ops.pop(o)
            if d['kind'] == 'subscribe':
                pass
            # a dropped QoS>0 publish still occupies its slot until the broker acknowledges it
            self.dropped = getattr(self, 'dropped', [])
            self.dropped.append(d)
        elif kind == 'st':
            s.streams.discard(o)
        else:
            s.rsps.discard(o)

    def run(self, n):
        for _ in range(n):
            self.step()
        for o in sorted(self.held):
            self.s.add(f'RELEASE op{o}')
        self.held.clear()
        sc = coalesce_feeds(self.rng, self.s.script(), self.coalesce)
        return cut_feeds(self.rng, sc, 0.15 * self.rich) if self.rich else sc


def coalesce_feeds(rng, script, p):
    """several packets delivered by ONE transport read: adjacent FEED lines (no explicit cuts) are merged with probability p"""
    name, lines = script
    if not p:
        return script
    out = []
    for l in lines:
        # (a PUBCOMP is never put into the read that carries its PUBREC: a conformant broker sends it after the PUBREL)
        if (out and l.startswith('FEED ') and out[-1].startswith('FEED ') and 'cuts=' not in l and 'cuts=' not in out[-1]
                and not l.startswith('FEED 7') and rng.random() < p):
            out[-1] = out[-1] + l[5:]
        else:
            out.append(l)
    return (name, out)


def cut_feeds(rng, script, p):
    """a transport read ends wherever it likes: FEED lines (after the handshake) are delivered in pieces with probability p"""
    name, lines = script
    out = []
    seen_run = False
    for l in lines:
        if l == 'RUN':
            seen_run = True
        if seen_run and l.startswith('FEED ') and 'cuts=' not in l and rng.random() < p:
            n = (len(l) - 5) // 2
            if n >= 2:
                k = rng.choice([1, 1, 2, 3, n - 1])
                cuts = sorted(rng.sample(range(1, n), min(k, n - 1)))
                l = l + ' cuts=' + ','.join(map(str, cuts))
        out.append(l)
    return (name, out)


DEPTH = max(1, int(os.environ.get('VERIF_DEPTH', '3')))     # thorough tier: multiplier for the number of random walks


def fam_walk(rng, tier, prefix, n_scripts, n_steps, **kw):
    out = []
    if tier != 'quick':
        n_scripts *= DEPTH
    for i in range(n_scripts):
        w = Walk(rng, f'{prefix}-{i}', **{k: (v(rng) if callable(v) else v) for k, v in kw.items()})
        out.append(w.run(n_steps(rng) if callable(n_steps) else n_steps))
    return out


def fam_common(rng, tier, prefix, n_quick=30, n_thorough=800, hold=True, tail=None):
    """kitchen-sink walks: every cross-cutting feature at once (clones, small Receive Maximum, a size limit with oversized
    publishes, cancelled operations, spurious polls, batched requests, several packets per read, both handshakes, client-side
    CONNECT options, every acknowledgement form, inbound/outbound identifier collisions, several subscription identifiers per
    message). Each property's check runs such walks under its own oracle and the correspondence comparison."""
    out = []
    for i in range(n_quick if tier == 'quick' else n_thorough * DEPTH):
        mp = rng.choice([None, None, 64])
        wts = dict(pub0=2, pub1=4, pub2=4, sub=2, unsub=1, ping=1, ack=9, inbound=5, pubrel=2, stream=2, pubbig=2 if mp else 0,
                   release=1)
        w = Walk(rng, f'{prefix}-common-{i}', recv_max=rng.choice([None, None, 1, 2, 5]), max_pkt=mp,
                 clones=rng.choice([1, 2, 3]), sei=rng.choice([None, 0, 100]), weights=wts,
                 allow_drop=rng.random() < 0.5, allow_poll=rng.random() < 0.3, batch=0.15 if hold else 0.0,
                 rich=rng.choice([0.0, 0.3, 0.7]))
        sc = w.run(rng.choice([15, 40, 90]))
        if tail:
            sc = (sc[0], sc[1] + tail)
        out.append(sc)
    # deterministic companions: a message for several subscriptions of which some streams / responses are gone
    for qos in (0, 1, 2):
        for gone in ('first', 'last', 'middle', 'all', 'rsp'):
            s = Sess(f'{prefix}-common-multigone-{qos}-{gone}')
            s.connect()
            subs = []
            for j in range(3):
                op, pid, sid = s.subscribe([(b'a', '2000')])
                s.feed(m.suback(pid, [0]))
                s.live_ops.pop(op, None)
                subs.append((op, sid))
            for j, (op, sid) in enumerate(subs):
                if gone == 'rsp' and j == 0:
                    s.add(f'DROP rsp{op}')
                    continue
                s.add(f'STREAM {op}')
                if (gone, j) in (('first', 0), ('last', 2), ('middle', 1)) or gone == 'all':
                    s.add(f'DROP st{op}')
            ids = [sid for _, sid in subs]
            s.feed(m.publish(b'a', b'to-all', qos, 11 if qos else None, 0, 0, [(11, x) for x in ids]))
            s.feed(m.publish(b'a', b'reversed', qos, 12 if qos else None, 0, 0, [(11, x) for x in ids[::-1]]))
            if qos == 2:
                s.feed(m.ack('pubrel', 11))
                s.feed(m.ack('pubrel', 12))
            s.ping()
            s.feed(m.pingresp())
            if tail:
                for l in tail:
                    s.add(l)
            out.append(s.script())
    return out


def fam_C05(rng, tier):
    q = tier == 'quick'
    out = fam_walk(rng, tier, 'c05-walk', 60 if q else 1500, lambda r: r.choice([10, 30, 80]),
                   clones=lambda r: r.choice([1, 2, 3]), weights=dict(inbound=0, pubrel=0, stream=0),
                   allow_poll=True)
    out += coincide_scripts('c05')
    out += fam_walk(rng, tier, 'c05-batch', 30 if q else 800, lambda r: r.choice([20, 60]),
                    clones=lambda r: r.choice([1, 2, 3]), weights=dict(inbound=0, pubrel=0, stream=0), batch=0.25)
    # many operations outstanding at once (queued in one poll of run()), acknowledged in a chosen order: the waiter queues
    # are long, and the acknowledged entry sits at the front, the back, or in the middle
    for n in ([3, 4, 9, 17, 33] if q else [3, 4, 5, 8, 9, 16, 17, 32, 33, 64, 65, 129]):
        for order in ['fwd', 'rev', 'mid', 'rnd']:
            for mix in ['pub1', 'mixed']:
                s = Sess(f'c05-many-{n}-{order}-{mix}')
                s.connect()
                s.add('HOLD ctx')
                ops = []
                for j in range(n):
                    kind = 'pub1' if mix == 'pub1' else ['pub1', 'pub2', 'sub', 'unsub', 'ping'][j % 5]
                    if kind == 'pub1':
                        o, p = s.publish(1); ops.append((o, 'puback', p))
                    elif kind == 'pub2':
                        o, p = s.publish(2); ops.append((o, 'pubrec', p))
                    elif kind == 'sub':
                        o, p, sid = s.subscribe(); ops.append((o, 'suback', p))
                    elif kind == 'unsub':
                        o, p = s.unsubscribe(); ops.append((o, 'unsuback', p))
                    else:
                        o = s.ping(); ops.append((o, 'pingresp', None))
                s.add('RELEASE ctx')
                idx = list(range(n))
                if order == 'rev':
                    idx.reverse()
                elif order == 'mid':
                    idx = idx[n // 2:] + idx[:n // 2]
                elif order == 'rnd':
                    rng.shuffle(idx)
                pings = [o for o, k2, _ in ops if k2 == 'pingresp']
                for j in idx:
                    o, kind, p = ops[j]
                    if kind == 'puback':
                        s.feed(m.ack('puback', p))
                    elif kind == 'pubrec':
                        s.feed(m.ack('pubrec', p))
                        s.feed(m.ack('pubcomp', p))
                    elif kind == 'suback':
                        s.feed(m.suback(p, [0]))
                    elif kind == 'unsuback':
                        s.feed(m.unsuback(p, [0]))
                    else:
                        s.feed(m.pingresp())
                out.append(s.script())
    # an old operation stays outstanding while `gap` others complete; then one whose identifier is `gap` higher is
    # acknowledged FIRST, with an error only it may see (identifiers congruent modulo 256 for gap = 256, ...)
    for gap in ([256] if q else [128, 255, 256, 257, 512, 4096]):
        for kind in ['pub1', 'pub2', 'sub', 'unsub']:
            s = Sess(f'c05-alias-{gap}-{kind}')
            s.connect()

            def issue():
                if kind == 'pub1':
                    o, p = s.publish(1); return o, 'puback', p
                if kind == 'pub2':
                    o, p = s.publish(2); return o, 'pubrec', p
                if kind == 'sub':
                    o, p, _ = s.subscribe(); return o, 'suback', p
                o, p = s.unsubscribe(); return o, 'unsuback', p

            def answer(x, bad=False):
                o, k2, p = x
                if k2 == 'puback':
                    s.feed(m.ack('puback', p, 0x97 if bad else 0, [(31, b'for-' + str(p).encode())] if bad else None))
                elif k2 == 'pubrec':
                    s.feed(m.ack('pubrec', p, 0x97 if bad else 0, [(31, b'for-' + str(p).encode())] if bad else None))
                    if not bad:
                        s.feed(m.ack('pubcomp', p))
                elif k2 == 'suback':
                    s.feed(m.suback(p, [0x80 if bad else 0], [(31, b'for-' + str(p).encode())]))
                else:
                    s.feed(m.unsuback(p, [0x80 if bad else 0], [(31, b'for-' + str(p).encode())]))
            old_op = issue()
            for _ in range(gap - 1):
                o, p = s.publish(1)
                s.feed(m.ack('puback', p))
            young = issue()
            answer(young, bad=True)
            answer(old_op)
            out.append(s.script())
    # the identifier counter wraps (65535 allocations): the operations around the wrap are outstanding together and the younger
    # ones are acknowledged first, each with an error only it may see
    for kind in (['pub1'] if q else ['pub1', 'pub2', 'sub', 'unsub']):
        s = Sess(f'c05-wrap-{kind}')
        s.connect()
        s.add('CLONE h0 h1')
        for _ in range(65530):
            o, p = s.publish(1)
            s.feed(m.ack('puback', p))
            s.live_ops.pop(o, None)
        pend = []
        for j in range(9):
            if kind == 'pub1':
                o, p = s.publish(1, j % 2); pend.append((o, 'puback', p))
            elif kind == 'pub2':
                o, p = s.publish(2, j % 2); pend.append((o, 'pubrec', p))
            elif kind == 'sub':
                o, p, _ = s.subscribe(h=j % 2); pend.append((o, 'suback', p))
            else:
                o, p = s.unsubscribe(h=j % 2); pend.append((o, 'unsuback', p))
        for o, k2, p in reversed(pend):
            tag = [(31, b'for-' + str(o).encode())]
            if k2 == 'puback':
                s.feed(m.ack('puback', p, 0x97, tag))
            elif k2 == 'pubrec':
                s.feed(m.ack('pubrec', p, 0x97, tag))
            elif k2 == 'suback':
                s.feed(m.suback(p, [0x80], tag))
            else:
                s.feed(m.unsuback(p, [0x80], tag))
        out.append(s.script())
    # exhaustive: every acknowledgement order for a fixed set of concurrent operations
    base = [('pub1', None), ('pub2', None), ('sub', None), ('unsub', None), ('ping', None), ('ping', None)]
    perms = list(itertools.permutations(range(5)))
    if q:
        perms = perms[::4]
    for i, perm in enumerate(perms):
        s = Sess(f'c05-perm-{i}')
        s.connect()
        s.add('CLONE h0 h1')
        ops = []
        o, p = s.publish(1, 0)
        ops.append((o, 'puback', p))
        o, p = s.publish(2, 1)
        ops.append((o, 'pubrec', p))
        o, p, sid = s.subscribe(h=1)
        ops.append((o, 'suback', p))
        o, p = s.unsubscribe(h=0)
        ops.append((o, 'unsuback', p))
        o1 = s.ping(0)
        o2 = s.ping(1)
        ops.append((o1, 'pingresp', None))
        for j in perm:
            o, kind, p = ops[j]
            if kind == 'puback':
                s.feed(m.ack('puback', p, 0x10, [(31, b'nm'), (38, (b'k', b'v'))]))
            elif kind == 'pubrec':
                s.feed(m.ack('pubrec', p))
                s.feed(m.ack('pubcomp', p, 0, [(31, b'done')]))
            elif kind == 'suback':
                s.feed(m.suback(p, [1], [(31, b'sub')]))
            elif kind == 'unsuback':
                s.feed(m.unsuback(p, [0x11], [(38, (b'u', b'v'))]))
            else:
                s.feed(m.pingresp())
        s.feed(m.pingresp())
        sc = s.script()
        out.append(sc)
        # the same acknowledgements all in ONE transport read, and two per read
        name, lines = sc
        k0 = max(j for j, l in enumerate(lines) if l.startswith('OP ')) + 1
        feeds = [l[5:] for l in lines[k0:] if l.startswith('FEED ')]
        def grouped(size):
            gs = []
            for f in feeds:
                if gs and len(gs[-1]) < size and not f.startswith('7'):     # the PUBCOMP comes after the PUBREL: own read
                    gs[-1].append(f)
                else:
                    gs.append([f])
            return ['FEED ' + ''.join(g) for g in gs]
        out.append((name + '-one', lines[:k0] + grouped(99)))
        out.append((name + '-pairs', lines[:k0] + grouped(2)))
    return out


def fam_C06(rng, tier):
    out = []
    i = 0
    for qos in [0, 1, 2]:
        reasons1 = [None] if qos == 0 else (m.PUBACK_REASONS if qos == 1 else m.PUBREC_REASONS)
        for r1 in reasons1:
            reasons2 = m.PUBCOMP_REASONS if (qos == 2 and r1 < 0x80) else [None]
            for r2 in reasons2:
                for hold in [False, True]:
                    if hold and qos != 2:
                        continue
                    s = Sess(f'c06-{i}')
                    i += 1
                    s.connect()
                    op, pid = s.publish(qos, fields=[('r', bool(i % 2)), ('p', b'data')], topic=b't/1')
                    op2, pid2 = s.publish(1)           # an unrelated concurrent publish
                    if qos == 1:
                        s.feed(m.ack('puback', pid, r1, [(31, b'why')] if r1 else None))
                    if qos == 2:
                        if hold:
                            s.add(f'HOLD op{op}')
                        s.feed(m.ack('pubrec', pid, r1, [] if r1 else None))
                        if hold:
                            s.ping()
                            s.feed(m.pingresp())
                            s.add(f'RELEASE op{op}')
                            s.add(f'POLL op{op}')
                        if r1 < 0x80:
                            s.feed(m.ack('pubcomp', pid, r2, [(38, (b'a', b'b'))] if r2 else None))
                        else:
                            s.feed(m.pingresp())
                    s.feed(m.ack('puback', pid2))
                    out.append(s.script())
    out += fam_walk(rng, tier, 'c06-walk', 40 if tier == 'quick' else 1000, lambda r: r.choice([20, 60]),
                    weights=dict(sub=0, unsub=0, ping=1, inbound=0, pubrel=0, stream=0), allow_poll=True, batch=0.15)
    # "QoS 0 completes once written": the write of the PUBLISH fails at every offset / is accepted slowly
    for qos in [0, 1, 2]:
        for cfg in ['werr=%d' % k for k in range(16, 28)] + ['wr=one', 'wr=pend', 'wr=pendone', 'wzero=20']:
            s = Sess(f'c06-w-{qos}-{cfg}', cfg)
            s.connect()                                  # CONNECT is 16 bytes; the PUBLISH below 9..11 bytes
            op, pid = s.publish(qos, fields=[('p', b'xy')], topic=b'a')
            s.publish(0, fields=[('p', b'z')], topic=b'a')
            out.append(s.script())
    # the send quota is EXACTLY used up when the PUBREL of a QoS 2 exchange is submitted (Receive Maximum 1; or other
    # publishes take the remaining slots between the PUBREC and the delayed poll of the QoS 2 future)
    for R in [1, 2, 3]:
        for delayed in [False, True]:
            for r1 in [0, 0x10]:
                s = Sess(f'c06-r{R}-{int(delayed)}-{r1}')
                s.connect(connack_ps=[(33, R)])
                op, pid = s.publish(2, fields=[('p', b'q2')], topic=b't/1')
                if delayed:
                    s.add(f'HOLD op{op}')
                s.feed(m.ack('pubrec', pid, r1 or None))
                others = [s.publish(1) for _ in range(R - 1)]          # fill the remaining slots
                s.publish(1)                                            # refused for the quota
                if delayed:
                    s.add(f'RELEASE op{op}')
                s.feed(m.ack('pubcomp', pid))
                for o, p2 in others:
                    s.feed(m.ack('puback', p2))
                s.publish(2)
                out.append(s.script())
    out += fam_walk(rng, tier, 'c06-smallR', 25 if tier == 'quick' else 600, lambda r: r.choice([20, 60]),
                    recv_max=lambda r: r.choice([1, 1, 2, 3]),
                    weights=dict(pub0=1, pub1=3, pub2=7, sub=0, unsub=0, ping=1, ack=9, inbound=0, pubrel=0, stream=0),
                    allow_poll=True, batch=0.1)
    # two exchanges open whose identifiers differ only above the low byte / by a multiple of 256 that lands on the packet-type
    # bits of a packed key (round 10, C06-j: key = type << 16 | id << 8): an old QoS 2 publish awaiting PUBREC / PUBCOMP and
    # old QoS 1 publishes stay open while the counter moves on by 256, 512, 1024 ...; every acknowledgement must complete
    # its own publish, with its own reason
    for dist in ([256, 1024] if tier == 'quick' else [256, 512, 768, 1024, 2048, 4096, 16384]):
        s = Sess(f'c06-keys-{dist}')
        s.connect()
        oa, pa = s.publish(2)                 # awaits PUBREC
        ob, pb = s.publish(1)                 # awaits PUBACK
        oc, pc = s.publish(2)
        s.feed(m.ack('pubrec', pc))           # awaits PUBCOMP
        while s.pid < pa + dist:
            o, p_ = s.publish(1)
            s.feed(m.ack('puback', p_))
            s.live_ops.pop(o, None)
        na, qa = s.publish(1)                 # qa = pa + dist
        nb, qb = s.publish(1)                 # qb = pb + dist
        nc, qc = s.publish(2)                 # qc = pc + dist
        s.feed(m.ack('puback', qa, 0x87))
        s.feed(m.ack('puback', qb, 0x10))
        s.feed(m.ack('pubrec', qc))
        s.feed(m.ack('pubcomp', qc, 0x92))
        s.feed(m.ack('pubrec', pa))
        s.feed(m.ack('pubcomp', pa))
        s.feed(m.ack('puback', pb))
        s.feed(m.ack('pubcomp', pc))
        out.append(s.script())
    return out


def fam_C07(rng, tier):
    out = fam_walk(rng, tier, 'c07-walk', 80 if tier == 'quick' else 2000, lambda r: r.choice([20, 50, 100]),
                   weights=dict(pub0=0, pub1=0, pub2=0, sub=4, unsub=2, ping=0, ack=5, inbound=10, pubrel=0, stream=4),
                   subid_modes=['reg', 'reg', 'reg', 'multi', 'unreg', 'absent'], allow_drop=True, allow_poll=True)
    # messages between SUBSCRIBE and SUBACK / before stream()
    for i in range(8):
        s = Sess(f'c07-early-{i}')
        s.connect()
        op, pid, sid = s.subscribe()
        op2, pid2, sid2 = s.subscribe([(b'b', '1000')])
        s.feed(m.publish(b'a', b'before-suback', i % 3, 4 if i % 3 else None, 0, 0, [(11, sid)]))
        s.feed(m.publish(b'b', b'both', 0, None, 0, 0, [(11, sid), (11, sid2)]))
        s.feed(m.suback(pid, [0]))
        s.feed(m.publish(b'a', b'before-stream', 0, None, 0, 0, [(11, sid)]))
        if i & 1:
            s.unsubscribe([b'a'])
        s.add(f'STREAM {op}')
        s.feed(m.publish(b'a', b'after-stream', 0, None, 0, 0, [(11, sid)]))
        s.feed(m.suback(pid2, [1]))
        if i & 2:
            s.add(f'DROP rsp{op2}')
        else:
            s.add(f'STREAM {op2}')
        s.feed(m.publish(b'b', b'again', 0, None, 0, 0, [(11, sid2), (11, sid)]))
        if i & 4:
            s.add('DROPCTX')
        out.append(s.script())
    out += burst_scripts('c07', tier)
    return out


def burst_scripts(prefix, tier):
    """a backlog of N messages in one stream, forwarded by the context before the consumer is polled (one read holding N
    PUBLISH packets), consumed back to back; then two more messages one at a time. N around powers of two and small counts."""
    out = []
    ns = [2, 3, 7, 8, 9, 15, 16, 17, 18, 31, 32, 33, 34, 63, 64, 65, 66, 100, 127, 128, 129, 130, 131, 200, 300]
    if tier != 'quick':
        ns += [127, 128, 129, 255, 256, 257, 300, 511, 512, 513, 1023, 1024, 1025, 1100]
    for n in ns:
        for qos in ([0] if tier == 'quick' and n > 40 else [0, 1]):
          for late in ([False, True] if n in (66, 130, 300) else [False]):
            s = Sess(f'{prefix}-burst-{n}-q{qos}' + ('-late' if late else ''))
            s.connect()
            if late:
                # the backlog builds up before the application even calls stream() — and while it waits for a ping
                op, pid0, sid = s.subscribe()
                s.feed(m.suback(pid0, [0]))
                s.live_ops.pop(op, None)
                s.ping()
            else:
                op, sid = s.subscribed_stream()
            data = b''.join(m.publish(b'a', bytes([j % 256, j // 256]), qos, (j % 60000) + 1 if qos else None, 0, 0, [(11, sid)])
                            for j in range(n))
            s.feed(data)
            if late:
                s.feed(m.pingresp())
                s.add(f'STREAM {op}')
            s.feed(m.publish(b'a', b'tail1', 0, None, 0, 0, [(11, sid)]))
            s.feed(m.publish(b'a', b'tail2', 0, None, 0, 0, [(11, sid)]))
            out.append(s.script())
    return out


def fam_C08(rng, tier):
    out = []
    # a PUBLISH by topic alias: zero-length topic name plus the Topic Alias property (the client announced a Topic Alias
    # Maximum); it is acknowledged like any other
    s = Sess('c08-alias')
    s.connect([('cid', b'c'), ('tam', 5)])
    st, sid = s.subscribed_stream()
    s.feed(m.publish(b'a', b'with-name', 1, 10, 0, 0, [(35, 1), (11, sid)]))
    s.feed(m.publish(b'', b'by-alias-1', 1, 11, 0, 0, [(35, 1), (11, sid)]))
    s.feed(m.publish(b'', b'by-alias-2', 2, 12, 0, 0, [(35, 1)]))
    s.feed(m.publish(b'', b'by-alias-0', 0, None, 0, 0, [(35, 1), (11, sid)]))
    s.feed(m.ack('pubrel', 12))
    out.append(s.script())
    for M in [1, 2, 3, 4, 5]:
        s = Sess(f'c08-tinymax-{M}')
        s.connect(connack_ps=[(39, M)])
        s.feed(m.publish(b'a', b'x', 1, 7, 0, 0, []))
        s.feed(m.publish(b'a', b'y', 0, None, 0, 0, []))
        s.feed(m.publish(b'a', b'z', 2, 9, 0, 0, []))
        s.feed(m.publish(b'a', b'x', 1, 7, 1, 0, []))
        s.feed(m.ack('pubrel', 9))
        s.feed(m.publish(b'a', b'w', 1, 65535, 0, 0, []))
        out.append(s.script())
    return out + fam_walk(rng, tier, 'c08-walk', 80 if tier == 'quick' else 2500, lambda r: r.choice([15, 40, 100]),
                    weights=dict(pub0=1, pub1=1, pub2=1, sub=2, unsub=0, ping=1, ack=3, inbound=12, pubrel=5, stream=2),
                    subid_modes=['reg', 'unreg', 'absent', 'absent', 'multi'], allow_drop=True, batch=0.08)


def fam_C09(rng, tier):
    out = []
    # ('R', pid, f): PUBREL in form f — 0 short, 1 with reason 0x00, 2 with reason 0x92, 3 with reason 0x92 and properties
    syms = [('P', 1, 0), ('P', 1, 1), ('P', 2, 0), ('P', 2, 1), ('R', 1, 0), ('R', 2, 0), ('R', 1, 2), ('R', 1, 3)]
    if tier != 'quick':
        syms += [('R', 1, 1), ('R', 2, 2)]
    L = 3 if tier == 'quick' else 4
    i = 0
    for k in range(1, L + 1):
        for seq in itertools.product(syms, repeat=k):
            s = Sess(f'c09-seq-{i}')
            i += 1
            s.connect()
            op, sid = s.subscribed_stream()
            for n, (t, pid, dup) in enumerate(seq):
                if t == 'P':
                    s.feed(m.publish(b'a', bytes([65 + n]), 2, pid, dup, 0, [(11, sid)]))
                else:
                    s.feed(m.ack('pubrel', pid, [None, 0, 0x92, 0x92][dup], [(31, b'gone')] if dup == 3 else None))
            out.append(s.script())
    # the same with the largest packet identifier
    big = [('P', 65535, 0), ('P', 65535, 1), ('R', 65535, 0), ('P', 65534, 0)]
    for k in range(1, 5):
        for seq in itertools.product(big, repeat=k):
            if seq[0][0] != 'P':
                continue
            s = Sess(f'c09-maxid-{i}')
            i += 1
            s.connect()
            op, sid = s.subscribed_stream()
            for n, (t, pid, dup) in enumerate(seq):
                if t == 'P':
                    s.feed(m.publish(b'a', bytes([65 + n]), 2, pid, dup, 0, [(11, sid)]))
                else:
                    s.feed(m.ack('pubrel', pid))
            out.append(s.script())
    out += fam_walk(rng, tier, 'c09-walk', 30 if tier == 'quick' else 1000, 60,
                    weights=dict(pub0=0, pub1=1, pub2=0, sub=2, unsub=0, ping=0, ack=3, inbound=10, pubrel=6, stream=3),
                    subid_modes=['reg'], recv_max=lambda r: r.choice([None, None, 1, 2]))
    # an inbound QoS 2 exchange open when the connection is lost; the same Context connects again (session kept: no expiry was
    # recorded) and the broker re-delivers before its PUBREL: not yielded again
    for how in ('eof', 'err', 'sdisc', 'dropfut'):
        for dup in (0, 1):
            s = Sess(f'c09-reconnect-{how}-{dup}')
            s.connect()
            op, sid = s.subscribed_stream()
            s.feed(m.publish(b'a', b'first', 2, 7, 0, 0, [(11, sid)]))
            s.feed(m.publish(b'a', b'other', 2, 8, 0, 0, [(11, sid)]))
            s.feed(m.ack('pubrel', 8))
            if how == 'eof':
                s.add('FEEDEOF')
            elif how == 'err':
                s.add('FEEDERR')
            elif how == 'sdisc':
                s.feed(m.disconnect(0x8b))
            else:
                s.add('DROPFUT')
            s.add('SETUP')
            s.add('CONNECT cid=63')
            s.feed(m.connack(1, 0, []))
            s.add('RUN')
            s.feed(m.publish(b'a', b'first', 2, 7, dup, 0, [(11, sid)]))
            s.feed(m.publish(b'a', b'other-again', 2, 8, 0, 0, [(11, sid)]))
            s.feed(m.ack('pubrel', 7))
            s.feed(m.publish(b'a', b'new', 2, 7, 0, 0, [(11, sid)]))
            out.append(s.script())
    # MANY inbound QoS 2 exchanges open at once (the Receive Maximum of the CONNACK limits what the CLIENT may send, never what
    # it remembers about the broker's messages): n deliveries, every one re-delivered, all released, delivered again
    for n in ([3, 5, 40] if tier == 'quick' else [2, 3, 5, 17, 40, 300, 1000]):
        for rm in (None, 1, 2):
            for order in ('fwd', 'rev'):
                s = Sess(f'c09-many-{n}-{rm}-{order}')
                s.connect(connack_ps=[(33, rm)] if rm else [])
                op, sid = s.subscribed_stream()
                ids = list(range(1, n + 1))
                for p2 in ids:
                    s.feed(m.publish(b'a', b'first', 2, p2, 0, 0, [(11, sid)]))
                for p2 in (ids if order == 'fwd' else ids[::-1]):
                    s.feed(m.publish(b'a', b'again', 2, p2, 1, 0, [(11, sid)]))
                for p2 in (ids if order == 'fwd' else ids[::-1]):
                    s.feed(m.ack('pubrel', p2))
                for p2 in ids[:3]:
                    s.feed(m.publish(b'a', b'new', 2, p2, 0, 0, [(11, sid)]))
                out.append(s.script())
    # other traffic with the SAME identifier numbers in the opposite direction (outbound QoS 1/2 exchanges and their
    # acknowledgements) interleaved with deliveries, re-deliveries and releases: the SUBSCRIBE takes identifier 1, so the
    # outbound publishes get 2, 3, ... and the inbound messages use 2 and 3
    syms2 = [('P', 2, 0), ('P', 2, 1), ('R', 2, 0), ('O', 2, 0), ('K', 0, 0)] + ([] if tier == 'quick' else [('O', 1, 0)])
    L2 = 5 if tier == 'quick' else 6
    for k in range(2, L2 + 1):
        for seq in itertools.product(syms2, repeat=k):
            kinds = {t for t, _, _ in seq}
            if 'P' not in kinds or 'O' not in kinds or 'K' not in kinds:
                continue
            s = Sess(f'c09-x-{i}')
            i += 1
            s.connect()
            op, sid = s.subscribed_stream()
            pend = []           # outbound exchanges: [op, pid, qos, phase]
            for n, (t, a, b) in enumerate(seq):
                if t == 'P':
                    s.feed(m.publish(b'a', bytes([65 + n]), 2, a, b, 0, [(11, sid)]))
                elif t == 'R':
                    s.feed(m.ack('pubrel', a))
                elif t == 'O':
                    o, pid = s.publish(a, 0, [], b'a')
                    pend.append([o, pid, a, 0])
                elif pend:
                    e = pend[0]
                    if e[2] == 1:
                        s.feed(m.ack('puback', e[1])); pend.pop(0)
                    elif e[3] == 0:
                        s.feed(m.ack('pubrec', e[1])); e[3] = 1
                    else:
                        s.feed(m.ack('pubcomp', e[1])); pend.pop(0)
            out.append(s.script())
    # a QoS 2 message for two subscriptions, one of whose streams was dropped, re-delivered before its PUBREL
    for order in [0, 1]:
        for dropped in ['stream', 'rsp', 'none']:
            for dup in [0, 1]:
                s = Sess(f'c09-sibling-{order}-{dropped}-{dup}')
                s.connect()
                op1, sid1 = s.subscribed_stream()
                op2, pid2, sid2 = s.subscribe([(b'a/#', '2000')])
                s.feed(m.suback(pid2, [0]))
                s.live_ops.pop(op2, None)
                if dropped == 'stream':
                    s.add(f'STREAM {op2}')
                    s.add(f'DROP st{op2}')
                elif dropped == 'rsp':
                    s.add(f'DROP rsp{op2}')
                else:
                    s.add(f'STREAM {op2}')
                ids = [(11, sid1), (11, sid2)] if order == 0 else [(11, sid2), (11, sid1)]
                s.feed(m.publish(b'a', b'm1', 2, 7, 0, 0, ids))
                s.feed(m.publish(b'a', b'm1', 2, 7, dup, 0, ids))
                s.feed(m.ack('pubrel', 7))
                s.feed(m.publish(b'a', b'm2', 2, 7, 0, 0, ids))
                out.append(s.script())
    out += fam_walk(rng, tier, 'c09-mix', 30 if tier == 'quick' else 1000, 60,
                    weights=dict(pub0=0, pub1=2, pub2=4, sub=1, unsub=0, ping=0, ack=8, inbound=8, pubrel=4, stream=2),
                    subid_modes=['reg'], batch=0.1)
    # a PUBREL whose reason is 0x92 (Packet Identifier Not Found — the only reason >= 0x80 a PUBREL can carry), short and long
    # form: it releases the identifier like any other; the next PUBLISH with that identifier is a new message
    # (round 11, C07-k: the identifier was released only for reason Success)
    for form in ('id', 'reason', 'full'):
        for r in (0x92, 0x00):
            s = Sess(f'c09-pubrel-reason-{form}-{r}')
            s.connect()
            op, sid = s.subscribed_stream()
            s.feed(m.publish(b'a', b'one', 2, 7, 0, 0, [(11, sid)]))
            s.feed(m.publish(b'a', b'one', 2, 7, 1, 0, [(11, sid)]))
            s.feed(m.ack('pubrel', 7) if form == 'id' else m.ack('pubrel', 7, r) if form == 'reason' else m.ack('pubrel', 7, r, []))
            s.feed(m.publish(b'a', b'two', 2, 7, 0, 0, [(11, sid)]))
            s.feed(m.ack('pubrel', 7, 0x92))
            s.feed(m.ack('pubrel', 9, 0x92))
            s.feed(m.publish(b'a', b'three', 2, 7, 0, 0, [(11, sid)]))
            out.append(s.script())
    return out


def fam_C10(rng, tier):
    out = []
    q = tier == 'quick'
    for R in [1, 2, 3, None]:
        out += fam_walk(rng, tier, f'c10-R{R}', 30 if q else 600, lambda r: r.choice([30, 80, 200]),
                        recv_max=R, weights=dict(pub0=2, pub1=6, pub2=6, sub=1, unsub=1, ping=1, ack=9, inbound=1,
                                                 pubrel=0, stream=0), batch=0.15)
    # fill the quota exactly, then one more, for every failing reason
    i = 0
    for R in [1, 2, 3]:
        for kind, reasons in [('puback', m.PUBACK_REASONS), ('pubrec', m.PUBREC_REASONS), ('pubcomp', m.PUBCOMP_REASONS)]:
            for r in reasons:
                s = Sess(f'c10-fill-{i}')
                i += 1
                s.connect(connack_ps=[(33, R)])
                ops = [s.publish(1 if kind == 'puback' else 2) for _ in range(R)]
                s.publish(1)                      # refused
                s.publish(0)                      # never limited
                o, p = ops[0]
                if kind == 'puback':
                    s.feed(m.ack('puback', p, r))
                elif kind == 'pubrec':
                    s.feed(m.ack('pubrec', p, r))
                    if r < 0x80:
                        s.feed(m.ack('pubcomp', p))
                else:
                    s.feed(m.ack('pubrec', p))
                    s.feed(m.ack('pubcomp', p, r))
                s.publish(2)                      # accepted again
                s.publish(1)                      # refused again
                out.append(s.script())
    # a CANCELLED publish keeps its slot until the broker's (late) acknowledgement, which frees it
    for R in [1, 2]:
        for qos, phase in [(1, 0), (2, 1), (2, 0)]:
            for reason in ([0] if phase else [0, 0x80] if qos == 2 else [0, 0x97]):
                s = Sess(f'c10-cancel-{i}')
                i += 1
                s.connect(connack_ps=[(33, R)])
                ops = [s.publish(qos, topic=b'a') for _ in range(R)]
                o, p = ops[0]
                if qos == 2 and phase == 1:
                    s.feed(m.ack('pubrec', p))
                s.add(f'DROP op{o}')
                s.live_ops.pop(o, None)
                s.publish(1, topic=b'a')                                    # still R outstanding: refused
                if qos == 1:
                    s.feed(m.ack('puback', p, reason or None))
                elif phase == 1:
                    s.feed(m.ack('pubcomp', p))
                else:
                    s.feed(m.ack('pubrec', p, reason or None))              # 0: K1 (slot stays); 0x80: slot freed
                s.publish(1, topic=b'a')
                s.publish(1, topic=b'a')
                out.append(s.script())
    out += fam_walk(rng, tier, 'c10-drops', 25 if q else 600, lambda r: r.choice([30, 80]), recv_max=lambda r: r.choice([1, 2, 3]),
                    weights=dict(pub0=1, pub1=6, pub2=6, sub=0, unsub=0, ping=0, ack=9, inbound=0, pubrel=0, stream=0),
                    allow_drop=True, batch=0.1)
    # a publish refused for its SIZE takes no slot: k oversized QoS>0 publishes, then the quota is still R
    for R in [1, 2, 3]:
        for k in [1, 2, 4]:
            for qos in [1, 2]:
                for via in [False, True]:
                    s = Sess(f'c10-size-{i}')
                    i += 1
                    s.connect(connack_ps=[(33, R), (39, 20)], via_auth=via)
                    for _ in range(k):
                        s.publish(qos, fields=[('p', b'0123456789012345678901234567890')], topic=b'topic/x')
                    ops = [s.publish(qos, topic=b'a') for _ in range(R)]       # all R accepted
                    s.publish(1, topic=b'a')                                    # refused for the quota
                    o, p = ops[0]
                    s.feed(m.ack('puback' if qos == 1 else 'pubrec', p, 0x80 if qos == 2 else 0))
                    s.publish(qos, topic=b'a')                                  # accepted again
                    out.append(s.script())
    # the quota belongs to the CONNECTION: a second connection of the same Context starts with the Receive Maximum of ITS
    # CONNACK, whatever was left unacknowledged on the first one
    for R1, R2 in [(2, 2), (1, 3), (3, 1), (2, None), (None, 2)]:
        for k in [1, 2]:
            for how in ['eof', 'sdisc', 'udisc']:
                s = Sess(f'c10-reconnect-{i}')
                i += 1
                s.connect(connack_ps=[(33, R1)] if R1 else [])
                for _ in range(k):
                    s.publish(1, topic=b'a')               # left unacknowledged
                if how == 'eof':
                    s.add('FEEDEOF')
                elif how == 'sdisc':
                    s.feed(m.disconnect(0x8b, []))
                else:
                    s.disconnect([('r', 0)])
                s.add('SETUP')
                s.add('CONNECT cid=63')
                s.feed(m.connack(0, 0, [(33, R2)] if R2 else []))
                s.add('RUN')
                n2 = R2 if R2 else 4
                for _ in range(n2):
                    s.publish(1, topic=b'a')               # all accepted
                if R2:
                    s.publish(1, topic=b'a')               # refused
                s.publish(0, topic=b'a')
                out.append(s.script())
    if not q:
        # 'big-' scripts are run on the implementation and judged by the oracle only: the list-based Lean model is
        # quadratic in the number of simultaneously outstanding operations
        s = Sess('big-c10-R65535')
        s.connect(connack_ps=[(33, 65535)])
        for _ in range(65535):
            s.publish(1)
        s.publish(1)
        s.feed(m.ack('puback', 7))
        s.publish(1)
        s.publish(1)
        out.append(s.script())
    return out


def fam_C11(rng, tier):
    out = []
    # > 2^16 identifier-consuming operations, a few outstanding at any time, several clones, mixed kinds
    total = 66000 if tier == 'quick' else 200000
    s = Sess('c11-wrap')
    s.connect()
    for h in [1, 2]:
        s.add(f'CLONE h0 h{h}')
    window = []
    for i in range(total):
        # two subscribe() calls exactly 65535 identifier allocations apart get the same packet identifier (legitimately: the
        # first one was acknowledged long ago) — their SUBSCRIPTION identifiers must still differ
        k = 6 if (i - 6) % 65535 == 0 else i % 7
        h = i % 3
        if k in (0, 1, 2):
            op, pid = s.unsubscribe([b'a'], h)
            window.append(('unsuback', pid))
        elif k in (3, 4):
            op, pid = s.publish(1, h)
            window.append(('puback', pid))
        elif k == 5:
            op, pid = s.publish(2, h)
            window.append(('pubrec', pid))
        else:
            op, pid, sid = s.subscribe(h=h)
            window.append(('suback', pid))
        near_wrap = 65500 <= i % 65535 <= 65535 or i % 65535 <= 40
        while len(window) > (6 if near_wrap and i > 1000 else i % 5):
            kind, pid = window.pop(0)
            if kind == 'unsuback':
                s.feed(m.unsuback(pid, [0]))
            elif kind == 'puback':
                s.feed(m.ack('puback', pid))
            elif kind == 'pubrec':
                s.feed(m.ack('pubrec', pid))
                s.feed(m.ack('pubcomp', pid))
            else:
                s.feed(m.suback(pid, [0]))
    out.append(s.script())
    # one operation stays outstanding while exactly 65534 further identifiers are handed out (all the window allows): none of
    # them may be its identifier
    s = Sess('c11-window')
    s.connect()
    s.add('CLONE h0 h1')
    o0, p0 = s.publish(1)
    for i in range(65534):
        if i % 2:
            o, p = s.publish(1, 1)
            s.feed(m.ack('puback', p))
        else:
            o, p = s.unsubscribe([b'a'], 0)
            s.feed(m.unsuback(p, [0]))
        s.live_ops.pop(o, None)
    s.feed(m.ack('puback', p0))
    out.append(s.script())
    # a request REJECTED by its builder (no topic filter / no topic) exactly where the counter wraps (round 11, C11-k: the
    # identifier of a rejected request handed back with fetch_sub: 0 after the wrap, unwrap panic in the next allocation)
    for before in ([65534] if tier == 'quick' else [65533, 65534, 65535]):
        s = Sess(f'c11-reject-wrap-{before}')
        s.connect()
        s.add('CLONE h0 h1')
        for i in range(before):
            o, p_ = s.publish(1, i % 2)
            s.feed(m.ack('puback', p_))
            s.live_ops.pop(o, None)
        bad = s.new_op()
        s.add(f'OP {bad} h0 SUBSCRIBE')           # refused: no topic filter
        s.alloc_pid(); s.alloc_sub()              # (the identifiers are taken before the builder refuses)
        bad2 = s.new_op()
        s.add(f'OP {bad2} h1 PUBLISH q=1')        # refused: no topic
        s.alloc_pid()
        o1, p1 = s.publish(2, 1)
        o2, p2, sid2 = s.subscribe(h=0)
        o3, p3 = s.unsubscribe([b'a'], 1)
        s.feed(m.ack('pubrec', p1))
        s.feed(m.suback(p2, [0]))
        s.feed(m.unsuback(p3, [0]))
        s.feed(m.ack('pubcomp', p1))
        out.append(s.script())
    # the same window filled with what takes NO identifier (QoS 0 publishes, then pings): 65 534 publishes while one operation is
    # outstanding, then a second identifier-taking operation (round 10, C11-j: every publish() consumed a counter value)
    s = Sess('c11-qos0-fill')
    s.connect()
    s.add('CLONE h0 h1')
    o0, p0 = s.publish(1)
    for i in range(65534):
        o, p = s.publish(0, i % 2)
        s.live_ops.pop(o, None)
    for _ in range(3):
        o = s.ping(1)
        s.feed(m.pingresp())
        s.live_ops.pop(o, None)
    o1, p1 = s.publish(1, 1)
    s.feed(m.ack('puback', p1))
    s.feed(m.ack('puback', p0))
    out.append(s.script())
    # more than 16 384 subscribe() calls on one client: the subscription identifier crosses every width of its Variable Byte
    # Integer that a test can reach (128, 16 384); responses are kept for a while so that old identifiers are still alive
    s = Sess('c11-manysubs')
    s.connect()
    s.add('CLONE h0 h1')
    nsubs = 16600 if tier == 'quick' else 40000
    for i in range(nsubs):
        op, pid, sid = s.subscribe(h=i % 2)
        s.feed(m.suback(pid, [0]))
        s.live_ops.pop(op, None)
        if i >= 40:
            s.add(f'DROP rsp{op - 40}')
    out.append(s.script())
    # operations started BEFORE connect() (their requests wait in the queue with their identifiers already taken), between two
    # connections, and after a resumed session whose exchanges are still open: all identifiers outstanding together differ
    for variant in ('early', 'between', 'resumed'):
        for k in (1, 3):
            s = Sess(f'c11-{variant}-{k}')
            s.add('SETUP')
            for h in (1, 2):
                s.add(f'CLONE h0 h{h}')
            if variant == 'early':
                for j in range(k):
                    s.publish(1, j % 3)
                    s.subscribe(h=(j + 1) % 3)
            s.add('CONNECT cid=63 sei=100')
            s.feed(m.connack(0, 0, []))
            s.add('RUN')
            for j in range(k):
                s.publish(1, j % 3)
                s.publish(2, (j + 1) % 3)
                s.unsubscribe(h=(j + 2) % 3)
            if variant != 'early':
                s.add('FEEDEOF')
                if variant == 'resumed':
                    s.add('MARKDISC 1')
                s.add('SETUP')
                for j in range(k):
                    s.publish(1, j % 3)        # started while no connection exists
                s.add('CONNECT cid=63 sei=100')
                s.feed(m.connack(1 if variant == 'resumed' else 0, 0, []))
                s.add('RUN')
                for j in range(k):
                    s.publish(1, j % 3)
                    s.subscribe(h=(j + 1) % 3)
            out.append(s.script())
    # real OS threads: n clones of the handle start identifier-taking operations at the same time (first poll only), all of
    # them outstanding together. 'big-' scripts are judged by the oracle alone (the model is single-threaded: an atomic
    # `allocPid` step per operation; this script searches for a failing input where that assumption is wrong).
    for n, k in ([(4, 1500)] if tier == 'quick' else [(2, 4000), (4, 4000), (8, 4000), (16, 3000)]):
        s = Sess(f'big-c11-threads-{n}x{k}')
        s.connect()
        s.add(f'THREADS {n} {k}')
        out.append(s.script())
    out += fam_walk(rng, tier, 'c11-refused', 25 if tier == 'quick' else 600, lambda r: r.choice([30, 80]), clones=3,
                    recv_max=lambda r: r.choice([1, 2]), max_pkt=64,
                    weights=dict(pubbig=4, pub0=1, pub1=6, pub2=4, sub=3, unsub=3, ping=0, ack=5, inbound=0, pubrel=0, stream=0),
                    batch=0.35, snap=False)
    out += fam_walk(rng, tier, 'c11-walk', 10 if tier == 'quick' else 200, 150, clones=3,
                    weights=dict(inbound=0, pubrel=0, stream=0), batch=0.2)
    return out


def fam_C12(rng, tier):
    out = []
    i = 0
    kinds = ['pub0', 'pub1', 'pub2', 'sub', 'unsub', 'ping', 'disc']
    for kind in kinds:
        for M in list(range(1, 48)) + [4294967295, None]:
            s = Sess(f'c12-{kind}-{i}')
            i += 1
            ps = [(33, 2)] + ([(39, M)] if M is not None else [])
            s.connect(connack_ps=ps, via_auth=(M is not None and M % 6 == 1) or (M is None and kind in ('pub1', 'sub')),
                      sp=1 if (M is not None and M % 5 == 2) else 0)
            if kind.startswith('pub'):
                s.publish(int(kind[3]), fields=[('p', b'0123456789'), ('up', (b'k', b'v'))], topic=b'topic/x')
            elif kind == 'sub':
                s.subscribe([(b'filter/#', '1101'), (b'b', '2000')])
            elif kind == 'unsub':
                s.unsubscribe([b'filter/#', b'b'])
            elif kind == 'ping':
                s.ping()
            else:
                s.disconnect([('r', 4), ('rs', b'bye')])
                s.ping()              # a refused DISCONNECT ends nothing: the PINGREQ is written (if it fits)
            # afterwards: the quota must be intact (2 slots), nothing half-registered
            if kind != 'disc':
                s.publish(1, topic=b'a')
                s.publish(1, topic=b'a')
                s.publish(1, topic=b'a')
                s.feed(m.publish(b'a', b'm', 0, None, 0, 0, [(11, 1)]))
                s.ping()
                s.feed(m.pingresp())
            out.append(s.script())
    # the caller gives up after its request was queued and before the context task takes it: the request is judged by its
    # size all the same (written in full when it fits, nothing when it does not)
    for kind in kinds:
        for M in [None, 4294967295, 2, 12, 24, 25, 26, 27, 40]:
            for late in (False, True):
                s = Sess(f'c12-cancel-{kind}-{M}-{int(late)}')
                s.connect(connack_ps=[(39, M)] if M is not None else [])
                s.add('HOLD ctx')
                if kind.startswith('pub'):
                    o, _ = s.publish(int(kind[3]), fields=[('p', b'0123456789')], topic=b'topic/x')
                elif kind == 'sub':
                    o, _, _ = s.subscribe([(b'filter/#', '1101'), (b'b', '2000')])
                elif kind == 'unsub':
                    o, _ = s.unsubscribe([b'filter/#', b'b'])
                elif kind == 'ping':
                    o = s.ping()
                else:
                    o = s.disconnect([('r', 4), ('rs', b'bye')])
                if late:
                    s.ping()
                s.add(f'DROP op{o}')
                s.add('RELEASE ctx')
                s.ping()
                out.append(s.script())
    # the client's OWN Maximum Packet Size / Receive Maximum (CONNECT) limit what it receives, never what it sends
    for kind in kinds:
        for own in [1, 16]:
            for M in [None, 30]:
                for via in [False, True]:
                    s = Sess(f'c12own-{kind}-{own}-{M}-{int(via)}')
                    s.connect([('cid', b'c'), ('mps', own), ('rm', 1)], connack_ps=[(39, M)] if M is not None else [], via_auth=via)
                    if kind.startswith('pub'):
                        s.publish(int(kind[3]), fields=[('p', b'0123456789')], topic=b'topic/x')      # 24..26 bytes
                        s.publish(int(kind[3]), fields=[('p', b'0123456789012345678901234567890')], topic=b'topic/x')
                        s.publish(1, topic=b'a')
                        s.publish(1, topic=b'a')
                    elif kind == 'sub':
                        s.subscribe([(b'filter/#', '1101'), (b'b', '2000')])
                    elif kind == 'unsub':
                        s.unsubscribe([b'filter/#', b'b'])
                    elif kind == 'ping':
                        s.ping()
                    else:
                        s.disconnect([('r', 4), ('rs', b'bye')])
                    out.append(s.script())
    # the limit belongs to the CONNECTION: a second connection of the same Context announces another Maximum Packet Size
    for M1, M2 in [(40, 12), (12, 40), (1, 2), (30, None), (12, None), (1, None), (None, 12), (12, 12)]:
        for how in ['eof', 'udisc']:
            s = Sess(f'c12-reconnect-{M1}-{M2}-{how}')
            s.connect(connack_ps=[(39, M1)] if M1 else [])
            s.publish(1, fields=[('p', b'0123456789')], topic=b'topic/x')          # 26 bytes
            s.ping()
            s.add('FEEDEOF') if how == 'eof' else s.disconnect([('r', 0)])
            s.add('SETUP')
            s.add('CONNECT cid=63')
            s.feed(m.connack(0, 0, [(39, M2)] if M2 else []))
            s.add('RUN')
            s.publish(0, fields=[('p', b'0123456789')], topic=b'topic/x')          # 24 bytes
            s.publish(1, topic=b'a')                                                # 8 bytes
            s.ping()                                                                # 2 bytes
            s.subscribe([(b'filter/#', '1101')])
            out.append(s.script())
    # random traffic under a size limit that the ordinary requests of the walk fit in and the 'pubbig' ones do not
    out += fam_walk(rng, tier, 'c12-walk', 40 if tier == 'quick' else 1500, lambda r: r.choice([15, 40, 80]),
                    max_pkt=64, recv_max=lambda r: r.choice([None, 2, 4]),
                    weights=dict(pubbig=5, pub0=2, pub1=4, pub2=4, sub=1, unsub=1, ping=1, ack=8, inbound=1, pubrel=0, stream=0),
                    batch=0.15)
    # requests issued (and queued) BEFORE connect() has seen the CONNACK that announces the limit: the limit that counts is the
    # one in force when the context takes the request off the queue (round 11, C12-k: the check moved to the handle, which
    # reads a shared limit that is still unset at that moment)
    for kind in ('pub0', 'pub1', 'sub', 'unsub'):
        for M in (20, 30):
            for fits in (False, True):
                s = Sess(f'c12-early-{kind}-{M}-{int(fits)}')
                s.add('SETUP')
                pay = b'y' * (3 if fits else 60)
                if kind == 'pub0':
                    s.publish(0, fields=[('p', pay)])
                elif kind == 'pub1':
                    s.publish(1, fields=[('p', pay)])
                elif kind == 'sub':
                    s.subscribe(((b'f' * len(pay), '2000'),))
                else:
                    s.unsubscribe([b'f' * len(pay)])
                s.add('CONNECT cid=63')
                s.feed(m.connack(0, 0, [(39, M)]))
                s.add('RUN')
                s.publish(1, fields=[('p', b'after')])
                s.ping()
                s.feed(m.pingresp())
                out.append(s.script())
    return fam_C12_quota(out)


def fam_C12_quota(out):
    """the size limit and the send quota together: an oversized QoS>0 publish is refused for its size even while the
    quota is exhausted (and leaves it exhausted), a fitting one for the quota"""
    i = 0
    for R in [1, 2]:
        for qos in [1, 2]:
            for M in [20, 24, 30, 4294967295, None]:
                s = Sess(f'c12-quotar{R}q{qos}-{i}')
                i += 1
                ps = [(33, R)] + ([(39, M)] if M is not None else [])
                s.connect(connack_ps=ps, via_auth=(i % 3 == 0))
                first = [s.publish(1, topic=b'a') for _ in range(R)]            # quota exhausted (8-byte packets)
                s.publish(qos, fields=[('p', b'0123456789012345678901234567890')], topic=b'topic/x')   # ~45 bytes
                s.publish(qos, topic=b'a')                                       # fits: refused for the quota
                s.publish(0, fields=[('p', b'0123456789012345678901234567890')], topic=b'topic/x')
                s.feed(m.ack('puback', first[0][1]))
                s.publish(qos, topic=b'a')                                       # one slot again
                s.publish(qos, topic=b'a')
                out.append(s.script())
    return out


def fam_C13(rng, tier):
    out = []
    i = 0

    def states():
        def idle(s):
            pass

        def outstanding(s):
            s.publish(1)
            s.subscribe()
            s.ping()

        def streams(s):
            op, sid = s.subscribed_stream()
            s.feed(m.publish(b'a', b'x', 0, None, 0, 0, [(11, sid)]))

        def midq2(s):
            o, p = s.publish(2)
            s.feed(m.ack('pubrec', p))
        return [idle, outstanding, streams, midq2]

    causes = []
    for r in m.DISCONNECT_REASONS:
        causes.append(('sdisc', r))
    causes += [('sdisc-reason', r) for r in ([0, 0x04, 0x81, 0x8b, 0x8e] if tier == 'quick' else m.DISCONNECT_REASONS)]
    causes += [('udisc-refused', 0), ('udisc-refused', 1)]
    causes += [('sdisc-empty', 0), ('udisc', 0), ('udisc', 0x04), ('udisc-cancelled', 0), ('udisc-batch', 0), ('udisc-batch', 1),
               ('udisc-batch', 2), ('udisc-batch', 3), ('batch-udisc', 0), ('eof', 0), ('err', 0), ('handles', 0),
               ('garbage', 0), ('badlen', 0), ('werr', 0)]
    # whatever the transport answers to flush / close (the client asks for neither) the user's DISCONNECT ends run() with Ok
    SIDE = ['wclose=err', 'wclose=pend', 'wflush=err', 'wflush=pend', 'wclose=pend wflush=pend wr=pendone']
    causes += [('udisc-side', k) for k in range(len(SIDE))]
    # the transport fails exactly while the user's DISCONNECT is being written (after 0..3 of its bytes; CONNECT took 16)
    causes += [('udisc-werr', k) for k in range(4)] + [('udisc-wzero', k) for k in range(4)]
    # the server's DISCONNECT (two-, three- and many-byte forms) behind another packet in the SAME read
    causes += [('sdisc-after', k) for k in range(6)]
    for cause, r in causes:
        for st in states():
            if tier == 'quick' and cause == 'sdisc' and r not in (0, 0x04, 0x81, 0x8b, 0xa2) and st.__name__ != 'idle':
                continue
            cfg = 'werr=40' if cause == 'werr' else SIDE[r] if cause == 'udisc-side' else None
            if cause in ('udisc-werr', 'udisc-wzero'):
                if st.__name__ != 'idle':
                    continue
                cfg = f'{cause[6:]}={16 + r}'
            s = Sess(f'c13-{cause}-{r}-{st.__name__}-{i}', cfg)
            i += 1
            s.connect(connack_ps=[(39, 30)] if cause == 'udisc-refused' else [])
            st(s)
            if cause == 'sdisc':
                s.feed(m.disconnect(r, rand_props(rng, [31, 28], p=0.5)))
            elif cause == 'sdisc-reason':
                s.feed(m.disconnect(r, None, 'reason'))          # e0 01 rc: reason code without a property length
            elif cause == 'sdisc-empty':
                s.feed(m.disconnect(0, None, 'empty'))
            elif cause == 'sdisc-after':
                first = [m.pingresp(), m.publish(b'a', b'x', 0), m.ack('pubrel', 9)][r % 3] if st.__name__ != 'outstanding' else m.ack('puback', 1)
                if r % 3 == 0 and st.__name__ != 'outstanding':
                    s.ping()
                d = [m.disconnect(0, None, 'empty'), m.disconnect(0, None, 'reason'), m.disconnect(0x8b, [(31, b'bye')]),
                     m.disconnect(0, None, 'empty'), m.disconnect(0x8b, None, 'reason'), m.disconnect(0, [])][r]
                s.feed(first + d)
            elif cause in ('udisc', 'udisc-side', 'udisc-werr', 'udisc-wzero'):
                s.disconnect([('r', r if cause == 'udisc' else 0)] + ([('rs', b'bye')] if cause.startswith('udisc-w') else []))
                s.publish(0)         # must not be written after the DISCONNECT
            elif cause == 'udisc-refused':
                # the DISCONNECT exceeds the server's Maximum Packet Size: refused, nothing written — run() keeps serving,
                # other requests still work, a DISCONNECT that fits ends it
                s.disconnect([('r', 4), ('rs', b'a very long reason string, longer than thirty bytes')], h=0)
                s.ping()
                s.feed(m.pingresp())
                if r:
                    s.add('CLONE h0 h1')
                    s.handles.append(1)
                    s.disconnect([('r', 0)], h=1)
            elif cause == 'udisc-cancelled':
                # the caller gives up on disconnect() after the request was queued: the DISCONNECT is still written
                s.add('HOLD ctx')
                o = s.disconnect([('r', r)])
                s.add(f'DROP op{o}')
                s.add('RELEASE ctx')
                s.publish(0)
            elif cause == 'udisc-batch':
                # requests already queued BEHIND the user's DISCONNECT when the context task gets to it (issued from
                # another clone between two polls of run()): nothing of them may be written
                s.add('CLONE h0 h1')
                s.handles.append(1)
                s.add('HOLD ctx')
                s.disconnect([('r', 0)])
                if r == 0:
                    s.publish(0, 1)
                elif r == 1:
                    s.publish(1, 1)
                elif r == 2:
                    s.ping(1)
                else:
                    s.publish(2, 1); s.subscribe(h=1); s.publish(0, 1)
                s.add('RELEASE ctx')
            elif cause == 'batch-udisc':
                # the other way round: what was queued BEFORE the DISCONNECT is written, then run() ends
                s.add('CLONE h0 h1')
                s.handles.append(1)
                s.add('HOLD ctx')
                s.publish(1, 1); s.ping(1)
                s.disconnect([('r', 0)])
                s.publish(0, 1)
                s.add('RELEASE ctx')
            elif cause == 'eof':
                s.add('FEEDEOF')
            elif cause == 'err':
                s.add('FEEDERR')
            elif cause == 'handles':
                for o in list(s.live_ops):
                    s.add(f'DROP op{o}')
                s.add('DROPHANDLE h0')
            elif cause == 'garbage':
                s.feed(bytes([0x30, 0x03, 0x00, 0x05, 0x61]))
            elif cause == 'badlen':
                s.feed(bytes([0x30, 0xff, 0xff, 0xff, 0xff, 0x01]))
            elif cause == 'werr':
                for _ in range(4):
                    s.publish(0, fields=[('p', b'0123456789')])
            s.add('SNAP') if cause != 'handles' else None
            out.append(s.script())
    # any history, then a terminating cause
    for j in range(40 if tier == 'quick' else 2000):
        w = Walk(rng, f'c13-walk-{j}', recv_max=rng.choice([None, 2, 5]), clones=rng.choice([1, 2]),
                 weights=dict(inbound=3, stream=1, pubrel=1), allow_drop=rng.random() < 0.3, batch=0.1, snap=False)
        for _ in range(rng.choice([3, 10, 30])):
            w.step()
        s = w.s
        cause = rng.choice(['sdisc', 'sdisc0', 'udisc', 'udisc-batch', 'eof', 'err', 'garbage', 'badlen', 'none'])
        if cause == 'sdisc':
            s.feed(m.disconnect(rng.choice([r for r in m.DISCONNECT_REASONS if r]), rand_props(rng, [31, 28], p=0.5)))
        elif cause == 'sdisc0':
            s.feed(m.disconnect(0, None, rng.choice(['empty', 'full'])) if rng.random() < 0.5 else m.disconnect(0, []))
        elif cause == 'udisc':
            s.disconnect([('r', rng.choice([0, 4]))], h=w.h())
            s.publish(0, w.h())
        elif cause == 'udisc-batch':
            s.add('HOLD ctx')
            if rng.random() < 0.5:
                s.publish(1, w.h())
            s.disconnect([('r', 0)], h=w.h())
            s.publish(rng.choice([0, 1, 2]), w.h())
            s.ping(w.h())
            s.add('RELEASE ctx')
        elif cause == 'eof':
            s.add('FEEDEOF')
        elif cause == 'err':
            s.add('FEEDERR')
        elif cause == 'garbage':
            s.feed(bytes([0x30, 0x03, 0x00, 0x05, 0x61]))
        elif cause == 'badlen':
            s.feed(bytes([0x30, 0xff, 0xff, 0xff, 0xff, 0x01]))
        s.ping(w.h()) if cause != 'none' else None
        out.append(s.script())
    # first response mapping for connect()/authorize()
    for call in ['CONNECT cid=63', 'AUTHORIZE r=24 am=6d ad=64', 'CONNECT cid=63 am=6d ad=64']:
        for j, resp in enumerate([m.connack(), m.connack(1, 0, [(33, 3)]), m.connack(0, 0x86, [(31, b'bad')]),
                                  m.connack(0, 0x87, [(41, 0), (31, b'no')]), m.connack(0, 0x80, [(41, 0)]),
                                  m.connack(0, 0x95, [(39, 5), (41, 1), (17, 9)]),
                                  m.auth(0x18, [(21, b'm'), (22, b'x')]), m.auth(0x18, [(21, b'm')]), None, 'err',
                                  m.pingresp(), b'\x20\x02\x00']):
            s = Sess(f'c13-first-{i}')
            i += 1
            s.add('SETUP')
            s.add(call)
            if resp is None:
                s.add('FEEDEOF')
            elif resp == 'err':
                s.add('FEEDERR')
            else:
                s.feed(resp)
                s.add('FEEDEOF')
            out.append(s.script())
    # an undecodable (but well-framed) packet that is ALREADY READABLE when the previous packet has been handled: behind a valid
    # packet in the same read, or in a second read fed while the context task was held (round 11, C13-k: the loop that serves
    # what is already readable dropped the decoding error). run() must return the error, and write / complete nothing later
    # (packets the oracles' own parser calls malformed too: an unknown reason code alone is not enough for it)
    bads = [bytes([0xe0, 0x03, 0x00, 0x01, 0x7f]), bytes([0x40, 0x01, 0x00]), bytes([0x90, 0x02, 0x00, 0x01]), bytes([0x31, 0x01, 0x00]),
            bytes([0x20, 0x01, 0x00]), bytes([0x62, 0x01, 0x00])]
    for bi, bad in enumerate(bads):
        for how in ('same-read', 'held', 'alone'):
            for lead in ('pingresp', 'publish', 'puback'):
                if how == 'alone' and lead != 'pingresp':
                    continue
                s = Sess(f'c13-bad-behind-{bi}-{how}-{lead}')
                s.connect()
                op, sid = s.subscribed_stream()
                o1, p1 = s.publish(1)
                pg = s.ping()
                good = {'pingresp': m.pingresp(), 'publish': m.publish(b'a', b'x', 1, 5, 0, 0, [(11, sid)]), 'puback': m.ack('puback', p1)}[lead]
                if how == 'same-read':
                    s.feed(good + bad)
                elif how == 'held':
                    s.add('HOLD ctx')
                    s.feed(good)
                    s.feed(bad)
                    s.add('RELEASE ctx')
                else:
                    s.feed(bad)
                s.feed(m.disconnect(0, form='empty'))
                s.feed(m.pingresp())
                out.append(s.script())
    return out


def fam_C14(rng, tier):
    out = []
    # base histories; DROPCTX after every prefix
    def base(s, upto):
        steps = []
        steps.append(lambda: s.publish(1))
        steps.append(lambda: s.publish(2))
        steps.append(lambda: s.subscribe())
        steps.append(lambda: s.feed(m.ack('pubrec', 2)))
        steps.append(lambda: s.feed(m.suback(3, [0])))
        steps.append(lambda: s.add('STREAM 3'))
        steps.append(lambda: s.feed(m.publish(b'a', b'one', 0, None, 0, 0, [(11, 1)])))
        steps.append(lambda: s.add('HOLD st3'))
        steps.append(lambda: s.feed(m.publish(b'a', b'two', 1, 9, 0, 0, [(11, 1)])))
        steps.append(lambda: s.ping())
        steps.append(lambda: s.unsubscribe())
        steps.append(lambda: s.add('HOLD ctx'))
        steps.append(lambda: s.publish(1))          # queued but unsent
        steps.append(lambda: s.subscribe([(b'q', '0000')]))
        for f in steps[:upto]:
            f()
        return len(steps)
    n = base(Sess('x'), 0)
    for upto in range(n + 1):
        for variant in range(2):
            s = Sess(f'c14-drop-{upto}-{variant}')
            s.connect()
            base(s, upto)
            if variant == 1 and upto >= 12:
                s.add('RELEASE ctx')
            s.add('DROPCTX')
            s.add('RELEASE st3')
            s.add('RELEASE ctx')
            s.publish(0)
            s.publish(1)
            s.subscribe()
            s.ping()
            s.disconnect()
            for o in range(1, 8):
                s.add(f'POLL op{o}')
            s.add('POLL st3')
            out.append(s.script())
    # the context has taken the request off the queue and is in the middle of writing it (the transport answers Pending, or
    # fails) when the Context is dropped: the operation was pending at the drop, so it fails with ContextExited
    for kind in ['pub0', 'pub1', 'pub2', 'sub', 'unsub', 'ping', 'disc']:
        for how in ('stall', 'stallone', 'werr'):
            cfg = {'stall': 'wr=pend', 'stallone': 'wr=pendone', 'werr': 'werr=18'}[how]
            # (the model hands whole packets to the transport: a write suspended half way is outside it — those two variants are
            # 'big-' scripts, judged by the oracle alone like the multi-thread scripts of C11)
            s = Sess(('big-' if how != 'werr' else '') + f'c14-midwrite-{kind}-{how}', cfg)
            s.connect()
            s.add('HOLD ctx')
            if kind.startswith('pub'):
                o, _ = s.publish(int(kind[3]), fields=[('p', b'payload')])
            elif kind == 'sub':
                o, _, _ = s.subscribe()
            elif kind == 'unsub':
                o, _ = s.unsubscribe()
            elif kind == 'ping':
                o = s.ping()
            else:
                o = s.disconnect([('r', 0)])
            s.add(f'HOLD op{o}')
            s.add('POLL ctx')          # one poll: takes the request, starts the write, Pending (or the error)
            if how == 'stallone':
                s.add('POLL ctx')
                s.add('POLL ctx')      # a few bytes are out, not the packet
            s.add('DROPCTX')
            s.add(f'RELEASE op{o}')
            out.append(s.script())
    # limits announced by the broker (Maximum Packet Size, an exhausted Receive Maximum) mean nothing once the context is gone:
    # every operation started afterwards fails with ContextExited whatever its size or kind
    for mps in (None, 20, 32):
        for rm in (None, 1):
            for how in ('dropctx', 'ret'):
                s = Sess(f'c14-limits-{mps}-{rm}-{how}')
                s.connect(connack_ps=([(39, mps)] if mps else []) + ([(33, rm)] if rm else []))
                s.add('CLONE h0 h1')
                s.publish(1)            # takes the only slot when rm = 1
                if how == 'dropctx':
                    s.add('DROPCTX')
                else:
                    s.feed(m.disconnect(0x8b))
                big = b'x' * 70
                s.publish(0, 0, [('p', big)])
                s.publish(1, 1, [('p', big)])
                s.publish(2, 0, [('p', big)])
                s.publish(1, 1)
                s.subscribe([(big, '2000')], 0)
                s.unsubscribe([big], 1)
                s.disconnect([('rs', big)], 0)
                s.ping(1)
                out.append(s.script())
    # a stream holding k unconsumed messages when the context goes: all k are yielded, then the stream ends. Variants: the
    # stream was polled before (registered) or never; taken before or only after the drop; messages in one read or one each;
    # part of the backlog consumed while the context was alive
    for k in (list(range(0, 6)) + [31, 32, 33, 40, 64, 65, 130] if tier == 'quick' else list(range(0, 20)) + [31, 32, 33, 40, 63, 64, 65, 127, 128, 129, 300, 1000]):
        for variant in ['held', 'late-stream', 'one-read', 'partly']:
            s = Sess(f'c14-buf-{k}-{variant}')
            s.connect()
            op, pid, sid = s.subscribe()
            s.feed(m.suback(pid, [0]))
            s.live_ops.pop(op, None)
            if variant != 'late-stream':
                s.add(f'STREAM {op}')
                s.add(f'HOLD st{op}')
            msgs = [m.publish(b'a', bytes([48 + j % 64]), 0, None, 0, 0, [(11, sid)]) for j in range(k)]
            if variant == 'one-read':
                s.feed(b''.join(msgs)) if msgs else None
            else:
                for x in msgs:
                    s.feed(x)
            if variant == 'partly' and k >= 2:
                s.add(f'POLL st{op}')          # a held task polled by the script: takes exactly one item
            s.add('DROPCTX')
            if variant == 'late-stream':
                s.add(f'STREAM {op}')
            else:
                s.add(f'RELEASE st{op}')
            for _ in range(2):
                s.add(f'POLL st{op}')
            out.append(s.script())
    for kind in ['pub0', 'pub1', 'pub2', 'sub', 'unsub', 'ping', 'disc']:
        for phase in ['queued', 'written', 'run-cancelled', 'socket-closed']:
            s = Sess(f'c14-pending-{kind}-{phase}')
            s.connect()
            s.add('CLONE h0 h1')
            if phase == 'queued':
                s.add('HOLD ctx')              # the request stays in the queue: never handled
            elif phase == 'run-cancelled':
                s.add('DROPFUT')               # run() is cancelled first, then the request is issued, then the drop
            elif phase == 'socket-closed':
                s.add('FEEDEOF')               # run() returned SocketClosed; the Context still exists
            if kind.startswith('pub'):
                op, _ = s.publish(int(kind[3]), 1)
            elif kind == 'sub':
                op, _, _ = s.subscribe(h=1)
            elif kind == 'unsub':
                op, _ = s.unsubscribe(h=1)
            elif kind == 'ping':
                op = s.ping(1)
            else:
                op = s.disconnect([('r', 0)], h=1)
            s.add('DROPCTX')
            s.add('RELEASE ctx')
            s.add(f'POLL op{op}')
            out.append(s.script())
    for kinds2 in [['pub0'], ['pub1'], ['pub2'], ['sub'], ['unsub'], ['ping'], ['disc'], ['pub1', 'sub', 'ping', 'pub0']]:
        s = Sess('c14-behind-disc-' + '-'.join(kinds2))
        s.connect()
        s.add('CLONE h0 h1')
        s.add('HOLD ctx')
        s.disconnect([('r', 0)], h=0)
        ops2 = []
        for k2 in kinds2:
            if k2.startswith('pub'):
                ops2.append(s.publish(int(k2[3]), 1)[0])
            elif k2 == 'sub':
                ops2.append(s.subscribe(h=1)[0])
            elif k2 == 'unsub':
                ops2.append(s.unsubscribe(h=1)[0])
            elif k2 == 'ping':
                ops2.append(s.ping(1))
            else:
                ops2.append(s.disconnect([('r', 4)], h=1))
        s.add('RELEASE ctx')          # run() writes the DISCONNECT and returns Ok; the others were never handled
        s.add('DROPCTX')
        for o in ops2:
            s.add(f'POLL op{o}')
        out.append(s.script())
    for kind in ['pub1', 'pub2-rec', 'pub2-comp', 'sub', 'unsub', 'ping', 'pub0']:
        for failing in [False, True]:
            s = Sess(f'c14-held-{kind}-{int(failing)}')
            s.connect()
            if kind == 'pub1':
                op, pid = s.publish(1)
                pk = m.ack('puback', pid, 0x80 if failing else 0)
            elif kind.startswith('pub2'):
                op, pid = s.publish(2)
                if kind == 'pub2-comp':
                    s.feed(m.ack('pubrec', pid))
                    pk = m.ack('pubcomp', pid, 0x92 if failing else 0)
                else:
                    pk = m.ack('pubrec', pid, 0x80 if failing else 0)
            elif kind == 'sub':
                op, pid, sid = s.subscribe()
                pk = m.suback(pid, [0x80 if failing else 0])
            elif kind == 'unsub':
                op, pid = s.unsubscribe()
                pk = m.unsuback(pid, [0x80 if failing else 0])
            elif kind == 'ping':
                op = s.ping()
                pk = m.pingresp()
            else:
                s.add('HOLD op1')
                op, pid = s.publish(0)
                pk = None
            s.add(f'HOLD op{op}')
            if pk is not None:
                s.feed(pk)                 # the result sits in the operation's oneshot, the future is not polled
            s.add('DROPCTX')
            s.add(f'RELEASE op{op}')       # between the QoS 2 phases for pub2-rec: must fail with ContextExited, not hang
            s.add(f'POLL op{op}')
            out.append(s.script())
    out += [(n2.replace('c07', 'c14'), l + ['DROPCTX', 'OP 9000 h0 PING'])
            for n2, l in fam_walk(rng, tier, 'c07-w14', 20 if tier == 'quick' else 500, 40,
                                  weights=dict(inbound=6, stream=3), allow_drop=True)]
    # disconnect() a second time, after the first one succeeded and the Context is gone — on the same handle and on a clone
    # (round 11, C14-k: an "already disconnected" flag shared by the clones made the second call report Ok)
    for when in ('after-drop', 'before-and-after'):
        s = Sess(f'c14-disc-twice-{when}')
        s.connect()
        s.add('CLONE h0 h1')
        s.disconnect()
        if when == 'before-and-after':
            s.disconnect(h=1)               # run() has returned, the Context still exists: stays pending until the drop
        s.add('DROPCTX')
        s.disconnect()
        s.disconnect(h=1)
        s.ping(1)
        out.append(s.script())
    return out


def fam_C15(rng, tier):
    out = fam_walk(rng, tier, 'c15-walk', 80 if tier == 'quick' else 2500, lambda r: r.choice([20, 60, 120]),
                   recv_max=lambda r: r.choice([None, 2, 3]), weights=dict(pub2=1, inbound=4, stream=2), allow_drop=True,
                   allow_poll=True, batch=0.12)
    # every operation kind x every cancellation point
    i = 0
    # a QoS 2 publish cancelled after it queued its PUBREL (the context has not written it yet)
    for R in [1, 2]:
        s = Sess(f'c15-pub2d-R{R}')
        s.connect(connack_ps=[(33, R)])
        op, pid = s.publish(2)
        s.add(f'HOLD op{op}')
        s.feed(m.ack('pubrec', pid))
        s.add('HOLD ctx')
        s.add(f'RELEASE op{op}')
        s.add(f'DROP op{op}')
        s.add('RELEASE ctx')
        s.feed(m.ack('pubcomp', pid))
        for _ in range(R + 1):
            s.publish(1)
        out.append(s.script())
    # a request cancelled while it waits in the queue, which the context then REFUSES locally (no slot free / too large for the
    # broker): the refusal has nobody to go to (round 10, C15-j: an undeliverable refusal ended run())
    for why in ['quota', 'size-pub', 'size-sub', 'size-unsub']:      # (a cancelled oversized DISCONNECT: the oracles cannot tell it was refused — no DONE line —, DESIGN.md false alarm (9))
        for q in ([1, 2] if why == 'quota' else [0, 1]) if why in ('quota', 'size-pub') else [None]:
            s = Sess(f'c15-refused-cancel-{why}-{q}')
            s.connect(connack_ps=[(33, 1)] if why == 'quota' else [(39, 30)])
            s.add('CLONE h0 h1')
            other, opid = s.publish(1, 1) if why == 'quota' else s.publish(1, fields=[('p', b'x')])
            s.add('HOLD ctx')
            big = [('p', b'y' * 40)]
            if why == 'quota':
                op, pid = s.publish(q, fields=[('p', b'gone')])
            elif why == 'size-pub':
                op, pid = s.publish(q, fields=big)
            elif why == 'size-sub':
                op, pid, sid = s.subscribe(((b'f' * 40, '2000'),))
            elif why == 'size-unsub':
                op, pid = s.unsubscribe([b'f' * 40])
            else:
                op = s.disconnect([('rs', b'r' * 40)])
            op = op if isinstance(op, int) else op[0]
            s.add(f'DROP op{op}')
            s.live_ops.pop(op, None)
            s.add('RELEASE ctx')
            s.feed(m.ack('puback', opid))
            o3, p3 = s.publish(1, 1)
            s.feed(m.ack('puback', p3))
            pg = s.ping(1)
            s.feed(m.pingresp())
            out.append(s.script())
    for kind in ['pub0', 'pub1', 'pub2a', 'pub2b', 'pub2c', 'sub', 'unsub', 'ping', 'disc']:
        for point in ['fresh', 'queued', 'waiting']:
            s = Sess(f'c15-{kind}-{point}-{i}')
            i += 1
            s.connect(connack_ps=[(33, 2)])
            other, opid = s.publish(1)
            if point == 'fresh':
                s.add(f'HOLD op{s.next_op}')
            if point == 'queued':
                s.add('HOLD ctx')
            pid = None
            if kind == 'pub0':
                op, pid = s.publish(0)
            elif kind == 'pub1':
                op, pid = s.publish(1)
            elif kind.startswith('pub2'):
                op, pid = s.publish(2)
            elif kind == 'sub':
                op, pid, sid = s.subscribe()
            elif kind == 'unsub':
                op, pid = s.unsubscribe()
            elif kind == 'ping':
                op = s.ping()
            else:
                op = s.disconnect()
            if kind == 'pub2b' and point == 'waiting':
                s.add(f'HOLD op{op}')
                s.feed(m.ack('pubrec', pid))          # delivered to the oneshot, future not polled: known finding K1
            if kind == 'pub2c' and point == 'waiting':
                s.feed(m.ack('pubrec', pid))          # PUBREL sent, waiting for PUBCOMP
            s.add(f'DROP op{op}')
            s.add('RELEASE ctx')
            s.add(f'RELEASE op{op}')
            if point == 'fresh' and pid is not None:
                pass
            # late acknowledgement of the abandoned operation
            if point != 'fresh' and kind != 'disc':
                if kind == 'pub1':
                    s.feed(m.ack('puback', pid))
                elif kind == 'pub2a':
                    s.feed(m.ack('pubrec', pid, 0x80))
                elif kind == 'pub2b' and point != 'waiting':
                    s.feed(m.ack('pubrec', pid))
                elif kind == 'pub2c':
                    if point != 'waiting':
                        s.feed(m.ack('pubrec', pid))
                    s.feed(m.ack('pubcomp', pid))
                elif kind == 'sub':
                    s.feed(m.suback(pid, [0]))
                    s.feed(m.publish(b'a', b'x', 1, 77, 0, 0, [(11, 1)]))
                elif kind == 'unsub':
                    s.feed(m.unsuback(pid, [0]))
                elif kind == 'ping':
                    s.feed(m.pingresp())
            # the others go on
            if kind != 'disc' or point == 'fresh':
                s.feed(m.ack('puback', opid))
                s.publish(1)
                s.publish(1)
                s.publish(1)
                s.ping()
                s.feed(m.pingresp())
            out.append(s.script())
    return out


def fam_C16(rng, tier):
    """Groups (name before '#'): the same script under exec=wake, exec=sweep and with random spurious POLLs, x read
    chunkings x write policies: all members of a group must give the same observations."""
    out = []
    base = []
    base += fam_walk(rng, tier, 'c16-a', 25 if tier == 'quick' else 400, lambda r: r.choice([20, 60]),
                     clones=2, weights=dict(inbound=5, stream=2, pubrel=1), allow_drop=True)
    c07 = fam_C07(rng, 'quick')
    base += [x for x in c07 if x[0].startswith('c07-early')]
    base += [(n.replace('c07-', 'c16-'), l) for n, l in burst_scripts('c07', tier)]
    base += fam_C06(rng, 'quick')[:20]
    for name, lines in base:
        if any(l.startswith('HOLD') for l in lines):
            continue          # a POLL of a held task is not a spurious poll
        body = [l for l in lines if not l.startswith('CFG')]
        variants = [('wake', 'exec=wake', False, False), ('sweep', 'exec=sweep', False, False),
                    ('spurious', 'exec=wake', True, False), ('bytewise', 'exec=wake rdp=1', False, True),
                    ('sweepbytes', 'exec=sweep wr=pendone', False, True), ('wrone', 'exec=wake wr=one', False, False),
                    ('wrpend', 'exec=sweep wr=pend rd=fill', True, False),
                    # a new waker for every poll, stale ones dead: with spurious polls the waker changes while nothing happened
                    ('freshwk', 'exec=wake wk=fresh', False, False), ('freshspur', 'exec=sweep wk=fresh wr=pend', True, False),
                    # (wake-only: a spurious poll replaces the waker, and nothing but the NEW waker can wake the task afterwards)
                    ('freshpoll', 'exec=wake wk=fresh', True, False)]
        for vn, cfg, spurious, bytewise in variants:
            ls = ['CFG ' + cfg]
            tasks = ['ctx']
            for l in body:
                if bytewise and l.startswith('FEED ') and 'cuts=' not in l:
                    data = bytes.fromhex(l.split(' ')[1])
                    if 1 < len(data) <= 64:
                        l = m.feed(data, list(range(1, len(data))))
                ls.append(l)
                if l.startswith('OP '):
                    tasks.append('op' + l.split(' ')[1])
                if l.startswith('STREAM '):
                    tasks.append('st' + l.split(' ')[1])
                if spurious and rng.random() < 0.5:
                    ls.append('POLL ' + rng.choice(tasks))
            out.append((f'{name}#{vn}', ls))
    # outbound packets far larger than any internal slice (round 11, C16-k: write() cut the packet into 64 KiB slices with a
    # bare `pending!()` in between): wake-only, sweeping and spuriously polled executors x writer policies must agree
    for size in ([70000, 150000] if tier == 'quick' else [65535, 65536, 65537, 70000, 131072, 150000, 300000]):
        for qos in (0, 1):
            for variant, cfg in [('wake', 'exec=wake'), ('sweep', 'exec=sweep'), ('spurious', 'exec=wake'), ('wrpend', 'exec=wake wr=pend')]:
                s = Sess(f'c16-bigout-{size}-q{qos}#{variant}', cfg)
                s.connect()
                op, pid = s.publish(qos, fields=[('p', b'B' * size)])
                if variant == 'spurious':
                    s.add('POLL ctx')
                    s.add(f'POLL op{op}')
                if qos:
                    s.feed(m.ack('puback', pid))
                s.ping()
                s.feed(m.pingresp())
                out.append(s.script())
    out += coincide_scripts('c16', groups=True)
    # run() has returned, the Context object is still alive: parked streams and pending operations stay exactly as they are
    # under extra polls (groups: wake / sweep / spurious POLLs)
    for how in ['sdisc0', 'sdisc', 'eof', 'udisc']:
        for variant in ['wake', 'sweep', 'spurious']:
            s = Sess(f'c16-afterrun-{how}#{variant}', 'exec=sweep' if variant == 'sweep' else 'exec=wake')
            s.connect()
            st, sid = s.subscribed_stream()
            s.feed(m.publish(b'a', b'one', 0, None, 0, 0, [(11, sid)]))
            o1, p1 = s.publish(1)
            if how == 'sdisc0':
                s.feed(m.disconnect(0, []))
            elif how == 'sdisc':
                s.feed(m.disconnect(0x8b, []))
            elif how == 'eof':
                s.add('FEEDEOF')
            else:
                s.disconnect([('r', 0)])
            for _ in range(2):
                if variant == 'spurious':
                    s.add(f'POLL st{st}')
                    s.add(f'POLL op{o1}')
                s.ping()
            out.append(s.script())
    return out


def coincide_scripts(prefix, groups=False):
    """a handle message AND inbound bytes become ready before the context task gets its (single) poll for both wakeups.
    `select!` may take them in either order; the inbound packets used here cause no write, so the transcript is the same
    for both orders. With groups=True every script comes as a #wake / #sweep pair (C16 compares the two)."""
    out = []
    i = 0
    for req in ['pub0', 'pub1', 'pub2', 'ping', 'sub', 'unsub']:
        for inbound in ['puback', 'pingresp', 'item', 'suback', 'pubcomp']:
            for variant in (['wake', 'sweep'] if groups else ['one']):
                name = f'{prefix}-coincide-{i}' + (f'#{variant}' if groups else '')
                s = Sess(name, f'exec={variant}' if groups else None)
                s.connect()
                st, sid = s.subscribed_stream()
                o1, p1 = s.publish(1)
                o2, p2 = s.publish(2)
                s.feed(m.ack('pubrec', p2))
                o3 = s.ping()
                o4, p4, _ = s.subscribe([(b'b', '0000')])
                s.add('HOLD ctx')
                if req.startswith('pub'):
                    s.publish(int(req[3]), fields=[('p', b'new')])
                elif req == 'ping':
                    s.ping()
                elif req == 'sub':
                    s.subscribe([(b'c', '0000')])
                else:
                    s.unsubscribe([b'c'])
                if inbound == 'puback':
                    s.feed(m.ack('puback', p1))
                elif inbound == 'pingresp':
                    s.feed(m.pingresp())
                elif inbound == 'item':
                    s.feed(m.publish(b'a', b'msg', 0, None, 0, 0, [(11, sid)]))
                elif inbound == 'suback':
                    s.feed(m.suback(p4, [0]))
                else:
                    s.feed(m.ack('pubcomp', p2))
                s.add('RELEASE ctx')
                s.ping()
                s.feed(m.pingresp())
                out.append(s.script())
            i += 1
    return out


def fam_C17(rng, tier):
    out = []
    i = 0
    # a history of QoS 1/2 publishes and acknowledgements; disconnection after every prefix
    def hist(s, upto):
        steps = [
            lambda: s.publish(1, fields=[('p', b'one')]),
            lambda: s.publish(2, fields=[('p', b'two'), ('r', True)]),
            lambda: s.publish(1, fields=[('p', b'three')]),
            lambda: s.feed(m.ack('puback', 1)),
            lambda: s.feed(m.ack('pubrec', 2)),
            lambda: s.publish(2, fields=[('p', b'four')]),
            lambda: s.publish(0, fields=[('p', b'zero')]),
            lambda: s.feed(m.ack('pubrec', 4, 0x97)),
            lambda: s.publish(2, fields=[('p', b'five')]),
            lambda: s.feed(m.ack('pubcomp', 2)),
            lambda: s.feed(m.ack('pubrec', 5)),
            lambda: s.feed(m.ack('puback', 3)),
        ]
        for f in steps[:upto]:
            f()
        return len(steps)
    n = hist(Sess('x'), 0)
    for upto in range(n + 1):
        for sei, ago in [(0, 1), (100, 5), (100, 500), (4294967295, 100000), (None, 3), (50, 49), (50, 51), (0, 0), (None, 0), (7, 0)]:
            if tier == 'quick' and upto % 2 and sei not in (100,):
                continue
            s = Sess(f'c17-{upto}-{sei}-{ago}-{i}')
            i += 1
            via = i % 4 == 3          # (every fourth history through extended authentication: the CONNACK arrives in authorize())
            cf = [('cid', b'c')] + ([('sei', sei)] if sei is not None else [])
            s.connect(cf, via_auth=via)
            hist(s, upto)
            # the connection ends: lost (end of stream / read error), closed by the broker, closed by the APPLICATION with
            # exchanges still unfinished, or run() cancelled — the session state is the same in every case
            cause = ['eof', 'eof', 'err', 'sdisc', 'udisc', 'dropfut'][i % 6]
            if cause == 'eof':
                s.add('FEEDEOF')
            elif cause == 'err':
                s.add('FEEDERR')
            elif cause == 'sdisc':
                s.feed(m.disconnect(0x8b))
            elif cause == 'udisc':
                s.disconnect()
            else:
                s.add('DROPFUT')
            s.add('SNAP')
            s.add(f'MARKDISC {ago}')
            x, Sess.EXTRA_RNG = Sess.EXTRA_RNG, None
            s.connect(cf, via_auth=via, sp=1)
            Sess.EXTRA_RNG = x
            # acknowledgements on the new connection complete the original futures
            for pid in [1, 3]:
                s.feed(m.ack('puback', pid))
            for pid in [2, 5]:
                s.feed(m.ack('pubrec', pid))
                s.feed(m.ack('pubcomp', pid))
            s.publish(1, fields=[('p', b'new')])
            # a second loss of the connection: what was acknowledged on the resumed connection must not come back
            s.add('FEEDEOF')
            s.add('SNAP')
            s.add(f'MARKDISC {min(ago, 2)}')
            x, Sess.EXTRA_RNG = Sess.EXTRA_RNG, None
            s.connect(cf, via_auth=via, sp=1)
            Sess.EXTRA_RNG = x
            s.feed(m.ack('puback', 6))
            s.add('DROPFUT')
            s.add('SNAP')
            out.append(s.script())
    # the server's answer decides: CONNECT asks for `req`, CONNACK grants `got`, the client is back after `ago` seconds
    for req, got, ago in [(10, 3600, 100), (None, 3600, 100), (3600, 10, 100), (10, None, 100), (10, 3600, 5), (3600, 10, 5),
                          (0, 60, 30), (60, 0, 30), (10, 4294967295, 1000000)]:
        s = Sess(f'c17-granted-{req}-{got}-{ago}')
        s.connect([('cid', b'c')] + ([('sei', req)] if req is not None else []), connack_ps=[(17, got)] if got is not None else [])
        s.publish(1, fields=[('p', b'one')])
        o2, p2 = s.publish(2, fields=[('p', b'two')])
        s.feed(m.ack('pubrec', p2))
        s.add('FEEDEOF')
        s.add('SNAP')
        s.add(f'MARKDISC {ago}')
        s.add('SETUP')
        s.add('CONNECT ' + m.kvs([('cid', b'c')] + ([('sei', req)] if req is not None else [])))
        s.feed(m.connack(1, 0, [(17, got)] if got is not None else []))
        s.add('RUN')
        s.feed(m.ack('puback', 1))
        s.feed(m.ack('pubcomp', p2))
        s.add('DROPFUT')
        s.add('SNAP')
        out.append(s.script())
    # random histories (acknowledgements in any order the broker may choose, cancelled operations, batched requests, both
    # handshakes), then the connection is lost and the session resumed or expired; twice
    for j in range(40 if tier == 'quick' else 1500):
        sei, ago = rng.choice([(0, 1), (100, 5), (100, 500), (4294967295, 100000), (None, 3), (50, 49), (50, 51), (100, 5), (100, 5)])
        w = Walk(rng, f'c17-walk-{j}', sei=sei, recv_max=rng.choice([None, None, 3, 8]),
                 weights=dict(pub0=1, pub1=6, pub2=6, sub=1, unsub=0, ping=1, ack=7, inbound=1, pubrel=0, stream=0),
                 allow_drop=rng.random() < 0.3, batch=0.15, snap=False)
        for _ in range(rng.choice([6, 12, 25, 50])):
            w.step()
        s = w.s
        for rnd in range(2):
            s.add('FEEDEOF')
            s.add('SNAP')
            s.add(f'MARKDISC {ago}')
            s.add('SETUP')
            s.add('CONNECT ' + m.kvs([('cid', b'c')] + ([('sei', sei)] if sei is not None else [])))
            s.feed(m.connack(1, 0, []))
            s.add('RUN')
            if rnd == 0:
                # some of what is outstanding gets acknowledged on the resumed connection
                for op, kind, pid in w.pending_acks()[:rng.choice([0, 1, 2, 5])]:
                    if kind in ('puback', 'pubrec', 'pubcomp') and op in s.live_ops:
                        w.ack(op, kind, pid, reason=0)
        s.add('DROPFUT')
        s.add('SNAP')
        out.append(s.script())
    return out


def long_packet_cuts(prefix, tier='quick'):
    """Inbound packets whose remaining length needs 2 or 3 bytes, the read cut after every byte of the fixed header (alone, or
    behind other whole packets of the same read), the rest following later: every one is acknowledged / delivered / completes
    its operation as if it had arrived whole (round 11, C08-k: length field parsed from a read that ends inside it and then
    cached). The framing itself is C03's; here every ACTOR check sees long packets in pieces under its own oracle."""
    out = []
    for total in ((200, 20000) if tier == 'quick' else (127, 128, 200, 16383, 16384, 20000, 70000)):
        for qos in (0, 1, 2):
            for lead in (0, 1):
                for cut in (1, 2, 3, 4):
                    s = Sess(f'{prefix}-longcut-{total}-q{qos}-{lead}-{cut}')
                    s.connect()
                    op, sid = s.subscribed_stream()
                    o1, p1 = s.publish(1)
                    big = m.publish(b'a', b'z' * total, qos, 21 if qos else None, 0, 0, [(11, sid)])
                    head = (m.ack('puback', p1) + m.publish(b'a', b'small', 1, 20, 0, 0, [(11, sid)])) if lead else b''
                    s.feed(head + big[:cut])
                    s.feed(big[cut:cut + 1])
                    s.feed(big[cut + 1:] + m.publish(b'a', b'after', 1, 22, 0, 0, [(11, sid)]))
                    if not lead:
                        s.feed(m.ack('puback', p1))
                    if qos == 2:
                        s.feed(m.ack('pubrel', 21))
                    s.ping()
                    s.feed(m.pingresp())
                    out.append(s.script())
    return out


def reconnect_matrix(prefix, tier='quick'):
    """The SAME Context connected a second time, with everything a first connection can leave behind (round 10: seven of the
    seventeen changes needed exactly this and nothing else found them): unacknowledged QoS 1 / QoS 2 publishes, a PUBREL awaiting
    its PUBCOMP, an inbound QoS 2 exchange awaiting its PUBREL, a live subscription — ended by every cause, including a write
    fault exactly at the acknowledgement of an inbound packet, with and without bytes of the old connection still buffered
    (behind the last served packet / an unfinished packet), resumed (MARKDISC) or merely reconnected, the second CONNACK
    announcing a smaller Receive Maximum than there are unfinished exchanges; then the broker's re-deliveries, the
    acknowledgements of the re-sent packets, new traffic."""
    out = []
    long_filter = b'f/' + b'x' * 40
    causes = ['eof', 'err', 'eof-part1', 'eof-part3', 'err-part2', 'sdisc', 'sdisc0-trail', 'sdisc-trail-part', 'udisc',
              'dropfut', 'malformed-trail', 'stray-then-eof']
    # (CONNECT with cid=c sei=100 is 21 bytes, the SUBSCRIBE 52: the PUBREC of the inbound message occupies bytes 73..76 of
    #  the first connection's output; 71/72 fall inside the SUBSCRIBE)
    causes += ['werr%d' % k for k in ((71, 73, 74, 76) if tier == 'quick' else range(62, 77))]
    causes += ['werr2-%d' % k for k in ((73, 75) if tier == 'quick' else (73, 74, 75, 76))]
    k = 0
    for cause in causes:
        for mark in (5, None):
            for ps2 in ([], [(33, 1)], [(33, 2)], [(39, 200)]):
                k += 1
                if tier == 'quick' and ps2 and (k % 3) and not (cause == 'eof' and mark == 5):
                    continue
                cfg = 'werr=' + cause.split('werr')[1].split('-')[-1] if cause.startswith('werr') else None
                s = Sess(f'{prefix}-reconn-{cause}-{mark}-{"_".join(str(v) for _, v in ps2) or "none"}', cfg)
                cf = [('cid', b'c'), ('sei', 100)]
                x, Sess.EXTRA_RNG = Sess.EXTRA_RNG, None
                s.connect(cf)
                op, sid = s.subscribed_stream(((long_filter, '2000'),))
                inb = m.publish(b'a', b'first', 2, 7, 0, 0, [(11, sid)])
                if cause.startswith('werr2-'):
                    # the faulting write is the acknowledgement of the FIRST of two packets that came in one read
                    # (behind it a packet nobody waits for: whether the client gets to it before the failing write ends
                    #  run() is not for the oracles to guess)
                    s.feed(inb + m.pingresp() + m.ack('puback', 99))
                elif cause.startswith('werr'):
                    s.feed(inb)
                else:
                    oa, pa = s.publish(1, fields=[('p', b'one')])
                    ob, pb = s.publish(2, fields=[('p', b'two')])
                    s.feed(m.ack('pubrec', pb))
                    oc, pc = s.publish(2, fields=[('p', b'three')])
                    s.feed(inb)
                    if cause == 'eof':
                        s.add('FEEDEOF')
                    elif cause == 'err':
                        s.add('FEEDERR')
                    elif cause.startswith('eof-part') or cause.startswith('err-part'):
                        n = int(cause[-1])
                        s.feed(m.publish(b'a', b'cut-off', 1, 9, 0, 0, [(11, sid)])[:n])
                        s.add('FEEDEOF' if cause.startswith('eof') else 'FEEDERR')
                    elif cause == 'sdisc':
                        s.feed(m.disconnect(0x8b))
                    elif cause == 'sdisc0-trail':
                        s.feed(m.disconnect(0, form='empty') + m.pingresp())
                    elif cause == 'sdisc-trail-part':
                        s.feed(m.disconnect(0x8b) + m.publish(b'a', b'never', 1, 9, 0, 0, [(11, sid)])[:5])
                    elif cause == 'udisc':
                        s.disconnect()
                    elif cause == 'dropfut':
                        s.add('DROPFUT')
                    elif cause == 'malformed-trail':
                        s.feed(bytes([0x40, 0x01, 0x00]) + m.pingresp() + bytes([0x30]))
                    elif cause == 'stray-then-eof':
                        s.feed(m.auth(short=True))
                        s.feed(m.connack(0, 0, []))
                        s.add('FEEDEOF')
                s.add('SNAP')
                if mark is not None:
                    s.add(f'MARKDISC {mark}')
                s.connect(cf, connack_ps=ps2, sp=1)
                Sess.EXTRA_RNG = x
                # the broker never saw / may not have seen the PUBREC: it re-delivers; then releases; then a new message
                s.feed(m.publish(b'a', b'first', 2, 7, 1, 0, [(11, sid)]))
                s.feed(m.publish(b'a', b'first', 2, 7, 1, 0, [(11, sid)]))
                s.feed(m.ack('pubrel', 7))
                s.feed(m.publish(b'a', b'second', 2, 7, 0, 0, [(11, sid)]))
                if not cause.startswith('werr'):
                    s.feed(m.ack('puback', pa))
                    s.feed(m.ack('pubcomp', pb))
                    s.feed(m.ack('pubrec', pc))
                    s.feed(m.ack('pubcomp', pc))
                    s.publish(1, fields=[('p', b'new')])
                    s.publish(1, fields=[('p', b'new2')])
                s.add('SNAP')
                s.feed(m.disconnect(0x8b))
                out.append(s.script())
    return out


ACTOR = ['C05', 'C06', 'C07', 'C08', 'C09', 'C10', 'C12', 'C13', 'C14', 'C15', 'C17']


# =============================================================================================== reactive broker
REACT = ('REACT',)


def broker_replies(raw, state=None):
    """what a conformant broker answers to one client packet (None: nothing). With a state dict the broker refuses every second
    QoS>0 publish it receives (reasons 0x80, 0x97, 0x80, 0x87 in turn) and answers a PUBREL for an exchange it has refused / never seen with PUBCOMP 0x92."""
    from . import wire
    pk = wire.try_client(raw)
    if pk is None:
        return None
    t = pk['type']
    bad = None
    if state is not None and t == 3 and pk['qos'] > 0 and not pk.get('dup'):
        state['n'] = state.get('n', 0) + 1
        if state['n'] % 2 == 0:
            bad = [0x80, 0x97, 0x80, 0x87][(state['n'] // 2 - 1) % 4]
    if t == 3 and pk['qos'] == 1:
        return m.ack('puback', pk['pid'], bad)
    if t == 3 and pk['qos'] == 2:
        if state is not None:
            (state['failed'].add if bad else state['open'].add)(pk['pid'])
        return m.ack('pubrec', pk['pid'], bad)
    if t == 6:
        if state is not None and pk['pid'] not in state['open']:
            return m.ack('pubcomp', pk['pid'], 0x92)
        if state is not None:
            state['open'].discard(pk['pid'])
        return m.ack('pubcomp', pk['pid'])
    if t == 5 and pk.get('reason', 0) < 0x80:
        return m.ack('pubrel', pk['pid'])          # the broker's own QoS 2 message: PUBREC received, PUBREL sent
    if t == 8:
        sids = [v for i, v in pk.get('props', []) if i == 11]
        sub = m.suback(pk['pid'], [0] * max(1, len(pk.get('filters', [1]))))
        if sids and pk['pid'] % 2:
            # a retained message matching the new subscription follows the SUBACK at once (before the application can have
            # taken the stream): it belongs to that subscription
            return sub + m.publish(b'a', b'retained', 0, None, 0, 1, [(11, sids[0])])
        return sub
    if t == 10:
        return m.unsuback(pk['pid'], [0] * max(1, len(pk.get('filters', [1]))))
    if t == 12:
        return m.pingresp()
    return None


def expand_reactive(scenarios, runner, max_rounds=12):
    """scenarios: (name, items) with items = script lines and REACT markers. A REACT marker is replaced by the FEED lines a
    conformant broker would send in answer to everything the IMPLEMENTATION has written so far and that is still
    unanswered — found by running the implementation on the script built up to that point. The resulting scripts are then
    ordinary scripts (run by the model, compared, judged); on a tree where model and implementation agree they are the
    scripts a static generator would have written."""
    st = {n: dict(lines=[], items=list(items), answered=0, broker=(dict(failed=set(), open=set()) if n.endswith('-refusing') else None))
          for n, items in scenarios}
    for _ in range(max_rounds):
        waiting = []
        for n, d in st.items():
            while d['items'] and d['items'][0] is not REACT:
                d['lines'].append(d['items'].pop(0))
            if d['items']:
                d['items'].pop(0)
                waiting.append(n)
        if not waiting:
            break
        tr = runner([(n, st[n]['lines']) for n in waiting])
        for n in waiting:
            d = st[n]
            ws = [bytes.fromhex(o.split(' ')[1]) for _, obs in tr.get(n, []) for o in obs if o.startswith('W ')]
            for raw in ws[d['answered']:]:
                r = broker_replies(raw, d['broker'])
                if r is not None:
                    d['lines'].append(m.feed(r))
            d['answered'] = len(ws)
    return [(n, d['lines'] + [x for x in d['items'] if x is not REACT]) for n, d in st.items()]


def reactive_scenarios(rng, tier, prefix):
    """operations from several clones whose futures are polled promptly, late, or dropped, against a broker that answers
    whatever actually appears on the wire, whenever it appears"""
    out = []
    n = 40 if tier == 'quick' else 600 * DEPTH
    for i in range(n):
        items = ['SETUP', 'CONNECT cid=63', m.feed(m.connack(0, 0, [(33, rng.choice([1, 2, 5]))] if rng.random() < 0.4 else [])), 'RUN',
                 'CLONE h0 h1']
        op = 0
        inpid = 0
        held, live = set(), []
        for _ in range(rng.choice([3, 6, 12])):
            k = rng.choice(['pub1', 'pub2', 'pub2', 'pub2', 'sub', 'unsub', 'ping', 'react', 'react', 'release', 'drop', 'holdctx',
                            'in1', 'in2', 'in2'])
            if k in ('pub1', 'pub2', 'sub', 'unsub', 'ping'):
                op += 1
                h = rng.choice([0, 1])
                if k.startswith('pub'):
                    items.append(f'OP {op} h{h} PUBLISH q={k[3]} t=61 p=78')
                elif k == 'sub':
                    items.append(f'OP {op} h{h} SUBSCRIBE f=61:2000' + (' f=62:1000' if rng.random() < 0.3 else ''))
                elif k == 'unsub':
                    items.append(f'OP {op} h{h} UNSUBSCRIBE f=61')
                else:
                    items.append(f'OP {op} h{h} PING')
                live.append(op)
                if rng.random() < 0.45:
                    items.append(f'HOLD op{op}')       # the application is slow to poll this future again
                    held.add(op)
            elif k in ('in1', 'in2'):
                inpid = inpid + 1 if k != 'in2' or rng.random() < 0.7 else max(1, inpid)      # sometimes a re-delivery
                items.append(m.feed(m.publish(b'a', b'x', int(k[2]), inpid, 0, 0)))
            elif k == 'react':
                items.append(REACT)
            elif k == 'release' and held:
                o = rng.choice(sorted(held))
                held.discard(o)
                items.append(f'RELEASE op{o}')
            elif k == 'drop' and live and rng.random() < 0.3:
                o = rng.choice(live)
                live.remove(o)
                held.discard(o)
                items.append(f'DROP op{o}')
            elif k == 'holdctx':
                items += ['HOLD ctx', REACT, 'RELEASE ctx']
        # the broker keeps answering, the application finally polls everything
        items += [REACT, REACT]
        for o in sorted(held):
            items.append(f'RELEASE op{o}')
        items += [REACT, REACT, REACT]
        # the subscriptions that were not abandoned are consumed: the nth subscribe() call has subscription identifier n
        nsub = 0
        for l in list(items):
            if isinstance(l, str) and l.startswith('OP ') and ' SUBSCRIBE ' in l:
                nsub += 1
                o = int(l.split(' ')[1])
                if o in live:
                    inpid += 1
                    items += [f'STREAM {o}', m.feed(m.publish(b'a', b'for-' + str(nsub).encode(), 1, inpid, 0, 0, [(11, nsub)])), REACT]
        out.append((f'{prefix}-react-{i}' + ('-refusing' if i % 2 else ''), items))
    # a small Receive Maximum and a broker that refuses every second publish: after every round of answers exactly R further
    # publishes are accepted, however the refusals and the stray PUBRELs of a confused client are answered
    for R in (1, 2, 3):
        for order in (0, 1, 2):
            items = ['SETUP', 'CONNECT cid=63', m.feed(m.connack(0, 0, [(33, R)])), 'RUN', 'CLONE h0 h1']
            op = 0
            for rnd in range(5):
                for j in range(R + 1):
                    op += 1
                    q = [2, 1, 2][(j + order + rnd) % 3]
                    items.append(f'OP {op} h{j % 2} PUBLISH q={q} t=61 p=78')
                items += [REACT, REACT, REACT]
            out.append((f'{prefix}-react-quota-{R}-{order}-refusing', items))
    # the plain late-poll cases, every kind
    for kind in ('pub1', 'pub2', 'sub', 'unsub', 'ping'):
        for others in (0, 2):
            items = ['SETUP', 'CONNECT cid=63', m.feed(m.connack(0, 0, [])), 'RUN', 'CLONE h0 h1']
            line = {'pub1': 'PUBLISH q=1 t=61', 'pub2': 'PUBLISH q=2 t=61', 'sub': 'SUBSCRIBE f=61:2000', 'unsub': 'UNSUBSCRIBE f=61',
                    'ping': 'PING'}[kind]
            items += [f'OP 1 h0 {line}', 'HOLD op1']
            for j in range(others):
                items.append(f'OP {2 + j} h1 ' + ['PUBLISH q=1 t=62', 'PING'][j])
            items += [REACT, REACT, REACT, 'RELEASE op1', REACT, REACT]
            out.append((f'{prefix}-react-late-{kind}-{others}', items))
    return out


REACTIVE = ('C05', 'C06', 'C07', 'C08', 'C09', 'C10', 'C11', 'C12', 'C13', 'C15')


def with_common(fam, prefix, **kw):
    def f(rng, tier):
        out = fam(rng, tier) + fam_common(rng, tier, prefix, **kw) + reconnect_matrix(prefix, tier) + long_packet_cuts(prefix, tier)
        if tier != 'quick' and prefix.upper() in ACTOR and os.environ.get('VERIF_UNION', '1') != '0':
            # thorough tier: additionally the quick families of every OTHER actor property, judged by this property's
            # oracle and the correspondence comparison (a change that breaks this property often needs a situation that
            # only a sibling property's scripts construct: section 12 of DESIGN.md)
            r2 = random.Random(rng.random())
            for other in ACTOR:
                if other != prefix.upper():
                    # (very long scripts — identifier wrap-arounds — stay with their owner: some sibling oracles are quadratic)
                    out += [(f'{prefix}-x-{n}', l) for n, l in BASE[other](r2, 'quick') if not n.startswith('big-') and len(l) < 20000]
        return out
    return f


BASE = {'C05': fam_C05, 'C06': fam_C06, 'C07': fam_C07, 'C08': fam_C08, 'C09': fam_C09, 'C10': fam_C10, 'C12': fam_C12,
        'C13': fam_C13, 'C14': fam_C14, 'C15': fam_C15, 'C17': fam_C17}

def with_extras(fam):
    def f(rng, tier):
        Sess.EXTRA_RNG = random.Random(rng.random())
        try:
            return fam(rng, tier)
        finally:
            Sess.EXTRA_RNG = None
    return f


FAMILIES = {
    'C01': lambda rng, tier: fam_C01(rng, tier) + submission_order_scripts(rng, tier, 'c01') + reconnect_matrix('c01', tier),
    'C02': lambda rng, tier: fam_C02(rng, tier) + user_property_order_scripts('c02') + reconnect_matrix('c02', tier), 'C03': fam_C03,
    'C04': with_common(lambda rng, tier: fam_C04(rng, tier) + burst_scripts('c04', tier) + prop_by_type_scripts('c04') + padded_subid_scripts('c04') + reason_sweep_scripts('c04', tier) + bad_utf8_scripts('c04') + bad_property_value_scripts('c04'), 'c04'), 'C05': with_common(fam_C05, 'c05'), 'C06': with_common(fam_C06, 'c06'),
    'C07': with_common(lambda rng, tier: fam_C07(rng, tier) + padded_subid_scripts('c07') + [(n.replace('c09-', 'c07-'), l) for n, l in fam_C09(rng, 'quick') if n.startswith('c09-pubrel-reason')], 'c07'), 'C08': with_common(fam_C08, 'c08'), 'C09': with_common(lambda rng, tier: fam_C09(rng, tier) + congruent_id_scripts('c09', tier), 'c09'),
    'C10': with_common(fam_C10, 'c10'), 'C11': with_common(fam_C11, 'c11', n_quick=15, n_thorough=300),
    'C12': with_common(fam_C12, 'c12'), 'C13': with_common(fam_C13, 'c13'),
    'C14': with_common(fam_C14, 'c14', tail=['DROPCTX', 'OP 9001 h0 PING', 'OP 9003 h0 PUBLISH q=1 t=61 p=' + '78' * 100, 'OP 9004 h0 SUBSCRIBE f=' + '61' * 100 + ':2000',
                             'OP 9002 h0 DISCONNECT']),
    'C15': with_common(fam_C15, 'c15'), 'C16': fam_C16,
    'C17': with_common(fam_C17, 'c17', n_quick=0, n_thorough=0),
}
for _p in list(FAMILIES):
    if _p not in ('C03', 'C16'):          # (their scripts come in groups that must stay byte-identical)
        FAMILIES[_p] = with_extras(FAMILIES[_p])
