//! `pharness <script-file>`: drives poster-rs in-process under a deterministic single-threaded executor
//! with mock transports and prints the transcript defined in /verif/PROTOCOL.md.

mod exec;
mod mock_io;
mod obs;
mod ops;
mod script;

use exec::Harness;
use script::Script;
use std::process::ExitCode;

fn run_script(script: &Script) {
    obs::emit(&format!("BEGIN {}", script.name));
    // Whatever happens next (even an abort), the orchestrator knows which script was running.
    obs::flush();

    match script.cfg {
        None => obs::emit("BADSCRIPT"),
        Some(cfg) => {
            let mut harness = Harness::new(cfg);

            let mut last_flush = std::time::Instant::now();

            for line in script.lines.iter() {
                // heartbeat for the orchestrator's watchdog: a script that makes the library spin shows up as
                // "no output for N seconds", not as an hour-long run
                if last_flush.elapsed().as_millis() >= 500 {
                    obs::flush();
                    last_flush = std::time::Instant::now();
                }

                obs::emit(&format!("> {}", line));

                let applied = script::parse_event(line)
                    .ok_or(exec::BadScript)
                    .and_then(|event| harness.apply(event));

                if applied.is_err() {
                    obs::emit("BADSCRIPT");
                    break;
                }

                harness.settle();
            }

            harness.finish();
        }
    }

    obs::emit("END");
    obs::flush();
}

fn main() -> ExitCode {
    let Some(path) = std::env::args().nth(1) else {
        eprintln!("usage: pharness <script-file>");
        return ExitCode::from(2);
    };

    let text = match std::fs::read_to_string(&path) {
        Ok(text) => text,
        Err(err) => {
            eprintln!("pharness: cannot read {}: {}", path, err);
            return ExitCode::from(2);
        }
    };

    obs::install_panic_hook();

    for script in script::parse_file(&text) {
        run_script(&script);
    }

    ExitCode::SUCCESS
}
