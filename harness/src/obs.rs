//! Observation log (the transcript), value formatting, panic capture.
//!
//! The transcript is accumulated in a thread-local buffer so that the mock writer can log `W` lines
//! at the exact moment a packet completes, in between the `DONE` / `ITEM` / `RET` lines of the executor.

use poster::{
    error::MqttError, prelude::Either, reason::DisconnectReason, AuthRsp, ConnectRsp, PublishData,
    QoS, UserProperties,
};
use std::{
    cell::RefCell,
    io::{self, Write},
};

thread_local! {
    static OUT: RefCell<String> = const { RefCell::new(String::new()) };
    static LAST_PANIC: RefCell<Option<String>> = const { RefCell::new(None) };
}

/// Appends one line to the transcript.
pub fn emit(line: &str) {
    OUT.with(|out| {
        let mut out = out.borrow_mut();
        out.push_str(line);
        out.push('\n');
    });
}

/// Writes the buffered transcript to stdout and flushes it.
pub fn flush() {
    let text = OUT.with(|out| std::mem::take(&mut *out.borrow_mut()));
    let stdout = io::stdout();
    let mut lock = stdout.lock();
    let _ = lock.write_all(text.as_bytes());
    let _ = lock.flush();
}

// ---------------------------------------------------------------------------------------------
// Panics
// ---------------------------------------------------------------------------------------------

/// Installs (once) a panic hook that records the message and prints nothing.
pub fn install_panic_hook() {
    std::panic::set_hook(Box::new(|info| {
        let payload = info.payload();
        let msg = if let Some(s) = payload.downcast_ref::<&'static str>() {
            (*s).to_string()
        } else if let Some(s) = payload.downcast_ref::<String>() {
            s.clone()
        } else {
            String::new()
        };
        LAST_PANIC.with(|slot| *slot.borrow_mut() = Some(msg));
    }));
}

/// Takes the message of the most recent panic and classifies it.
pub fn take_panic_class() -> &'static str {
    let msg = LAST_PANIC
        .with(|slot| slot.borrow_mut().take())
        .unwrap_or_default();
    classify_panic(&msg)
}

fn classify_panic(msg: &str) -> &'static str {
    if msg.contains("attempt to") {
        "overflow"
    } else if msg.contains("cannot advance past") || msg.contains("advance") {
        "advance"
    } else if msg.contains("unreachable") {
        "unreachable"
    } else if msg.contains("unwrap()")
        || msg.contains("called `Option::unwrap")
        || msg.contains("called `Result::unwrap")
    {
        "unwrap"
    } else if msg.contains("Subscription identifier support is required") {
        "assert-subid"
    } else {
        "other"
    }
}

// ---------------------------------------------------------------------------------------------
// Value formatting
// ---------------------------------------------------------------------------------------------

pub fn hex(bytes: &[u8]) -> String {
    const DIGITS: &[u8; 16] = b"0123456789abcdef";
    let mut out = String::with_capacity(bytes.len() * 2);
    for b in bytes {
        out.push(DIGITS[(b >> 4) as usize] as char);
        out.push(DIGITS[(b & 0x0f) as usize] as char);
    }
    out
}

fn b(val: bool) -> &'static str {
    if val {
        "1"
    } else {
        "0"
    }
}

fn ob(val: Option<bool>) -> &'static str {
    val.map(b).unwrap_or("-")
}

fn on<T: ToString>(val: Option<T>) -> String {
    val.map(|v| v.to_string()).unwrap_or_else(|| "-".into())
}

fn ostr(val: Option<&str>) -> String {
    val.map(|s| hex(s.as_bytes())).unwrap_or_else(|| "-".into())
}

fn obytes(val: Option<&[u8]>) -> String {
    val.map(hex).unwrap_or_else(|| "-".into())
}

fn ups(val: &UserProperties) -> String {
    let parts: Vec<String> = val
        .iter()
        .map(|(k, v)| format!("{}:{}", hex(k.as_bytes()), hex(v.as_bytes())))
        .collect();
    if parts.is_empty() {
        "-".into()
    } else {
        parts.join(",")
    }
}

pub fn qos_num(val: QoS) -> u8 {
    match val {
        QoS::AtMostOnce => 0,
        QoS::AtLeastOnce => 1,
        QoS::ExactlyOnce => 2,
    }
}

// ---------------------------------------------------------------------------------------------
// Result views (everything is read through the public accessors)
// ---------------------------------------------------------------------------------------------

/// `ok suback rs=… up=… pl=…` / `ok unsuback …`; `reasons` are the payload reason codes as bytes.
pub fn ack_list_view(
    what: &str,
    reason_string: Option<&str>,
    user_properties: &UserProperties,
    reasons: &[u8],
) -> String {
    format!(
        "ok {} rs={} up={} pl={}",
        what,
        ostr(reason_string),
        ups(user_properties),
        hex(reasons)
    )
}

/// `err <Kind> [fields]`
pub fn error_view(err: &MqttError) -> String {
    match err {
        MqttError::InternalError(_) => "err InternalError".into(),
        MqttError::ConnectError(e) => format!(
            "err ConnectError r={} rs={} sr={} up={}",
            e.reason() as u8,
            ostr(e.reason_string()),
            ostr(e.server_reference()),
            ups(e.user_properties())
        ),
        MqttError::AuthError(_) => "err AuthError".into(),
        MqttError::PubackError(e) => format!(
            "err PubackError r={} rs={} up={}",
            e.reason() as u8,
            ostr(e.reason_string()),
            ups(e.user_properties())
        ),
        MqttError::PubrecError(e) => format!(
            "err PubrecError r={} rs={} up={}",
            e.reason() as u8,
            ostr(e.reason_string()),
            ups(e.user_properties())
        ),
        MqttError::PubcompError(e) => format!(
            "err PubcompError r={} rs={} up={}",
            e.reason() as u8,
            ostr(e.reason_string()),
            ups(e.user_properties())
        ),
        MqttError::SocketClosed(_) => "err SocketClosed".into(),
        MqttError::HandleClosed(_) => "err HandleClosed".into(),
        MqttError::ContextExited(_) => "err ContextExited".into(),
        MqttError::Disconnected(e) => format!(
            "err Disconnected r={} sei={} rs={} sr={} up={}",
            e.reason() as u8,
            e.session_expiry_interval().as_secs(),
            ostr(e.reason_string()),
            ostr(e.server_reference()),
            ups(e.user_properties())
        ),
        MqttError::CodecError(_) => "err CodecError".into(),
        MqttError::QuotaExceeded(_) => "err QuotaExceeded".into(),
        MqttError::MaximumPacketSizeExceeded(_) => "err MaximumPacketSizeExceeded".into(),
    }
}

/// `ok connack …` / `ok auth …` / `err …` for the result of `connect` / `authorize`.
pub fn connect_view(res: &Result<Either<ConnectRsp, AuthRsp>, MqttError>) -> String {
    match res {
        Ok(Either::Left(c)) => format!(
            "ok connack sp={} r={} wsa={} sia={} ssa={} mq={} ra={} ska={} rm={} tam={} sei={} mps={} \
             aci={} rs={} ri={} sr={} am={} ad={} up={}",
            b(c.session_present()),
            c.reason() as u8,
            b(c.wildcard_subscription_available()),
            b(c.subscription_identifier_available()),
            b(c.shared_subscription_available()),
            qos_num(c.maximum_qos()),
            b(c.retain_available()),
            on(c.server_keep_alive().map(|d| d.as_secs())),
            c.receive_maximum(),
            c.topic_alias_maximum(),
            on(c.session_expiry_interval().map(|d| d.as_secs())),
            on(c.maximum_packet_size()),
            ostr(c.assigned_client_identifier()),
            ostr(c.reason_string()),
            ostr(c.response_information()),
            ostr(c.server_reference()),
            ostr(c.authentication_method()),
            obytes(c.authentication_data()),
            ups(c.user_properties())
        ),
        Ok(Either::Right(a)) => format!(
            "ok auth r={} rs={} am={} ad={} up={}",
            a.reason() as u8,
            ostr(a.reason_string()),
            ostr(a.authentication_method()),
            obytes(a.authentication_data()),
            ups(a.user_properties())
        ),
        Err(err) => error_view(err),
    }
}

/// `ok` / `err …` for the result of `run` and of the unit-valued handle operations.
pub fn unit_view(res: &Result<(), MqttError>) -> String {
    match res {
        Ok(()) => "ok".into(),
        Err(err) => error_view(err),
    }
}

/// The fields of an `ITEM` line (after `ITEM st<id> `).
pub fn item_view(p: &PublishData) -> String {
    format!(
        "dup={} retain={} qos={} t={} pfi={} ta={} mei={} cd={} rt={} ct={} up={} p={}",
        b(p.dup()),
        b(p.retain()),
        qos_num(p.qos()),
        hex(p.topic_name().as_bytes()),
        ob(p.payload_format_indicator()),
        on(p.topic_alias()),
        on(p.message_expiry_interval().map(|d| d.as_secs())),
        obytes(p.correlation_data()),
        ostr(p.response_topic()),
        ostr(p.content_type()),
        ups(p.user_properties()),
        hex(p.payload())
    )
}

// ---------------------------------------------------------------------------------------------
// Script value → library enum tables
// ---------------------------------------------------------------------------------------------

pub fn disconnect_reason(val: u8) -> Option<DisconnectReason> {
    use DisconnectReason::*;
    Some(match val {
        0x00 => Success,
        0x04 => DisconnectWithWillMessage,
        0x80 => UnspecifiedError,
        0x81 => MalformedPacket,
        0x82 => ProtocolError,
        0x83 => ImplementationSpecificError,
        0x87 => NotAuthorized,
        0x89 => ServerBusy,
        0x8b => ServerShuttingDown,
        0x8d => KeepAliveTimeout,
        0x8e => SessionTakenOver,
        0x8f => TopicFilterInvalid,
        0x90 => TopicNameInvalid,
        0x93 => ReceiveMaximumExcceeded,
        0x94 => TopicAliasInvalid,
        0x95 => PacketTooLarge,
        0x96 => MessageRateTooHigh,
        0x97 => QuotaExceeded,
        0x98 => AdministrativeAction,
        0x99 => PayloadFormatInvalid,
        0x9a => RetainNotSupported,
        0x9b => QoSNotSupported,
        0x9c => UseAnotherServer,
        0x9d => ServerMoved,
        0x9e => SharedSubscriptionsNotSupported,
        0x9f => ConnectionRateExceeded,
        0xa0 => MaximumConnectTime,
        0xa1 => SubscriptionIdentifiersNotSupported,
        0xa2 => WildcardSubscriptionsNotSupported,
        _ => return None,
    })
}
