//! Mock transports (PROTOCOL.md section 5).
//!
//! Both halves are thin handles on `Rc<RefCell<…>>` state shared with the harness, so the script can feed
//! the reader and inspect the writer while the library owns the `AsyncRead` / `AsyncWrite` objects.

use crate::obs;
use futures::{AsyncRead, AsyncWrite};
use std::{
    cell::RefCell,
    collections::VecDeque,
    io,
    pin::Pin,
    rc::Rc,
    task::{Context, Poll, Waker},
};

// ---------------------------------------------------------------------------------------------
// Reader
// ---------------------------------------------------------------------------------------------

pub enum ReadEvent {
    Data(Vec<u8>),
    Eof,
    Err,
    /// `rdp=1`: one `Pending` (with an immediate self-wake) in front of the next event.
    Yield,
}

pub struct ReaderState {
    queue: VecDeque<ReadEvent>,
    waker: Option<Waker>,
    fill: bool,
    markers: bool,
}

impl ReaderState {
    pub fn new(fill: bool, markers: bool) -> Self {
        Self {
            queue: VecDeque::new(),
            waker: None,
            fill,
            markers,
        }
    }

    /// Appends one event (preceded by a yield marker with `rdp=1`).
    pub fn push(&mut self, event: ReadEvent) {
        if self.markers {
            self.queue.push_back(ReadEvent::Yield);
        }
        self.queue.push_back(event);
    }

    /// Wakes and clears the stored waker.
    pub fn wake(&mut self) {
        if let Some(waker) = self.waker.take() {
            waker.wake();
        }
    }

    /// Anything left that the library has not consumed (sticky eof / err stay queued).
    pub fn has_undelivered(&self) -> bool {
        !self.queue.is_empty()
    }

    /// `rd=fill`: merge the leading run of consecutive data chunks into one.
    fn merge_leading_data(&mut self) {
        let mut merged: Option<Vec<u8>> = None;
        while let Some(ReadEvent::Data(_)) = self.queue.front() {
            if let Some(ReadEvent::Data(chunk)) = self.queue.pop_front() {
                match merged.as_mut() {
                    Some(acc) => acc.extend_from_slice(&chunk),
                    None => merged = Some(chunk),
                }
            }
        }
        if let Some(acc) = merged {
            self.queue.push_front(ReadEvent::Data(acc));
        }
    }
}

pub struct MockReader {
    pub state: Rc<RefCell<ReaderState>>,
}

impl AsyncRead for MockReader {
    fn poll_read(
        self: Pin<&mut Self>,
        cx: &mut Context<'_>,
        buf: &mut [u8],
    ) -> Poll<io::Result<usize>> {
        let mut guard = self.state.borrow_mut();
        let st: &mut ReaderState = &mut guard;

        if st.fill {
            st.merge_leading_data();
        }

        match st.queue.front_mut() {
            None => {
                st.waker = Some(cx.waker().clone());
                Poll::Pending
            }
            Some(ReadEvent::Yield) => {
                st.queue.pop_front();
                cx.waker().wake_by_ref();
                Poll::Pending
            }
            Some(ReadEvent::Data(chunk)) => {
                if buf.is_empty() {
                    return Poll::Ready(Ok(0));
                }
                let n = chunk.len().min(buf.len());
                buf[..n].copy_from_slice(&chunk[..n]);
                if n == chunk.len() {
                    st.queue.pop_front();
                } else {
                    chunk.drain(..n);
                }
                Poll::Ready(Ok(n))
            }
            Some(ReadEvent::Eof) => Poll::Ready(Ok(0)),
            Some(ReadEvent::Err) => {
                Poll::Ready(Err(io::Error::new(io::ErrorKind::Other, "mock read error")))
            }
        }
    }
}

// ---------------------------------------------------------------------------------------------
// Writer
// ---------------------------------------------------------------------------------------------

#[derive(Clone, Copy)]
pub struct WriterCfg {
    /// `wr=pend|pendone`: one `Pending` (with an immediate self-wake) before every accept.
    pub pend: bool,
    /// `wr=one|pendone`: accept one byte per call.
    pub one: bool,
    pub werr: Option<usize>,
    pub wzero: Option<usize>,
    /// `wflush=ok|err|pend`, `wclose=ok|err|pend`: what `poll_flush` / `poll_close` answer (`pend` never wakes).
    pub flush: SideCall,
    pub close: SideCall,
    /// `wtrace=1`: log `WCALLS calls=<n> pend=<k> bytes=<b>` when the transport is replaced and at the end of the script.
    pub trace: bool,
}

#[derive(Clone, Copy, PartialEq, Eq)]
pub enum SideCall {
    Ok,
    Err,
    Pend,
}

impl SideCall {
    fn answer(self) -> Poll<io::Result<()>> {
        match self {
            SideCall::Ok => Poll::Ready(Ok(())),
            SideCall::Err => Poll::Ready(Err(io::Error::new(
                io::ErrorKind::NotConnected,
                "mock flush/close error",
            ))),
            SideCall::Pend => Poll::Pending,
        }
    }
}

pub struct WriterState {
    cfg: WriterCfg,
    accepted: usize,
    yielded: bool,
    /// Accepted bytes that do not yet form a whole packet.
    pending: Vec<u8>,
    /// `poll_write` calls made by the client / answered `Pending`.
    calls: usize,
    pendings: usize,
    raw: bool,
}

impl WriterState {
    pub fn new(cfg: WriterCfg) -> Self {
        Self {
            cfg,
            accepted: 0,
            yielded: false,
            pending: Vec::new(),
            calls: 0,
            pendings: 0,
            raw: false,
        }
    }

    /// Logs written-but-unframed bytes as `WRAW` (nothing if there are none).
    pub fn flush_raw(&mut self) {
        if !self.pending.is_empty() {
            obs::emit(&format!("WRAW {}", obs::hex(&self.pending)));
            self.pending.clear();
            self.raw = true;
        }
    }

    /// `wtrace=1`: what the client asked of this transport (`?` once bytes that are no whole packet were reported, or a
    /// byte budget cut a write short: the model's `write_all` statistics are defined for whole packets only).
    pub fn flush_stats(&mut self) {
        if self.cfg.trace {
            if self.raw || self.cfg.werr.is_some() || self.cfg.wzero.is_some() {
                obs::emit("WCALLS ?");
            } else {
                obs::emit(&format!(
                    "WCALLS calls={} pend={} bytes={}",
                    self.calls, self.pendings, self.accepted
                ));
            }
        }
    }

    fn accept(&mut self, bytes: &[u8]) {
        self.accepted += bytes.len();
        self.pending.extend_from_slice(bytes);
        self.frame();
    }

    /// Independent framer: 1 header byte, variable byte integer (1–4 bytes), that many bytes.
    fn frame(&mut self) {
        loop {
            if self.pending.len() < 2 {
                return;
            }

            let mut remaining_len = 0usize;
            let mut len_bytes = 0usize;
            let mut complete = false;
            for (i, byte) in self.pending[1..].iter().take(4).enumerate() {
                remaining_len |= ((byte & 0x7f) as usize) << (7 * i);
                len_bytes = i + 1;
                if byte & 0x80 == 0 {
                    complete = true;
                    break;
                }
            }

            if !complete {
                if len_bytes == 4 {
                    // A fifth length byte would be needed: malformed, give up on framing these bytes.
                    self.flush_raw();
                }
                return;
            }

            let total = 1 + len_bytes + remaining_len;
            if self.pending.len() < total {
                return;
            }

            obs::emit(&format!("W {}", obs::hex(&self.pending[..total])));
            self.pending.drain(..total);
        }
    }
}

pub struct MockWriter {
    pub state: Rc<RefCell<WriterState>>,
}

impl AsyncWrite for MockWriter {
    fn poll_write(
        self: Pin<&mut Self>,
        cx: &mut Context<'_>,
        buf: &[u8],
    ) -> Poll<io::Result<usize>> {
        let mut st = self.state.borrow_mut();
        let cfg = st.cfg;
        st.calls += 1;

        if let Some(n) = cfg.werr {
            if st.accepted >= n {
                return Poll::Ready(Err(io::Error::new(
                    io::ErrorKind::Other,
                    "mock write error",
                )));
            }
        }

        if let Some(n) = cfg.wzero {
            if st.accepted >= n {
                return Poll::Ready(Ok(0));
            }
        }

        if cfg.pend && !st.yielded {
            st.yielded = true;
            st.pendings += 1;
            cx.waker().wake_by_ref();
            return Poll::Pending;
        }

        let mut k = if cfg.one { 1 } else { buf.len() };
        k = k.min(buf.len());
        if let Some(n) = cfg.werr {
            k = k.min(n - st.accepted);
        }
        if let Some(n) = cfg.wzero {
            k = k.min(n - st.accepted);
        }

        st.yielded = false;
        st.accept(&buf[..k]);
        Poll::Ready(Ok(k))
    }

    fn poll_flush(self: Pin<&mut Self>, _cx: &mut Context<'_>) -> Poll<io::Result<()>> {
        let flush = self.state.borrow().cfg.flush;
        flush.answer()
    }

    fn poll_close(self: Pin<&mut Self>, _cx: &mut Context<'_>) -> Poll<io::Result<()>> {
        let close = self.state.borrow().cfg.close;
        close.answer()
    }
}
