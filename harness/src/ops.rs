//! Builders for the library futures that become tasks.
//!
//! Every future is `'static`: it owns the option values (the `*Opts` builders, which borrow, are constructed
//! inside the `async` block from the block's own locals) and renders its result to text through the
//! public accessors before completing, so a panic in an accessor is caught like any other poll panic.

use crate::{
    mock_io::{MockReader, MockWriter},
    obs,
    script::{AuthField, ConnField, DiscField, OpKind, PubField, SubField, UnsubField},
};
use futures::Stream;
use poster::{
    AuthOpts, ConnectOpts, ContextHandle, DisconnectOpts, PublishData, PublishOpts, SubscribeOpts,
    SubscribeRsp, SubscriptionOpts, UnsubscribeOpts,
};
use std::{future::Future, pin::Pin, time::Duration};

pub type Ctx = poster::Context<MockReader, MockWriter>;

/// Output: the text after `RET `.
pub type CtxFuture = Pin<Box<dyn Future<Output = String>>>;

pub struct OpOutcome {
    /// The text after `DONE op<id> `.
    pub view: String,
    /// `Ok` result of a SUBSCRIBE: becomes the held response.
    pub rsp: Option<SubscribeRsp>,
}

pub type OpFuture = Pin<Box<dyn Future<Output = OpOutcome>>>;

/// `SubscribeStream` cannot be named from outside the crate, hence the trait object.
pub type ItemStream = Pin<Box<dyn Stream<Item = PublishData>>>;

// ---------------------------------------------------------------------------------------------
// Context futures
// ---------------------------------------------------------------------------------------------

/// # Safety
/// `ctx` must stay valid, and must not be accessed otherwise, until the returned future is dropped.
pub unsafe fn connect_future(ctx: *mut Ctx, fields: Vec<ConnField>) -> CtxFuture {
    Box::pin(async move {
        let ctx = unsafe { &mut *ctx };

        let mut opts = ConnectOpts::new();
        for field in fields.iter() {
            opts = match field {
                ConnField::Cid(v) => opts.client_identifier(v),
                ConnField::Ka(v) => opts.keep_alive(Duration::from_secs(*v)),
                ConnField::Sei(v) => opts.session_expiry_interval(Duration::from_secs(*v)),
                ConnField::Rm(v) => opts.receive_maximum(*v),
                ConnField::Mps(v) => opts.maximum_packet_size(*v),
                ConnField::Tam(v) => opts.topic_alias_maximum(*v),
                ConnField::Rri(v) => opts.request_response_information(*v),
                ConnField::Rpi(v) => opts.request_problem_information(*v),
                ConnField::Am(v) => opts.authentication_method(v),
                ConnField::Ad(v) => opts.authentication_data(v),
                ConnField::Up(k, v) => opts.user_property((k, v)),
                ConnField::Wq(v) => opts.will_qos(*v),
                ConnField::Wr(v) => opts.will_retain(*v),
                ConnField::Cs(v) => opts.clean_start(*v),
                ConnField::Wdi(v) => opts.will_delay_interval(Duration::from_secs(*v)),
                ConnField::Wpfi(v) => opts.will_payload_format_indicator(*v),
                ConnField::Wmei(v) => opts.will_message_expiry_interval(Duration::from_secs(*v)),
                ConnField::Wct(v) => opts.will_content_type(v),
                ConnField::Wrt(v) => opts.will_response_topic(v),
                ConnField::Wcd(v) => opts.will_correlation_data(v),
                ConnField::Wup(k, v) => opts.will_user_property((k, v)),
                ConnField::Wt(v) => opts.will_topic(v),
                ConnField::Wp(v) => opts.will_payload(v),
                ConnField::Un(v) => opts.username(v),
                ConnField::Pw(v) => opts.password(v),
            };
        }

        let res = ctx.connect(opts).await;
        format!("connect {}", obs::connect_view(&res))
    })
}

/// # Safety
/// See [connect_future].
pub unsafe fn authorize_future(ctx: *mut Ctx, fields: Vec<AuthField>) -> CtxFuture {
    Box::pin(async move {
        let ctx = unsafe { &mut *ctx };

        let mut opts = AuthOpts::new();
        for field in fields.iter() {
            opts = match field {
                AuthField::R(v) => opts.reason(*v),
                AuthField::Am(v) => opts.authentication_method(v),
                AuthField::Ad(v) => opts.authentication_data(v),
                AuthField::Rs(v) => opts.reason_string(v),
                AuthField::Up(k, v) => opts.user_property((k, v)),
            };
        }

        let res = ctx.authorize(opts).await;
        format!("authorize {}", obs::connect_view(&res))
    })
}

/// # Safety
/// See [connect_future].
pub unsafe fn run_future(ctx: *mut Ctx) -> CtxFuture {
    Box::pin(async move {
        let ctx = unsafe { &mut *ctx };
        let res = ctx.run().await;
        format!("run {}", obs::unit_view(&res))
    })
}

// ---------------------------------------------------------------------------------------------
// Handle operations
// ---------------------------------------------------------------------------------------------

/// `handle` is the clone the operation owns; it is dropped with the future.
pub fn op_future(mut handle: ContextHandle, kind: OpKind) -> OpFuture {
    Box::pin(async move {
        match kind {
            OpKind::Publish(fields) => {
                let mut opts = PublishOpts::new();
                for field in fields.iter() {
                    opts = match field {
                        PubField::Q(v) => opts.qos(*v),
                        PubField::R(v) => opts.retain(*v),
                        PubField::T(v) => opts.topic_name(v),
                        PubField::P(v) => opts.payload(v),
                        PubField::Pfi(v) => opts.payload_format_indicator(*v),
                        PubField::Ta(v) => opts.topic_alias(*v),
                        PubField::Mei(v) => opts.message_expiry_interval(Duration::from_secs(*v)),
                        PubField::Cd(v) => opts.correlation_data(v),
                        PubField::Rt(v) => opts.response_topic(v),
                        PubField::Ct(v) => opts.content_type(v),
                        PubField::Up(k, v) => opts.user_property((k, v)),
                    };
                }

                let res = handle.publish(opts).await;
                OpOutcome {
                    view: obs::unit_view(&res),
                    rsp: None,
                }
            }
            OpKind::Subscribe(fields) => {
                let mut opts = SubscribeOpts::new();
                for field in fields.iter() {
                    opts = match field {
                        SubField::F {
                            topic,
                            qos,
                            no_local,
                            retain_as_published,
                            retain_handling,
                        } => opts.subscription(
                            topic,
                            SubscriptionOpts::new()
                                .maximum_qos(*qos)
                                .no_local(*no_local)
                                .retain_as_published(*retain_as_published)
                                .retain_handling(*retain_handling),
                        ),
                        SubField::Up(k, v) => opts.user_property((k, v)),
                    };
                }

                match handle.subscribe(opts).await {
                    Ok(rsp) => {
                        let reasons: Vec<u8> = rsp.payload().iter().map(|r| *r as u8).collect();
                        OpOutcome {
                            view: obs::ack_list_view(
                                "suback",
                                rsp.reason_string(),
                                rsp.user_properties(),
                                &reasons,
                            ),
                            rsp: Some(rsp),
                        }
                    }
                    Err(err) => OpOutcome {
                        view: obs::error_view(&err),
                        rsp: None,
                    },
                }
            }
            OpKind::Unsubscribe(fields) => {
                let mut opts = UnsubscribeOpts::new();
                for field in fields.iter() {
                    opts = match field {
                        UnsubField::F(v) => opts.topic_filter(v),
                        UnsubField::Up(k, v) => opts.user_property((k, v)),
                    };
                }

                let view = match handle.unsubscribe(opts).await {
                    Ok(rsp) => {
                        let reasons: Vec<u8> = rsp.payload().iter().map(|r| *r as u8).collect();
                        obs::ack_list_view(
                            "unsuback",
                            rsp.reason_string(),
                            rsp.user_properties(),
                            &reasons,
                        )
                    }
                    Err(err) => obs::error_view(&err),
                };
                OpOutcome { view, rsp: None }
            }
            OpKind::Ping => {
                let res = handle.ping().await;
                OpOutcome {
                    view: obs::unit_view(&res),
                    rsp: None,
                }
            }
            OpKind::Disconnect(fields) => {
                let mut opts = DisconnectOpts::new();
                for field in fields.iter() {
                    opts = match field {
                        DiscField::R(v) => opts.reason(*v),
                        DiscField::Sei(v) => opts.session_expiry_interval(Duration::from_secs(*v)),
                        DiscField::Rs(v) => opts.reason_string(v),
                        DiscField::Up(k, v) => opts.user_property((k, v)),
                    };
                }

                let res = handle.disconnect(opts).await;
                OpOutcome {
                    view: obs::unit_view(&res),
                    rsp: None,
                }
            }
        }
    })
}

pub fn item_stream(rsp: SubscribeRsp) -> ItemStream {
    Box::pin(rsp.stream())
}


// ---------------------------------------------------------------------------------------------
// Real threads (C11: identifiers handed out to concurrent callers)
// ---------------------------------------------------------------------------------------------

/// `n` OS threads, each owning a clone of `handle`, start `k` identifier-taking operations each (QoS 1 publish,
/// subscribe, unsubscribe in turn): the future is polled exactly once — which allocates the identifier(s), builds the
/// packet and hands the request to the context — and then dropped. The requests stay queued; the context task writes
/// them when it is polled next, so the identifiers show up on the wire, all of them outstanding together.
pub fn start_from_threads(handle: ContextHandle, n: u64, k: u64) {
    use std::future::Future;
    use std::sync::{Arc, Barrier};
    use std::task::{Context as TaskContext, Poll};

    let barrier = Arc::new(Barrier::new(n as usize));
    let mut joins = Vec::new();
    for t in 0..n {
        let mut handle = handle.clone();
        let barrier = barrier.clone();
        joins.push(std::thread::spawn(move || {
            let waker = futures::task::noop_waker();
            let mut cx = TaskContext::from_waker(&waker);
            barrier.wait();
            for i in 0..k {
                match (i + t) % 3 {
                    0 => {
                        let fut = handle.publish(PublishOpts::new().topic_name("a").qos(poster::QoS::AtLeastOnce));
                        futures::pin_mut!(fut);
                        let _ = matches!(fut.poll(&mut cx), Poll::Pending);
                    }
                    1 => {
                        let fut = handle.subscribe(SubscribeOpts::new().subscription("a", SubscriptionOpts::new()));
                        futures::pin_mut!(fut);
                        let _ = matches!(fut.poll(&mut cx), Poll::Pending);
                    }
                    _ => {
                        let fut = handle.unsubscribe(UnsubscribeOpts::new().topic_filter("a"));
                        futures::pin_mut!(fut);
                        let _ = matches!(fut.poll(&mut cx), Poll::Pending);
                    }
                }
            }
        }));
    }
    for j in joins {
        let _ = j.join();
    }
}
