//! Harness state, event application and the deterministic executor (PROTOCOL.md sections 3 and 4).

use crate::{
    mock_io::{MockReader, MockWriter, ReadEvent, ReaderState, WriterState},
    obs,
    ops::{self, Ctx, CtxFuture, ItemStream, OpFuture, OpOutcome},
    script::{Cfg, DropTarget, Event, TaskId},
};
use poster::{ContextHandle, SubscribeRsp};
use std::{
    cell::RefCell,
    collections::{BTreeMap, BTreeSet},
    panic::{catch_unwind, AssertUnwindSafe},
    rc::Rc,
    sync::{
        atomic::{AtomicBool, AtomicU64, Ordering},
        Arc,
    },
    task::{Context, Poll, Wake, Waker},
};

/// The event is not applicable in the current state.
pub struct BadScript;

// ---------------------------------------------------------------------------------------------
// Tasks
// ---------------------------------------------------------------------------------------------

/// `wk=fresh`: every poll hands the future a NEW waker and only the waker of the most recent poll still wakes the task
/// (a future is required to wake the waker of its latest poll, nothing more: it may have been moved to another task).
static FRESH_WAKERS: AtomicBool = AtomicBool::new(false);

pub fn set_fresh_wakers(on: bool) {
    FRESH_WAKERS.store(on, Ordering::SeqCst);
}

struct TaskFlag {
    woken: AtomicBool,
    /// Generation of the waker handed out by the most recent poll.
    current: AtomicU64,
}

struct TaskWaker {
    flag: Arc<TaskFlag>,
    /// `None`: wakes whatever the generation (default mode).
    gen: Option<u64>,
}

impl TaskWaker {
    fn fire(&self) {
        if self.gen.is_none() || self.gen == Some(self.flag.current.load(Ordering::SeqCst)) {
            self.flag.woken.store(true, Ordering::SeqCst);
        }
    }
}

impl Wake for TaskWaker {
    fn wake(self: Arc<Self>) {
        self.fire();
    }

    fn wake_by_ref(self: &Arc<Self>) {
        self.fire();
    }
}

struct Task<F> {
    fut: F,
    flag: Arc<TaskFlag>,
    waker: Waker,
}

impl<F> Task<F> {
    /// A new task starts flagged.
    fn new(fut: F) -> Self {
        let flag = Arc::new(TaskFlag {
            woken: AtomicBool::new(true),
            current: AtomicU64::new(0),
        });
        let waker = Waker::from(Arc::new(TaskWaker {
            flag: flag.clone(),
            gen: None,
        }));
        Self { fut, flag, waker }
    }

    fn is_flagged(&self) -> bool {
        self.flag.woken.load(Ordering::SeqCst)
    }

    fn set_flag(&self, val: bool) {
        self.flag.woken.store(val, Ordering::SeqCst);
    }

    fn waker_for_poll(&self) -> Waker {
        if FRESH_WAKERS.load(Ordering::SeqCst) {
            let gen = self.flag.current.fetch_add(1, Ordering::SeqCst) + 1;
            Waker::from(Arc::new(TaskWaker {
                flag: self.flag.clone(),
                gen: Some(gen),
            }))
        } else {
            self.waker.clone()
        }
    }
}

enum Polled<T> {
    Pending,
    Ready(T),
    Panicked(&'static str),
}

/// One poll under `catch_unwind`; clears the flag first.
fn poll_guarded<F, T>(
    task: &mut Task<F>,
    poll: impl FnOnce(&mut F, &mut Context<'_>) -> Poll<T>,
) -> Polled<T> {
    task.set_flag(false);
    let waker = task.waker_for_poll();
    let fut = &mut task.fut;

    let res = catch_unwind(AssertUnwindSafe(move || {
        let mut cx = Context::from_waker(&waker);
        poll(fut, &mut cx)
    }));

    match res {
        Ok(Poll::Pending) => Polled::Pending,
        Ok(Poll::Ready(val)) => Polled::Ready(val),
        Err(_) => Polled::Panicked(obs::take_panic_class()),
    }
}

// ---------------------------------------------------------------------------------------------
// Context storage
// ---------------------------------------------------------------------------------------------

/// Owns the `Context` behind a raw pointer: the ctx future holds a `&mut` derived from the same pointer,
/// so the harness never keeps a `Box` (whose moves would assert unique access) next to it.
struct CtxCell(*mut Ctx);

impl CtxCell {
    fn new(ctx: Ctx) -> Self {
        Self(Box::into_raw(Box::new(ctx)))
    }
}

impl Drop for CtxCell {
    fn drop(&mut self) {
        // SAFETY: allocated by Box::into_raw in `new`, freed exactly once; the ctx future is always dropped first.
        drop(unsafe { Box::from_raw(self.0) });
    }
}

// ---------------------------------------------------------------------------------------------
// Harness
// ---------------------------------------------------------------------------------------------

pub struct Harness {
    cfg: Cfg,

    // Field order = drop order: the ctx future goes before the Context it points into.
    ctx_task: Option<Task<CtxFuture>>,
    context: Option<CtxCell>,

    ops: BTreeMap<u64, Task<OpFuture>>,
    streams: BTreeMap<u64, Task<ItemStream>>,
    held: BTreeMap<u64, SubscribeRsp>,
    handles: BTreeMap<u64, ContextHandle>,
    used_op_ids: BTreeSet<u64>,

    reader: Option<Rc<RefCell<ReaderState>>>,
    writer: Option<Rc<RefCell<WriterState>>>,

    // DROPCTX happened: the script may not create a second Context.
    ctx_dropped: bool,

    // HOLD: tasks the executor does not pick (an executor is free to delay a woken task).
    held_tasks: BTreeSet<TaskId>,
}

impl Harness {
    pub fn new(cfg: Cfg) -> Self {
        set_fresh_wakers(cfg.fresh_wakers);
        Self {
            cfg,
            ctx_task: None,
            context: None,
            ops: BTreeMap::new(),
            streams: BTreeMap::new(),
            held: BTreeMap::new(),
            handles: BTreeMap::new(),
            used_op_ids: BTreeSet::new(),
            reader: None,
            writer: None,
            ctx_dropped: false,
            held_tasks: BTreeSet::new(),
        }
    }

    /// End of script: report written bytes that never formed a whole packet.
    pub fn finish(&mut self) {
        if let Some(writer) = self.writer.as_ref() {
            writer.borrow_mut().flush_raw();
            writer.borrow_mut().flush_stats();
        }
    }

    // -----------------------------------------------------------------------------------------
    // Events
    // -----------------------------------------------------------------------------------------

    /// The raw `Context` pointer for an event that needs exclusive access: requires `SETUP` and no ctx future.
    fn idle_context(&self) -> Result<*mut Ctx, BadScript> {
        match (&self.context, &self.ctx_task) {
            (Some(cell), None) => Ok(cell.0),
            _ => Err(BadScript),
        }
    }

    fn spawn_ctx(&mut self, make: impl FnOnce(*mut Ctx) -> CtxFuture) -> Result<(), BadScript> {
        let ptr = self.idle_context()?;
        self.ctx_task = Some(Task::new(make(ptr)));
        Ok(())
    }

    fn feed(&mut self, events: impl IntoIterator<Item = ReadEvent>) -> Result<(), BadScript> {
        let reader = self.reader.as_ref().ok_or(BadScript)?;
        let mut reader = reader.borrow_mut();
        for event in events {
            reader.push(event);
        }
        reader.wake();
        Ok(())
    }

    pub fn apply(&mut self, event: Event) -> Result<(), BadScript> {
        match event {
            Event::Setup => {
                if self.ctx_task.is_some() || self.ctx_dropped {
                    return Err(BadScript);
                }

                if self.context.is_none() {
                    let (ctx, handle) = Ctx::new();
                    self.context = Some(CtxCell::new(ctx));
                    self.handles.insert(0, handle);
                }

                if let Some(old) = self.writer.take() {
                    old.borrow_mut().flush_raw();
                    old.borrow_mut().flush_stats();
                }

                let reader = Rc::new(RefCell::new(ReaderState::new(self.cfg.fill, self.cfg.rdp)));
                let writer = Rc::new(RefCell::new(WriterState::new(self.cfg.writer)));

                let ptr = self.idle_context()?;
                // SAFETY: no ctx future exists, nothing else refers to the Context.
                unsafe { &mut *ptr }.set_up((
                    MockReader {
                        state: reader.clone(),
                    },
                    MockWriter {
                        state: writer.clone(),
                    },
                ));

                self.reader = Some(reader);
                self.writer = Some(writer);
            }
            Event::Connect(fields) => {
                // SAFETY (this and the two below): the future is stored in `ctx_task`, which is dropped before
                // the Context is dropped or accessed directly (`idle_context` demands `ctx_task == None`).
                self.spawn_ctx(|ptr| unsafe { ops::connect_future(ptr, fields) })?
            }
            Event::Authorize(fields) => {
                self.spawn_ctx(|ptr| unsafe { ops::authorize_future(ptr, fields) })?
            }
            Event::Run => self.spawn_ctx(|ptr| unsafe { ops::run_future(ptr) })?,
            Event::DropFut => self.ctx_task = None,
            Event::DropCtx => {
                self.ctx_task = None;
                if self.context.take().is_some() {
                    self.ctx_dropped = true;
                    self.reader = None;
                }
            }
            Event::MarkDisc(secs) => {
                let ptr = self.idle_context()?;
                // SAFETY: no ctx future exists.
                unsafe { &mut *ptr }.verif_mark_disconnected(secs);
            }
            Event::Snap => {
                let ptr = self.idle_context()?;
                // SAFETY: no ctx future exists.
                let text = unsafe { &*ptr }.verif_snapshot();
                obs::emit(&format!("STATE {}", text));
            }
            Event::Feed(chunks) => self.feed(chunks.into_iter().map(ReadEvent::Data))?,
            Event::FeedEof => self.feed([ReadEvent::Eof])?,
            Event::FeedErr => self.feed([ReadEvent::Err])?,
            Event::Op { id, handle, kind } => {
                let handle = self.handles.get(&handle).ok_or(BadScript)?.clone();
                if !self.used_op_ids.insert(id) {
                    return Err(BadScript);
                }
                self.ops.insert(id, Task::new(ops::op_future(handle, kind)));
            }
            Event::Poll(task) => self.poll_task(task),
            Event::Hold(task) => {
                self.held_tasks.insert(task);
            }
            Event::Release(task) => {
                self.held_tasks.remove(&task);
            }
            Event::Drop(DropTarget::Op(id)) => drop(self.ops.remove(&id)),
            Event::Drop(DropTarget::St(id)) => drop(self.streams.remove(&id)),
            Event::Drop(DropTarget::Rsp(id)) => drop(self.held.remove(&id)),
            Event::Stream(id) => {
                let rsp = self.held.remove(&id).ok_or(BadScript)?;
                self.streams.insert(id, Task::new(ops::item_stream(rsp)));
            }
            Event::Clone(from, to) => {
                if self.handles.contains_key(&to) {
                    return Err(BadScript);
                }
                let handle = self.handles.get(&from).ok_or(BadScript)?.clone();
                self.handles.insert(to, handle);
            }
            Event::DropHandle(handle) => drop(self.handles.remove(&handle).ok_or(BadScript)?),
            Event::Threads(n, k) => {
                let handle = self.handles.get(&0).ok_or(BadScript)?.clone();
                ops::start_from_threads(handle, n, k);
            }
        }

        Ok(())
    }

    // -----------------------------------------------------------------------------------------
    // Executor
    // -----------------------------------------------------------------------------------------

    /// Live tasks in scheduling order: `ctx`, `op` by id, `st` by id.
    fn live_tasks(&self) -> Vec<TaskId> {
        let mut ids = Vec::new();
        if self.ctx_task.is_some() {
            ids.push(TaskId::Ctx);
        }
        ids.extend(self.ops.keys().map(|id| TaskId::Op(*id)));
        ids.extend(self.streams.keys().map(|id| TaskId::St(*id)));
        ids
    }

    /// `None`: not live.
    fn is_flagged(&self, id: TaskId) -> Option<bool> {
        match id {
            TaskId::Ctx => self.ctx_task.as_ref().map(Task::is_flagged),
            TaskId::Op(id) => self.ops.get(&id).map(Task::is_flagged),
            TaskId::St(id) => self.streams.get(&id).map(Task::is_flagged),
        }
    }

    fn first_flagged(&self) -> Option<TaskId> {
        if self.ctx_task.as_ref().is_some_and(Task::is_flagged)
            && !self.held_tasks.contains(&TaskId::Ctx)
        {
            return Some(TaskId::Ctx);
        }
        if let Some((id, _)) = self
            .ops
            .iter()
            .find(|(id, task)| task.is_flagged() && !self.held_tasks.contains(&TaskId::Op(**id)))
        {
            return Some(TaskId::Op(*id));
        }
        if let Some((id, _)) = self
            .streams
            .iter()
            .find(|(id, task)| task.is_flagged() && !self.held_tasks.contains(&TaskId::St(**id)))
        {
            return Some(TaskId::St(*id));
        }
        None
    }

    /// Clears the flag, polls once, handles the result. Nothing if the task is not live.
    fn poll_task(&mut self, id: TaskId) {
        match id {
            TaskId::Ctx => {
                let Some(task) = self.ctx_task.as_mut() else {
                    return;
                };
                match poll_guarded(task, |fut, cx| fut.as_mut().poll(cx)) {
                    Polled::Pending => {}
                    Polled::Ready(view) => {
                        obs::emit(&format!("RET {}", view));
                        self.ctx_task = None;
                    }
                    Polled::Panicked(class) => {
                        obs::emit(&format!("PANIC ctx {}", class));
                        self.ctx_task = None;
                    }
                }
            }
            TaskId::Op(op) => {
                let Some(task) = self.ops.get_mut(&op) else {
                    return;
                };
                match poll_guarded(task, |fut, cx| fut.as_mut().poll(cx)) {
                    Polled::Pending => {}
                    Polled::Ready(OpOutcome { view, rsp }) => {
                        obs::emit(&format!("DONE op{} {}", op, view));
                        if let Some(rsp) = rsp {
                            self.held.insert(op, rsp);
                        }
                        self.ops.remove(&op);
                    }
                    Polled::Panicked(class) => {
                        obs::emit(&format!("PANIC op{} {}", op, class));
                        self.ops.remove(&op);
                    }
                }
            }
            TaskId::St(st) => {
                let Some(task) = self.streams.get_mut(&st) else {
                    return;
                };
                // The item is rendered inside the guard: the accessors may panic too.
                let polled = poll_guarded(task, |stream, cx| {
                    stream
                        .as_mut()
                        .poll_next(cx)
                        .map(|item| item.map(|data| obs::item_view(&data)))
                });
                match polled {
                    Polled::Pending => {}
                    Polled::Ready(Some(view)) => {
                        obs::emit(&format!("ITEM st{} {}", st, view));
                        task.set_flag(true); // Polled again in this drain.
                    }
                    Polled::Ready(None) => {
                        obs::emit(&format!("END st{}", st));
                        self.streams.remove(&st);
                    }
                    Polled::Panicked(class) => {
                        obs::emit(&format!("PANIC st{} {}", st, class));
                        self.streams.remove(&st);
                    }
                }
            }
        }
    }

    fn drain(&mut self) {
        while let Some(id) = self.first_flagged() {
            self.poll_task(id);
        }
    }

    /// Runs the executor after an event: drain, (sweep, drain), stall check.
    pub fn settle(&mut self) {
        self.drain();

        if self.cfg.sweep {
            for id in self.live_tasks() {
                // Skipped: finished meanwhile, or flagged by an earlier sweep poll (runs in the drain).
                if self.is_flagged(id) == Some(false) && !self.held_tasks.contains(&id) {
                    self.poll_task(id);
                }
            }
            self.drain();
        }

        let undelivered = self
            .reader
            .as_ref()
            .is_some_and(|reader| reader.borrow().has_undelivered());
        if self.ctx_task.is_some() && undelivered {
            obs::emit("STALL");
        }
    }
}
