//! Script file parsing (PROTOCOL.md sections 1 and 4). Every parse failure is a `BADSCRIPT`.

use crate::{
    mock_io::{SideCall, WriterCfg},
    obs,
};
use poster::{
    reason::{AuthReason, DisconnectReason},
    QoS, RetainHandling,
};

#[derive(Clone, Copy)]
pub struct Cfg {
    pub sweep: bool,
    pub fill: bool,
    pub rdp: bool,
    /// `wk=fresh`: a new waker for every poll, only the latest one wakes.
    pub fresh_wakers: bool,
    pub writer: WriterCfg,
}

pub struct Script {
    pub name: String,
    /// `None`: the `CFG` line is malformed.
    pub cfg: Option<Cfg>,
    /// Event lines, verbatim.
    pub lines: Vec<String>,
}

#[derive(Clone, Copy, PartialEq, Eq, PartialOrd, Ord, Debug)]
pub enum TaskId {
    Ctx,
    Op(u64),
    St(u64),
}

impl std::fmt::Display for TaskId {
    fn fmt(&self, f: &mut std::fmt::Formatter<'_>) -> std::fmt::Result {
        match self {
            TaskId::Ctx => write!(f, "ctx"),
            TaskId::Op(id) => write!(f, "op{}", id),
            TaskId::St(id) => write!(f, "st{}", id),
        }
    }
}

pub enum DropTarget {
    Op(u64),
    St(u64),
    Rsp(u64),
}

pub enum ConnField {
    Cid(String),
    Ka(u64),
    Sei(u64),
    Rm(u16),
    Mps(u32),
    Tam(u16),
    Rri(bool),
    Rpi(bool),
    Am(String),
    Ad(Vec<u8>),
    Up(String, String),
    Wq(QoS),
    Wr(bool),
    Cs(bool),
    Wdi(u64),
    Wpfi(bool),
    Wmei(u64),
    Wct(String),
    Wrt(String),
    Wcd(Vec<u8>),
    Wup(String, String),
    Wt(String),
    Wp(Vec<u8>),
    Un(String),
    Pw(Vec<u8>),
}

pub enum AuthField {
    R(AuthReason),
    Am(String),
    Ad(Vec<u8>),
    Rs(String),
    Up(String, String),
}

pub enum PubField {
    Q(QoS),
    R(bool),
    T(String),
    P(Vec<u8>),
    Pfi(bool),
    Ta(u16),
    Mei(u64),
    Cd(Vec<u8>),
    Rt(String),
    Ct(String),
    Up(String, String),
}

pub enum SubField {
    F {
        topic: String,
        qos: QoS,
        no_local: bool,
        retain_as_published: bool,
        retain_handling: RetainHandling,
    },
    Up(String, String),
}

pub enum UnsubField {
    F(String),
    Up(String, String),
}

pub enum DiscField {
    R(DisconnectReason),
    Sei(u64),
    Rs(String),
    Up(String, String),
}

pub enum OpKind {
    Publish(Vec<PubField>),
    Subscribe(Vec<SubField>),
    Unsubscribe(Vec<UnsubField>),
    Ping,
    Disconnect(Vec<DiscField>),
}

pub enum Event {
    Setup,
    Connect(Vec<ConnField>),
    Authorize(Vec<AuthField>),
    Run,
    DropFut,
    DropCtx,
    MarkDisc(u64),
    Snap,
    /// Already cut into chunks.
    Feed(Vec<Vec<u8>>),
    FeedEof,
    FeedErr,
    Op {
        id: u64,
        handle: u64,
        kind: OpKind,
    },
    Poll(TaskId),
    Hold(TaskId),
    Release(TaskId),
    Drop(DropTarget),
    Stream(u64),
    Clone(u64, u64),
    DropHandle(u64),
    /// `THREADS n k`: n OS threads, each with its own clone of handle 0, each starting k identifier-taking
    /// operations (first poll only). Not part of the model: scripts using it are judged by the oracle alone.
    Threads(u64, u64),
}

// ---------------------------------------------------------------------------------------------
// File → scripts
// ---------------------------------------------------------------------------------------------

pub fn parse_file(text: &str) -> Vec<Script> {
    let mut scripts = Vec::new();
    let mut current: Option<Script> = None;
    // The CFG line is only recognised as the first line of a script.
    let mut at_first_line = false;

    for raw in text.lines() {
        let line = raw.strip_suffix('\r').unwrap_or(raw);
        let trimmed = line.trim();
        if trimmed.is_empty() || trimmed.starts_with('#') {
            continue;
        }

        if trimmed == "BEGIN" || trimmed.starts_with("BEGIN ") {
            // A missing END closes the previous script.
            scripts.extend(current.take());
            current = Some(Script {
                name: trimmed["BEGIN".len()..].trim().to_string(),
                cfg: Some(default_cfg()),
                lines: Vec::new(),
            });
            at_first_line = true;
            continue;
        }

        let Some(script) = current.as_mut() else {
            continue; // Outside BEGIN … END.
        };

        if trimmed == "END" {
            scripts.extend(current.take());
            continue;
        }

        if at_first_line && (trimmed == "CFG" || trimmed.starts_with("CFG ")) {
            script.cfg = parse_cfg(trimmed);
        } else {
            script.lines.push(line.to_string());
        }
        at_first_line = false;
    }

    scripts.extend(current.take());
    scripts
}

fn default_cfg() -> Cfg {
    Cfg {
        sweep: false,
        fill: false,
        rdp: false,
        fresh_wakers: false,
        writer: WriterCfg {
            pend: false,
            one: false,
            werr: None,
            wzero: None,
            flush: SideCall::Ok,
            close: SideCall::Ok,
            trace: false,
        },
    }
}

fn parse_side_call(val: &str) -> Option<SideCall> {
    match val {
        "ok" => Some(SideCall::Ok),
        "err" => Some(SideCall::Err),
        "pend" => Some(SideCall::Pend),
        _ => None,
    }
}

fn parse_cfg(line: &str) -> Option<Cfg> {
    let mut cfg = default_cfg();

    for token in line.split_whitespace().skip(1) {
        let (key, val) = token.split_once('=')?;
        match key {
            "exec" => {
                cfg.sweep = match val {
                    "wake" => false,
                    "sweep" => true,
                    _ => return None,
                }
            }
            "rd" => {
                cfg.fill = match val {
                    "chunks" => false,
                    "fill" => true,
                    _ => return None,
                }
            }
            "rdp" => cfg.rdp = parse_bool(val)?,
            "wk" => {
                cfg.fresh_wakers = match val {
                    "same" => false,
                    "fresh" => true,
                    _ => return None,
                }
            }
            "wr" => {
                (cfg.writer.pend, cfg.writer.one) = match val {
                    "all" => (false, false),
                    "one" => (false, true),
                    "pend" => (true, false),
                    "pendone" => (true, true),
                    _ => return None,
                }
            }
            "werr" => cfg.writer.werr = Some(val.parse().ok()?),
            "wzero" => cfg.writer.wzero = Some(val.parse().ok()?),
            "wflush" => cfg.writer.flush = parse_side_call(val)?,
            "wclose" => cfg.writer.close = parse_side_call(val)?,
            "wtrace" => {
                cfg.writer.trace = match val {
                    "0" => false,
                    "1" => true,
                    _ => return None,
                }
            }
            _ => return None,
        }
    }

    Some(cfg)
}

// ---------------------------------------------------------------------------------------------
// Values
// ---------------------------------------------------------------------------------------------

fn parse_bool(val: &str) -> Option<bool> {
    match val {
        "0" => Some(false),
        "1" => Some(true),
        _ => None,
    }
}

fn parse_hex(val: &str) -> Option<Vec<u8>> {
    let bytes = val.as_bytes();
    if bytes.len() % 2 != 0 {
        return None;
    }

    fn nibble(c: u8) -> Option<u8> {
        match c {
            b'0'..=b'9' => Some(c - b'0'),
            b'a'..=b'f' => Some(c - b'a' + 10),
            _ => None,
        }
    }

    bytes
        .chunks(2)
        .map(|pair| Some(nibble(pair[0])? << 4 | nibble(pair[1])?))
        .collect()
}

fn parse_str(val: &str) -> Option<String> {
    String::from_utf8(parse_hex(val)?).ok()
}

fn parse_pair(val: &str) -> Option<(String, String)> {
    let (key, val) = val.split_once(':')?;
    Some((parse_str(key)?, parse_str(val)?))
}

fn parse_num<T: std::str::FromStr>(val: &str) -> Option<T> {
    // Decimal digits only (no sign, no blanks).
    if val.is_empty() || !val.bytes().all(|c| c.is_ascii_digit()) {
        return None;
    }
    val.parse().ok()
}

fn parse_qos(val: &str) -> Option<QoS> {
    match val {
        "0" => Some(QoS::AtMostOnce),
        "1" => Some(QoS::AtLeastOnce),
        "2" => Some(QoS::ExactlyOnce),
        _ => None,
    }
}

fn parse_retain_handling(val: &str) -> Option<RetainHandling> {
    match val {
        "0" => Some(RetainHandling::SendOnSubscribe),
        "1" => Some(RetainHandling::SendIfNoSubscription),
        "2" => Some(RetainHandling::NoSendOnSubscribe),
        _ => None,
    }
}

fn parse_auth_reason(val: &str) -> Option<AuthReason> {
    match val {
        "0" => Some(AuthReason::Success),
        "24" => Some(AuthReason::ContinueAuthentication),
        "25" => Some(AuthReason::ReAuthenticate),
        _ => None,
    }
}

/// `h<n>` (a bare `<n>` is accepted too).
fn parse_handle(val: &str) -> Option<u64> {
    parse_num(val.strip_prefix('h').unwrap_or(val))
}

/// `<n>` (`op<n>` is accepted too).
fn parse_op_id(val: &str) -> Option<u64> {
    parse_num(val.strip_prefix("op").unwrap_or(val))
}

fn parse_task(val: &str) -> Option<TaskId> {
    if val == "ctx" {
        Some(TaskId::Ctx)
    } else if let Some(id) = val.strip_prefix("op") {
        Some(TaskId::Op(parse_num(id)?))
    } else if let Some(id) = val.strip_prefix("st") {
        Some(TaskId::St(parse_num(id)?))
    } else {
        None
    }
}

/// Splits `key=value` tokens.
fn fields<'a>(tokens: &[&'a str]) -> Option<Vec<(&'a str, &'a str)>> {
    tokens.iter().map(|token| token.split_once('=')).collect()
}

// ---------------------------------------------------------------------------------------------
// Events
// ---------------------------------------------------------------------------------------------

pub fn parse_event(line: &str) -> Option<Event> {
    let tokens: Vec<&str> = line.split_whitespace().collect();
    let (&name, args) = tokens.split_first()?;

    let no_args = |event: Event| if args.is_empty() { Some(event) } else { None };

    match name {
        "SETUP" => no_args(Event::Setup),
        "RUN" => no_args(Event::Run),
        "DROPFUT" => no_args(Event::DropFut),
        "DROPCTX" => no_args(Event::DropCtx),
        "SNAP" => no_args(Event::Snap),
        "FEEDEOF" => no_args(Event::FeedEof),
        "FEEDERR" => no_args(Event::FeedErr),
        "CONNECT" => Some(Event::Connect(parse_connect(args)?)),
        "AUTHORIZE" => Some(Event::Authorize(parse_authorize(args)?)),
        "MARKDISC" => match args {
            [secs] => Some(Event::MarkDisc(parse_num(secs)?)),
            _ => None,
        },
        "FEED" => parse_feed(args),
        "OP" => match args {
            [id, handle, kind, rest @ ..] => Some(Event::Op {
                id: parse_op_id(id)?,
                handle: parse_handle(handle)?,
                kind: parse_op_kind(kind, rest)?,
            }),
            _ => None,
        },
        "POLL" => match args {
            [task] => Some(Event::Poll(parse_task(task)?)),
            _ => None,
        },
        "HOLD" => match args {
            [task] => Some(Event::Hold(parse_task(task)?)),
            _ => None,
        },
        "RELEASE" => match args {
            [task] => Some(Event::Release(parse_task(task)?)),
            _ => None,
        },
        "DROP" => match args {
            [target] => {
                let target = if let Some(id) = target.strip_prefix("op") {
                    DropTarget::Op(parse_num(id)?)
                } else if let Some(id) = target.strip_prefix("st") {
                    DropTarget::St(parse_num(id)?)
                } else if let Some(id) = target.strip_prefix("rsp") {
                    DropTarget::Rsp(parse_num(id)?)
                } else {
                    return None;
                };
                Some(Event::Drop(target))
            }
            _ => None,
        },
        "STREAM" => match args {
            [id] => Some(Event::Stream(parse_op_id(id)?)),
            _ => None,
        },
        "CLONE" => match args {
            [from, to] => Some(Event::Clone(parse_handle(from)?, parse_handle(to)?)),
            _ => None,
        },
        "DROPHANDLE" => match args {
            [handle] => Some(Event::DropHandle(parse_handle(handle)?)),
            _ => None,
        },
        "THREADS" => match args {
            [n, k] => Some(Event::Threads(parse_num(n)?, parse_num(k)?)),
            _ => None,
        },
        _ => None,
    }
}

fn parse_feed(args: &[&str]) -> Option<Event> {
    let (data, cuts) = match args {
        [] => ("", None),
        [one] => match one.strip_prefix("cuts=") {
            Some(cuts) => ("", Some(cuts)),
            None => (*one, None),
        },
        [data, cuts] => (*data, Some(cuts.strip_prefix("cuts=")?)),
        _ => return None,
    };

    let data = parse_hex(data)?;

    let mut offsets: Vec<usize> = Vec::new();
    if let Some(cuts) = cuts {
        for cut in cuts.split(',') {
            let cut: usize = parse_num(cut)?;
            let lower = offsets.last().copied().unwrap_or(0);
            if cut <= lower || cut >= data.len() {
                return None;
            }
            offsets.push(cut);
        }
    }

    let mut chunks = Vec::new();
    let mut start = 0;
    for cut in offsets {
        chunks.push(data[start..cut].to_vec());
        start = cut;
    }
    if start < data.len() {
        chunks.push(data[start..].to_vec());
    }

    Some(Event::Feed(chunks))
}

fn parse_connect(args: &[&str]) -> Option<Vec<ConnField>> {
    fields(args)?
        .into_iter()
        .map(|(key, val)| {
            Some(match key {
                "cid" => ConnField::Cid(parse_str(val)?),
                "ka" => ConnField::Ka(parse_num(val)?),
                "sei" => ConnField::Sei(parse_num(val)?),
                "rm" => ConnField::Rm(parse_num(val)?),
                "mps" => ConnField::Mps(parse_num(val)?),
                "tam" => ConnField::Tam(parse_num(val)?),
                "rri" => ConnField::Rri(parse_bool(val)?),
                "rpi" => ConnField::Rpi(parse_bool(val)?),
                "am" => ConnField::Am(parse_str(val)?),
                "ad" => ConnField::Ad(parse_hex(val)?),
                "up" => {
                    let (k, v) = parse_pair(val)?;
                    ConnField::Up(k, v)
                }
                "wq" => ConnField::Wq(parse_qos(val)?),
                "wr" => ConnField::Wr(parse_bool(val)?),
                "cs" => ConnField::Cs(parse_bool(val)?),
                "wdi" => ConnField::Wdi(parse_num(val)?),
                "wpfi" => ConnField::Wpfi(parse_bool(val)?),
                "wmei" => ConnField::Wmei(parse_num(val)?),
                "wct" => ConnField::Wct(parse_str(val)?),
                "wrt" => ConnField::Wrt(parse_str(val)?),
                "wcd" => ConnField::Wcd(parse_hex(val)?),
                "wup" => {
                    let (k, v) = parse_pair(val)?;
                    ConnField::Wup(k, v)
                }
                "wt" => ConnField::Wt(parse_str(val)?),
                "wp" => ConnField::Wp(parse_hex(val)?),
                "un" => ConnField::Un(parse_str(val)?),
                "pw" => ConnField::Pw(parse_hex(val)?),
                _ => return None,
            })
        })
        .collect()
}

fn parse_authorize(args: &[&str]) -> Option<Vec<AuthField>> {
    fields(args)?
        .into_iter()
        .map(|(key, val)| {
            Some(match key {
                "r" => AuthField::R(parse_auth_reason(val)?),
                "am" => AuthField::Am(parse_str(val)?),
                "ad" => AuthField::Ad(parse_hex(val)?),
                "rs" => AuthField::Rs(parse_str(val)?),
                "up" => {
                    let (k, v) = parse_pair(val)?;
                    AuthField::Up(k, v)
                }
                _ => return None,
            })
        })
        .collect()
}

fn parse_op_kind(kind: &str, args: &[&str]) -> Option<OpKind> {
    let args = fields(args)?;

    match kind {
        "PING" => {
            if args.is_empty() {
                Some(OpKind::Ping)
            } else {
                None
            }
        }
        "PUBLISH" => args
            .into_iter()
            .map(|(key, val)| {
                Some(match key {
                    "q" => PubField::Q(parse_qos(val)?),
                    "r" => PubField::R(parse_bool(val)?),
                    "t" => PubField::T(parse_str(val)?),
                    "p" => PubField::P(parse_hex(val)?),
                    "pfi" => PubField::Pfi(parse_bool(val)?),
                    "ta" => PubField::Ta(parse_num(val)?),
                    "mei" => PubField::Mei(parse_num(val)?),
                    "cd" => PubField::Cd(parse_hex(val)?),
                    "rt" => PubField::Rt(parse_str(val)?),
                    "ct" => PubField::Ct(parse_str(val)?),
                    "up" => {
                        let (k, v) = parse_pair(val)?;
                        PubField::Up(k, v)
                    }
                    _ => return None,
                })
            })
            .collect::<Option<Vec<_>>>()
            .map(OpKind::Publish),
        "SUBSCRIBE" => args
            .into_iter()
            .map(|(key, val)| {
                Some(match key {
                    "f" => {
                        let (topic, opts) = val.split_once(':')?;
                        if opts.len() != 4 || !opts.is_ascii() {
                            return None;
                        }
                        SubField::F {
                            topic: parse_str(topic)?,
                            qos: parse_qos(&opts[0..1])?,
                            no_local: parse_bool(&opts[1..2])?,
                            retain_as_published: parse_bool(&opts[2..3])?,
                            retain_handling: parse_retain_handling(&opts[3..4])?,
                        }
                    }
                    "up" => {
                        let (k, v) = parse_pair(val)?;
                        SubField::Up(k, v)
                    }
                    _ => return None,
                })
            })
            .collect::<Option<Vec<_>>>()
            .map(OpKind::Subscribe),
        "UNSUBSCRIBE" => args
            .into_iter()
            .map(|(key, val)| {
                Some(match key {
                    "f" => UnsubField::F(parse_str(val)?),
                    "up" => {
                        let (k, v) = parse_pair(val)?;
                        UnsubField::Up(k, v)
                    }
                    _ => return None,
                })
            })
            .collect::<Option<Vec<_>>>()
            .map(OpKind::Unsubscribe),
        "DISCONNECT" => args
            .into_iter()
            .map(|(key, val)| {
                Some(match key {
                    "r" => DiscField::R(obs::disconnect_reason(parse_num(val)?)?),
                    "sei" => DiscField::Sei(parse_num(val)?),
                    "rs" => DiscField::Rs(parse_str(val)?),
                    "up" => {
                        let (k, v) = parse_pair(val)?;
                        DiscField::Up(k, v)
                    }
                    _ => return None,
                })
            })
            .collect::<Option<Vec<_>>>()
            .map(OpKind::Disconnect),
        _ => None,
    }
}
