/-
  Main.lean — the driver (`pmdriver`).
    pmdriver model <script-file>      run the model on a script file, print the transcript (PROTOCOL.md §2)
-/
import PosterModel.Script
import PosterModel.TxMock
import PosterModel.Spec.Client
import PosterModel.Spec.Server
import PosterModel.Lemmas.WorldQuietIds
import PosterModel.Lemmas.WorldWireCheck

open Poster Poster.Script

/-- run one script (its lines between BEGIN and END, exclusive) and return its transcript lines -/
def runScript (name : String) (lines : List String) : List String := Id.run do
  let lines := lines.filter fun l => l ≠ "" ∧ !l.startsWith "#"
  let (cfg?, evLines) := match lines with
    | l :: rest => if l.startsWith "CFG" then (parseCfg ((l.splitOn " ").drop 1), rest) else (some {}, lines)
    | [] => (some {}, [])
  let mut out : Array String := #[s!"BEGIN {name}"]
  -- `wtrace=1`: the statistics of every connection's transport, through the `write_all` model (TxStream / TxMock)
  let cfgToks := match lines with
    | l :: _ => if l.startsWith "CFG" then (l.splitOn " ").drop 1 else []
    | [] => []
  let wtrace := cfgToks.contains "wtrace=1"
  let mock : TxStream.MockW :=
    { one := cfgToks.contains "wr=one" || cfgToks.contains "wr=pendone",
      pend := cfgToks.contains "wr=pend" || cfgToks.contains "wr=pendone" }
  let wcalls := fun (pkts : Array Bytes) (raw : Bool) =>
    let st := TxStream.mockStats mock pkts.toList
    if raw || !st.ok || cfgToks.any (fun t => t.startsWith "werr=" || t.startsWith "wzero=") then "WCALLS ?" else s!"WCALLS calls={st.calls} pend={st.pend} bytes={st.bytes}"
  match cfg? with
  | none => out := out.push "BADSCRIPT"
  | some cfg =>
    let mut w : World := { cfg := cfg }
    let mut conn := false
    let mut pkts : Array Bytes := #[]
    let mut raw := false
    for l in evLines do
      if w.bad then break
      out := out.push ("> " ++ l)
      match parseEv l with
      | none =>
        out := out.push "BADSCRIPT"
        w := { w with bad := true }
      | some e =>
        w := w.step e
        let isSetup := (match e with | .setup => true | _ => false) && !w.bad
        for o in w.out do
          match o with
          | .wire bs => pkts := pkts.push bs
          | .wraw _ => raw := true
          | _ => pure ()
          match renderObs o with
          | some s => out := out.push s
          | none => pure ()
        if isSetup then
          if wtrace && conn then out := out.push (wcalls pkts raw)
          conn := true
          pkts := #[]
          raw := false
        w := { w with out := [] }
    w := w.finishScript
    for o in w.out do
      match o with
      | .wire bs => pkts := pkts.push bs
      | .wraw _ => raw := true
      | _ => pure ()
      match renderObs o with
      | some s => out := out.push s
      | none => pure ()
    if wtrace && conn then out := out.push (wcalls pkts raw)
  out := out.push "END"
  return out.toList

partial def processLines (h : IO.FS.Stream) (cur : Option (String × Array String)) : IO Unit := do
  let line ← h.getLine
  if line.isEmpty then return ()
  let l := line.trimAscii.toString
  match cur with
  | none =>
    if l.startsWith "BEGIN " then processLines h (some ((l.drop 6).toString, #[]))
    else processLines h none
  | some (name, acc) =>
    if l = "END" then
      let out ← IO.getStdout
      for s in runScript name acc.toList do
        out.putStrLn s
      out.flush
      processLines h none
    else processLines h (some (name, acc.push l))

/-! ### `hyps`: the executable hypotheses of the script-level theorems, evaluated on a script -/

/-- `HYP <name> nodup=<0|1> stepsok=<0|1> bad=<0|1>`:
    `nodup`   = `(World.opIds evs).Nodup` (pairwise distinct OP identifiers; hypothesis of the C05/C14/C16 script-level theorems),
    `stepsok` = `World.runOk cfg evs` (after every event the executor's drain reached quiescence within its fuel and no
                SUBSCRIBE re-used a live stream's identifier; hypothesis of `sweep_irrelevant_partial`),
    `bad`     = the script was rejected (`BADSCRIPT`),
    `indomain` = `scriptInDomainB evs` (every request of the script is inside MQTT 5's domain: hypothesis `ScriptInDomain` of
                the C01 script-level theorems, sound by `scriptInDomainB_sound`) -/
def hypsScript (name : String) (lines : List String) : String :=
  let lines := lines.filter fun l => l ≠ "" ∧ !l.startsWith "#"
  let (cfg?, evLines) := match lines with
    | l :: rest => if l.startsWith "CFG" then (parseCfg ((l.splitOn " ").drop 1), rest) else (some {}, lines)
    | [] => (some {}, [])
  match cfg?, evLines.mapM parseEv with
  | some cfg, some evs =>
    let ids := World.opIds evs
    let nodup := decide ids.Nodup
    let ok := World.runOk cfg evs
    let bad := (evs.foldl World.step { cfg := cfg }).bad
    let dom := scriptInDomainB evs
    s!"HYP {name} nodup={if nodup then 1 else 0} stepsok={if ok then 1 else 0} bad={if bad then 1 else 0} indomain={if dom then 1 else 0}"
  | _, _ => s!"HYP {name} unparsed"

partial def processHyps (h : IO.FS.Stream) (cur : Option (String × Array String)) : IO Unit := do
  let line ← h.getLine
  if line.isEmpty then return ()
  let l := line.trimAscii.toString
  match cur with
  | none =>
    if l.startsWith "BEGIN " then processHyps h (some ((l.drop 6).toString, #[]))
    else processHyps h none
  | some (name, acc) =>
    if l = "END" then
      IO.println (hypsScript name acc.toList)
      processHyps h none
    else processHyps h (some (name, acc.push l))

/-! ### specification-side modes: the Lean spec judges bytes / generates inputs -/

/-- `parsew`: one hex packet per line; is it exactly one well-formed client packet for `Spec.parseClient`? -/
def parsewLine (l : String) : String :=
  match ofHex l with
  | none => "badhex"
  | some bs =>
    match Spec.parseClient bs with
    | some (_, []) => "ok"
    | some (_, _) => "trailing"
    | none => "bad"

def pProp1 (s : String) : Option Property :=
  match s.splitOn ":" with
  | [i, "b", v] => do let id ← i.toNat?; let b ← pBool v; pure ⟨id, .bool b⟩
  | [i, "n", v] => do let id ← i.toNat?; let n ← v.toNat?; pure ⟨id, .num n⟩
  | [i, "v", v] => do let id ← i.toNat?; let n ← v.toNat?; pure ⟨id, .var n (Spec.sVar n).length⟩
  | [i, "s", v] => do let id ← i.toNat?; let b ← ofHex v; pure ⟨id, .bytes b⟩
  | [i, "p", v] =>
    match v.splitOn "~" with
    | [k, w] => do let id ← i.toNat?; let a ← ofHex k; let b ← ofHex w; pure ⟨id, .pair a b⟩
    | _ => none
  | _ => none

def pProps (s : String) : Option (List Property) :=
  if s = "-" then some [] else (s.splitOn ",").mapM pProp1

def ofHexD (s : String) : Option Bytes := if s = "-" then some [] else ofHex s

def pAckForm : String → Option Spec.AckForm
  | "full" => some .full | "reason" => some .reasonOnly | "id" => some .idOnly | _ => none

/-- `encserver`: a server packet description per line → `<wf 0|1> <hex of Spec.encodeServer>` -/
def encserverLine (l : String) : String :=
  let r : Option Spec.ServerPacket :=
    match l.splitOn " " with
    | ["connack", f, r, ps] => do pure (.connack (← f.toNat?) (← r.toNat?) (← pProps ps))
    | ["publish", d, q, rt, t, pid, ps, pl] => do
      let pid' ← if pid = "-" then some none else pid.toNat?.map some
      pure (.publish (← pBool d) (← q.toNat?) (← pBool rt) (← ofHexD t) pid' (← pProps ps) (← ofHexD pl))
    | [k, f, pid, r, ps] => do
      let form ← pAckForm f
      let pid ← pid.toNat?; let r ← r.toNat?; let ps ← pProps ps
      match k with
      | "puback" => some (.puback form pid r ps) | "pubrec" => some (.pubrec form pid r ps)
      | "pubrel" => some (.pubrel form pid r ps) | "pubcomp" => some (.pubcomp form pid r ps)
      | _ => none
    | ["pingresp"] => some .pingresp
    | ["disconnect", f, r, ps] => do
      let form ← match f with | "full" => some Spec.DiscForm.full | "reason" => some .reasonOnly | "empty" => some .empty | _ => none
      pure (.disconnect form (← r.toNat?) (← pProps ps))
    | ["auth", f, r, ps] => do
      let form ← match f with | "full" => some Spec.AuthForm.full | "empty" => some .empty | _ => none
      pure (.auth form (← r.toNat?) (← pProps ps))
    | [k, pid, ps, rs] => do
      let pid ← pid.toNat?; let ps ← pProps ps; let rs ← ofHexD rs
      match k with
      | "suback" => some (.suback pid ps (rs.map (·.toNat))) | "unsuback" => some (.unsuback pid ps (rs.map (·.toNat)))
      | _ => none
    | _ => none
  match r with
  | none => "baddesc"
  | some p => s!"{if Spec.wf p then 1 else 0} {toHex (Spec.encodeServer p)}"

partial def mapLines (h : IO.FS.Stream) (f : String → String) : IO Unit := do
  let line ← h.getLine
  if line.isEmpty then return ()
  IO.println (f line.trimAscii.toString)
  mapLines h f

def main (args : List String) : IO UInt32 := do
  match args with
  | ["parsew", file] =>
    let h ← IO.FS.Handle.mk file .read
    mapLines (IO.FS.Stream.ofHandle h) parsewLine
    return 0
  | ["encserver", file] =>
    let h ← IO.FS.Handle.mk file .read
    mapLines (IO.FS.Stream.ofHandle h) encserverLine
    return 0
  | ["hyps", file] =>
    let h ← IO.FS.Handle.mk file .read
    processHyps (IO.FS.Stream.ofHandle h) none
    return 0
  | ["model", file] =>
    let h ← IO.FS.Handle.mk file .read
    processLines (IO.FS.Stream.ofHandle h) none
    return 0
  | _ =>
    IO.eprintln "usage: pmdriver model|hyps <script-file> | parsew <hex-file> | encserver <desc-file>"
    return 2
