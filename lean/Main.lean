/-
  Main.lean — the driver (`pmdriver`).
    pmdriver model <script-file>      run the model on a script file, print the transcript (PROTOCOL.md §2)
-/
import PosterModel.Script

open Poster Poster.Script

/-- run one script (its lines between BEGIN and END, exclusive) and return its transcript lines -/
def runScript (name : String) (lines : List String) : List String := Id.run do
  let lines := lines.filter fun l => l ≠ "" ∧ !l.startsWith "#"
  let (cfg?, evLines) := match lines with
    | l :: rest => if l.startsWith "CFG" then (parseCfg ((l.splitOn " ").drop 1), rest) else (some {}, lines)
    | [] => (some {}, [])
  let mut out : Array String := #[s!"BEGIN {name}"]
  match cfg? with
  | none => out := out.push "BADSCRIPT"
  | some cfg =>
    let mut w : World := { cfg := cfg }
    for l in evLines do
      if w.bad then break
      out := out.push ("> " ++ l)
      match parseEv l with
      | none =>
        out := out.push "BADSCRIPT"
        w := { w with bad := true }
      | some e =>
        w := w.step e
        for o in w.out do
          match renderObs o with
          | some s => out := out.push s
          | none => pure ()
        w := { w with out := [] }
    w := w.finishScript
    for o in w.out do
      match renderObs o with
      | some s => out := out.push s
      | none => pure ()
  out := out.push "END"
  return out.toList

partial def processLines (h : IO.FS.Stream) (cur : Option (String × Array String)) : IO Unit := do
  let line ← h.getLine
  if line.isEmpty then return ()
  let l := line.trimAscii.toString
  match cur with
  | none =>
    if l.startsWith "BEGIN " then processLines h (some ((l.drop 6).toString, #[]))
    else processLines h none
  | some (name, acc) =>
    if l = "END" then
      let out ← IO.getStdout
      for s in runScript name acc.toList do
        out.putStrLn s
      out.flush
      processLines h none
    else processLines h (some (name, acc.push l))

def main (args : List String) : IO UInt32 := do
  match args with
  | ["model", file] =>
    let h ← IO.FS.Handle.mk file .read
    processLines (IO.FS.Stream.ofHandle h) none
    return 0
  | _ =>
    IO.eprintln "usage: pmdriver model <script-file>"
    return 2
