/-
  Framing.lean — `RxPacketStream::poll_next` (src/io/packet_stream.rs), code-shaped, after the repair:
  a loop over the three states Idle / ReadPacketLen / ReadPacketData.

    valid = the first `size` bytes of `buf` (received, not yet emitted);  pend = `packet.end` (0 = unknown)

  The transport is a *reader oracle*: the list of events the `AsyncRead` will produce, in order.
    data bs  — bytes available; one `poll_read` hands over at most `cap` of them, the rest stays at the front
    pending  — the reader returns `Pending` once (it has woken the task itself: a yield)
    eof/err  — `Ready(Ok(0))` / `Ready(Err)`, sticky
    (empty list) — the reader returns `Pending` and keeps the waker: it will wake the task when fed
-/
import PosterModel.Prim

set_option linter.unusedVariables false
set_option linter.unusedSimpArgs false

namespace Poster.Framing
open Poster

inductive St | idle | len | data
deriving Repr, DecidableEq

structure Rx where
  valid : Bytes := []
  pend : Nat := 0
  st : St := .idle
deriving Repr, DecidableEq

inductive ReadEv where
  | data (bs : Bytes)
  | pending
  | eof
  | err
deriving Repr, DecidableEq

inductive Out where
  | item (frame : Bytes)     -- `Poll::Ready(Some(RxPacket::try_decode(frame)))`
  | none                     -- `Poll::Ready(None)`
  | pending                  -- `Poll::Pending`, returned by the reader itself
deriving Repr, DecidableEq

/-- `chunk_size`: `if packet.end.saturating_sub(size) < 512 { 512 } else { packet.end }` -/
def cap (pend size : Nat) : Nat := if pend - size < 512 then 512 else pend

theorem cap_pos (p n : Nat) : 0 < cap p n := by
  unfold cap; split <;> omega

def evBytes : List ReadEv → Nat
  | [] => 0
  | .data bs :: rs => bs.length + evBytes rs
  | _ :: rs => evBytes rs

def St.rank : St → Nat
  | .idle => 0 | .data => 1 | .len => 2

/-- frame length fixed by a received prefix: `1 + len(varint) + value`, from `VarSizeInt::try_from(&buf[1..size])` -/
def frameLen (v : Bytes) : VarRes :=
  match decVar (v.drop 1) with
  | .ok n k => .ok (1 + k + n) k
  | r => r

/-- One call of `poll_next`: runs the state machine until it returns. -/
def pollNext (s : Rx) (rs : List ReadEv) : Rx × List ReadEv × Out :=
  match h : s.st with
  | .idle =>
    match rs with
    | [] => (s, [], .pending)
    | .pending :: rs' => (s, rs', .pending)
    | .eof :: _ => (s, rs, .none)
    | .err :: _ => (s, rs, .none)
    | .data bs :: rs' =>
      if hb0 : bs.length = 0 then (s, rs, .none)       -- a zero-length read is end-of-stream
      else
      let c := cap s.pend s.valid.length
      if hb : bs.length ≤ c then
        let v := s.valid ++ bs
        if v.length ≥ 2 then pollNext { s with valid := v, st := .len } rs'
        else pollNext { s with valid := v } rs'
      else
        let v := s.valid ++ bs.take c
        if v.length ≥ 2 then pollNext { s with valid := v, st := .len } (.data (bs.drop c) :: rs')
        else pollNext { s with valid := v } (.data (bs.drop c) :: rs')
  | .len =>
    match frameLen s.valid with
    | .ok e _ => pollNext { s with pend := e, st := .data } rs
    | .need => pollNext { s with st := .idle } rs
    | .bad => (s, rs, .none)
  | .data =>
    if s.valid.length < s.pend then pollNext { s with st := .idle } rs
    else
      let pkt := s.valid.take s.pend
      let rest := s.valid.drop s.pend
      ({ valid := rest, pend := 0, st := if rest.length ≠ 0 then .len else .idle }, rs, .item pkt)
termination_by (evBytes rs + rs.length, s.st.rank)
decreasing_by
  all_goals simp_wf
  all_goals simp only [evBytes, List.length_cons, List.length_drop, h, St.rank]
  all_goals first
    | (apply Prod.Lex.left; have := cap_pos s.pend s.valid.length; omega)
    | (apply Prod.Lex.right; omega)
    | skip

/-- Reference framing (from the standard, independent of the machine above): greedy split of a byte string
    into whole packets; the second component is the unfinished tail. `none` = malformed remaining length. -/
def framesAux : Nat → Bytes → Option (List Bytes × Bytes)
  | 0, bs => some ([], bs)
  | f+1, bs =>
    match bs with
    | [] => some ([], [])
    | _ :: t =>
      match decVar t with
      | .bad => none
      | .need => some ([], bs)
      | .ok n k =>
        let e := 1 + k + n
        if bs.length < e then some ([], bs)
        else (framesAux f (bs.drop e)).map fun (ps, tl) => (bs.take e :: ps, tl)
def frames (bs : Bytes) : Option (List Bytes × Bytes) := framesAux bs.length bs

end Poster.Framing
