/-
  Rx.lean — the packets poster-rs decodes, code-shaped (src/codec/{connack,auth,publish,ack,suback,
  unsuback,pingresp,disconnect,packet}.rs).

  Each `*Rx::try_decode` is followed literally: a `Decoder` over the packet bytes, `try_decode::<T>()`
  calls (decode, then advance by the byte length of the result), the length checks the code makes
  (and only those), the short-form branches, the builder with its defaults, and `validate`.
-/
import PosterModel.Props

namespace Poster

/-! ## reason-code tables (`TryFrom<u8>` of each reason enum) -/
def connectReasonOk (r : Nat) : Bool :=
  r ∈ [0x00, 0x80, 0x81, 0x82, 0x83, 0x84, 0x85, 0x86, 0x87, 0x88, 0x89, 0x8a, 0x8c, 0x90, 0x95, 0x97, 0x99,
       0x9a, 0x9b, 0x9c, 0x9d, 0x9f]
def pubackReasonOk (r : Nat) : Bool := r ∈ [0x00, 0x10, 0x80, 0x83, 0x87, 0x90, 0x91, 0x97, 0x99]
def pubrecReasonOk (r : Nat) : Bool := r ∈ [0x00, 0x10, 0x80, 0x83, 0x87, 0x90, 0x91, 0x97, 0x99]
def pubrelReasonOk (r : Nat) : Bool := r ∈ [0x00, 0x92]
def pubcompReasonOk (r : Nat) : Bool := r ∈ [0x00, 0x92]
def subackReasonOk (r : Nat) : Bool :=
  r ∈ [0x00, 0x01, 0x02, 0x80, 0x83, 0x87, 0x8f, 0x91, 0x97, 0x9e, 0xa1, 0xa2]
def unsubackReasonOk (r : Nat) : Bool := r ∈ [0x00, 0x11, 0x80, 0x83, 0x87, 0x8f, 0x91]
def disconnectReasonOk (r : Nat) : Bool :=
  r ∈ [0x00, 0x04, 0x80, 0x81, 0x82, 0x83, 0x87, 0x89, 0x8b, 0x8d, 0x8e, 0x8f, 0x90, 0x93, 0x94, 0x95, 0x96,
       0x97, 0x98, 0x99, 0x9a, 0x9b, 0x9c, 0x9d, 0x9e, 0x9f, 0xa0, 0xa1, 0xa2]
def authReasonOk (r : Nat) : Bool := r ∈ [0x00, 0x18, 0x19]

/-- `ReasonT::try_decode` through a `Decoder` -/
def dReason (ok : Nat → Bool) (d : Bytes) : Res (Nat × Bytes) :=
  tryDec (fun bs => (decU8 bs).bind fun r => if ok r then .ok r else .err) (fun _ => 1) d

/-- `for property in decoder.iter::<Property>() { match property { … } }`: decode one property, hand it to
    the builder (`none` = `UnexpectedProperty`), repeat until the buffer is empty. -/
def foldProps {β} (step : β → Property → Option β) : Nat → Bytes → β → Res β
  | _, [], b => .ok b
  | 0, _, _ => .err
  | f+1, bs, b =>
    match dProp bs with
    | .ok (p, r) =>
      match step b p with
      | some b' => foldProps step f r b'
      | none => .err
    | .err => .err
    | .panic => .panic

/-! ## CONNACK -/
structure ConnackRx where
  sessionPresent : Bool
  reason : Nat
  wildcardSubAvail : Bool := true
  subIdAvail : Bool := true
  sharedSubAvail : Bool := true
  maxQos : Nat := 2
  retainAvail : Bool := true
  serverKeepAlive : Option Nat := none
  receiveMax : Nat := 65535
  topicAliasMax : Nat := 0
  sessionExpiry : Option Nat := none
  maxPacketSize : Option Nat := none
  authData : Option Bytes := none
  assignedClientId : Option Bytes := none
  reasonString : Option Bytes := none
  responseInfo : Option Bytes := none
  serverReference : Option Bytes := none
  authMethod : Option Bytes := none
  userProps : List (Bytes × Bytes) := []
deriving Repr, DecidableEq

def ConnackRx.step (c : ConnackRx) (p : Property) : Option ConnackRx :=
  match p.id, p.val with
  | 40, .bool b => some { c with wildcardSubAvail := b }
  | 41, .bool b => some { c with subIdAvail := b }
  | 42, .bool b => some { c with sharedSubAvail := b }
  | 36, .num n => some { c with maxQos := n }
  | 37, .bool b => some { c with retainAvail := b }
  | 19, .num n => some { c with serverKeepAlive := some n }
  | 33, .num n => some { c with receiveMax := n }
  | 34, .num n => some { c with topicAliasMax := n }
  | 17, .num n => some { c with sessionExpiry := some n }
  | 39, .num n => some { c with maxPacketSize := some n }
  | 22, .bytes s => some { c with authData := some s }
  | 18, .bytes s => some { c with assignedClientId := some s }
  | 31, .bytes s => some { c with reasonString := some s }
  | 26, .bytes s => some { c with responseInfo := some s }
  | 28, .bytes s => some { c with serverReference := some s }
  | 21, .bytes s => some { c with authMethod := some s }
  | 38, .pair k v => some { c with userProps := c.userProps ++ [(k, v)] }
  | _, _ => none

/-- `ConnackRx::try_decode` -/
def decConnack (bytes : Bytes) : Res ConnackRx :=
  (dU8 bytes).bind fun (hdr, d) =>
  if hdr / 16 ≠ 2 then .err else
  (dVar d).bind fun (rl, d) =>
  if 1 + rl.2 + rl.1 > bytes.length then .err else
  (dBool d).bind fun (sp, d) =>
  (dReason connectReasonOk d).bind fun (reason, d) =>
  (dVar d).bind fun (pl, d) =>
  if pl.1 > d.length then .err else
  foldProps ConnackRx.step d.length d { sessionPresent := sp, reason := reason }

/-! ## AUTH -/
structure AuthRx where
  reason : Nat := 0
  authMethod : Option Bytes := none
  authData : Option Bytes := none
  reasonString : Option Bytes := none
  userProps : List (Bytes × Bytes) := []
deriving Repr, DecidableEq

def AuthRx.step (c : AuthRx) (p : Property) : Option AuthRx :=
  match p.id, p.val with
  | 21, .bytes s => some { c with authMethod := some s }
  | 22, .bytes s => some { c with authData := some s }
  | 31, .bytes s => some { c with reasonString := some s }
  | 38, .pair k v => some { c with userProps := c.userProps ++ [(k, v)] }
  | _, _ => none

/-- `AuthRxBuilder::validate` (after the fix: only the method is mandatory in the long form) -/
def AuthRx.valid (c : AuthRx) : Bool :=
  (c.reason == 0 && c.authMethod.isNone && c.authData.isNone && c.reasonString.isNone && c.userProps.isEmpty)
  || c.authMethod.isSome

/-- `AuthRx::try_decode` -/
def decAuth (bytes : Bytes) : Res AuthRx :=
  (dU8 bytes).bind fun (hdr, d) =>
  if hdr ≠ 240 then .err else
  (dVar d).bind fun (rl, d) =>
  if rl.1 = 0 then .ok {} else
  if rl.1 > bytes.length then .err else
  (dReason authReasonOk d).bind fun (reason, d) =>
  (dVar d).bind fun (pl, d) =>
  if pl.1 > d.length then .err else
  (foldProps AuthRx.step d.length d { reason := reason }).bind fun c =>
  if c.valid then .ok c else .err

/-! ## PUBLISH -/
structure PublishRx where
  dup : Bool := false
  retain : Bool := false
  qos : Nat := 0
  topic : Bytes
  packetId : Option Nat := none
  pfi : Option Bool := none
  topicAlias : Option Nat := none
  mei : Option Nat := none
  subIds : List Nat := []
  correlationData : Option Bytes := none
  responseTopic : Option Bytes := none
  contentType : Option Bytes := none
  userProps : List (Bytes × Bytes) := []
  payload : Bytes := []
deriving Repr, DecidableEq

def PublishRx.step (c : PublishRx) (p : Property) : Option PublishRx :=
  match p.id, p.val with
  | 1, .bool b => some { c with pfi := some b }
  | 35, .num n => some { c with topicAlias := some n }
  | 2, .num n => some { c with mei := some n }
  | 11, .var v _ => some { c with subIds := c.subIds ++ [v] }
  | 9, .bytes s => some { c with correlationData := some s }
  | 8, .bytes s => some { c with responseTopic := some s }
  | 3, .bytes s => some { c with contentType := some s }
  | 38, .pair k v => some { c with userProps := c.userProps ++ [(k, v)] }
  | _, _ => none

/-- `PublishRx::try_decode` -/
def decPublish (bytes : Bytes) : Res PublishRx :=
  (dU8 bytes).bind fun (hdr, d) =>
  if hdr / 16 ≠ 3 then .err else
  let qos := hdr / 2 % 4
  if qos = 3 then .err else
  (dVar d).bind fun (rl, d) =>
  if rl.1 > d.length then .err else
  (dStr d).bind fun (topic, d) =>
  (if qos = 0 then Res.ok (none, d) else (dNzU16 d).map fun (p, d) => (some p, d)).bind fun (pid, d) =>
  (dVar d).bind fun (pl, d) =>
  if pl.1 > d.length then .err else
  (foldProps PublishRx.step pl.1 (d.take pl.1)
      { dup := hdr / 8 % 2 = 1, retain := hdr % 2 = 1, qos := qos, topic := topic, packetId := pid }).bind fun c =>
  (advanceBy pl.1 d).bind fun d =>
  -- `validate`: QoS > 0 needs a packet identifier (always set above)
  .ok { c with payload := d }

/-! ## PUBACK / PUBREC / PUBREL / PUBCOMP (`AckRx<ReasonT>`) -/
structure AckRx where
  packetId : Nat
  reason : Nat := 0
  reasonString : Option Bytes := none
  userProps : List (Bytes × Bytes) := []
deriving Repr, DecidableEq

def AckRx.step (c : AckRx) (p : Property) : Option AckRx :=
  match p.id, p.val with
  | 31, .bytes s => some { c with reasonString := some s }
  | 38, .pair k v => some { c with userProps := c.userProps ++ [(k, v)] }
  | _, _ => none

/-- `AckRx<ReasonT>::try_decode` with `FIXED_HDR = hdr` and the reason table `ok` -/
def decAck (hdr : Nat) (ok : Nat → Bool) (bytes : Bytes) : Res AckRx :=
  (dU8 bytes).bind fun (h, d) =>
  if h ≠ hdr then .err else
  (dVar d).bind fun (rl, d) =>
  if rl.1 > d.length then .err else
  (dNzU16 d).bind fun (pid, d) =>
  if rl.1 = 2 then .ok { packetId := pid } else
  (dReason ok d).bind fun (reason, d) =>
  if rl.1 < 4 then .ok { packetId := pid, reason := reason } else
  (dVar d).bind fun (pl, d) =>
  if pl.1 > d.length then .err else
  foldProps AckRx.step d.length d { packetId := pid, reason := reason }

/-! ## SUBACK / UNSUBACK -/
structure SubackRx where
  packetId : Nat
  reasonString : Option Bytes := none
  userProps : List (Bytes × Bytes) := []
  payload : List Nat := []
deriving Repr, DecidableEq

def SubackRx.step (c : SubackRx) (p : Property) : Option SubackRx :=
  match p.id, p.val with
  | 31, .bytes s => some { c with reasonString := some s }
  | 38, .pair k v => some { c with userProps := c.userProps ++ [(k, v)] }
  | _, _ => none

/-- `for reason in decoder.iter::<ReasonT>()` -/
def decReasons (ok : Nat → Bool) : Bytes → Res (List Nat)
  | [] => .ok []
  | b :: rest => if ok b.toNat then (decReasons ok rest).map (b.toNat :: ·) else .err

/-- `SubackRx::try_decode` / `UnsubackRx::try_decode` (identical up to header and reason table) -/
def decSubackLike (hdr : Nat) (ok : Nat → Bool) (bytes : Bytes) : Res SubackRx :=
  (dU8 bytes).bind fun (h, d) =>
  if h ≠ hdr then .err else
  (dVar d).bind fun (rl, d) =>
  if rl.1 > d.length then .err else
  (dNzU16 d).bind fun (pid, d) =>
  (dVar d).bind fun (pl, d) =>
  if pl.1 > d.length then .err else
  (foldProps SubackRx.step pl.1 (d.take pl.1) { packetId := pid }).bind fun c =>
  (advanceBy pl.1 d).bind fun d =>
  (decReasons ok d).bind fun rs => .ok { c with payload := rs }

/-! ## DISCONNECT -/
structure DisconnectRx where
  reason : Nat := 0
  sessionExpiry : Nat := 0
  reasonString : Option Bytes := none
  serverReference : Option Bytes := none
  userProps : List (Bytes × Bytes) := []
deriving Repr, DecidableEq

def DisconnectRx.step (c : DisconnectRx) (p : Property) : Option DisconnectRx :=
  match p.id, p.val with
  | 31, .bytes s => some { c with reasonString := some s }
  | 28, .bytes s => some { c with serverReference := some s }
  | 38, .pair k v => some { c with userProps := c.userProps ++ [(k, v)] }
  | _, _ => none

/-- `DisconnectRx::try_decode` (after the fix: remaining length 0 is the short form) -/
def decDisconnect (bytes : Bytes) : Res DisconnectRx :=
  (dU8 bytes).bind fun (h, d) =>
  if h ≠ 224 then .err else
  (dVar d).bind fun (rl, d) =>
  if rl.1 > d.length then .err else
  if rl.1 = 0 then .ok {} else
  (dReason disconnectReasonOk d).bind fun (reason, d) =>
  if d.length = 0 then .ok { reason := reason } else
  (dVar d).bind fun (pl, d) =>
  if pl.1 > d.length then .err else
  foldProps DisconnectRx.step d.length d { reason := reason }

/-! ## the packet sum and its dispatch (`RxPacket::try_decode`) -/
inductive RxPacket where
  | connack (p : ConnackRx)
  | publish (p : PublishRx)
  | puback (p : AckRx)
  | pubrec (p : AckRx)
  | pubrel (p : AckRx)
  | pubcomp (p : AckRx)
  | suback (p : SubackRx)
  | unsuback (p : SubackRx)
  | pingresp
  | disconnect (p : DisconnectRx)
  | auth (p : AuthRx)
deriving Repr, DecidableEq

/-- `RxPacket::try_decode(bytes)`; `bytes[0]` panics on an empty buffer (the framing layer never hands one over). -/
def decodeRx (bytes : Bytes) : Res RxPacket :=
  match bytes with
  | [] => .panic
  | b :: _ =>
    match b.toNat / 16 with
    | 2 => (decConnack bytes).map .connack
    | 3 => (decPublish bytes).map .publish
    | 4 => (decAck 0x40 pubackReasonOk bytes).map .puback
    | 5 => (decAck 0x50 pubrecReasonOk bytes).map .pubrec
    | 6 => (decAck 0x62 pubrelReasonOk bytes).map .pubrel
    | 7 => (decAck 0x70 pubcompReasonOk bytes).map .pubcomp
    | 9 => (decSubackLike 0x90 subackReasonOk bytes).map .suback
    | 11 => (decSubackLike 0xb0 unsubackReasonOk bytes).map .unsuback
    | 13 => (dU8 bytes).bind fun (h, _) => if h ≠ 0xd0 then .err else .ok .pingresp
    | 14 => (decDisconnect bytes).map .disconnect
    | 15 => (decAuth bytes).map .auth
    | _ => .err

end Poster
