/-
  Script.lean — text I/O of the driver: parsing script events (PROTOCOL.md §4) into `Ev`, rendering
  observations (§6). No logic of the client lives here.
-/
import PosterModel.World

namespace Poster.Script
open Poster

def kv (tok : String) : Option (String × String) :=
  match tok.splitOn "=" with
  | [k, v] => some (k, v)
  | _ => none

def pNat (s : String) : Option Nat := s.toNat?
def pBool (s : String) : Option Bool := if s = "0" then some false else if s = "1" then some true else none
def pPair (s : String) : Option (Bytes × Bytes) :=
  match s.splitOn ":" with
  | [k, v] => do let a ← ofHex k; let b ← ofHex v; pure (a, b)
  | _ => none

def foldKV {α} (toks : List String) (init : α) (f : α → String → String → Option α) : Option α :=
  toks.foldlM (fun acc tok => match kv tok with
    | some (k, v) => f acc k v
    | none => none) init

def parseConnect (toks : List String) : Option ConnectTx :=
  foldKV toks ({} : ConnectTx) fun t k v =>
    match k with
    | "cid" => (ofHex v).map fun b => { t with clientId := b }
    | "ka" => (pNat v).map fun n => { t with keepAlive := n }
    | "sei" => (pNat v).map fun n => { t with sessionExpiry := some n }
    | "rm" => (pNat v).map fun n => { t with receiveMaximum := some n }
    | "mps" => (pNat v).map fun n => { t with maxPacketSize := some n }
    | "tam" => (pNat v).map fun n => { t with topicAliasMax := some n }
    | "rri" => (pBool v).map fun b => { t with reqRespInfo := some b }
    | "rpi" => (pBool v).map fun b => { t with reqProbInfo := some b }
    | "am" => (ofHex v).map fun b => { t with authMethod := some b }
    | "ad" => (ofHex v).map fun b => { t with authData := some b }
    | "up" => (pPair v).map fun p => { t with userProps := t.userProps ++ [p] }
    | "wq" => (pNat v).map fun n => { t with willQos := n }
    | "wr" => (pBool v).map fun b => { t with willRetain := b }
    | "cs" => (pBool v).map fun b => { t with cleanStart := b }
    | "wdi" => (pNat v).map fun n => { t with willDelay := some n }
    | "wpfi" => (pBool v).map fun b => { t with willPfi := some b }
    | "wmei" => (pNat v).map fun n => { t with willMei := some n }
    | "wct" => (ofHex v).map fun b => { t with willContentType := some b }
    | "wrt" => (ofHex v).map fun b => { t with willResponseTopic := some b }
    | "wcd" => (ofHex v).map fun b => { t with willCorrelationData := some b }
    | "wup" => (pPair v).map fun p => { t with willUserProps := t.willUserProps ++ [p] }
    | "wt" => (ofHex v).map fun b => { t with willTopic := some b }
    | "wp" => (ofHex v).map fun b => { t with willPayload := some b }
    | "un" => (ofHex v).map fun b => { t with username := some b }
    | "pw" => (ofHex v).map fun b => { t with password := some b }
    | _ => none

def parseAuth (toks : List String) : Option AuthTx :=
  foldKV toks ({} : AuthTx) fun t k v =>
    match k with
    | "r" => (pNat v).map fun n => { t with reason := some n }
    | "am" => (ofHex v).map fun b => { t with authMethod := some b }
    | "ad" => (ofHex v).map fun b => { t with authData := some b }
    | "rs" => (ofHex v).map fun b => { t with reasonString := some b }
    | "up" => (pPair v).map fun p => { t with userProps := t.userProps ++ [p] }
    | _ => none

def parsePublish (toks : List String) : Option PublishTx :=
  foldKV toks ({} : PublishTx) fun t k v =>
    match k with
    | "q" => (pNat v).map fun n => { t with qos := n }
    | "r" => (pBool v).map fun b => { t with retain := b }
    | "t" => (ofHex v).map fun b => { t with topic := some b }
    | "p" => (ofHex v).map fun b => { t with payload := some b }
    | "pfi" => (pBool v).map fun b => { t with pfi := some b }
    | "ta" => (pNat v).map fun n => { t with topicAlias := some n }
    | "mei" => (pNat v).map fun n => { t with mei := some n }
    | "cd" => (ofHex v).map fun b => { t with correlationData := some b }
    | "rt" => (ofHex v).map fun b => { t with responseTopic := some b }
    | "ct" => (ofHex v).map fun b => { t with contentType := some b }
    | "up" => (pPair v).map fun p => { t with userProps := t.userProps ++ [p] }
    | _ => none

def parseFilter (s : String) : Option (Bytes × SubOpts) :=
  match s.splitOn ":" with
  | [f, o] =>
    match o.toList with
    | [q, nl, rap, rh] => do
      let fb ← ofHex f
      let qn ← pNat (String.ofList [q]); let nlb ← pBool (String.ofList [nl])
      let rapb ← pBool (String.ofList [rap]); let rhn ← pNat (String.ofList [rh])
      pure (fb, { maxQos := qn, noLocal := nlb, retainAsPublished := rapb, retainHandling := rhn })
    | _ => none
  | _ => none

def parseSubscribe (toks : List String) : Option SubscribeTx :=
  foldKV toks ({ packetId := 0 } : SubscribeTx) fun t k v =>
    match k with
    | "f" => (parseFilter v).map fun f => { t with filters := t.filters ++ [f] }
    | "up" => (pPair v).map fun p => { t with userProps := t.userProps ++ [p] }
    | _ => none

def parseUnsubscribe (toks : List String) : Option UnsubscribeTx :=
  foldKV toks ({ packetId := 0 } : UnsubscribeTx) fun t k v =>
    match k with
    | "f" => (ofHex v).map fun f => { t with filters := t.filters ++ [f] }
    | "up" => (pPair v).map fun p => { t with userProps := t.userProps ++ [p] }
    | _ => none

def parseDisconnect (toks : List String) : Option DisconnectTx :=
  foldKV toks ({} : DisconnectTx) fun t k v =>
    match k with
    | "r" => (pNat v).map fun n => { t with reason := n }
    | "sei" => (pNat v).map fun n => { t with sessionExpiry := some n }
    | "rs" => (ofHex v).map fun b => { t with reasonString := some b }
    | "up" => (pPair v).map fun p => { t with userProps := t.userProps ++ [p] }
    | _ => none

def parseTask (s : String) : Option Task :=
  if s = "ctx" then some .ctx
  else if s.startsWith "op" then (pNat (s.drop 2).toString).map Task.op
  else if s.startsWith "st" then (pNat (s.drop 2).toString).map Task.st
  else none

/-- split a byte string at strictly increasing offsets -/
def cutAt (bs : Bytes) (prev : Nat) : List Nat → List Bytes
  | [] => [bs]
  | c :: cs => bs.take (c - prev) :: cutAt (bs.drop (c - prev)) c cs

def parseEv (line : String) : Option Ev :=
  match line.splitOn " " with
  | ["SETUP"] => some .setup
  | "CONNECT" :: rest => (parseConnect rest).map Ev.connect
  | "AUTHORIZE" :: rest => (parseAuth rest).map Ev.authorize
  | ["RUN"] => some .run
  | ["DROPFUT"] => some .dropFut
  | ["DROPCTX"] => some .dropCtx
  | ["MARKDISC", n] => (pNat n).map Ev.markDisc
  | ["SNAP"] => some .snap
  | ["FEED", h] => (ofHex h).map fun b => Ev.feed [b]
  | ["FEED", h, cuts] =>
    match kv cuts with
    | some ("cuts", cs) => do
      let b ← ofHex h
      let offs ← (cs.splitOn ",").mapM pNat
      pure (Ev.feed (cutAt b 0 offs))
    | _ => none
  | ["FEEDEOF"] => some .feedEof
  | ["FEEDERR"] => some .feedErr
  | "OP" :: id :: h :: kind :: rest => do
    let idn ← pNat id
    let hn ← pNat ((h.drop 1).toString)
    let req ← match kind with
      | "PUBLISH" => (parsePublish rest).map Req.publish
      | "SUBSCRIBE" => (parseSubscribe rest).map Req.subscribe
      | "UNSUBSCRIBE" => (parseUnsubscribe rest).map Req.unsubscribe
      | "PING" => if rest = [] then some Req.ping else none
      | "DISCONNECT" => (parseDisconnect rest).map Req.disconnect
      | _ => none
    if h.startsWith "h" then pure (Ev.op idn hn req) else none
  | ["POLL", t] => (parseTask t).map Ev.poll
  | ["HOLD", t] => (parseTask t).map Ev.hold
  | ["RELEASE", t] => (parseTask t).map Ev.release
  | ["DROP", t] =>
    if t.startsWith "rsp" then (pNat (t.drop 3).toString).map Ev.dropRsp else (parseTask t).map Ev.drop
  | ["STREAM", id] => (pNat id).map Ev.stream
  | ["CLONE", h, h2] =>
    if h.startsWith "h" ∧ h2.startsWith "h" then do
      let a ← pNat (h.drop 1).toString; let b ← pNat (h2.drop 1).toString; pure (Ev.clone a b)
    else none
  | ["DROPHANDLE", h] => if h.startsWith "h" then (pNat (h.drop 1).toString).map Ev.dropHandle else none
  | _ => none

def minOpt : Option Nat → Option Nat → Option Nat
  | none, b => b
  | a, none => a
  | some a, some b => some (if a ≤ b then a else b)

def parseCfg (toks : List String) : Option Cfg :=
  foldKV toks ({} : Cfg) fun c k v =>
    match k with
    | "exec" => if v = "wake" then some c else if v = "sweep" then some { c with sweep := true } else none
    | "rd" => if v = "chunks" then some c else if v = "fill" then some { c with fill := true } else none
    | "rdp" => (pBool v).map fun b => { c with rdp := b }
    | "wr" => if v ∈ ["all", "one", "pend", "pendone"] then some c else none
    | "werr" => (pNat v).map fun n => { c with wlimit := minOpt c.wlimit (some n) }
    | "wzero" => (pNat v).map fun n => { c with wlimit := minOpt c.wlimit (some n) }
    -- what the transport answers to `poll_flush` / `poll_close`: the client calls neither, so nothing depends on it
    -- a new waker for every poll of a task, only the latest one wakes it: every future re-registers on every poll
    | "wk" => if v ∈ ["same", "fresh"] then some c else none
    -- `WCALLS` statistics of the transport (computed by the driver with TxStream/TxMock, not by `World`)
    | "wtrace" => if v ∈ ["0", "1"] then some c else none
    | "wflush" => if v ∈ ["ok", "err", "pend"] then some c else none
    | "wclose" => if v ∈ ["ok", "err", "pend"] then some c else none
    | _ => none

/-! ## rendering -/
def oStr : Option Bytes → String
  | none => "-"
  | some b => toHex b
def oNat : Option Nat → String
  | none => "-"
  | some n => toString n
def bStr (b : Bool) : String := if b then "1" else "0"
def oBool : Option Bool → String
  | none => "-"
  | some b => bStr b
def ups (u : List (Bytes × Bytes)) : String :=
  if u.isEmpty then "-" else ",".intercalate (u.map fun (k, v) => toHex k ++ ":" ++ toHex v)

def hexNat (n : Nat) : String := String.ofList (Nat.toDigits 16 n)

def errName : ErrKind → String
  | .internalError => "InternalError" | .connectError => "ConnectError" | .authError => "AuthError"
  | .pubackError => "PubackError" | .pubrecError => "PubrecError" | .pubcompError => "PubcompError"
  | .socketClosed => "SocketClosed" | .handleClosed => "HandleClosed" | .contextExited => "ContextExited"
  | .disconnected => "Disconnected" | .codecError => "CodecError" | .quotaExceeded => "QuotaExceeded"
  | .maximumPacketSizeExceeded => "MaximumPacketSizeExceeded"

def taskName : Task → String
  | .ctx => "ctx"
  | .op n => s!"op{n}"
  | .st n => s!"st{n}"

def callName : Call → String
  | .connect => "connect" | .authorize => "authorize" | .run => "run"

def renderDone : DoneRes → String
  | .ok => "ok"
  | .okAck unsub rs up pl =>
    s!"ok {if unsub then "unsuback" else "suback"} rs={oStr rs} up={ups up} pl={toHex (pl.map UInt8.ofNat)}"
  | .err k => s!"err {errName k}"
  | .errAck k r rs up => s!"err {errName k} r={r} rs={oStr rs} up={ups up}"

def renderRet : RetRes → String
  | .ok => "ok"
  | .connack k =>
    s!"ok connack sp={bStr k.sessionPresent} r={k.reason} wsa={bStr k.wildcardSubAvail} sia={bStr k.subIdAvail} ssa={bStr k.sharedSubAvail} mq={k.maxQos} ra={bStr k.retainAvail} ska={oNat k.serverKeepAlive} rm={k.receiveMax} tam={k.topicAliasMax} sei={oNat k.sessionExpiry} mps={oNat k.maxPacketSize} aci={oStr k.assignedClientId} rs={oStr k.reasonString} ri={oStr k.responseInfo} sr={oStr k.serverReference} am={oStr k.authMethod} ad={oStr k.authData} up={ups k.userProps}"
  | .auth a => s!"ok auth r={a.reason} rs={oStr a.reasonString} am={oStr a.authMethod} ad={oStr a.authData} up={ups a.userProps}"
  | .connectError k => s!"err ConnectError r={k.reason} rs={oStr k.reasonString} sr={oStr k.serverReference} up={ups k.userProps}"
  | .disconnected d => s!"err Disconnected r={d.reason} sei={d.sessionExpiry} rs={oStr d.reasonString} sr={oStr d.serverReference} up={ups d.userProps}"
  | .err k => s!"err {errName k}"

def renderState (c : Ctx) : String :=
  let aw := ",".intercalate (c.awaiting.map fun (a, _) => hexNat a)
  let sb := ",".intercalate (c.subs.map fun (a, _) => toString a)
  let rt := ",".intercalate (c.retx.map fun (a, b) => hexNat a ++ ":" ++ toHex b)
  let iq := ",".intercalate (c.inQos2.map toString)
  s!"quota={c.quota} rmax={c.recvMax} maxpkt={oNat c.maxPkt} sei={c.sei} disc={bStr c.disc.isSome} await=[{aw}] subs=[{sb}] retx=[{rt}] inq2=[{iq}]"

def renderObs : Obs → Option String
  | .ev _ => none
  | .wire bs => some s!"W {toHex bs}"
  | .wraw bs => some s!"WRAW {toHex bs}"
  | .done op r => some s!"DONE op{op} {renderDone r}"
  | .item st p =>
    some s!"ITEM st{st} dup={bStr p.dup} retain={bStr p.retain} qos={p.qos} t={toHex p.topic} pfi={oBool p.pfi} ta={oNat p.topicAlias} mei={oNat p.mei} cd={oStr p.correlationData} rt={oStr p.responseTopic} ct={oStr p.contentType} up={ups p.userProps} p={toHex p.payload}"
  | .endStream st => some s!"END st{st}"
  | .ret c r => some s!"RET {callName c} {renderRet r}"
  | .panic t cls => some s!"PANIC {taskName t} {cls}"
  | .state c => some s!"STATE {renderState c}"
  | .stall => some "STALL"
  | .badscript => some "BADSCRIPT"

end Poster.Script
