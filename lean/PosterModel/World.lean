/-
  World.lean — the whole client as one executable state machine: the `Context` task (connect / authorize /
  run over `Ctx`, the framing machine and the decoders), the user side (`ContextHandle` futures as suspended
  state machines, oneshot and mpsc channels as parameters with their documented semantics, subscription
  streams), wakers, and the deterministic executor of PROTOCOL.md. `step : World → Ev → World` appends the
  observations of the event to `World.out`.
-/
import PosterModel.Ctx
import PosterModel.Framing

namespace Poster
open Framing

inductive ErrKind where
  | internalError | connectError | authError | pubackError | pubrecError | pubcompError | socketClosed
  | handleClosed | contextExited | disconnected | codecError | quotaExceeded | maximumPacketSizeExceeded
deriving Repr, DecidableEq

inductive Task where
  | ctx
  | op (n : Nat)
  | st (n : Nat)
deriving Repr, DecidableEq

/-- a request as the caller states it (identifiers are assigned when the future is first polled) -/
inductive Req where
  | publish (t : PublishTx)
  | subscribe (t : SubscribeTx)
  | unsubscribe (t : UnsubscribeTx)
  | ping
  | disconnect (t : DisconnectTx)
deriving Repr, DecidableEq

/-- what a suspended handle future is waiting for -/
inductive Wait where
  | ff | puback | pubrec | pubcomp | suback | unsuback | pingresp
deriving Repr, DecidableEq

inductive OpSt where
  | fresh (h : Nat) (req : Req)
  | wait (slot : Nat) (k : Wait)
deriving Repr, DecidableEq

inductive Ev where
  | setup
  | connect (t : ConnectTx)
  | authorize (t : AuthTx)
  | run
  | dropFut
  | dropCtx
  | markDisc (secs : Nat)
  | snap
  | feed (chunks : List Bytes)
  | feedEof
  | feedErr
  | op (id h : Nat) (req : Req)
  | poll (t : Task)
  | hold (t : Task)
  | release (t : Task)
  | drop (t : Task)
  | dropRsp (id : Nat)
  | stream (id : Nat)
  | clone (h h2 : Nat)
  | dropHandle (h : Nat)
deriving Repr, DecidableEq

inductive DoneRes where
  | ok
  | okAck (unsub : Bool) (rs : Option Bytes) (up : List (Bytes × Bytes)) (pl : List Nat)
  | err (k : ErrKind)
  | errAck (k : ErrKind) (r : Nat) (rs : Option Bytes) (up : List (Bytes × Bytes))
deriving Repr, DecidableEq

inductive RetRes where
  | ok
  | connack (k : ConnackRx)
  | auth (a : AuthRx)
  | connectError (k : ConnackRx)
  | disconnected (d : DisconnectRx)
  | err (k : ErrKind)
deriving Repr, DecidableEq

inductive Call where
  | connect | authorize | run
deriving Repr, DecidableEq

inductive Obs where
  | ev (e : Ev)
  | wire (bs : Bytes)
  | wraw (bs : Bytes)
  | done (op : Nat) (r : DoneRes)
  | item (st : Nat) (p : PublishRx)
  | endStream (st : Nat)
  | ret (c : Call) (r : RetRes)
  | panic (t : Task) (cls : String)
  | state (c : Ctx)
  | stall
  | badscript
deriving Repr, DecidableEq

structure Cfg where
  sweep : Bool := false
  fill : Bool := false
  rdp : Bool := false
  wlimit : Option Nat := none
deriving Repr, DecidableEq

inductive Slot where
  | empty
  | full (v : SlotVal)
  | closed
deriving Repr, DecidableEq

structure Chan where
  buf : List PublishRx := []
  txAlive : Bool := true
  rxAlive : Bool := true
  reg : Bool := false
deriving Repr, DecidableEq

inductive CtxTask where
  | none
  | connecting (call : Call) (t : ConnectTx) (a : AuthTx) (started : Bool)
  | running (started : Bool)
deriving Repr, DecidableEq

structure World where
  cfg : Cfg := {}
  hasCtx : Bool := false
  ctxDropped : Bool := false
  task : CtxTask := .none
  c : Ctx := {}
  rx : Framing.Rx := {}
  reader : List ReadEv := []
  readerReg : Bool := false
  queue : List Msg := []
  queueReg : Bool := false
  handles : List Nat := []
  ops : List (Nat × OpSt) := []
  slots : List (Nat × Slot) := []
  slotReg : List Nat := []
  chans : List (Nat × Chan) := []
  rsps : List Nat := []
  streams : List Nat := []
  pidCtr : Nat := 1
  subCtr : Nat := 1
  woken : List Task := []
  held : List Task := []
  written : Nat := 0
  wirePend : Bytes := []
  out : List Obs := []
  bad : Bool := false
deriving Repr

namespace World

def emit (w : World) (o : Obs) : World := { w with out := w.out ++ [o] }
def wake (w : World) (t : Task) : World := if t ∈ w.woken then w else { w with woken := w.woken ++ [t] }
def unwake (w : World) (t : Task) : World := { w with woken := w.woken.filter (· ≠ t) }

def setAssoc {β} (k : Nat) (v : β) : List (Nat × β) → List (Nat × β)
  | [] => [(k, v)]
  | (a, b) :: t => if a = k then (k, v) :: t else (a, b) :: setAssoc k v t

def slot (w : World) (s : Nat) : Option Slot := lookupFirst s w.slots
def chan (w : World) (c : Nat) : Option Chan := lookupFirst c w.chans
def setSlot (w : World) (s : Nat) (v : Slot) : World := { w with slots := setAssoc s v w.slots }
def setChan (w : World) (c : Nat) (v : Chan) : World := { w with chans := setAssoc c v w.chans }
def opSt (w : World) (id : Nat) : Option OpSt := lookupFirst id w.ops

/-- live senders of the message queue: every handle, and the clone each pending handle future owns -/
def senders (w : World) : Nat := w.handles.length + w.ops.length

/-- the channel closes when its last sender goes: the receiver is woken -/
def senderGone (w : World) : World :=
  if w.senders = 0 ∧ w.hasCtx ∧ w.queueReg then { w.wake .ctx with queueReg := false } else w

/-- `fetch_update`: identifiers cycle through 1..=65535 / 1..=268435455 -/
def allocPid (w : World) : Nat × World :=
  (w.pidCtr, { w with pidCtr := if w.pidCtr ≥ 65535 then 1 else w.pidCtr + 1 })
def allocSub (w : World) : Nat × World :=
  (w.subCtr, { w with subCtr := if w.subCtr ≥ 268435455 then 1 else w.subCtr + 1 })

/-! ### transport writes -/
def canWrite (w : World) (n : Nat) : Bool :=
  match w.cfg.wlimit with
  | none => true
  | some l => w.written + n ≤ l

/-- log `W` for every packet completed on the wire -/
def flushWire (w : World) : World :=
  match frames w.wirePend with
  | some (ps, tl) => { w with out := w.out ++ ps.map Obs.wire, wirePend := tl }
  | none => { w with out := w.out ++ [Obs.wraw w.wirePend], wirePend := [] }

def writeBytes (w : World) (bs : Bytes) : World :=
  if w.canWrite bs.length then
    flushWire { w with written := w.written + bs.length, wirePend := w.wirePend ++ bs }
  else
    let k := (w.cfg.wlimit.getD 0) - w.written
    flushWire { w with written := w.written + k, wirePend := w.wirePend ++ bs.take k }

/-! ### channel effects -/
def sendSlot (w : World) (s : Nat) (v : SlotVal) : World :=
  match w.slot s with
  | some .empty =>
    let w := w.setSlot s (.full v)
    if s ∈ w.slotReg then { w.wake (.op (s / 2)) with slotReg := w.slotReg.filter (· ≠ s) } else w
  | _ => w

def dropSlotTx (w : World) (s : Nat) : World :=
  match w.slot s with
  | some .empty =>
    let w := w.setSlot s .closed
    if s ∈ w.slotReg then { w.wake (.op (s / 2)) with slotReg := w.slotReg.filter (· ≠ s) } else w
  | _ => w

def deliver (w : World) (c : Nat) (p : PublishRx) : World :=
  match w.chan c with
  | some ch =>
    let w := w.setChan c { ch with buf := ch.buf ++ [p], reg := false }
    if ch.reg then w.wake (.st c) else w
  | none => w

def dropChanTx (w : World) (c : Nat) : World :=
  match w.chan c with
  | some ch =>
    let w := w.setChan c { ch with txAlive := false, reg := false }
    if ch.reg then w.wake (.st c) else w
  | none => w

/-- the receiving end of a subscription channel is dropped: the entry disappears (an absent channel is a dead one) -/
def dropChanRx (w : World) (c : Nat) : World := { w with chans := eraseFirst c w.chans }

/-- the receiving end of a oneshot is dropped or has taken its value: the entry disappears -/
def clearSlot (w : World) (s : Nat) : World :=
  { w with slots := eraseFirst s w.slots, slotReg := w.slotReg.filter (· ≠ s) }

def applyEff (w : World) : Eff → World
  | .write bs => w.writeBytes bs
  | .send s v => w.sendSlot s v
  | .dropSlot s => w.dropSlotTx s
  | .deliver c p => w.deliver c p
  | .dropChan c => w.dropChanTx c

def applyEffs (w : World) (es : List Eff) : World := es.foldl applyEff w

def chanRxAlive (w : World) (c : Nat) : Bool :=
  match w.chan c with
  | some ch => ch.rxAlive
  | none => false

/-- run one handler: with `wok = true` if the transport can take its write, `false` otherwise -/
def runHandler (w : World) (h : Bool → Ctx × List Eff × Flow) : World × Flow :=
  let r := h true
  let need := (r.2.1.map fun e => match e with | .write bs => bs.length | _ => 0).sum
  let r := if w.canWrite need then r else h false
  (({ w with c := r.1 }).applyEffs r.2.1, r.2.2)

/-! ### the context task -/

def finish (w : World) (call : Call) (r : RetRes) : World := ({ w with task := .none }).emit (.ret call r)

def flowRet : Flow → RetRes
  | .cont => .ok
  | .exitOk => .ok
  | .exitSocket => .err .socketClosed
  | .exitDisconnected d => .disconnected d

/-- the `select!` loop of `run()`, one poll of the task -/
def runLoop : Nat → World → World
  | 0, w => w
  | f+1, w =>
    match w.queue with
    | m :: q =>
      let (w, flow) := ({ w with queue := q }).runHandler (fun wok => w.c.handleMsg m wok)
      match flow with
      | .cont => runLoop f w
      | fl => w.finish .run (flowRet fl)
    | [] =>
      if w.senders = 0 then w.finish .run (.err .handleClosed) else
      match pollNext w.rx w.reader with
      | (rx', rd', .item fr) =>
        let w := { w with rx := rx', reader := rd' }
        match decodeRx fr with
        | .ok p =>
          let (w, flow) := w.runHandler (fun wok => w.c.handlePkt w.chanRxAlive p wok)
          match flow with
          | .cont => runLoop f w
          | fl => w.finish .run (flowRet fl)
        | .err => w.finish .run (.err .codecError)
        | .panic => ({ w with task := .none }).emit (.panic .ctx "other")
      | (rx', rd', .none) => ({ w with rx := rx', reader := rd' }).finish .run (.err .socketClosed)
      | (rx', rd', .pending) =>
        let w := { w with rx := rx', reader := rd', queueReg := true }
        if rd' = [] then { w with readerReg := true } else w.wake .ctx

def loopFuel (w : World) : Nat := w.queue.length + 2 * (evBytes w.reader + w.reader.length + w.rx.valid.length) + 4

/-- the prelude of `run()` (session resumption), then the loop -/
def pollRun (w : World) (started : Bool) : World :=
  if started then runLoop w.loopFuel w else
    let (c1, effs, pkts) := w.c.resume
    let w := ({ w with c := c1, task := .running true }).applyEffs effs
    let total := (pkts.map List.length).sum
    if w.canWrite total then
      let w := pkts.foldl (fun w p => w.writeBytes p) w
      runLoop w.loopFuel w
    else
      -- the transport fails somewhere inside the re-sent packets: `retransmit(..).await?`
      let w := w.writeBytes pkts.flatten
      w.finish .run (.err .socketClosed)

/-- the first response awaited by `connect()` / `authorize()` -/
def awaitFirst (w : World) (call : Call) (t : ConnectTx) (a : AuthTx) : World :=
  match pollNext w.rx w.reader with
  | (rx', rd', .item fr) =>
    let w := { w with rx := rx', reader := rd' }
    match decodeRx fr with
    | .ok (.connack k) =>
      let w := { w with c := w.c.handleConnack k }
      if k.reason ≥ 128 then w.finish call (.connectError k)
      else if !k.subIdAvail then ({ w with task := .none }).emit (.panic .ctx "assert-subid")
      else w.finish call (.connack k)
    | .ok (.auth au) => w.finish call (.auth au)
    | .ok _ => w.finish call (.err .codecError)
    | .err => w.finish call (.err .codecError)
    | .panic => ({ w with task := .none }).emit (.panic .ctx "other")
  | (rx', rd', .none) => ({ w with rx := rx', reader := rd' }).finish call (.err .socketClosed)
  | (rx', rd', .pending) =>
    let w := { w with rx := rx', reader := rd', task := .connecting call t a true }
    if rd' = [] then { w with readerReg := true } else w.wake .ctx

def pollConnect (w : World) (call : Call) (t : ConnectTx) (a : AuthTx) (started : Bool) : World :=
  if started then w.awaitFirst call t a else
  let valid := match call with | .connect => t.valid | _ => a.valid
  if !valid then w.finish call (.err .codecError) else
  let w := match call with
    | .connect => { w with c := { w.c with sei := t.sessionExpiry.getD 0 } }
    | _ => w
  let pkt := match call with | .connect => t.encode | _ => a.encode
  if w.canWrite pkt.length then (w.writeBytes pkt).awaitFirst call t a
  else (w.writeBytes pkt).finish call (.err .socketClosed)

def pollCtx (w : World) : World :=
  match w.task with
  | .none => w
  | .connecting call t a started => w.pollConnect call t a started
  | .running started => w.pollRun started

/-! ### handle futures -/

def finishOp (w : World) (id : Nat) (r : DoneRes) : World :=
  (({ w with ops := eraseFirst id w.ops }).emit (.done id r)).senderGone

/-- `self.sender.unbounded_send(message)?` -/
def sendMsg (w : World) (m : Msg) : Option World :=
  if !w.hasCtx then none else
  let w := { w with queue := w.queue ++ [m] }
  some (if w.queueReg then { w.wake .ctx with queueReg := false } else w)

/-- `receiver.await` on a oneshot that has nothing yet: the waker is registered -/
def awaitSlot (w : World) (id s : Nat) (k : Wait) : World :=
  { w with ops := setAssoc id (.wait s k) w.ops, slots := setAssoc s Slot.empty w.slots,
           slotReg := if s ∈ w.slotReg then w.slotReg else w.slotReg ++ [s] }

def startOp (w : World) (id : Nat) (req : Req) : World :=
  let s := 2 * id
  match req with
  | .publish t =>
    if t.qos = 0 then
      if !t.valid then w.finishOp id (.err .codecError) else
      match w.sendMsg (.ff t.encode s) with
      | none => w.finishOp id (.err .contextExited)
      | some w => w.awaitSlot id s .ff
    else
      let (pid, w) := w.allocPid
      let t := { t with packetId := some pid }
      if !t.valid then w.finishOp id (.err .codecError) else
      match w.sendMsg (.awaitAck (actionId (if t.qos = 1 then 4 else 5) pid) t.encode s) with
      | none => w.finishOp id (.err .contextExited)
      | some w => w.awaitSlot id s (if t.qos = 1 then .puback else .pubrec)
  | .subscribe t =>
    let (pid, w) := w.allocPid
    let (sid, w) := w.allocSub
    let t := { t with packetId := pid, subId := some sid }
    if !t.valid then w.finishOp id (.err .codecError) else
    let w := w.setChan id {}
    match w.sendMsg (.subscribe (actionId 9 pid) sid t.encode s id) with
    | none => (w.dropChanRx id).finishOp id (.err .contextExited)
    | some w => w.awaitSlot id s .suback
  | .unsubscribe t =>
    let (pid, w) := w.allocPid
    let t := { t with packetId := pid }
    if !t.valid then w.finishOp id (.err .codecError) else
    match w.sendMsg (.awaitAck (actionId 11 pid) t.encode s) with
    | none => w.finishOp id (.err .contextExited)
    | some w => w.awaitSlot id s .unsuback
  | .ping =>
    match w.sendMsg (.awaitAck (actionId 13 0) pingreqBytes s) with
    | none => w.finishOp id (.err .contextExited)
    | some w => w.awaitSlot id s .pingresp
  | .disconnect t =>
    match w.sendMsg (.ff t.encode s) with
    | none => w.finishOp id (.err .contextExited)
    | some w => w.awaitSlot id s .ff

def ackErr (k : ErrKind) (a : AckRx) : DoneRes := .errAck k a.reason a.reasonString a.userProps

/-- a handle future resumed with the value of its oneshot -/
def resumeOp (w : World) (id s : Nat) (k : Wait) (v : SlotVal) : World :=
  let w := w.clearSlot s
  match v with
  | .errSize => w.finishOp id (.err .maximumPacketSizeExceeded)
  | .errQuota => w.finishOp id (.err .quotaExceeded)
  | .unit => (match k with | .ff => w.finishOp id .ok | _ => (w.finishOp id (.err .internalError)))
  | .pkt p =>
    match k, p with
    | .puback, .puback a => if a.reason ≥ 128 then w.finishOp id (ackErr .pubackError a) else w.finishOp id .ok
    | .pubrec, .pubrec a =>
      if a.reason ≥ 128 then w.finishOp id (ackErr .pubrecError a) else
      match w.sendMsg (.awaitAck (actionId 7 a.packetId) (ackBytes 0x62 a.packetId) (s + 1)) with
      | none => w.finishOp id (.err .contextExited)
      | some w => w.awaitSlot id (s + 1) .pubcomp
    | .pubcomp, .pubcomp a => if a.reason ≥ 128 then w.finishOp id (ackErr .pubcompError a) else w.finishOp id .ok
    | .suback, .suback a =>
      ({ w with rsps := w.rsps ++ [id] }).finishOp id (.okAck false a.reasonString a.userProps a.payload)
    | .unsuback, .unsuback a => w.finishOp id (.okAck true a.reasonString a.userProps a.payload)
    | .pingresp, .pingresp => w.finishOp id .ok
    | _, _ => ({ w with ops := eraseFirst id w.ops }).emit (.panic (.op id) "unreachable") |>.senderGone

def pollOp (w : World) (id : Nat) : World :=
  match w.opSt id with
  | none => w
  | some (.fresh _ req) => w.startOp id req
  | some (.wait s k) =>
    match w.slot s with
    | some (.full v) => w.resumeOp id s k v
    | some .closed => (w.clearSlot s).finishOp id (.err .contextExited)
    | _ => { w with slotReg := if s ∈ w.slotReg then w.slotReg else w.slotReg ++ [s] }

def dropOp (w : World) (id : Nat) : World :=
  match w.opSt id with
  | none => w
  | some (.fresh _ _) => ({ w with ops := eraseFirst id w.ops }).senderGone
  | some (.wait s k) =>
    let w := w.clearSlot s
    let w := match k with | .suback => w.dropChanRx id | _ => w
    ({ w with ops := eraseFirst id w.ops }).senderGone

/-! ### subscription streams -/
def pollStream (w : World) (id : Nat) : World :=
  if id ∉ w.streams then w else
  match w.chan id with
  | none => w
  | some ch =>
    match ch.buf with
    | p :: rest => ((w.setChan id { ch with buf := rest }).emit (.item id p)).wake (.st id)
    | [] =>
      if ch.txAlive then w.setChan id { ch with reg := true }
      else (({ w with streams := w.streams.filter (· ≠ id) }).dropChanRx id).emit (.endStream id)

/-! ### the executor -/
def taskLive (w : World) : Task → Bool
  | .ctx => w.task ≠ .none
  | .op n => (w.opSt n).isSome
  | .st n => n ∈ w.streams

def minNat : List Nat → Option Nat
  | [] => none
  | a :: t => match minNat t with
    | none => some a
    | some b => some (if a ≤ b then a else b)

/-- first flagged live task in the order ctx, ops by id, streams by id -/
def pick (w : World) : Option Task :=
  let ready := w.woken.filter fun t => w.taskLive t ∧ t ∉ w.held
  if Task.ctx ∈ ready then some .ctx else
  match minNat (ready.filterMap fun t => match t with | .op n => some n | _ => none) with
  | some n => some (.op n)
  | none =>
    match minNat (ready.filterMap fun t => match t with | .st n => some n | _ => none) with
    | some n => some (.st n)
    | none => none

def pollTask (w : World) (t : Task) : World :=
  let w := w.unwake t
  match t with
  | .ctx => w.pollCtx
  | .op n => w.pollOp n
  | .st n => w.pollStream n

def drain : Nat → World → World
  | 0, w => w
  | f+1, w =>
    match w.pick with
    | none => w
    | some t => drain f (w.pollTask t)

def drainFuel (w : World) : Nat :=
  4 * (w.ops.length + w.streams.length + w.queue.length + evBytes w.reader + w.reader.length + w.rx.valid.length
        + (w.chans.map fun c => c.2.buf.length).sum) + 64

def insertSorted (n : Nat) : List Nat → List Nat
  | [] => [n]
  | a :: t => if n ≤ a then n :: a :: t else a :: insertSorted n t
def sortNat (l : List Nat) : List Nat := l.foldr insertSorted []

/-- `exec=sweep`: every live task that is not flagged is polled once -/
def sweep (w : World) : World :=
  let tasks : List Task := [Task.ctx] ++ (sortNat (w.ops.map (·.1))).map Task.op ++ (sortNat w.streams).map Task.st
  tasks.foldl (fun w t => if w.taskLive t ∧ t ∉ w.woken ∧ t ∉ w.held then w.pollTask t else w) w

/-! ### events -/
def mergeRuns : List ReadEv → List ReadEv
  | .data a :: .data b :: rest => mergeRuns (.data (a ++ b) :: rest)
  | e :: rest => e :: mergeRuns rest
  | [] => []
termination_by l => l.length

def feedEvents (w : World) (evs : List ReadEv) : World :=
  let evs := if w.cfg.rdp then evs.flatMap fun e => [ReadEv.pending, e] else evs
  let rd := w.reader ++ evs
  let rd := if w.cfg.fill then mergeRuns rd else rd
  let w := { w with reader := rd }
  if w.readerReg then { w.wake .ctx with readerReg := false } else w

def flushRaw (w : World) : World :=
  if w.wirePend = [] then w else { w.emit (.wraw w.wirePend) with wirePend := [] }

def badScript (w : World) : World := { w.emit .badscript with bad := true }

def apply (w : World) (e : Ev) : World :=
  match e with
  | .setup =>
    if w.task ≠ .none ∨ w.ctxDropped then w.badScript else
    if !w.hasCtx then
      if w.handles ≠ [] ∨ w.ops ≠ [] then w.badScript else
      { w with hasCtx := true, handles := [0], c := {}, rx := {}, reader := [], readerReg := false, written := 0 }
    else
      { w.flushRaw with rx := {}, reader := [], readerReg := false, written := 0 }
  | .connect t =>
    if !w.hasCtx ∨ w.task ≠ .none then w.badScript else ({ w with task := .connecting .connect t {} false }).wake .ctx
  | .authorize a =>
    if !w.hasCtx ∨ w.task ≠ .none then w.badScript else ({ w with task := .connecting .authorize {} a false }).wake .ctx
  | .run =>
    if !w.hasCtx ∨ w.task ≠ .none then w.badScript else ({ w with task := .running false }).wake .ctx
  | .dropFut => { w with task := .none }
  | .dropCtx =>
    if !w.hasCtx then { w with task := .none } else
    let w := { w with task := .none, hasCtx := false, ctxDropped := true, reader := [] }
    let w := w.queue.foldl (fun w m => match m with
      | .ff _ s => w.dropSlotTx s
      | .awaitAck _ _ s => w.dropSlotTx s
      | .subscribe _ _ _ s ch => (w.dropSlotTx s).dropChanTx ch) w
    let w := w.c.awaiting.foldl (fun w (_, s) => w.dropSlotTx s) w
    let w := w.c.subs.foldl (fun w (_, ch) => w.dropChanTx ch) w
    { w with queue := [], c := {} }
  | .markDisc secs =>
    if !w.hasCtx ∨ w.task ≠ .none then w.badScript else { w with c := { w.c with disc := some secs } }
  | .snap =>
    if !w.hasCtx ∨ w.task ≠ .none then w.badScript else w.emit (.state w.c)
  | .feed chunks => if !w.hasCtx then w.badScript else w.feedEvents (chunks.map ReadEv.data)
  | .feedEof => if !w.hasCtx then w.badScript else w.feedEvents [.eof]
  | .feedErr => if !w.hasCtx then w.badScript else w.feedEvents [.err]
  | .op id h req =>
    if h ∉ w.handles ∨ (w.opSt id).isSome then w.badScript else
    ({ w with ops := w.ops ++ [(id, OpSt.fresh h req)] }).wake (.op id)
  | .poll t => if w.taskLive t then w.pollTask t else w
  | .hold t => if t ∈ w.held then w else { w with held := w.held ++ [t] }
  | .release t => { w with held := w.held.filter (· ≠ t) }
  | .drop t =>
    match t with
    | .ctx => w
    | .op id => w.dropOp id
    | .st id => if id ∈ w.streams then ({ w with streams := w.streams.filter (· ≠ id) }).dropChanRx id else w
  | .dropRsp id => if id ∈ w.rsps then ({ w with rsps := w.rsps.filter (· ≠ id) }).dropChanRx id else w
  | .stream id =>
    if id ∉ w.rsps then w.badScript else
    ({ w with rsps := w.rsps.filter (· ≠ id), streams := w.streams ++ [id] }).wake (.st id)
  | .clone h h2 => if h ∉ w.handles ∨ h2 ∈ w.handles then w.badScript else { w with handles := w.handles ++ [h2] }
  | .dropHandle h =>
    if h ∉ w.handles then w.badScript else ({ w with handles := w.handles.filter (· ≠ h) }).senderGone

/-- one script event: apply it, drain, (sweep, drain), stall check -/
def step (w : World) (e : Ev) : World :=
  if w.bad then w else
  let w := (w.emit (.ev e)).apply e
  if w.bad then w else
  let w := drain w.drainFuel w
  let w := if w.cfg.sweep then (let w := w.sweep; drain w.drainFuel w) else w
  if w.task ≠ .none ∧ w.reader ≠ [] then w.emit .stall else w

/-- end of script -/
def finishScript (w : World) : World := w.flushRaw

def run (cfg : Cfg) (evs : List Ev) : List Obs := (evs.foldl step { cfg := cfg }).finishScript.out

end World
end Poster
