/-
  CtxRun.lean — histories of the context: `run()` serving a sequence of inputs (handle messages and inbound
  packets) one at a time, and the vocabulary the property theorems C05–C17 are stated in.

  `Ctx.serve` is what the `select!` loop of `run()` does with `Ctx`: every input goes through `handle_message`
  or `handle_packet`; the loop ends with the first handler that says so. (In `World.lean` the same two handlers
  are called by `runLoop`; nothing else changes `World.c` while `run()` is serving.)
-/
import PosterModel.Ctx

namespace Poster

/-- one input of the serving loop. `wok` = the transport accepts this handler's write; `dead` = subscription
    channels whose receiving end (the caller's stream) is gone. -/
inductive CIn where
  | msg (m : Msg) (wok : Bool)
  | pkt (p : RxPacket) (dead : List Nat) (wok : Bool)
deriving Repr, DecidableEq

/-- one handled input together with everything it caused, in order -/
inductive CObs where
  | msg (m : Msg) (effs : List Eff) (flow : Flow)
  | pkt (p : RxPacket) (effs : List Eff) (flow : Flow)
deriving Repr, DecidableEq

def CObs.flow : CObs → Flow
  | .msg _ _ f => f
  | .pkt _ _ f => f
def CObs.effs : CObs → List Eff
  | .msg _ e _ => e
  | .pkt _ e _ => e

def Ctx.stepIn (c : Ctx) : CIn → Ctx × CObs
  | .msg m wok => let r := c.handleMsg m wok; (r.1, .msg m r.2.1 r.2.2)
  | .pkt p dead wok => let r := c.handlePkt (fun ch => ch ∉ dead) p wok; (r.1, .pkt p r.2.1 r.2.2)

/-- `run()` serving: inputs are handled one at a time until a handler ends the loop -/
def Ctx.serve (c : Ctx) : List CIn → Ctx × List CObs
  | [] => (c, [])
  | i :: is =>
    let r := c.stepIn i
    if r.2.flow = .cont then
      let r2 := r.1.serve is
      (r2.1, r.2 :: r2.2)
    else (r.1, [r.2])

def Msg.pkt : Msg → Bytes
  | .ff p _ => p
  | .awaitAck _ p _ => p
  | .subscribe _ _ p _ _ => p
def Msg.slot : Msg → Nat
  | .ff _ s => s
  | .awaitAck _ _ s => s
  | .subscribe _ _ _ s _ => s

def writesOf (effs : List Eff) : List Bytes :=
  effs.filterMap fun e => match e with | .write b => some b | _ => none
def deliversOf (effs : List Eff) : List (Nat × PublishRx) :=
  effs.filterMap fun e => match e with | .deliver c p => some (c, p) | _ => none
def sendsOf (effs : List Eff) : List (Nat × SlotVal) :=
  effs.filterMap fun e => match e with | .send s v => some (s, v) | _ => none

/-- what the decoder guarantees about an inbound PUBLISH (proved from `decPublish`): QoS ≤ 2 and a packet
    identifier exactly when QoS > 0 and then non-zero. The `unreachable!` of the PUBLISH arm needs it. -/
def PublishRx.wf (p : PublishRx) : Prop :=
  p.qos ≤ 2 ∧ (p.qos = 0 ↔ p.packetId = none) ∧ (∀ pid, p.packetId = some pid → 0 < pid ∧ pid < 65536)

def RxPacket.wf : RxPacket → Prop
  | .publish p => p.wf
  | .puback a => 0 < a.packetId ∧ a.packetId < 65536
  | .pubrec a => 0 < a.packetId ∧ a.packetId < 65536
  | .pubrel a => 0 < a.packetId ∧ a.packetId < 65536
  | .pubcomp a => 0 < a.packetId ∧ a.packetId < 65536
  | .suback a => 0 < a.packetId ∧ a.packetId < 65536
  | .unsuback a => 0 < a.packetId ∧ a.packetId < 65536
  | _ => True

def CIn.wf : CIn → Prop
  | .msg _ _ => True
  | .pkt p _ _ => p.wf

/-- the acknowledgement MQTT 5 requires for an inbound packet (section 4.3), as the bytes of the shortest form -/
def ackOwed : RxPacket → List Bytes
  | .publish p =>
    match p.qos, p.packetId with
    | 1, some pid => [ackBytes 0x40 pid]
    | 2, some pid => [ackBytes 0x50 pid]
    | _, _ => []
  | .pubrel a => [ackBytes 0x70 a.packetId]
  | _ => []

/-- the action identifier an inbound acknowledgement is addressed to (`rx_action_id`) -/
def rxActionId : RxPacket → Option Nat
  | .puback a => some (actionId 4 a.packetId)
  | .pubrec a => some (actionId 5 a.packetId)
  | .pubrel a => some (actionId 6 a.packetId)
  | .pubcomp a => some (actionId 7 a.packetId)
  | .suback a => some (actionId 9 a.packetId)
  | .unsuback a => some (actionId 11 a.packetId)
  | .pingresp => some (actionId 13 0)
  | _ => none

/-! ## C10: the send-quota monitor (a specification, independent of `Ctx.quota`) -/

/-- QoS>0 PUBLISH packets written and not yet completed: (packet identifier, QoS) -/
structure QMon where
  out : List (Nat × Nat) := []
  R : Nat
deriving Repr, DecidableEq

def aidKind (aid : Nat) : Nat := aid / 16777216
def aidPid (aid : Nat) : Nat := aid / 256 % 65536

/-- `none` = the property is violated; `some (m, false)` = the history left the property's domain
    (an acknowledgement that completes nothing outstanding: not a conformant broker) -/
def QMon.next (m : QMon) : CObs → Option (QMon × Bool)
  | .msg (.awaitAck aid pkt slot) effs _ =>
    if pktType pkt = 3 then
      if writesOf effs = [] then
        -- nothing written: either refused for its size, or for the quota — the latter only when R are outstanding
        if (slot, SlotVal.errQuota) ∈ sendsOf effs then (if m.out.length = m.R then some (m, true) else none)
        else some (m, true)
      else
        if m.out.length < m.R then some ({ m with out := m.out ++ [(aidPid aid, if aidKind aid = 4 then 1 else 2)] }, true)
        else none
    else
      -- not a PUBLISH: never limited by the quota
      if (slot, SlotVal.errQuota) ∈ sendsOf effs then none else some (m, true)
  | .msg m' effs _ => if (m'.slot, SlotVal.errQuota) ∈ sendsOf effs then none else some (m, true)
  | .pkt (.puback a) _ _ =>
    if (a.packetId, 1) ∈ m.out then some ({ m with out := m.out.erase (a.packetId, 1) }, true) else some (m, false)
  | .pkt (.pubcomp a) _ _ =>
    if (a.packetId, 2) ∈ m.out then some ({ m with out := m.out.erase (a.packetId, 2) }, true) else some (m, false)
  | .pkt (.pubrec a) _ _ =>
    if a.reason ≥ 128 then
      if (a.packetId, 2) ∈ m.out then some ({ m with out := m.out.erase (a.packetId, 2) }, true) else some (m, false)
    else some (m, true)
  | .pkt _ _ _ => some (m, true)

def QMon.scan (m : QMon) : List CObs → Bool
  | [] => true
  | o :: t =>
    match m.next o with
    | none => false
    | some (m', true) => m'.scan t
    | some (_, false) => true

/-- C10 on a history: never more than `R` outstanding, refusals only (and exactly) at `R` outstanding -/
def P_C10 (R : Nat) (t : List CObs) : Bool := ({ R := R } : QMon).scan t

/-! ## C08: acknowledgements written = acknowledgements owed -/
def P_C08 (t : List CObs) : Bool :=
  t.all fun o => match o with
    | .pkt p effs _ => writesOf effs == ackOwed p
    | .msg m effs _ => writesOf effs == [] || writesOf effs == [m.pkt]

/-! ## C09: inbound QoS 2 identifiers answered with PUBREC and not yet released, from the history alone -/
def q2Step (acc : List Nat) : CObs → List Nat
  | .pkt (.publish p) _ _ => if p.qos = 2 ∧ p.packetId.getD 0 ∉ acc then acc ++ [p.packetId.getD 0] else acc
  | .pkt (.pubrel a) _ _ => acc.filter (· ≠ a.packetId)
  | _ => acc
def pendingQ2 (t : List CObs) : List Nat := t.foldl q2Step []

end Poster
