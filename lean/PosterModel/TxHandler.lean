/-
  TxHandler.lean — `Context::handle_message` over a REAL transport: the handler of Ctx.lean (effects in statement order, the
  transport's verdict a Boolean) composed with the `write_all` loop of TxStream.lean over an arbitrary writer oracle. This is
  the piece of the model in which a handler can be parked inside `tx.write(..).await` (DESIGN.md section 13: `World` itself
  hands whole packets to its transport).
-/
import PosterModel.Ctx
import PosterModel.TxStream

namespace Poster
open Poster.TxStream

def Eff.isWrite : Eff → Bool
  | .write _ => true
  | _ => false

def Msg.pkt : Msg → Bytes
  | .ff p _ => p
  | .awaitAck _ p _ => p
  | .subscribe _ _ p _ _ => p

/-- what one call of `handle_message` has done when the transport is an arbitrary writer oracle -/
inductive HOut where
  | finished (c : Ctx) (effs : List Eff) (fl : Flow)     -- the handler ran to its end (effects in statement order)
  | suspended (c : Ctx)                                  -- parked inside `tx.write(..).await`: the transport said Pending for good
  deriving Repr

/-- `handle_message` over a real transport: a local refusal never touches it; otherwise the request's packet goes through
    `write_all` (TxStream); `Ok` continues with the statements behind the write, an error takes the `?` exit, and a transport
    that stays `Pending` leaves the handler parked at the write — in the state the code is in at that statement, which is the
    state the failing-write exit returns (`send_quota` already taken for a PUBLISH, a SUBSCRIBE already registered). -/
def handleMsgAfter (c : Ctx) (m : Msg) (r : TxStream.Res) : HOut × Bytes × List WEv :=
  match r.out with
  | .done => (.finished (c.handleMsg m true).1 (c.handleMsg m true).2.1 (c.handleMsg m true).2.2, r.acc, r.evs)
  | .err => (.finished (c.handleMsg m false).1 (c.handleMsg m false).2.1 (c.handleMsg m false).2.2, r.acc, r.evs)
  | .pending => (.suspended (c.handleMsg m false).1, r.acc, r.evs)

def handleMsgOver (c : Ctx) (m : Msg) (evs : List WEv) : HOut × Bytes × List WEv :=
  if ((c.handleMsg m true).2.1.filter Eff.isWrite).isEmpty then
    (.finished (c.handleMsg m true).1 (c.handleMsg m true).2.1 (c.handleMsg m true).2.2, [], evs)
  else handleMsgAfter c m (writeAll m.pkt evs).1

/-- the bytes `handle_packet` hands to the transport for an inbound packet (its acknowledgement), if any -/
def ackOf (c : Ctx) (alive : Nat → Bool) (p : RxPacket) : Option Bytes :=
  ((c.handlePkt alive p true).2.1.filterMap fun e => match e with | .write b => some b | _ => none).head?

/-- `handle_packet` over a real transport: bookkeeping and deliveries first (they precede the write in the code), then the
    acknowledgement through `write_all`; parked inside that write the handler is in the state it ends in -/
def handlePktOver (c : Ctx) (alive : Nat → Bool) (p : RxPacket) (evs : List WEv) : HOut × Bytes × List WEv :=
  match ackOf c alive p with
  | none => (.finished (c.handlePkt alive p true).1 (c.handlePkt alive p true).2.1 (c.handlePkt alive p true).2.2, [], evs)
  | some ack =>
    let r := writeAll ack evs
    (match r.1.out with
     | .done => .finished (c.handlePkt alive p true).1 (c.handlePkt alive p true).2.1 (c.handlePkt alive p true).2.2
     | .err => .finished (c.handlePkt alive p false).1 (c.handlePkt alive p false).2.1 (c.handlePkt alive p false).2.2
     | .pending => .suspended (c.handlePkt alive p false).1, r.1.acc, r.1.evs)

/-- what the handler has done to the context, whatever became of the write -/
def HOut.ctx : HOut → Ctx
  | .finished c _ _ => c
  | .suspended c => c

end Poster
