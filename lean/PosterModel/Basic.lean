def hello := "world"
