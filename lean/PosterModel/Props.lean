/-
  Props.lean — MQTT 5 properties as poster-rs encodes and decodes them (src/core/properties.rs).

  A property is an identifier byte followed by a value whose type is fixed by the identifier
  (`declare_property!(Name, Type, id)`); `Property::try_decode` reads the identifier with a `Decoder`
  and dispatches on it. The table `propKind` is that dispatch.
-/
import PosterModel.Prim

namespace Poster

/-- value types of `declare_property!` -/
inductive PKind where
  | bool | u16 | nzu16 | u32 | nzu32 | qos | var | str | bin | pair
deriving Repr, DecidableEq

/-- `declare_property!(…, Type, id)` for the 27 properties; `none` = `InvalidPropertyId`. -/
def propKind : Nat → Option PKind
  | 1 => some .bool    -- PayloadFormatIndicator
  | 2 => some .u32     -- MessageExpiryInterval
  | 3 => some .str     -- ContentType
  | 8 => some .str     -- ResponseTopic
  | 9 => some .bin     -- CorrelationData
  | 11 => some .var    -- SubscriptionIdentifier  (NonZero<VarSizeInt>)
  | 17 => some .u32    -- SessionExpiryInterval
  | 18 => some .str    -- AssignedClientIdentifier
  | 19 => some .u16    -- ServerKeepAlive
  | 21 => some .str    -- AuthenticationMethod
  | 22 => some .bin    -- AuthenticationData
  | 23 => some .bool   -- RequestProblemInformation
  | 24 => some .u32    -- WillDelayInterval
  | 25 => some .bool   -- RequestResponseInformation
  | 26 => some .str    -- ResponseInformation
  | 28 => some .str    -- ServerReference
  | 31 => some .str    -- ReasonString
  | 33 => some .nzu16  -- ReceiveMaximum
  | 34 => some .u16    -- TopicAliasMaximum
  | 35 => some .nzu16  -- TopicAlias
  | 36 => some .qos    -- MaximumQoS
  | 37 => some .bool   -- RetainAvailable
  | 38 => some .pair   -- UserProperty
  | 39 => some .nzu32  -- MaximumPacketSize
  | 40 => some .bool   -- WildcardSubscriptionAvailable
  | 41 => some .bool   -- SubscriptionIdentifierAvailable
  | 42 => some .bool   -- SharedSubscriptionAvailable
  | _ => none

/-- a property value -/
inductive PVal where
  | bool (b : Bool)
  | num (n : Nat)                 -- u16 / u32 / QoS / non-zero variants
  | var (v len : Nat)             -- variable byte integer: value and encoded length
  | bytes (s : Bytes)             -- UTF-8 string or binary data
  | pair (k v : Bytes)
deriving Repr, DecidableEq

structure Property where
  id : Nat
  val : PVal
deriving Repr, DecidableEq

/-- `Encode` of a property value of the given kind -/
def encVal : PKind → PVal → Bytes
  | .bool, .bool b => encU8 (b2n b)
  | .u16, .num n => encU16 n
  | .nzu16, .num n => encU16 n
  | .u32, .num n => encU32 n
  | .nzu32, .num n => encU32 n
  | .qos, .num n => encU8 n
  | .var, .var v _ => encVar v
  | .str, .bytes s => encStr s
  | .bin, .bytes s => encStr s
  | .pair, .pair k v => encPair k v
  | _, _ => []

/-- `ByteLen` of a property value -/
def valLen : PVal → PKind → Nat
  | .bool _, _ => 1
  | .num _, .u16 => 2
  | .num _, .nzu16 => 2
  | .num _, .u32 => 4
  | .num _, .nzu32 => 4
  | .num _, _ => 1
  | .var _ l, _ => l
  | .bytes s, _ => strLen s
  | .pair k v, _ => pairLen k v

/-- `ByteLen for Property`: one identifier byte plus the value. -/
def propLen (p : Property) : Nat :=
  match propKind p.id with
  | some k => 1 + valLen p.val k
  | none => 1

/-- `Encode` of a typed property (`PROPERTY_ID.encode(buf); self.0.encode(buf)`). -/
def encProp (p : Property) : Bytes :=
  match propKind p.id with
  | some k => encU8 p.id ++ encVal k p.val
  | none => []

/-- the value decoders `decoder.try_decode::<T>()` of `Property::try_decode`, one per kind -/
def dVal (k : PKind) (d : Bytes) : Res (PVal × Bytes) :=
  match k with
  | .bool => (dBool d).map fun (b, r) => (.bool b, r)
  | .u16 => (dU16 d).map fun (n, r) => (.num n, r)
  | .nzu16 => (dNzU16 d).map fun (n, r) => (.num n, r)
  | .u32 => (dU32 d).map fun (n, r) => (.num n, r)
  | .nzu32 => (dNzU32 d).map fun (n, r) => (.num n, r)
  | .qos => (dQoS d).map fun (n, r) => (.num n, r)
  | .var => (dNzVar d).map fun (p, r) => (.var p.1 p.2, r)
  | .str => (dStr d).map fun (s, r) => (.bytes s, r)
  | .bin => (dBin d).map fun (s, r) => (.bytes s, r)
  | .pair => (dPair d).map fun (p, r) => (.pair p.1 p.2, r)

/-- `Property::try_decode(buf)`: identifier, then the value by the table. The rest of the buffer is ignored. -/
def decProp (bs : Bytes) : Res Property :=
  (dU8 bs).bind fun (id, r) =>
    match propKind id with
    | some k => (dVal k r).map fun (v, _) => ⟨id, v⟩
    | none => .err

/-- `decoder.try_decode::<Property>()` -/
def dProp := tryDec decProp propLen

/-- `Decoder::iter::<Property>()` collected: decode until the buffer is empty (fuel = buffer length; every
    successful step consumes at least one byte). The first error or panic ends the iteration with it. -/
def dPropsAux : Nat → Bytes → Res (List Property)
  | _, [] => .ok []
  | 0, _ => .err
  | f+1, bs =>
    match dProp bs with
    | .ok (p, r) => (dPropsAux f r).map (p :: ·)
    | .err => .err
    | .panic => .panic
def dProps (bs : Bytes) : Res (List Property) := dPropsAux bs.length bs

/-- bytes of a property list as `encode` emits them one after another -/
def encProps (ps : List Property) : Bytes := (ps.map encProp).flatten
def propsLen (ps : List Property) : Nat := (ps.map propLen).sum

/-! constructors used by the packet models -/
def pBool (id : Nat) (b : Bool) : Property := ⟨id, .bool b⟩
def pNum (id : Nat) (n : Nat) : Property := ⟨id, .num n⟩
def pStr (id : Nat) (s : Bytes) : Property := ⟨id, .bytes s⟩
def pUser (k v : Bytes) : Property := ⟨38, .pair k v⟩
def pSubId (v : Nat) : Property := ⟨11, .var v (varLen v)⟩

end Poster
