/-
  Properties/C15World.lean — C15 for whole scripts: cancelling a future is, for everybody else, the same as never
  polling it again.

  C15: "Dropping the future of any pending handle operation at any point (before it is first polled, while it awaits
  its acknowledgement, or between the two phases of a QoS 2 publish), or dropping a subscription stream, never makes
  run() return and never prevents other operations and streams from completing with their own acknowledgements and
  messages. The late acknowledgement of the abandoned operation is absorbed silently while still freeing its
  flow-control slot."

  Properties/C15.lean proves the single-step facts. This file composes them over whole executions of the client
  machine `World` (PosterModel/World.lean).

  Vocabulary (Lemmas/WorldCancel*.lean, namespace `World.W11`)
    `hide id w`        the world `w` with everything private to the handle future of operation `id` erased: its entry
                       in the operation table, its two oneshots `2*id`, `2*id+1` and their waker registrations, the
                       `woken` / `held` flags of task `op id`, and its lines of the transcript (`mine id`)
    `others id out`    the transcript `out` without the lines of task `op id`: the markers of the script events that
                       address it (`op id`, `poll/hold/release/drop (op id)`), its `DONE` line and its panic line
    `mineEv id e`      the script event `e` addresses task `op id`
    `KeepsHandle w evs`  running `evs` from `w`, no event removes the last `ContextHandle` (`isDropHandle`: the only
                       events that remove one)
    `Reachable w`      the invariants every world a script reaches satisfies (`reachable_script`)
    `Pair id a b`      two reachable worlds that look the same once `op id` is hidden (`hide id a = hide id b`) and in
                       both of which task `op id` is frozen: its future is gone, or the script holds it
    `AllDrops ds`      the script `ds` consists of `drop t` events only; `DropObs o`: `o` is the marker of a `drop`
                       event or the executor's stall marker; `DropKeeps w w'`: `w'` has the context task, the session,
                       the message queue, the handles and the transport of `w`, and only `DropObs` lines more
    `PubAck p aid`     `p` is a PUBACK / PUBREC / PUBCOMP addressed to the action identifier `aid`;
                       `freesSlot p`: it gives the flow-control slot back (PUBACK, PUBCOMP, PUBREC with reason ≥ 0x80)
    `NoPubrel pid w`   the context holds no PUBREL for packet identifier `pid` (none queued, none kept for
                       retransmission); `NoPubrecSeen pid w`: no handle future is about to send one
    `follow m t`       follow the send-quota monitor `QMon` (CtxRun.lean) through the history `t` while the broker stays
                       conformant; `completesQ2 pid i`: the input `i` is the PUBCOMP, or a failing PUBREC, for `pid`
-/
import PosterModel.Lemmas.WorldCancelEx
import PosterModel.Lemmas.WorldCancelSub
import PosterModel.Properties.C15
import PosterModel.Properties.C13World
import PosterModel.Properties.C16Fuel
import PosterModel.Properties.CtxLift

set_option linter.unusedVariables false
set_option linter.unusedSimpArgs false

namespace Poster
open Framing World World.W7 World.W11

/-! ## 1. a drop never makes `run()` return -/

/-- **The script event `drop t` leaves the context alone.** Whatever the world and whatever task is dropped (a handle
    future in any phase, a stream, or the context "task", which the event ignores): the context task is the same (so
    `run()` has not returned), not a single line is logged (in particular no `RET`), the session, the message queue, the
    handles, the framing state, the transport, the held tasks, the configuration, the responses and the identifier
    counters are the same, and the script does not become malformed. -/
theorem drop_event_leaves_the_context_alone (w : World) (t : Task) :
    (w.apply (.drop t)).task = w.task ∧ (w.apply (.drop t)).out = w.out ∧ (w.apply (.drop t)).c = w.c ∧
    (w.apply (.drop t)).queue = w.queue ∧ (w.apply (.drop t)).handles = w.handles ∧
    (w.apply (.drop t)).bad = w.bad ∧ (w.apply (.drop t)).hasCtx = w.hasCtx ∧ (w.apply (.drop t)).rx = w.rx ∧
    (w.apply (.drop t)).reader = w.reader ∧ (w.apply (.drop t)).written = w.written ∧
    (w.apply (.drop t)).wirePend = w.wirePend ∧ (w.apply (.drop t)).held = w.held ∧
    (w.apply (.drop t)).cfg = w.cfg ∧ (w.apply (.drop t)).rsps = w.rsps ∧
    (w.apply (.drop t)).pidCtr = w.pidCtr ∧ (w.apply (.drop t)).subCtr = w.subCtr :=
  apply_drop_frame w t

/-- **A dropped handle future gives back exactly its own sender of the message queue.** The number of live senders
    (handles plus pending handle futures) goes down by one if the dropped task is a pending operation, and is unchanged
    otherwise (operation unknown or already completed, stream, context). -/
theorem drop_gives_back_exactly_its_own_sender (w : World) (t : Task) :
    (w.apply (.drop t)).senders =
      match t with
      | .op id => if (w.opSt id).isSome then w.senders - 1 else w.senders
      | _ => w.senders :=
  apply_drop_senders w t

/-- **While a sender is left the drop wakes nobody**: the flags of all tasks and both wakers of the context are as
    before — the context task is not even polled because of the drop. -/
theorem drop_wakes_nobody_while_a_sender_is_left (w : World) (t : Task) (h : (w.apply (.drop t)).senders ≠ 0) :
    (w.apply (.drop t)).woken = w.woken ∧ (w.apply (.drop t)).queueReg = w.queueReg ∧
    (w.apply (.drop t)).readerReg = w.readerReg :=
  apply_drop_silent w t h

/-- **The only return a drop can contribute to is `HandleClosed`, and it needs every handle and every pending future
    gone.** If the transcript of a script contains `RET run HandleClosed`, that line was logged by a poll of `run()`
    from a moment `w0` of the execution at which no `ContextHandle` and no pending handle future existed. So while at
    least one handle exists, nothing — in particular no sequence of drops — makes `run()` return `HandleClosed`; and
    every other result of `run()` has a cause that no drop produces (`run_returns_only_for_a_cause`,
    `run_result_causes`). -/
theorem handleClosed_needs_every_handle_and_future_gone (cfg : Cfg) (evs : List Ev) (pre post : List Obs)
    (h : World.run cfg evs = pre ++ .ret .run (.err .handleClosed) :: post) :
    ∃ w0 started, During cfg w0 ∧ w0.task = .running started ∧
      w0.pollCtx.out = pre ++ [.ret .run (.err .handleClosed)] ∧ w0.handles = [] ∧ w0.ops = [] := by
  obtain ⟨w0, s, hd, ht, _, ho, hc, _⟩ := run_returns_only_for_a_cause cfg evs pre post _ h
  have hs := ((run_result_causes hc).2.2.1 rfl).1
  refine ⟨w0, s, hd, ht, ho, ?_, ?_⟩
  · have : w0.handles.length = 0 := by unfold senders at hs; omega
    exact List.eq_nil_of_length_eq_zero this
  · have : w0.ops.length = 0 := by unfold senders at hs; omega
    exact List.eq_nil_of_length_eq_zero this

/-- **No sequence of drops makes `run()` return while a handle exists** (world level, wake-only executor). From any world
    whose executor is idle and in which a handle is alive, after any script consisting of `drop` events only — handle
    futures in any phase, streams, in any order, known or unknown tasks — the context task is the same, the session, the
    message queue, the handles and the transport are the same, the only lines logged are the markers of the events (and
    the executor's stall marker): no `RET`, no `DONE`, no packet; and the executor is idle again. -/
theorem no_sequence_of_drops_ends_run (ds : List Ev) (hd : AllDrops ds) (w : World) (hb : w.bad = false)
    (hq : w.pick = none) (hh : w.handles ≠ []) (hs : w.cfg.sweep = false) :
    DropKeeps w (ds.foldl World.step w) ∧ (ds.foldl World.step w).pick = none :=
  steps_drops_keep ds hd w hb hq hh hs

theorem w11_opIds_append_drops (evs ds : List Ev) (hd : AllDrops ds) : opIds (evs ++ ds) = opIds evs := by
  unfold opIds
  rw [List.filterMap_append]
  have : ds.filterMap evOpId = [] := by
    rw [List.filterMap_eq_nil_iff]
    intro e he
    obtain ⟨t, rfl⟩ := hd e he
    rfl
  rw [this, List.append_nil]

theorem w11_dropKeeps_tweak {a b : World} (t : Bool) (h : DropKeeps a b) : DropKeeps (tweak t [] a) (tweak t [] b) := by
  obtain ⟨x, hx, px⟩ := h.out
  exact ⟨h.task, h.c, h.queue, h.handles, h.bad, by simp [tweak, h.cfg], h.written, h.wirePend, x,
    by simp [hx], px⟩

/-- **No sequence of drops makes `run()` return while a handle exists** (script level, both executors). Take any
    configuration — including `exec=sweep` — and any script `evs` with pairwise distinct operation ids that was not
    refused and after which a handle is alive; append any script `ds` of `drop` events. The world reached has the
    context task, the session, the message queue, the handles and the transport of the world reached by `evs` alone,
    and its transcript is that of `evs` followed only by the markers of the `drop` events (and stall markers). -/
theorem no_sequence_of_drops_ends_run_script (cfg : Cfg) (evs ds : List Ev) (hd : AllDrops ds)
    (hn : (opIds evs).Nodup) (hb : (evs.foldl World.step { cfg := cfg }).bad = false)
    (hh : (evs.foldl World.step { cfg := cfg }).handles ≠ []) :
    DropKeeps (evs.foldl World.step { cfg := cfg }) ((evs ++ ds).foldl World.step { cfg := cfg }) := by
  have key : ∀ cfg0 : Cfg, cfg0.sweep = false → (evs.foldl World.step { cfg := cfg0 }).bad = false →
      (evs.foldl World.step { cfg := cfg0 }).handles ≠ [] →
      DropKeeps (evs.foldl World.step { cfg := cfg0 }) ((evs ++ ds).foldl World.step { cfg := cfg0 }) := by
    intro cfg0 hs hb0 hh0
    rw [List.foldl_append]
    have hq : (evs.foldl World.step { cfg := cfg0 }).pick = none := by
      rcases W5.quiet_script' cfg0 evs with h | h
      · rw [hb0] at h; cases h
      · exact h
    have hsw : (evs.foldl World.step { cfg := cfg0 }).cfg.sweep = false := by
      have : ∀ (l : List Ev) (w : World), (l.foldl World.step w).cfg.sweep = w.cfg.sweep := by
        intro l
        induction l with
        | nil => intro w; rfl
        | cons e t ih => intro w; simp only [List.foldl_cons]; rw [ih, step_cfg_sweep]
      rw [this]; exact hs
    exact (steps_drops_keep ds hd _ hb0 hq hh0 hsw).1
  cases hs : cfg.sweep with
  | false => exact key cfg hs hb hh
  | true =>
    have e0 : cfg = { cfg with sweep := true } := by cases cfg; simp_all
    have e1 := sweep_irrelevant_world cfg evs hn
    have e2 := sweep_irrelevant_world cfg (evs ++ ds) (by rw [w11_opIds_append_drops evs ds hd]; exact hn)
    rw [← e0] at e1 e2
    rw [e1, e2]
    apply w11_dropKeeps_tweak
    apply key { cfg with sweep := false } rfl
    · rw [e1] at hb; exact hb
    · rw [e1] at hh; exact hh

/-! ## 2. the late acknowledgement of an abandoned operation frees its slot -/

/-- **The handler's result for the acknowledgement of a publish, whoever waits.** For a PUBACK, a PUBREC or a PUBCOMP
    (addressed to the action identifier `aid`): the effects are those of `complete` — at most one `send` to the oneshot
    registered under `aid` —, `run()` goes on, and the session afterwards is the session before with the `awaiting`
    and retransmission entries of `aid` removed and the quota given back exactly when the acknowledgement completes the
    exchange (PUBACK, PUBCOMP, PUBREC with reason ≥ 0x80): one more, unless it is already at Receive Maximum. Nothing
    else changes, and nothing depends on a waiter being alive. -/
theorem ack_bookkeeping_whoever_waits (c : Ctx) (alive : Nat → Bool) (p : RxPacket) (aid : Nat) (wok : Bool)
    (h : PubAck p aid) :
    (c.handlePkt alive p wok).2.1 = (c.complete aid p).2 ∧
    (c.handlePkt alive p wok).2.2 = .cont ∧
    (c.handlePkt alive p wok).1 =
      { (if freesSlot p then c.bump else c) with
          retx := eraseFirst aid c.retx, awaiting := eraseFirst aid c.awaiting } ∧
    c.bump.quota = (if c.quota ≠ c.recvMax then c.quota + 1 else c.quota) :=
  ⟨(handlePkt_pubAck c alive p aid wok h).1, (handlePkt_pubAck c alive p aid wok h).2.1,
    (handlePkt_pubAck c alive p aid wok h).2.2, bump_quota c⟩

/-- **The late acknowledgement, in the world.** When `run()` handles the acknowledgement of a publish whose future is
    gone — the oneshot registered under its action identifier, if any is registered, no longer exists — the whole world
    changes in the session only: the quota is given back as if the waiter were alive, the `awaiting` and retransmission
    entries are removed; no oneshot, no waker, no channel changes, nothing is written, no line is logged, and `run()`
    goes on. -/
theorem late_ack_frees_the_slot_silently (w : World) (alive : Nat → Bool) (p : RxPacket) (aid : Nat)
    (h : PubAck p aid) (hs : ∀ s, lookupFirst aid w.c.awaiting = some s → w.slot s = none) :
    w.runHandler (fun wok => w.c.handlePkt alive p wok) =
      ({ w with c := { (if freesSlot p then w.c.bump else w.c) with
                        retx := eraseFirst aid w.c.retx, awaiting := eraseFirst aid w.c.awaiting } }, .cont) :=
  runHandler_late_ack w alive p aid h hs

/-- **The handlers never see the private state of a future.** Running any handler of the context in `w` and in `w`
    with the private state of the future of `id` erased gives the same flow and worlds that again differ only in that
    private state — completing a oneshot of `id` fills a slot nobody else reads in one world and is a no-op in the
    other. -/
theorem handlers_never_see_the_waiter (id : Nat) (w : World) (h : Bool → Ctx × List Eff × Flow) :
    (hide id w).runHandler h = (hide id (w.runHandler h).1, (w.runHandler h).2) :=
  runHandler_hide id w h

/-- **The history a poll of `run()` serves, and hence the verdict of the send-quota monitor, is the same with or without
    the waiters.** While a handle is alive, the inputs one poll of the `select!` loop hands to the handlers (queued
    messages, decoded packets, `wok` bits, dead receivers) are the same in `w` and in `w` with the private state of the
    future of `id` erased; the session is the same; so the served history `Ctx.serve` is the same, and so is the
    verdict of the monitor `QMon` (which reads nothing but that history) from any monitor state. -/
theorem quota_verdict_independent_of_waiters (id : Nat) (f : Nat) (w : World) (hh : w.handles ≠ []) (m : QMon) :
    World.loopHist f (hide id w) = World.loopHist f w ∧
    (hide id w).c.serve (World.loopHist f (hide id w)) = w.c.serve (World.loopHist f w) ∧
    m.scan ((hide id w).c.serve (World.loopHist f (hide id w))).2 = m.scan (w.c.serve (World.loopHist f w)).2 := by
  have e := loopHist_hide id f w hh
  refine ⟨e, by rw [e]; rfl, by rw [e]; rfl⟩

/-- … and for two worlds that differ only in the private state of the future of `id` — one in which it was dropped,
    one in which it is alive but never polled again — the polls of `run()` serve the same history from the same
    session and the monitor gives the same verdict. -/
theorem quota_verdict_same_dropped_or_held (id : Nat) (f : Nat) (a b : World) (h : hide id a = hide id b)
    (hh : a.handles ≠ []) (m : QMon) :
    a.c = b.c ∧ World.loopHist f a = World.loopHist f b ∧
    m.scan (a.c.serve (World.loopHist f a)).2 = m.scan (b.c.serve (World.loopHist f b)).2 := by
  have hc : a.c = b.c := (congrArg World.c h : (hide id a).c = (hide id b).c)
  have hb : b.handles ≠ [] := by
    have : a.handles = b.handles := (congrArg World.handles h : (hide id a).handles = (hide id b).handles)
    rw [← this]; exact hh
  have e : World.loopHist f a = World.loopHist f b := by
    rw [← loopHist_hide id f a hh, ← loopHist_hide id f b hb, h]
  exact ⟨hc, e, by rw [e, hc]⟩

/-! ## 3. for everybody else, cancelling is the same as never polling again -/

/-- **A poll of the context task does not depend on the private state of a future.** `connect()`, `authorize()` and
    `run()` — the loop, the handlers, everything they write, complete and deliver, whether the call returns — commute
    with hiding the future of `id`, as long as a handle is alive. -/
theorem context_poll_ignores_the_hidden_future (id : Nat) (w : World) (hh : w.handles ≠ []) :
    (hide id w).pollCtx = hide id w.pollCtx :=
  pollCtx_hide id w hh

/-- **A poll of any other task does not depend on it either**: the context, the future of another operation (first poll,
    resumption with its acknowledgement, the PUBREL step of a QoS 2 publish), a stream. -/
theorem other_polls_ignore_the_hidden_future (id : Nat) (w : World) (t : Task) (ht : t ≠ .op id) (h : Side id w) :
    (hide id w).pollTask t = hide id (w.pollTask t) :=
  pollTask_hide id w t ht h

/-- **Every script event that does not address task `op id` commutes with hiding it**, provided a handle is alive before
    and after the event. -/
theorem other_events_ignore_the_hidden_future (id : Nat) (w : World) (e : Ev) (hm : mineEv id e = false)
    (h : Side id w) (hk : (w.apply e).handles ≠ []) : (hide id w).apply e = hide id (w.apply e) :=
  apply_hide id w e hm h hk

/-- **Dropping the future is invisible once `op id` is hidden** — in every phase: never polled (nothing was queued, the
    entry just disappears), waiting for its acknowledgement (its oneshot is cleared; a message it queued stays queued
    and is handled like any other), between the phases of a QoS 2 publish (the PUBREC in its oneshot is discarded). The
    one exception is a `subscribe()` future waiting for its SUBACK, whose drop also removes the receiving end of its
    subscription channel (see section 4). -/
theorem drop_is_invisible_to_everybody_else (id : Nat) (w : World) (hi : OpsInv w) (hh : w.handles ≠ [])
    (hns : ∀ s, w.opSt id ≠ some (.wait s .suback)) : hide id (w.dropOp id) = hide id w :=
  hide_dropOp id w hi hh hns

/-- **The first step in lockstep.** From any reachable world in which a handle is alive and operation `id` is not a
    `subscribe()` waiting for its SUBACK, the script step `drop (op id)` and the script step `hold (op id)` — event,
    drain, optional sweep, stall check — lead to two reachable worlds that look the same once `op id` is hidden, and
    in both of which task `op id` is frozen. -/
theorem drop_and_hold_start_in_lockstep (id : Nat) (w : World) (r : Reachable w) (hh : w.handles ≠ [])
    (hns : ∀ s, w.opSt id ≠ some (.wait s .suback)) :
    Pair id (w.step (.drop (.op id))) (w.step (.hold (.op id))) :=
  pair_start id w r hh hns

/-- **One more event in lockstep** (the step of the simulation): if `a` and `b` are in lockstep, the event `e` does not
    address task `op id`, and `e` does not remove the last handle, then `a.step e` and `b.step e` are in lockstep —
    although the two steps run their executors with different fuels (the fuel counts the pending operations), poll
    the same tasks in the same order and reach quiescence in worlds that differ only in the hidden state. -/
theorem lockstep_one_event (id : Nat) (a b : World) (h : Pair id a b) (e : Ev) (hm : mineEv id e = false)
    (hk : a.bad = false → ((a.emit (.ev e)).apply e).handles ≠ []) : Pair id (a.step e) (b.step e) :=
  h.step e hm hk

/-- **Lockstep.** Two worlds in lockstep (`Pair`) stay in lockstep through any script that does not address task
    `op id` and never removes the last handle: after it they still look the same once `op id` is hidden. -/
theorem lockstep (id : Nat) (evs : List Ev) (a b : World) (h : Pair id a b)
    (hm : ∀ e ∈ evs, mineEv id e = false) (hk : KeepsHandle a evs) :
    Pair id (evs.foldl World.step a) (evs.foldl World.step b) :=
  h.steps evs hm hk

/-- **For everybody else, cancelling a future is the same as never polling it again** (the simulation). Run any script
    `pre` under any configuration; then either drop the future of operation `id` or put task `op id` on hold; then run
    any script `post` that does not address task `op id` (no `op id`, `poll / hold / release / drop (op id)`) and never
    removes the last handle. If a handle is alive after `pre` and operation `id` is not a `subscribe()` waiting for its
    SUBACK, the two worlds reached are equal once the private state of the future of `id` is hidden: same context task
    and session, same message queue, same framing state and transport, same handles, same channels, streams and
    responses, same identifier counters, same state of every other operation and of every other oneshot, same flags of
    every other task, and the same transcript up to the lines of task `op id`. -/
theorem cancelling_is_never_polling_again (cfg : Cfg) (pre post : List Ev) (id : Nat)
    (hh : (pre.foldl World.step { cfg := cfg }).handles ≠ [])
    (hns : ∀ s, (pre.foldl World.step { cfg := cfg }).opSt id ≠ some (.wait s .suback))
    (hm : ∀ e ∈ post, mineEv id e = false)
    (hk : KeepsHandle ((pre.foldl World.step { cfg := cfg }).step (.drop (.op id))) post) :
    hide id ((pre ++ .drop (.op id) :: post).foldl World.step { cfg := cfg }) =
      hide id ((pre ++ .hold (.op id) :: post).foldl World.step { cfg := cfg }) := by
  rw [List.foldl_append, List.foldl_append, List.foldl_cons, List.foldl_cons]
  exact ((pair_start id _ (reachable_script cfg pre) hh hns).steps post hm hk).eq

/-- the same with a hypothesis on the script only: `post` contains no `dropHandle` event -/
theorem cancelling_is_never_polling_again_no_dropHandle (cfg : Cfg) (pre post : List Ev) (id : Nat)
    (hh : (pre.foldl World.step { cfg := cfg }).handles ≠ [])
    (hns : ∀ s, (pre.foldl World.step { cfg := cfg }).opSt id ≠ some (.wait s .suback))
    (hm : ∀ e ∈ post, mineEv id e = false) (hd : ∀ e ∈ post, isDropHandle e = false) :
    hide id ((pre ++ .drop (.op id) :: post).foldl World.step { cfg := cfg }) =
      hide id ((pre ++ .hold (.op id) :: post).foldl World.step { cfg := cfg }) := by
  apply cancelling_is_never_polling_again cfg pre post id hh hns hm
  apply keepsHandle_of_no_dropHandle post _ _ hd
  by_cases hb : (pre.foldl World.step { cfg := cfg }).bad = true
  · rw [step_of_bad _ _ hb]; exact hh
  · rw [step_handles _ _ (by simpa using hb), apply_handles _ _ (by simpa using hh)]; simpa using hh

/-- **The transcripts agree after erasing the lines of task `op id`.** Under the hypotheses of
    `cancelling_is_never_polling_again`, the transcript of the script that drops the future and the transcript of the
    script that holds it for ever contain, in the same order, the same packets on the wire, the same results of the
    calls, the same completions of all other operations, the same stream items and ends, the same panics and stalls,
    and the same event markers — they differ only in lines of task `op id` (here: the marker of the `drop` resp. `hold`
    event itself). -/
theorem transcripts_agree_up_to_the_cancelled_task (cfg : Cfg) (pre post : List Ev) (id : Nat)
    (hh : (pre.foldl World.step { cfg := cfg }).handles ≠ [])
    (hns : ∀ s, (pre.foldl World.step { cfg := cfg }).opSt id ≠ some (.wait s .suback))
    (hm : ∀ e ∈ post, mineEv id e = false)
    (hk : KeepsHandle ((pre.foldl World.step { cfg := cfg }).step (.drop (.op id))) post) :
    others id (World.run cfg (pre ++ .drop (.op id) :: post)) =
      others id (World.run cfg (pre ++ .hold (.op id) :: post)) := by
  have h := cancelling_is_never_polling_again cfg pre post id hh hns hm hk
  unfold World.run finishScript
  have e : ∀ w : World, others id w.flushRaw.out = (hide id w).flushRaw.out := by
    intro w; rw [flushRaw_hide]; rfl
  rw [e, e, h]

/-- **Everybody else completes the same way.** Under the hypotheses of `cancelling_is_never_polling_again`: every line
    that does not belong to task `op id` occurs in the transcript of the script that drops the future exactly when it
    occurs in the transcript of the script that holds it for ever — in particular the completion `DONE j r` of every
    other operation with the same result, every stream item and stream end, every result `RET` of `connect()` /
    `authorize()` / `run()` (so the drop makes no call return that would not have returned anyway), every packet on the
    wire, every panic of another task, every stall marker. -/
theorem everybody_else_completes_the_same (cfg : Cfg) (pre post : List Ev) (id : Nat)
    (hh : (pre.foldl World.step { cfg := cfg }).handles ≠ [])
    (hns : ∀ s, (pre.foldl World.step { cfg := cfg }).opSt id ≠ some (.wait s .suback))
    (hm : ∀ e ∈ post, mineEv id e = false)
    (hk : KeepsHandle ((pre.foldl World.step { cfg := cfg }).step (.drop (.op id))) post) :
    (∀ o, mine id o = false →
      (o ∈ World.run cfg (pre ++ .drop (.op id) :: post) ↔ o ∈ World.run cfg (pre ++ .hold (.op id) :: post))) ∧
    (∀ j r, j ≠ id →
      (Obs.done j r ∈ World.run cfg (pre ++ .drop (.op id) :: post) ↔
        Obs.done j r ∈ World.run cfg (pre ++ .hold (.op id) :: post))) ∧
    (∀ c r, Obs.ret c r ∈ World.run cfg (pre ++ .drop (.op id) :: post) ↔
      Obs.ret c r ∈ World.run cfg (pre ++ .hold (.op id) :: post)) ∧
    (∀ st p, Obs.item st p ∈ World.run cfg (pre ++ .drop (.op id) :: post) ↔
      Obs.item st p ∈ World.run cfg (pre ++ .hold (.op id) :: post)) ∧
    (∀ bs, Obs.wire bs ∈ World.run cfg (pre ++ .drop (.op id) :: post) ↔
      Obs.wire bs ∈ World.run cfg (pre ++ .hold (.op id) :: post)) := by
  have h := transcripts_agree_up_to_the_cancelled_task cfg pre post id hh hns hm hk
  have key : ∀ o, mine id o = false →
      (o ∈ World.run cfg (pre ++ .drop (.op id) :: post) ↔ o ∈ World.run cfg (pre ++ .hold (.op id) :: post)) := by
    intro o ho
    have e : ∀ l : List Obs, o ∈ l ↔ o ∈ others id l := by
      intro l; simp [others, ho]
    rw [e (World.run cfg (pre ++ .drop (.op id) :: post)), e (World.run cfg (pre ++ .hold (.op id) :: post)), h]
  refine ⟨key, fun j r hj => key _ (by simpa [mine] using hj), fun c r => key _ rfl, fun st p => key _ rfl,
    fun bs => key _ rfl⟩

/-- **What "equal once `op id` is hidden" means, field by field.** -/
theorem hidden_equal_spelled_out (id : Nat) (a b : World) (h : hide id a = hide id b) :
    a.task = b.task ∧ a.c = b.c ∧ a.queue = b.queue ∧ a.queueReg = b.queueReg ∧ a.rx = b.rx ∧
    a.reader = b.reader ∧ a.readerReg = b.readerReg ∧ a.written = b.written ∧ a.wirePend = b.wirePend ∧
    a.handles = b.handles ∧ a.chans = b.chans ∧ a.streams = b.streams ∧ a.rsps = b.rsps ∧
    a.pidCtr = b.pidCtr ∧ a.subCtr = b.subCtr ∧ a.hasCtx = b.hasCtx ∧ a.bad = b.bad ∧
    (∀ j, j ≠ id → a.opSt j = b.opSt j) ∧ (∀ s, s / 2 ≠ id → a.slot s = b.slot s) ∧
    (∀ s, s / 2 ≠ id → (s ∈ a.slotReg ↔ s ∈ b.slotReg)) ∧
    (∀ t, t ≠ .op id → (t ∈ a.woken ↔ t ∈ b.woken)) ∧ (∀ t, t ≠ .op id → (t ∈ a.held ↔ t ∈ b.held)) ∧
    others id a.out = others id b.out := by
  have f : ∀ {α} (g : World → α), g (hide id a) = g (hide id b) := fun g => congrArg g h
  refine ⟨f World.task, f World.c, f World.queue, f World.queueReg, f World.rx, f World.reader, f World.readerReg,
    f World.written, f World.wirePend, f World.handles, f World.chans, f World.streams, f World.rsps,
    f World.pidCtr, f World.subCtr, f World.hasCtx, f World.bad, ?_, ?_, ?_, ?_, ?_, f World.out⟩
  · intro j hj; rw [← opSt_hide id a j hj, ← opSt_hide id b j hj, h]
  · intro s hs; rw [← slot_hide id a s hs, ← slot_hide id b s hs, h]
  · intro s hs; rw [← mem_slotReg_hide id a s hs, ← mem_slotReg_hide id b s hs, h]
  · intro t ht; rw [← mem_woken_hide id a t ht, ← mem_woken_hide id b t ht, h]
  · intro t ht; rw [← mem_held_hide id a t ht, ← mem_held_hide id b t ht, h]

/-! ## 3b. the same for a dropped stream, and for a future in ANY phase (a `subscribe()` waiting for its SUBACK)

  Dropping the receiving end of a subscription channel — a stream, or a `subscribe()` future that waits for its SUBACK
  and owns the receiver until then — is the one cancellation the context can observe (section 5). The simulation still
  holds once the receiving end is erased as well:
    `veil id w`     `w` without the receiving end of channel `id`: the channel and its buffer, its registrations in the
                    subscription table, stream `id`, the flags of task `st id`, and its transcript lines (`mineSt id`:
                    items, end, markers of the events addressing it, and session snapshots); `othersSt id out`
    `shade id w`    `veil id (hide id w)`: both erasures
    `quietFor id e` the event `e` addresses neither task `op id` nor stream `id` (nor takes / drops the response `id`, nor
                    issues an operation named `id`, nor snapshots the session) and issues no `subscribe()`
    `StartV id w` / `StartB id w`   what the world at the drop has to satisfy: no operation is named `id` (resp. a handle is
                    alive and `id` is not yet a stream); no queued request registers channel `id` (its SUBSCRIBE has been
                    handed to the context); the subscription identifiers in flight are pairwise distinct (`psids`; true of
                    every script with distinct operation ids, `script_registers_identifiers_once`); no (other)
                    `subscribe()` future awaits its first poll
  The restriction to continuations without further `subscribe()` calls keeps the subscription identifiers in flight
  pairwise distinct without counting allocations (the identifier counter wraps around after 268 435 455 allocations). -/

/-- **Dropping a stream is, for everybody else, the same as never polling it again.** Run any script `pre`; then either
    drop stream `id` or put task `st id` on hold; then run any script `post` of events that are `quietFor id`. If the world
    after `pre` satisfies `StartV id`, the two worlds reached are equal once the receiving end of channel `id` is veiled:
    same context task, same session up to the registrations of channel `id`, same message queue, operations, oneshots,
    handles, transport, same channels and streams other than `id` with the same buffered messages, and the same
    transcript up to the lines of stream `id`. In one world messages for `id` pile up in a buffer nobody reads, in the
    other the dispatch loop unregisters the dead receiver — nobody else can tell. -/
theorem dropping_a_stream_is_never_polling_it_again (cfg : Cfg) (pre post : List Ev) (id : Nat)
    (hs : StartV id (pre.foldl World.step { cfg := cfg })) (hq : ∀ e ∈ post, quietFor id e = true) :
    veil id ((pre ++ .drop (.st id) :: post).foldl World.step { cfg := cfg }) =
      veil id ((pre ++ .hold (.st id) :: post).foldl World.step { cfg := cfg }) := by
  rw [List.foldl_append, List.foldl_append, List.foldl_cons, List.foldl_cons]
  exact ((pairV_start id _ (reachable_script cfg pre) hs).steps post hq).eq

/-- … and the transcripts agree after erasing the lines of stream `id`: every other stream yields the same items and
    ends the same way, every operation completes the same way, the same packets are written, the calls return the same. -/
theorem transcripts_agree_up_to_the_dropped_stream (cfg : Cfg) (pre post : List Ev) (id : Nat)
    (hs : StartV id (pre.foldl World.step { cfg := cfg })) (hq : ∀ e ∈ post, quietFor id e = true) :
    othersSt id (World.run cfg (pre ++ .drop (.st id) :: post)) =
      othersSt id (World.run cfg (pre ++ .hold (.st id) :: post)) := by
  have h := dropping_a_stream_is_never_polling_it_again cfg pre post id hs hq
  unfold World.run finishScript
  have e : ∀ w : World, othersSt id w.flushRaw.out = (veil id w).flushRaw.out := by
    intro w; rw [flushRaw_veil]; rfl
  rw [e, e, h]

/-- **Cancelling a future in ANY phase is, for everybody else, the same as never polling it again** — including a
    `subscribe()` future that waits for its SUBACK, whose drop also removes the receiving end of the subscription channel
    it created. Run `pre`; drop the future of `id` or hold it; run `post` of events that are `quietFor id` and never
    remove the last handle. If the world after `pre` satisfies `StartB id`, the two worlds reached are equal once the
    private state of the future AND the receiving end of channel `id` are erased. -/
theorem cancelling_any_future_is_never_polling_again (cfg : Cfg) (pre post : List Ev) (id : Nat)
    (hs : StartB id (pre.foldl World.step { cfg := cfg })) (hq : ∀ e ∈ post, quietFor id e = true)
    (hk : KeepsHandle ((pre.foldl World.step { cfg := cfg }).step (.drop (.op id))) post) :
    shade id ((pre ++ .drop (.op id) :: post).foldl World.step { cfg := cfg }) =
      shade id ((pre ++ .hold (.op id) :: post).foldl World.step { cfg := cfg }) := by
  rw [List.foldl_append, List.foldl_append, List.foldl_cons, List.foldl_cons]
  exact ((pairB_start id _ (reachable_script cfg pre) hs).steps post hq hk).eq

/-- … and the transcripts agree after erasing the lines of task `op id` and of stream `id`. -/
theorem transcripts_agree_up_to_the_cancelled_future_and_its_stream (cfg : Cfg) (pre post : List Ev) (id : Nat)
    (hs : StartB id (pre.foldl World.step { cfg := cfg })) (hq : ∀ e ∈ post, quietFor id e = true)
    (hk : KeepsHandle ((pre.foldl World.step { cfg := cfg }).step (.drop (.op id))) post) :
    othersSt id (others id (World.run cfg (pre ++ .drop (.op id) :: post))) =
      othersSt id (others id (World.run cfg (pre ++ .hold (.op id) :: post))) := by
  have h := cancelling_any_future_is_never_polling_again cfg pre post id hs hq hk
  unfold World.run finishScript
  have e : ∀ w : World, othersSt id (others id w.flushRaw.out) = (shade id w).flushRaw.out := by
    intro w; unfold shade; rw [flushRaw_veil, flushRaw_hide]; rfl
  rw [e, e, h]

/-- **What "equal once the receiving end of `id` is veiled" means, field by field.** -/
theorem veiled_equal_spelled_out (id : Nat) (a b : World) (h : veil id a = veil id b) :
    a.task = b.task ∧ a.queue = b.queue ∧ a.queueReg = b.queueReg ∧ a.rx = b.rx ∧ a.reader = b.reader ∧
    a.readerReg = b.readerReg ∧ a.written = b.written ∧ a.wirePend = b.wirePend ∧ a.handles = b.handles ∧
    a.ops = b.ops ∧ a.slots = b.slots ∧ a.slotReg = b.slotReg ∧ a.rsps = b.rsps ∧ a.pidCtr = b.pidCtr ∧
    a.subCtr = b.subCtr ∧ a.hasCtx = b.hasCtx ∧ a.bad = b.bad ∧
    noSubs a.c = noSubs b.c ∧ subsOff id a.c.subs = subsOff id b.c.subs ∧
    (∀ ch, ch ≠ id → a.chan ch = b.chan ch) ∧ (∀ j, j ≠ id → (j ∈ a.streams ↔ j ∈ b.streams)) ∧
    (∀ t, t ≠ .st id → (t ∈ a.woken ↔ t ∈ b.woken)) ∧ (∀ t, t ≠ .st id → (t ∈ a.held ↔ t ∈ b.held)) ∧
    othersSt id a.out = othersSt id b.out := by
  have f : ∀ {α} (g : World → α), g (veil id a) = g (veil id b) := fun g => congrArg g h
  have hc : cOff id a.c = cOff id b.c := f World.c
  refine ⟨f World.task, f World.queue, f World.queueReg, f World.rx, f World.reader, f World.readerReg,
    f World.written, f World.wirePend, f World.handles, f World.ops, f World.slots, f World.slotReg, f World.rsps,
    f World.pidCtr, f World.subCtr, f World.hasCtx, f World.bad, ?_, ?_, ?_, ?_, ?_, ?_, f World.out⟩
  · have := congrArg noSubs hc; exact this
  · exact congrArg Ctx.subs hc
  · intro ch hch; rw [← chan_veil id a ch hch, ← chan_veil id b ch hch, h]
  · intro j hj; rw [← mem_streams_veil id a j hj, ← mem_streams_veil id b j hj, h]
  · intro t ht; rw [← mem_woken_veil id a t ht, ← mem_woken_veil id b t ht, h]
  · intro t ht; rw [← mem_held_veil id a t ht, ← mem_held_veil id b t ht, h]

/-! ## 4. K1: a QoS 2 publish dropped between its two phases -/

/-- **K1, the invariant.** Along any continuation of an execution — any sequence of elementary transitions (polls of the
    context, of handle futures, of streams, script events) — through worlds in which no handle future is about to send
    the PUBREL for `pid` (`NoPubrecSeen`: the future that received the PUBREC is gone, and no later QoS 2 publish future
    waits with a successful PUBREC carrying the same identifier in its oneshot): if the context holds no PUBREL for
    `pid` at the start, it holds none at the end — neither queued nor in the retransmit queue. Since `run()` writes a
    packet of type 6 only for a queued PUBREL, as given, and re-sends only the retransmit queue
    (`no_pubrel_means_none_written`, `resend_only_from_retransmit_queue`), the PUBREL for `pid` is never handed to the
    transport. -/
theorem k1_no_pubrel_is_ever_sent {pid : Nat} {a b : World}
    (hr : ReachesP (fun w => QosOk w ∧ NoPubrecSeen pid w) a b) (hi : NoPubrel pid a) : NoPubrel pid b :=
  noPubrel_persists hr hi

/-- **… and while it holds none, it writes none.** In a world in which the context holds no PUBREL for `pid` (and every
    PUBREL it does hold is one `publish()` built, `PubrelForm`, which holds at every moment of every execution,
    `during_pubrelForm`): whatever a handler writes for a queued request `m` is `m`'s own packet, and if that is a
    PUBREL it is the PUBREL of another packet identifier; and no handler of an inbound packet ever writes a packet of
    type 6. -/
theorem no_pubrel_means_none_written {pid : Nat} {w : World} (hi : NoPubrel pid w) (hf : PubrelForm w) :
    (∀ m ∈ w.queue, ∀ wok, ∀ b ∈ writesOf (w.c.handleMsg m wok).2.1, b ≠ ackBytes 0x62 pid ∨ pktType m.pkt ≠ 6 ∨
      ∃ pid' s, m = pubrelMsg pid' s ∧ pid' ≠ pid) ∧
    (∀ alive p wok, ∀ b ∈ writesOf (w.c.handlePkt alive p wok).2.1, pktType b ≠ 6) :=
  noPubrel_writes hi hf

/-- **K1, the slot.** Start from a session whose books agree with the send-quota monitor (`QRel`: free slots +
    outstanding QoS>0 publishes = Receive Maximum) with the QoS 2 exchange of `pid` outstanding. Serve ANY history
    that contains neither the PUBCOMP for `pid` nor a PUBREC for `pid` with reason ≥ 0x80, and along which the broker
    stays conformant (the monitor can be followed to `m'`: it neither rejects the history nor meets an
    acknowledgement that completes nothing outstanding). Then the books still agree, the exchange of `pid` is still
    outstanding, and the send quota is still below Receive Maximum: the slot of the abandoned publish is not given back
    before the broker completes the exchange itself. -/
theorem k1_slot_stays_taken (pid : Nat) (c : Ctx) (m : QMon) (is : List CIn) (h : QRel c m)
    (hp : (pid, 2) ∈ m.out) (hn : ∀ i ∈ is, ¬ completesQ2 pid i) (m' : QMon)
    (hf : follow m (c.serve is).2 = some m') :
    QRel (c.serve is).1 m' ∧ (pid, 2) ∈ m'.out ∧ (c.serve is).1.quota < (c.serve is).1.recvMax := by
  obtain ⟨h1, h2⟩ := follow_keeps pid c m is h hp hn m' hf
  exact ⟨h1, h2, quota_below_max_while_outstanding pid _ m' h1 h2⟩

/-! ## 5. a dropped receiver: a `subscribe()` future waiting for its SUBACK, a response, a stream

  Dropping such a receiver is the one cancellation the context can observe: the dispatch loop of the PUBLISH arm asks
  whether the receiver of a registered channel is alive and unregisters a dead one instead of buffering for it. The
  theorems of this section show that this concerns channel `ch` only (`offCh ch e`: the effect `e` is neither a delivery
  into `ch` nor the drop of its sender; `subsOff ch subs`: the subscription table without the registrations of `ch`;
  `noSubs c`: the session without its subscription table). -/

/-- **One inbound packet, with the receiver of `ch` alive or dead.** Handle the same packet in two sessions that differ
    at most in the registrations of channel `ch` (each subscription identifier registered once), the receiver of `ch`
    being alive for one (`alive`) and dead for the other (`alive'`; they agree on every other channel). Then `run()`
    does the same next; the same acknowledgement is written, the same oneshots are completed, the same messages are
    delivered into the same other channels in the same order, the same other senders are dropped (the effects agree
    except those on `ch` itself); quota, waiters, retransmit queue, inbound QoS 2 identifiers agree afterwards; and so
    do the registrations of all other channels. No other stream, no acknowledgement, no quota is affected. -/
theorem dead_receiver_changes_only_its_own_channel (ch : Nat) (c : Ctx) (s' : List (Nat × Nat))
    (alive alive' : Nat → Bool) (hag : ∀ x, x ≠ ch → alive x = alive' x) (hn : (c.subs.map (·.1)).Nodup)
    (hn' : (s'.map (·.1)).Nodup) (hf : subsOff ch c.subs = subsOff ch s') (p : RxPacket) (wok : Bool) :
    (c.handlePkt alive p wok).2.2 = (({ c with subs := s' } : Ctx).handlePkt alive' p wok).2.2 ∧
    (c.handlePkt alive p wok).2.1.filter (offCh ch) =
      (({ c with subs := s' } : Ctx).handlePkt alive' p wok).2.1.filter (offCh ch) ∧
    noSubs (c.handlePkt alive p wok).1 = noSubs (({ c with subs := s' } : Ctx).handlePkt alive' p wok).1 ∧
    subsOff ch (c.handlePkt alive p wok).1.subs =
      subsOff ch (({ c with subs := s' } : Ctx).handlePkt alive' p wok).1.subs ∧
    (((c.handlePkt alive p wok).1.subs).map (·.1)).Nodup ∧
    (((({ c with subs := s' } : Ctx).handlePkt alive' p wok).1.subs).map (·.1)).Nodup :=
  handlePkt_sim ch c s' alive alive' hag hn hn' hf p wok

/-- **Whole histories, with the receiver of `ch` alive or dead.** Serve two histories that differ at most in whether the
    receiver of `ch` is reported dead (`InsSim`), from two sessions that differ at most in the registrations of `ch`
    (`CSim`), every subscription identifier being registered once in every session the histories go through
    (`OnceAlong`; for the executions of scripts with distinct operation ids this is `script_registers_identifiers_once`
    of Properties/C07World.lean). Then the sessions reached again differ at most in the registrations of `ch`, and the
    served histories are the same input by input — same requests, same packets, same acknowledgements written, same
    oneshots completed, same deliveries into every other channel, same flow — except for the effects on `ch` itself
    (`obsOff ch`). Dropping a receiver changes, for the context, nothing but that receiver's own channel, for ever. -/
theorem dead_receiver_changes_only_its_own_channel_for_ever (ch : Nat) (c c' : Ctx) (is is' : List CIn)
    (hc : CSim ch c c') (hi : InsSim ch is is') (ho : OnceAlong c is) (ho' : OnceAlong c' is') :
    CSim ch (c.serve is).1 (c'.serve is').1 ∧
    (c.serve is).2.map (obsOff ch) = (c'.serve is').2.map (obsOff ch) :=
  serve_sim_ch ch c c' is is' hc hi ho ho'

/-- **A request from a handle never consults the subscription table**: handled in two sessions that differ only in the
    registrations of `ch`, it has exactly the same effects and the same flow, and the sessions agree afterwards as
    before (a SUBSCRIBE request registers the same new entry in both). -/
theorem requests_ignore_the_subscription_table (ch : Nat) (c : Ctx) (s' : List (Nat × Nat))
    (hf : subsOff ch c.subs = subsOff ch s') (m : Msg) (wok : Bool) :
    (c.handleMsg m wok).2 = (({ c with subs := s' } : Ctx).handleMsg m wok).2 ∧
    noSubs (c.handleMsg m wok).1 = noSubs (({ c with subs := s' } : Ctx).handleMsg m wok).1 ∧
    subsOff ch (c.handleMsg m wok).1.subs = subsOff ch (({ c with subs := s' } : Ctx).handleMsg m wok).1.subs :=
  handleMsg_sim ch c s' hf m wok

/-- **An effect on channel `ch` touches nothing but that channel and the flag of its stream.** A delivery into `ch`, or
    the drop of its sender, applied to any world changes the entry of `ch` in the channel table and may flag task
    `st ch`; every other channel, every other flag and every other field of the world — the session, the oneshots, the
    operations, the transport, the transcript — is as before. -/
theorem effects_on_a_channel_touch_only_that_channel (w : World) (ch : Nat) (e : Eff) (h : offCh ch e = false) :
    ∃ chs wk, w.applyEff e = { w with chans := chs, woken := wk } ∧
      (∀ x, x ≠ ch → lookupFirst x chs = w.chan x) ∧ (∀ t, t ≠ .st ch → (t ∈ wk ↔ t ∈ w.woken)) :=
  applyEff_on_ch w ch e h

/-! ## 6. non-vacuity -/
section NonVacuity

/-- section 1: a world with an idle executor, a live handle and a pending operation (`l3` of Lemmas/WorldCancelEx.lean:
    `setup, run, publish(QoS 1)`), to which `no_sequence_of_drops_ends_run` applies with a script that drops the
    operation, an unknown operation and an unknown stream -/
example : AllDrops [.drop (.op 1), .drop (.op 9), .drop (.st 4)] ∧ l3.bad = false ∧ l3.pick = none ∧
    l3.handles ≠ [] ∧ l3.cfg.sweep = false ∧ l3.task = .running true := by
  refine ⟨?_, by decide, by decide, by decide, by decide, by decide⟩
  intro e he
  simp only [List.mem_cons, List.not_mem_nil, or_false] at he
  rcases he with rfl | rfl | rfl <;> exact ⟨_, rfl⟩

/-- … and the conclusion is not trivial: the first drop removes the operation, its oneshot and one sender -/
example : (l3.apply (.drop (.op 1))).ops = [] ∧ (l3.apply (.drop (.op 1))).senders = 1 ∧ l3.senders = 2 ∧
    (l3.apply (.drop (.op 1))).task = .running true := by decide

/-- the script-level theorem applies to `setup, run, publish(QoS 1)` followed by that drop -/
example : (opIds [Ev.setup, .run, .op 1 0 pubReq]).Nodup ∧
    ([Ev.setup, .run, .op 1 0 pubReq].foldl World.step {}).bad = false ∧
    ([Ev.setup, .run, .op 1 0 pubReq].foldl World.step {}).handles ≠ [] := by
  rw [evsLate_foldl3]; decide

/-- `HandleClosed` does occur when every handle is gone (the hypothesis of
    `handleClosed_needs_every_handle_and_future_gone` is satisfiable) -/
example : World.run {} [.setup, .dropHandle 0, .run] =
    [.ev .setup, .ev (.dropHandle 0), .ev .run] ++ .ret .run (.err .handleClosed) :: [] := by decide

/-- section 2, end to end: `setup, run, publish(QoS 1), drop the future, PUBACK arrives`. Before the PUBACK one slot is
    taken and the waiter registered under the action identifier points to a oneshot that no longer exists (the
    hypothesis of `late_ack_frees_the_slot_silently`); after it the session is back to its initial state — quota 65535,
    nothing awaiting, nothing to retransmit —, `run()` is still serving, and the transcript shows nothing but the
    event: no `DONE`, no `RET`, no packet -/
example :
    let w4 := [Ev.setup, .run, .op 1 0 pubReq, .drop (.op 1)].foldl World.step {}
    let w5 := evsLate.foldl World.step {}
    w4.c.quota = 65534 ∧ lookupFirst (actionId 4 1) w4.c.awaiting = some 2 ∧ w4.slot 2 = none ∧
    w5.c = {} ∧ w5.c.quota = 65535 ∧ w5.task = .running true ∧ w5.out = w4.out ++ [.ev (.feed [pubackFr])] := by
  have e4 : [Ev.setup, .run, .op 1 0 pubReq, .drop (.op 1)].foldl World.step {} = l4 := by
    simp only [List.foldl_cons, List.foldl_nil]; rw [stage1, stage2, late3, late4]
  simp only [e4, evsLate_foldl]
  decide

/-- `PubAck` and `freesSlot` on concrete acknowledgements: a PUBACK and a failing PUBREC free the slot, a successful
    PUBREC does not -/
example : PubAck (.puback { packetId := 1 }) (actionId 4 1) ∧ freesSlot (.puback { packetId := 1 }) = true ∧
    freesSlot (.pubrec { packetId := 1, reason := 0x80 }) = true ∧ freesSlot (.pubrec { packetId := 1 }) = false :=
  ⟨.puback _, rfl, rfl, rfl⟩

/-- section 3: the hypotheses of `cancelling_is_never_polling_again_no_dropHandle` hold for `pre = setup, run,
    publish(QoS 1)`, `id = 1` and a continuation in which the PUBACK arrives and a second operation is issued -/
example :
    let pre : List Ev := [.setup, .run, .op 1 0 pubReq]
    let post : List Ev := [.feed [pubackFr], .op 2 0 .ping]
    (pre.foldl World.step {}).handles ≠ [] ∧
    (∀ s, (pre.foldl World.step {}).opSt 1 ≠ some (.wait s .suback)) ∧
    (∀ e ∈ post, mineEv 1 e = false) ∧ (∀ e ∈ post, isDropHandle e = false) := by
  simp only [evsLate_foldl3]
  refine ⟨by decide, ?_, ?_, ?_⟩
  · intro s h
    have : l3.opSt 1 = some (.wait 2 .puback) := by decide
    rw [this] at h; cases h
  · intro e he
    simp only [List.mem_cons, List.not_mem_nil, or_false] at he
    rcases he with rfl | rfl <;> rfl
  · intro e he
    simp only [List.mem_cons, List.not_mem_nil, or_false] at he
    rcases he with rfl | rfl <;> rfl

/-- … the two worlds the theorem compares are really different — in one the operation is gone, in the other it is
    alive, held, with its oneshot — and equal once operation 1 is hidden -/
example :
    (l3.step (.drop (.op 1))).ops = [] ∧ (l3.step (.hold (.op 1))).ops = [(1, .wait 2 .puback)] ∧
    hide 1 (l3.step (.drop (.op 1))) = hide 1 (l3.step (.hold (.op 1))) := by
  refine ⟨by decide, by decide, ?_⟩
  have h := cancelling_is_never_polling_again_no_dropHandle {} [.setup, .run, .op 1 0 pubReq] [] 1
    (by rw [evsLate_foldl3]; decide)
    (by rw [evsLate_foldl3]; intro s h; have : l3.opSt 1 = some (.wait 2 .puback) := by decide
        rw [this] at h; cases h)
    (by simp) (by simp)
  simp only [List.foldl_append, List.foldl_cons, List.foldl_nil] at h
  rw [stage1, stage2, late3] at h
  exact h

/-- `hide` erases exactly the private state: in `l3` the entry of operation 1, its oneshot 2 and the waker registration;
    the session (with the waiter!), the queue, the transcript of everybody else stay -/
example : (hide 1 l3).ops = [] ∧ (hide 1 l3).slots = [] ∧ (hide 1 l3).slotReg = [] ∧ (hide 1 l3).c = l3.c ∧
    (hide 1 l3).out = [.ev .setup, .ev .run, .wire [50, 6, 0, 1, 97, 0, 1, 0]] ∧
    (hide 2 l3).ops = l3.ops ∧ (hide 2 l3).out = l3.out := by decide

/-- section 4, the K1 script: `setup, run, publish(QoS 2), hold its future, PUBREC(reason 0) arrives, drop the future`.
    In the world reached: nothing is queued, the retransmit queue is empty — the context holds no PUBREL for packet
    identifier 1 —, no future is left that could send one, the only packet ever written is the PUBLISH, the quota is
    one below Receive Maximum, and the books agree with a monitor in which the exchange (1, QoS 2) is outstanding: the
    hypotheses of `k1_no_pubrel_is_ever_sent` and `k1_slot_stays_taken` hold -/
example :
    let w := evsK1.foldl World.step {}
    NoPubrel 1 w ∧ NoPubrecSeen 1 w ∧ QosOk w ∧ w.c.quota = 65534 ∧ w.c.recvMax = 65535 ∧
    QRel w.c { out := [(1, 2)], R := 65535 } ∧ w.task = .running true ∧
    w.out.filter (fun o => match o with | .wire _ => true | _ => false) = [.wire [52, 6, 0, 1, 97, 0, 1, 0]] := by
  simp only [evsK1_foldl]
  have hq : k6.queue = [] := by decide
  have hr : k6.c.retx = [] := by decide
  have hnp : NoPubrel 1 k6 :=
    { queue := fun m hm => (by rw [hq] at hm; cases hm), retx := fun x hx _ => (by rw [hr] at hx; cases hx) }
  refine ⟨hnp, ?_, ?_, by decide, by decide, ⟨by decide, by decide⟩, by decide, by decide⟩
  · intro id s a h
    have : k6.opSt id = none := by simp [k6, k5, opSt, lookupFirst]
    rw [this] at h; cases h
  · intro id hd t h
    have : k6.ops = [] := by decide
    rw [this] at h; cases h

/-- … and `k1_slot_stays_taken` applied to that session and a later history (a PINGRESP and a PUBACK-less traffic):
    the monitor can be followed, the slot is still taken -/
example :
    let c : Ctx := { quota := 65534 }
    let is : List CIn := [.pkt .pingresp [] true, .msg (.ff [0xC0, 0] 8) true]
    (∀ i ∈ is, ¬ completesQ2 1 i) ∧ follow { out := [(1, 2)], R := 65535 } (c.serve is).2 =
      some { out := [(1, 2)], R := 65535 } ∧ (c.serve is).1.quota = 65534 := by
  refine ⟨?_, by decide, by decide⟩
  intro i hi
  simp only [List.mem_cons, List.not_mem_nil, or_false] at hi
  rcases hi with rfl | rfl <;> exact fun h => h

/-- the completion does free it: a PUBCOMP for 1 is excluded by the hypothesis, and with it the quota returns -/
example : completesQ2 1 (.pkt (.pubcomp { packetId := 1 }) [] true) ∧
    (({ quota := 65534 } : Ctx).serve [.pkt (.pubcomp { packetId := 1 }) [] true]).1.quota = 65535 :=
  ⟨rfl, by decide⟩

/-- section 5: two sessions that differ in the registration of channel 3 — present (receiver alive) in one, removed in
    the other (receiver dead) —, channel 4 registered in both. A PUBLISH carrying both subscription identifiers is
    delivered into channel 4 by both, acknowledged by both, and the sessions agree afterwards except for channel 3 -/
example :
    let c : Ctx := { subs := [(7, 3), (8, 4)] }
    let pb : PublishRx := { topic := [0x61], qos := 1, packetId := some 9, subIds := [7, 8] }
    (∀ x, x ≠ 3 → (fun _ : Nat => true) x = (fun ch : Nat => decide (ch ≠ 3)) x) ∧
    subsOff 3 c.subs = subsOff 3 [(8, 4)] ∧
    (c.handlePkt (fun _ => true) (.publish pb) true).2.1 = [.deliver 3 pb, .deliver 4 pb, .write (ackBytes 0x40 9)] ∧
    (({ c with subs := [(8, 4)] } : Ctx).handlePkt (fun ch => decide (ch ≠ 3)) (.publish pb) true).2.1 =
      [.deliver 4 pb, .write (ackBytes 0x40 9)] ∧
    offCh 3 (.deliver 3 pb) = false ∧ offCh 3 (.deliver 4 pb) = true := by
  refine ⟨fun x hx => by simp [hx], by decide, by decide, by decide, by decide, by decide⟩

/-- … and with the registration still present and the receiver dead, the dispatch loop unregisters it: the effects on
    the other channel are the same again -/
example :
    let c : Ctx := { subs := [(7, 3), (8, 4)] }
    let pb : PublishRx := { topic := [0x61], qos := 1, packetId := some 9, subIds := [7, 8] }
    (c.handlePkt (fun ch => decide (ch ≠ 3)) (.publish pb) true).2.1 =
      [.dropChan 3, .deliver 4 pb, .write (ackBytes 0x40 9)] ∧
    (c.handlePkt (fun ch => decide (ch ≠ 3)) (.publish pb) true).1.subs = [(8, 4)] := by decide

/-- the hypotheses of `dead_receiver_changes_only_its_own_channel_for_ever` on a two-input history: the PUBLISH above,
    then a PINGRESP; receiver 3 alive in one history, reported dead in the other -/
example :
    let c : Ctx := { subs := [(7, 3), (8, 4)] }
    let c' : Ctx := { subs := [(8, 4)] }
    let pb : PublishRx := { topic := [0x61], qos := 1, packetId := some 9, subIds := [7, 8] }
    CSim 3 c c' ∧ InsSim 3 [.pkt (.publish pb) [] true, .pkt .pingresp [] true]
      [.pkt (.publish pb) [3] true, .pkt .pingresp [3] true] ∧
    OnceAlong c [.pkt (.publish pb) [] true, .pkt .pingresp [] true] ∧
    OnceAlong c' [.pkt (.publish pb) [3] true, .pkt .pingresp [3] true] := by
  refine ⟨⟨by decide, by decide⟩, ⟨⟨rfl, rfl, fun x hx => by simp [hx]⟩, ⟨rfl, rfl, fun x hx => by simp [hx]⟩, trivial⟩,
    ⟨by decide, fun _ => ⟨by decide, fun _ => by show List.Nodup _; decide⟩⟩,
    ⟨by decide, fun _ => ⟨by decide, fun _ => by show List.Nodup _; decide⟩⟩⟩

/-- section 3b: a `subscribe()` future waiting for its SUBACK (`q3` of Lemmas/WorldCancelEx.lean: `setup, run,
    subscribe`; the SUBSCRIBE is on the wire and registered, channel 1 exists) satisfies `StartB 1`; the drop removes the
    future, its oneshot AND channel 1, the hold keeps all three — and the two worlds are equal under `shade 1` -/
example :
    StartB 1 ([Ev.setup, .run, .op 1 0 subReq].foldl World.step {}) ∧
    (q3.step (.drop (.op 1))).chans = [] ∧ (q3.step (.hold (.op 1))).chans = [(1, {})] ∧
    (q3.step (.drop (.op 1))).ops = [] ∧ (q3.step (.hold (.op 1))).ops = [(1, .wait 2 .suback)] ∧
    shade 1 (q3.step (.drop (.op 1))) = shade 1 (q3.step (.hold (.op 1))) := by
  have hs : StartB 1 q3 := by
    refine ⟨by decide, by decide, ?_, by decide, ?_⟩
    · intro m hm; have : q3.queue = [] := by decide
      rw [this] at hm; cases hm
    · intro j hd t hm
      have : (hide 1 q3).ops = [] := by decide
      rw [this] at hm; cases hm
  refine ⟨by rw [evsSub_foldl3]; exact hs, by decide, by decide, by decide, by decide, ?_⟩
  have h := cancelling_any_future_is_never_polling_again {} [.setup, .run, .op 1 0 subReq] [] 1
    (by rw [evsSub_foldl3]; exact hs) (by simp) trivial
  simp only [List.foldl_append, List.foldl_cons, List.foldl_nil] at h
  rw [stage1, stage2, sub3] at h
  exact h

/-- … and a continuation that is `quietFor 1`: bytes arrive, another operation is issued, the context is polled -/
example : ∀ e ∈ ([.feed [pubackFr], .op 2 0 .ping, .poll .ctx, .hold (.op 2)] : List Ev), quietFor 1 e = true := by
  intro e he
  simp only [List.mem_cons, List.not_mem_nil, or_false] at he
  rcases he with rfl | rfl | rfl | rfl <;> rfl

/-- a stream asleep on its channel (`q5`: `setup, run, subscribe, SUBACK, stream`) satisfies `StartV 1`; the drop removes
    stream 1 and channel 1, the hold keeps them; the worlds are equal under `veil 1` -/
example :
    StartV 1 ([Ev.setup, .run, .op 1 0 subReq, .feed [subackFr], .stream 1].foldl World.step {}) ∧
    (q5.step (.drop (.st 1))).streams = [] ∧ (q5.step (.drop (.st 1))).chans = [] ∧
    (q5.step (.hold (.st 1))).streams = [1] ∧ (q5.step (.hold (.st 1))).chans = [(1, { reg := true })] ∧
    veil 1 (q5.step (.drop (.st 1))) = veil 1 (q5.step (.hold (.st 1))) := by
  have hs : StartV 1 q5 := by
    refine ⟨by decide, ?_, by decide, ?_⟩
    · intro m hm; have : q5.queue = [] := by decide
      rw [this] at hm; cases hm
    · intro j hd t hm
      have : q5.ops = [] := by decide
      rw [this] at hm; cases hm
  refine ⟨by rw [evsSub_foldl5]; exact hs, by decide, by decide, by decide, by decide, ?_⟩
  have h := dropping_a_stream_is_never_polling_it_again {} [.setup, .run, .op 1 0 subReq, .feed [subackFr], .stream 1]
    [] 1 (by rw [evsSub_foldl5]; exact hs) (by simp)
  simp only [List.foldl_append, List.foldl_cons, List.foldl_nil] at h
  rw [stage1, stage2, sub3, sub4, sub5] at h
  exact h

/-- `veil` erases exactly the receiving end: in `q5` stream 1, channel 1 and the registration `(1, 1)`; everything
    else stays -/
example : (veil 1 q5).streams = [] ∧ (veil 1 q5).chans = [] ∧ (veil 1 q5).c.subs = [] ∧ (veil 1 q5).ops = q5.ops ∧
    (veil 2 q5).streams = [1] ∧ (veil 2 q5).c = q5.c := by decide

end NonVacuity

#print axioms drop_event_leaves_the_context_alone
#print axioms drop_gives_back_exactly_its_own_sender
#print axioms drop_wakes_nobody_while_a_sender_is_left
#print axioms handleClosed_needs_every_handle_and_future_gone
#print axioms no_sequence_of_drops_ends_run
#print axioms w11_opIds_append_drops
#print axioms w11_dropKeeps_tweak
#print axioms no_sequence_of_drops_ends_run_script
#print axioms ack_bookkeeping_whoever_waits
#print axioms late_ack_frees_the_slot_silently
#print axioms handlers_never_see_the_waiter
#print axioms quota_verdict_independent_of_waiters
#print axioms quota_verdict_same_dropped_or_held
#print axioms context_poll_ignores_the_hidden_future
#print axioms other_polls_ignore_the_hidden_future
#print axioms other_events_ignore_the_hidden_future
#print axioms drop_is_invisible_to_everybody_else
#print axioms drop_and_hold_start_in_lockstep
#print axioms lockstep_one_event
#print axioms lockstep
#print axioms cancelling_is_never_polling_again
#print axioms cancelling_is_never_polling_again_no_dropHandle
#print axioms transcripts_agree_up_to_the_cancelled_task
#print axioms everybody_else_completes_the_same
#print axioms hidden_equal_spelled_out
#print axioms dropping_a_stream_is_never_polling_it_again
#print axioms transcripts_agree_up_to_the_dropped_stream
#print axioms cancelling_any_future_is_never_polling_again
#print axioms transcripts_agree_up_to_the_cancelled_future_and_its_stream
#print axioms veiled_equal_spelled_out
#print axioms k1_no_pubrel_is_ever_sent
#print axioms no_pubrel_means_none_written
#print axioms k1_slot_stays_taken
#print axioms dead_receiver_changes_only_its_own_channel
#print axioms dead_receiver_changes_only_its_own_channel_for_ever
#print axioms requests_ignore_the_subscription_table
#print axioms effects_on_a_channel_touch_only_that_channel

end Poster
