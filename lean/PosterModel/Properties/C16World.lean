/-
  Properties/C16World.lean — C16 end to end: spurious polls and sweeps have no observable effect, over whole
  scripts.

  C16: "Polling any future or stream obtained from the library while its waker has not fired has no observable
  effect (nothing is written, nothing completes, nothing is lost), wherever such extra polls are inserted.
  Conversely, whenever the library returns Pending it has arranged a wakeup for every event that can let it
  proceed, so an executor that polls only woken tasks reaches exactly the same bytes, results and stream items
  as one that additionally polls every task at every step."

  Properties/C16.lean has the single-poll facts. Here they are composed:
    * `World.Quiesced` — the executor is idle and every live task that is not flagged is parked with all its wake
      sources registered (`World.Inv`, `World.TaskOk`); it holds after every step of every script
      (`script_quiesced`);
    * in such a world a spurious poll and a sweep change NOTHING, not even a registration flag
      (`quiesced_spurious_poll_noop`, `quiesced_sweep_noop`);
    * `exec=sweep` and `exec=wake-only` runs of the same script give the same transcript, and the same world up
      to the switch itself (`sweep_irrelevant_partial`, `sweep_irrelevant_world_partial`);
    * a `poll t` of a task that is not flagged, inserted anywhere in a script, only inserts its own observation
      into the transcript (`spurious_poll_inserted_partial`).
  Side conditions, both executable (`World.runOk`, `World.evsOk`, defined in Lemmas/WorldQuiet.lean):
    * the drain fuel sufficed at every step (`World.stepOk`: `pick = none` after the drain);
    * `World.evOk`: a SUBSCRIBE operation does not re-use the script identifier of a live stream or of a SUBACK
      response whose stream was not taken yet. Without it the statement is FALSE in the model (see the
      counterexample at the end): the script names the stream of operation `id` by `id`, and `startOp` overwrites
      the channel `id` of the live stream. It follows from a purely syntactic condition: the `op` events of the
      script carry pairwise distinct identifiers (`distinct_ids_evsOk`, `sweep_irrelevant_of_distinct_ids`,
      `spurious_poll_inserted_of_distinct_ids`; Lemmas/WorldQuietIds.lean).
  Proofs: Lemmas/WorldQuietInv.lean, WorldQuietCtx.lean, WorldQuietUser.lean, WorldQuietStep.lean (the
  invariant through every primitive), WorldTweak.lean (no primitive reads the sweep switch or the transcript),
  WorldQuiet.lean (composition).
-/
import PosterModel.Lemmas.WorldQuiet
import PosterModel.Lemmas.WorldQuietIds
import PosterModel.Lemmas.WorldEx

set_option linter.unusedVariables false
set_option linter.unusedSimpArgs false

namespace Poster
open Framing

/-! ## 1. quiescence and full registration -/

/-- **Pending ⇒ every wake source registered, for every task at once.** In a quiesced world (the executor ran
    until nothing flagged was left; invariant of the library established along the script) every live task that
    the harness does not hold is parked:
    the context future has nothing to read, an idle framing machine and the transport waker registered, and if it
    is `run()` also nothing queued, the queue waker registered and a sender alive;
    every handle future waits on an existing, still empty oneshot whose waker is registered (a `fresh`, not yet
    polled future cannot occur);
    every stream with a channel has it empty, its sender alive and its waker registered. -/
theorem quiesced_full_registration (w : World) (hq : World.Quiesced w) :
    (w.task ≠ .none → Task.ctx ∉ w.held →
      w.reader = [] ∧ w.readerReg = true ∧ w.rx.st = .idle ∧
      ((w.task = .running true ∧ w.queue = [] ∧ w.queueReg = true ∧ 0 < w.senders) ∨
       (∃ call t a, w.task = .connecting call t a true))) ∧
    (∀ id st, w.opSt id = some st → Task.op id ∉ w.held →
      ∃ s k, st = .wait s k ∧ w.slot s = some .empty ∧ s ∈ w.slotReg) ∧
    (∀ id ch, id ∈ w.streams → Task.st id ∉ w.held → w.chan id = some ch →
      ch.buf = [] ∧ ch.txAlive = true ∧ ch.reg = true) := by
  refine ⟨fun hne hh => ?_, fun id st hst hh => ?_, fun id ch hs hh hc => ?_⟩
  · have hw := World.not_woken_of_idle w .ctx hq.idle (by simpa [World.taskLive] using hne) hh
    obtain ⟨a1, a2, a3, a4⟩ := hq.registered .ctx hw hne
    refine ⟨a1, a2, a3, ?_⟩
    rcases a4 with ⟨b1, b2, b3, b4⟩ | b
    · exact Or.inl ⟨b1, b2, b3, by omega⟩
    · exact Or.inr b
  · have hw := World.not_woken_of_idle w (.op id) hq.idle (by simp [World.taskLive, hst]) hh
    exact hq.registered (.op id) hw st hst
  · have hw := World.not_woken_of_idle w (.st id) hq.idle (by simpa [World.taskLive] using hs) hh
    exact hq.registered (.st id) hw hs ch hc

/-- **1(b) A spurious poll changes nothing.** In a quiesced world, the script event `poll t` for any live task
    that is not held — the context future, a handle future, a stream — leaves the world EXACTLY as it is: no
    observation, no byte written, no completion, no item taken, and not even a registration flag or a counter
    moves (the waker was registered already). -/
theorem quiesced_spurious_poll_noop (w : World) (hq : World.Quiesced w) (t : Task)
    (hl : w.taskLive t = true) (hh : t ∉ w.held) : w.apply (.poll t) = w :=
  hq.poll_eq_self t hl hh

/-- the same for a task that is merely not flagged (held or not, executor idle or not), under the invariant -/
theorem spurious_poll_noop (w : World) (hi : World.Inv World.NoE w) (t : Task) (hw : t ∉ w.woken) :
    w.apply (.poll t) = w :=
  World.apply_poll_eq_self hi t hw

/-- **1(a) A sweep changes nothing.** In a quiesced world `exec=sweep` — every live, non-flagged, non-held task
    polled once, then the executor run again — returns EXACTLY the same world (`sweep_of_quiescent_is_noop` of
    Properties/C16.lean had this only up to registration flags, for worlds assumed quiescent). -/
theorem quiesced_sweep_noop (w : World) (hq : World.Quiesced w) :
    w.sweep = w ∧ World.drain w.sweep.drainFuel w.sweep = w :=
  hq.sweep_eq_self

/-- **Quiescence holds after every step of every script**: run any script from the initial world with any
    configuration; if every step was fine (`runOk`: fuel sufficed, no re-used subscription identifier) and the
    script did not go `bad`, the world reached is quiesced. So the hypotheses of the three theorems above are met
    between any two script events. -/
theorem script_quiesced (cfg : Cfg) (evs : List Ev) (hok : World.runOk cfg evs = true)
    (hb : (evs.foldl World.step { cfg := cfg }).bad = false) :
    World.Quiesced (evs.foldl World.step { cfg := cfg }) :=
  World.steps_quiesced evs { cfg := cfg } (World.Inv.init cfg) Reach.init (fun _ => rfl) hok hb

/-- the registration invariant alone needs no fuel condition: it holds after every script whose SUBSCRIBE
    identifiers are not re-used -/
theorem script_invariant (cfg : Cfg) (evs : List Ev) (hok : World.evsOk { cfg := cfg } evs = true) :
    World.Inv World.NoE (evs.foldl World.step { cfg := cfg }) :=
  (World.Inv.steps_init cfg evs hok).1

/-! ## 2. `exec=sweep` and `exec=wake-only` give the same run -/

/-- **2, worlds.** (`_partial` only because `runOk` contains, besides the fuel condition asked for, the condition
    `evOk` on SUBSCRIBE identifiers — without which the statement is false, see the counterexample below.)
    For every configuration and every fine script, the world reached with the sweep switch on
    is the world reached with the switch off, with the switch flipped — every other field, the transcript
    included, is identical (`tweak true []` sets `cfg.sweep := true` and prefixes the transcript with `[]`). -/
theorem sweep_irrelevant_world_partial (cfg : Cfg) (evs : List Ev)
    (hok : World.runOk { cfg with sweep := false } evs = true) :
    evs.foldl World.step { cfg := { cfg with sweep := true } } =
      World.tweak true [] (evs.foldl World.step { cfg := { cfg with sweep := false } }) := by
  have h := World.steps_sweep_irrelevant evs { cfg := { cfg with sweep := false } } rfl
    (World.Inv.init _) Reach.init hok
  exact h

/-- **2. An executor that additionally polls every task at every step sees nothing more.** For every
    configuration and every script whose steps are fine when run wake-only, the transcript (bytes written,
    results of the calls and operations, stream items and ends, panics, stalls) of the `exec=sweep` run equals the
    transcript of the wake-only run. -/
theorem sweep_irrelevant_partial (cfg : Cfg) (evs : List Ev) (hok : World.runOk { cfg with sweep := false } evs = true) :
    World.run { cfg with sweep := true } evs = World.run { cfg with sweep := false } evs := by
  unfold World.run
  rw [sweep_irrelevant_world_partial cfg evs hok, World.finishScript_tweak, World.tweak_out, List.nil_append]

/-! ## 3. spurious polls inserted in a script -/

/-- **3. A spurious poll inserted anywhere in a script only inserts its own observation.** (`_partial` because of
    the hypotheses `evsOk` on `evs₁` and "executor idle", and because a stalled context adds a `stall` marker.) Run `evs₁` (with
    non-re-used SUBSCRIBE identifiers) to the world `w₁`; suppose the executor is idle there and task `t` is not
    flagged woken (it may be alive or not, held or not). Then the transcripts of `evs₁ ++ evs₂` and of
    `evs₁ ++ [poll t] ++ evs₂` are `w₁.out ++ post` and `w₁.out ++ pollSeg w₁ t ++ post` for the same `post`:
    everything before and after is unchanged, and what is inserted is `pollSeg w₁ t` — the event marker
    `ev (poll t)` itself, followed by one more `stall` marker if the context future is stalled at that point (alive
    with unread input, which every step reports), or nothing at all if the script had gone `bad`.
    Holds for every configuration (sweeping or not) and every continuation `evs₂`. -/
theorem spurious_poll_inserted_partial (cfg : Cfg) (evs₁ evs₂ : List Ev) (t : Task)
    (hok : World.evsOk { cfg := cfg } evs₁ = true)
    (hidle : (evs₁.foldl World.step { cfg := cfg }).pick = none)
    (hw : t ∉ (evs₁.foldl World.step { cfg := cfg }).woken) :
    ∃ post,
      World.run cfg (evs₁ ++ evs₂) = (evs₁.foldl World.step { cfg := cfg }).out ++ post ∧
      World.run cfg (evs₁ ++ [.poll t] ++ evs₂) =
        (evs₁.foldl World.step { cfg := cfg }).out ++
          World.pollSeg (evs₁.foldl World.step { cfg := cfg }) t ++ post := by
  obtain ⟨hi, hr⟩ := World.Inv.steps_init cfg evs₁ hok
  have hrun1 : World.run cfg (evs₁ ++ evs₂) =
      ((evs₂.foldl World.step (evs₁.foldl World.step { cfg := cfg })).finishScript).out := by
    simp [World.run, List.foldl_append]
  have hrun2 : World.run cfg (evs₁ ++ [.poll t] ++ evs₂) =
      ((evs₂.foldl World.step ((evs₁.foldl World.step { cfg := cfg }).step (.poll t))).finishScript).out := by
    simp [World.run, List.foldl_append]
  rw [hrun1, hrun2]
  generalize evs₁.foldl World.step { cfg := cfg } = w₁ at hi hr hidle hw ⊢
  rw [World.step_poll_spurious hi hr hidle t hw]
  have b1 : evs₂.foldl World.step w₁ =
      World.tweak w₁.cfg.sweep w₁.out (evs₂.foldl World.step { w₁ with out := [] }) := by
    have h0 : evs₂.foldl World.step (World.tweak w₁.cfg.sweep w₁.out { w₁ with out := [] }) =
        World.tweak w₁.cfg.sweep w₁.out (evs₂.foldl World.step { w₁ with out := [] }) :=
      World.steps_tweak_out evs₂ { w₁ with out := [] } w₁.out
    rw [← World.eq_tweak_reset w₁ w₁.out] at h0
    exact h0
  have b2 : evs₂.foldl World.step { w₁ with out := w₁.out ++ World.pollSeg w₁ t } =
      World.tweak w₁.cfg.sweep (w₁.out ++ World.pollSeg w₁ t) (evs₂.foldl World.step { w₁ with out := [] }) := by
    have h0 : evs₂.foldl World.step
        (World.tweak w₁.cfg.sweep (w₁.out ++ World.pollSeg w₁ t) { w₁ with out := [] }) =
        World.tweak w₁.cfg.sweep (w₁.out ++ World.pollSeg w₁ t) (evs₂.foldl World.step { w₁ with out := [] }) :=
      World.steps_tweak_out evs₂ { w₁ with out := [] } _
    rw [← World.eq_tweak_reset w₁ (w₁.out ++ World.pollSeg w₁ t)] at h0
    exact h0
  refine ⟨((evs₂.foldl World.step { w₁ with out := [] }).finishScript).out, ?_, ?_⟩
  · rw [b1, World.finishScript_tweak, World.tweak_out]
  · rw [b2, World.finishScript_tweak, World.tweak_out]

/-- in the usual case — the script has not gone `bad` and the context future is not stalled — exactly the single
    observation `ev (poll t)` is inserted -/
theorem pollSeg_single (w : World) (t : Task) (hb : w.bad = false) (hs : w.task = .none ∨ w.reader = []) :
    World.pollSeg w t = [.ev (.poll t)] := by
  unfold World.pollSeg
  have : ¬ (w.task ≠ .none ∧ w.reader ≠ []) := by
    rintro ⟨a, b⟩; rcases hs with h | h
    · exact a h
    · exact b h
  simp [hb, this]

/-! ## 4. the condition `evOk` from a syntactic condition on the script -/

/-- **Scripts that never re-use an operation identifier satisfy `evsOk`.** If the identifiers of the `op` events
    of a script are pairwise distinct, every SUBSCRIBE is issued under an identifier that names no live stream and
    no un-taken response (identifiers in use only ever come from earlier `op` events). -/
theorem distinct_ids_evsOk (cfg : Cfg) (evs : List Ev) (hd : (World.opIds evs).Nodup) :
    World.evsOk { cfg := cfg } evs = true :=
  World.evsOk_init_of_distinct cfg evs hd

/-- **2 with the fuel condition only**, for scripts with pairwise distinct operation identifiers: if the drain
    fuel sufficed at every step of the wake-only run (`stepsFuelOk`: `pick = none` after each drain), the sweeping
    executor produces exactly the same transcript. -/
theorem sweep_irrelevant_of_distinct_ids (cfg : Cfg) (evs : List Ev) (hd : (World.opIds evs).Nodup)
    (hf : World.stepsFuelOk { cfg := { cfg with sweep := false } } evs = true) :
    World.run { cfg with sweep := true } evs = World.run { cfg with sweep := false } evs :=
  sweep_irrelevant_partial cfg evs
    (World.stepsOk_of_evsOk_fuelOk evs _ (World.evsOk_init_of_distinct _ evs hd) hf)

/-- **3 for scripts with pairwise distinct operation identifiers** (only the prefix `evs₁` matters): a `poll t`
    of a task that is not flagged, issued while the executor is idle, only inserts `pollSeg` -/
theorem spurious_poll_inserted_of_distinct_ids (cfg : Cfg) (evs₁ evs₂ : List Ev) (t : Task)
    (hd : (World.opIds evs₁).Nodup)
    (hidle : (evs₁.foldl World.step { cfg := cfg }).pick = none)
    (hw : t ∉ (evs₁.foldl World.step { cfg := cfg }).woken) :
    ∃ post,
      World.run cfg (evs₁ ++ evs₂) = (evs₁.foldl World.step { cfg := cfg }).out ++ post ∧
      World.run cfg (evs₁ ++ [.poll t] ++ evs₂) =
        (evs₁.foldl World.step { cfg := cfg }).out ++
          World.pollSeg (evs₁.foldl World.step { cfg := cfg }) t ++ post :=
  spurious_poll_inserted_partial cfg evs₁ evs₂ t (World.evsOk_init_of_distinct cfg evs₁ hd) hidle hw

/-! ## Non-vacuity -/
section NonVacuity
open Ex

/-- `wRun` of Lemmas/WorldEx.lean (a serving client: `run()` pending, operation 1 waiting for its PUBACK, stream 3
    subscribed) as the library leaves it when everything is pending: operation 5 of `wRun`, which was never
    polled, removed, and both wakers of `run()` registered -/
def wRunQ : World := { wRun with ops := [(1, .wait 2 .puback)], readerReg := true, queueReg := true }

/-- `wRunQ` is quiesced -/
theorem wRunQ_quiesced : World.Quiesced wRunQ := by
  refine ⟨by decide, ⟨fun _ => rfl, fun t ht _ => ?_, ?_, ?_, by decide, ?_, ?_⟩, Reach.init⟩
  · cases t with
    | ctx => exact fun _ => ⟨rfl, rfl, rfl, Or.inl ⟨rfl, rfl, rfl, by decide⟩⟩
    | op id =>
      intro st hst
      simp only [World.opSt, wRunQ, wRun, lookupFirst] at hst
      split at hst
      · simp only [Option.some.injEq] at hst; subst hst; exact ⟨2, .puback, rfl, by decide, by decide⟩
      · cases hst
    | st id =>
      intro hs ch hc
      have : id = 3 := by simpa [wRunQ, wRun] using hs
      subst this
      have : ch = { buf := [], reg := true } := by
        have e : wRunQ.chan 3 = some { buf := [], reg := true } := by decide
        rw [e] at hc; cases hc; rfl
      subst this
      exact ⟨rfl, rfl, rfl⟩
  · intro id s k hst
    simp only [World.opSt, wRunQ, wRun, lookupFirst] at hst
    split at hst
    · rename_i h1; simp only [Option.some.injEq, OpSt.wait.injEq] at hst
      obtain ⟨rfl, rfl⟩ := hst; subst h1; exact Or.inl rfl
    · cases hst
  · intro id s k hst _
    simp only [World.opSt, wRunQ, wRun, lookupFirst] at hst
    split at hst
    · simp only [Option.some.injEq, OpSt.wait.injEq] at hst
      obtain ⟨rfl, rfl⟩ := hst; decide
    · cases hst
  · intro id hsub
    rcases hsub with ⟨hh, t, e⟩ | ⟨s, e⟩ <;>
    · simp only [World.opSt, wRunQ, wRun, lookupFirst] at e
      split at e
      · cases e
      · cases e
  · intro id hid; simp [wRunQ, wRun] at hid

/-- so polling its `run()` future, its operation 1 or its stream 3 once more changes nothing -/
example : wRunQ.apply (.poll .ctx) = wRunQ ∧ wRunQ.apply (.poll (.op 1)) = wRunQ ∧
    wRunQ.apply (.poll (.st 3)) = wRunQ :=
  ⟨quiesced_spurious_poll_noop _ wRunQ_quiesced _ (by decide) (by decide),
   quiesced_spurious_poll_noop _ wRunQ_quiesced _ (by decide) (by decide),
   quiesced_spurious_poll_noop _ wRunQ_quiesced _ (by decide) (by decide)⟩
/-- … and neither does a sweep -/
example : wRunQ.sweep = wRunQ := (quiesced_sweep_noop _ wRunQ_quiesced).1
/-- the original `wRun` is NOT quiesced: its operation 5 was never polled, yet it is not flagged -/
example : ¬ World.Quiesced wRun := fun hq => by
  obtain ⟨s, k, h, _⟩ := (quiesced_full_registration _ hq).2.1 5 (.fresh 0 .ping) (by decide) (by decide)
  cases h

def sub1 : SubscribeTx := { packetId := 0, filters := [([0x61], {})] }

/-- a script: a client is set up, a PINGREQ and a SUBSCRIBE are requested (both futures run until they wait for
    their answers), a third future is created while the harness holds it -/
def demo : List Ev := [.setup, .op 1 0 .ping, .op 2 0 (.subscribe sub1), .hold (.op 3), .op 3 0 .ping]

/-- every step of `demo` is fine, with either executor -/
example : World.runOk {} demo = true ∧ World.runOk { sweep := true } demo = true := by decide
/-- so the world it reaches is quiesced: operations 1 and 2 wait on registered oneshots, 3 is flagged and held -/
example : World.Quiesced (demo.foldl World.step {}) := script_quiesced {} demo (by decide) (by decide)
example : (demo.foldl World.step {}).ops =
    [(1, .wait 2 .pingresp), (2, .wait 4 .suback), (3, .fresh 0 .ping)] ∧
    (demo.foldl World.step {}).slotReg = [2, 4] ∧ (demo.foldl World.step {}).woken = [.op 3] := by decide
/-- the sweeping and the wake-only executor produce the same transcript for `demo` -/
example : World.run { sweep := true } demo = World.run { sweep := false } demo :=
  sweep_irrelevant_partial {} demo (by decide)
/-- `demo` has pairwise distinct operation identifiers and enough fuel, so the unconditional-on-`evOk` forms apply -/
example : (World.opIds demo).Nodup ∧ World.stepsFuelOk { cfg := { sweep := false } } demo = true := by decide
example : World.run { sweep := true } demo = World.run { sweep := false } demo :=
  sweep_irrelevant_of_distinct_ids {} demo (by decide) (by decide)
/-- polling operation 1 (alive, waiting, not flagged) once more after `demo` inserts exactly its own marker -/
example : ∃ post, World.run {} (demo ++ [.op 4 0 .ping]) = (demo.foldl World.step {}).out ++ post ∧
    World.run {} (demo ++ [.poll (.op 1)] ++ [.op 4 0 .ping]) =
      (demo.foldl World.step {}).out ++ [.ev (.poll (.op 1))] ++ post := by
  have h := spurious_poll_inserted_partial {} demo [.op 4 0 .ping] (.op 1) (by decide) (by decide) (by decide)
  rw [pollSeg_single _ _ (by decide) (Or.inl (by decide))] at h
  exact h

/-! ### the side condition `evOk` is needed: a counterexample in the model

  From the initial world the same happens with the script (checked with `#eval`; `decide` cannot evaluate
  `pollNext`, which is defined by well-founded recursion):
    `[.setup, .connect {}, .feed [[0x20,3,0,0,0]], .run, .op 1 0 (.subscribe sub1), .feed [[0x90,4,0,1,0,0]],
      .stream 1, .op 1 0 (.subscribe sub1), .feed [[0x90,4,0,2,0,0]], .feed [[0x30,6,0,1,0x61,2,0x0B,2]]]`
  — the sweeping run ends with `item 1 …`, the wake-only run never delivers that PUBLISH. Below, the same
  phenomenon from a world in which the stream already exists, proved by `decide`.

  Stream 1 (of an earlier SUBSCRIBE that the script named 1) is alive and registered on its channel, whose sender
  the context owns (`subs = [(7, 1)]`). The script now names a NEW subscribe operation 1: when that future is first
  polled, `startOp` installs a fresh channel under the name 1 — on top of the live stream's channel, erasing its
  registration. A sweep re-registers the stream, a wake-only executor does not; when the context is dropped the
  sweeping run observes the end of stream 1 and the wake-only run does not. (In the library the two channels are
  different objects; the clash only exists because the script names streams by operation identifier.) -/

def wLive (sw : Bool) : World :=
  { cfg := { sweep := sw }, hasCtx := true, handles := [0], streams := [1], chans := [(1, { reg := true })],
    c := { subs := [(7, 1)] } }
def reuse : List Ev := [.op 1 0 (.subscribe sub1), .dropCtx]

/-- the event violates `evOk` … -/
example : World.evOk (wLive false) (.op 1 0 (.subscribe sub1)) = false := by decide
/-- … every other part of `stepOk` holds (the fuel suffices) … -/
example : (World.drain (((wLive false).emit (.ev (.op 1 0 (.subscribe sub1)))).apply (.op 1 0 (.subscribe sub1))).drainFuel
    (((wLive false).emit (.ev (.op 1 0 (.subscribe sub1)))).apply (.op 1 0 (.subscribe sub1)))).pick = none := by decide
/-- … and the transcripts of the sweeping and the wake-only run differ: only the former ends stream 1 -/
example : (reuse.foldl World.step (wLive true)).out ≠ (reuse.foldl World.step (wLive false)).out := by decide
example : Obs.endStream 1 ∈ (reuse.foldl World.step (wLive true)).out ∧
    Obs.endStream 1 ∉ (reuse.foldl World.step (wLive false)).out := by decide

end NonVacuity

#print axioms quiesced_full_registration
#print axioms quiesced_spurious_poll_noop
#print axioms spurious_poll_noop
#print axioms quiesced_sweep_noop
#print axioms script_quiesced
#print axioms script_invariant
#print axioms sweep_irrelevant_world_partial
#print axioms sweep_irrelevant_partial
#print axioms spurious_poll_inserted_partial
#print axioms distinct_ids_evsOk
#print axioms sweep_irrelevant_of_distinct_ids
#print axioms spurious_poll_inserted_of_distinct_ids
#print axioms pollSeg_single
#print axioms wRunQ_quiesced

end Poster
