/-
  Properties/C14.lean — no operation or stream hangs once the context is gone.

  C14: "Once the Context has been dropped (normally right after run() returned), every operation still pending
  on any handle completes with ContextExited, every operation started afterwards fails with ContextExited
  immediately, and every subscription stream yields the messages it had already received and then ends. No
  future obtained from the library stays pending forever after that point."

  Model: `World.apply .dropCtx` (the `Context` is dropped: every sender it owns is dropped — the oneshot
  senders inside queued messages and `awaiting_ack`, the subscription senders inside queued SUBSCRIBEs and
  `subscriptions`), `World.pollOp`, `World.startOp`, `World.resumeOp`, `World.pollStream`.
  Helper lemmas: PosterModel/Lemmas/WorldDrop.lean, World.lean.
-/
import PosterModel.Lemmas.WorldDrop
import PosterModel.Lemmas.WorldEx

set_option linter.unusedVariables false
set_option linter.unusedSimpArgs false

namespace Poster
open Framing

/-- **Dropping the context closes every channel it held a sender of.** After `DROPCTX` on a live context:
    the context is gone, its task is gone, the queue and the session are empty;
    every oneshot that had no value yet and whose sender sat in a queued message or in `awaiting_ack` is now
    `closed`; every subscription channel whose sender sat in a queued SUBSCRIBE or in `subscriptions` has its
    sending half gone and no waker registered;
    and nothing else is lost: every channel keeps its buffered items, a oneshot that already holds a value
    keeps it, operations, streams and the observation log are untouched. -/
theorem dropCtx_closes (w : World) (h : w.hasCtx = true) :
    (w.apply .dropCtx).hasCtx = false ∧ (w.apply .dropCtx).queue = [] ∧ (w.apply .dropCtx).task = .none ∧
    (w.apply .dropCtx).c = {} ∧ (w.apply .dropCtx).ops = w.ops ∧ (w.apply .dropCtx).streams = w.streams ∧
    (w.apply .dropCtx).out = w.out ∧
    (∀ s, w.slot s = some .empty →
      ((∃ m ∈ w.queue, m.slot = s) ∨ (∃ e ∈ w.c.awaiting, e.2 = s)) →
      (w.apply .dropCtx).slot s = some .closed) ∧
    (∀ ch c0, w.chan ch = some c0 →
      ((∃ aid sid pkt s, Msg.subscribe aid sid pkt s ch ∈ w.queue) ∨ (∃ e ∈ w.c.subs, e.2 = ch)) →
      ∃ c1, (w.apply .dropCtx).chan ch = some c1 ∧ c1.txAlive = false ∧ c1.reg = false ∧ c1.buf = c0.buf) ∧
    (∀ ch c0, w.chan ch = some c0 →
      ∃ c1, (w.apply .dropCtx).chan ch = some c1 ∧ c1.buf = c0.buf ∧ c1.rxAlive = c0.rxAlive ∧
        (c1.txAlive = true → c1 = c0)) ∧
    (∀ s v, w.slot s = some (.full v) → (w.apply .dropCtx).slot s = some (.full v)) := by
  rw [World.apply_dropCtx w h]
  have hc := World.closes_dropCtxClosed w
  have inv := World.closes_inv hc
  refine ⟨inv.hasCtx_eq, rfl, inv.task_eq, rfl, inv.ops_eq, inv.streams_eq, inv.out_eq, ?_, ?_, ?_, ?_⟩
  · intro s he hown
    have h1 := World.dropCtxClosed_slot w s hown
    rcases inv.slotEmpty s he with h2 | h2
    · exact absurd h2 h1
    · exact h2
  · intro ch c0 hc0 hown
    obtain ⟨c1, e1, e2, _⟩ := inv.chanSome ch c0 hc0
    obtain ⟨a, b⟩ := World.dropCtxClosed_chan w ch hown c1 e1
    exact ⟨c1, e1, a, b, e2⟩
  · intro ch c0 hc0
    obtain ⟨c1, e1, e2, e3, _, _, e6⟩ := inv.chanSome ch c0 hc0
    exact ⟨c1, e1, e2, e3, e6⟩
  · intro s v hs
    exact inv.slotFull s v hs

/-- dropping the sender of an empty oneshot whose receiver has registered its waker wakes that operation -/
theorem dropSlotTx_wakes (w : World) (s : Nat) (he : w.slot s = some .empty) (hr : s ∈ w.slotReg) :
    .op (s / 2) ∈ (w.dropSlotTx s).woken ∧ (w.dropSlotTx s).slot s = some .closed := by
  refine ⟨World.dropSlotTx_wakes' w s he hr, ?_⟩
  rw [World.dropSlotTx_slot]; simp [he]

/-- dropping the sender of a channel whose stream has registered its waker wakes that stream -/
theorem dropChanTx_wakes (w : World) (c : Nat) (ch : Chan) (hc : w.chan c = some ch) (hr : ch.reg = true) :
    .st c ∈ (w.dropChanTx c).woken ∧
    (w.dropChanTx c).chan c = some { ch with txAlive := false, reg := false } := by
  refine ⟨World.dropChanTx_wakes' w c ch hc hr, ?_⟩
  rw [World.dropChanTx_chan]; simp [hc]

/-- **Nobody sleeps on a channel whose sender is gone.** After `DROPCTX`: the task of every operation that
    was registered on one of the closed oneshots has been woken, the task of every stream that was registered
    on one of the closed channels has been woken, and no wakeup that was already pending is lost. -/
theorem dropCtx_wakes (w : World) (h : w.hasCtx = true) :
    (∀ s, w.slot s = some .empty → s ∈ w.slotReg →
      ((∃ m ∈ w.queue, m.slot = s) ∨ (∃ e ∈ w.c.awaiting, e.2 = s)) →
      .op (s / 2) ∈ (w.apply .dropCtx).woken) ∧
    (∀ ch c0, w.chan ch = some c0 → c0.reg = true →
      ((∃ aid sid pkt s, Msg.subscribe aid sid pkt s ch ∈ w.queue) ∨ (∃ e ∈ w.c.subs, e.2 = ch)) →
      .st ch ∈ (w.apply .dropCtx).woken) ∧
    (∀ t, t ∈ w.woken → t ∈ (w.apply .dropCtx).woken) := by
  rw [World.apply_dropCtx w h]
  have inv := World.closes_inv (World.closes_dropCtxClosed w)
  refine ⟨fun s he hr hown => ?_, fun ch c0 hc0 hr hown => ?_, fun t ht => inv.wokenMono t ht⟩
  · rcases inv.slotWake s he hr with ⟨h1, _⟩ | h1
    · exact absurd h1 (World.dropCtxClosed_slot w s hown)
    · exact h1
  · rcases inv.chanWake ch c0 hc0 hr with ⟨c1, h1, h2⟩ | h1
    · have := (World.dropCtxClosed_chan w ch hown c1 h1).2
      rw [h2] at this; cases this
    · exact h1

/-- **A closed oneshot completes its operation with `ContextExited`.** An operation waiting on a oneshot whose
    sender was dropped: the next poll emits `DONE id Err(ContextExited)` and removes the operation. -/
theorem closed_slot_completes (w : World) (id s : Nat) (k : Wait) (hop : w.opSt id = some (.wait s k))
    (hs : w.slot s = some .closed) :
    w.pollOp id = (w.clearSlot s).finishOp id (.err .contextExited) ∧
    (w.pollOp id).out = w.out ++ [.done id (.err .contextExited)] ∧
    (w.pollOp id).ops = eraseFirst id w.ops ∧
    ((w.ops.map (·.1)).Nodup → (w.pollOp id).opSt id = none) := by
  have e : w.pollOp id = (w.clearSlot s).finishOp id (.err .contextExited) := by
    simp [World.pollOp, hop, hs]
  rw [e]
  refine ⟨rfl, by simp, by simp, fun hn => ?_⟩
  simp [World.opSt, lookupFirst_eraseFirst_self _ _ hn]

/-- **A result that had already arrived is not lost.** A oneshot that holds a value when the context is
    dropped still holds it afterwards, and the waiting operation's next poll resumes with that value exactly
    as if the context were alive. -/
theorem full_slot_still_delivers (w : World) (id s : Nat) (k : Wait) (v : SlotVal)
    (hop : w.opSt id = some (.wait s k)) (hs : w.slot s = some (.full v)) :
    (w.apply .dropCtx).slot s = some (.full v) ∧ (w.apply .dropCtx).opSt id = some (.wait s k) ∧
    (w.apply .dropCtx).pollOp id = (w.apply .dropCtx).resumeOp id s k v := by
  have h1 : (w.apply .dropCtx).slot s = some (.full v) ∧ (w.apply .dropCtx).ops = w.ops := by
    cases hc : w.hasCtx with
    | false => simp [World.apply, hc]; exact hs
    | true =>
      obtain ⟨_, _, _, _, a, _, _, _, _, _, b⟩ := dropCtx_closes w hc
      exact ⟨b s v hs, a⟩
  have h2 : (w.apply .dropCtx).opSt id = some (.wait s k) := by
    simp only [World.opSt, h1.2]; exact hop
  exact ⟨h1.1, h2, by simp [World.pollOp, h2, h1.1]⟩

/-- **An operation started after the context is gone fails in its very first poll**: with `ContextExited`
    (the message cannot be sent), or with a codec error for a request that is refused before it would be sent;
    in that same poll the `DONE` is emitted and the operation is removed — it never gets to wait. -/
theorem start_after_drop (w : World) (id : Nat) (req : Req) (h : w.hasCtx = false) :
    ∃ k, (k = ErrKind.contextExited ∨ k = ErrKind.codecError) ∧
      (w.startOp id req).out = w.out ++ [.done id (.err k)] ∧
      (w.startOp id req).ops = eraseFirst id w.ops := by
  have hn : ∀ (w' : World) (m : Msg), w'.hasCtx = false → w'.sendMsg m = none :=
    fun w' m h' => World.sendMsg_none w' m h'
  cases req with
  | publish t =>
    simp only [World.startOp]
    split
    · split
      · exact ⟨_, Or.inr rfl, by simp, by simp⟩
      · rw [hn _ _ h]; exact ⟨_, Or.inl rfl, by simp, by simp⟩
    · split
      · exact ⟨_, Or.inr rfl, by simp, by simp⟩
      · rw [hn _ _ (by simpa using h)]; exact ⟨_, Or.inl rfl, by simp, by simp⟩
  | subscribe t =>
    simp only [World.startOp]
    split
    · exact ⟨_, Or.inr rfl, by simp, by simp⟩
    · rw [hn _ _ (by simpa using h)]; exact ⟨_, Or.inl rfl, by simp, by simp⟩
  | unsubscribe t =>
    simp only [World.startOp]
    split
    · exact ⟨_, Or.inr rfl, by simp, by simp⟩
    · rw [hn _ _ (by simpa using h)]; exact ⟨_, Or.inl rfl, by simp, by simp⟩
  | ping =>
    simp only [World.startOp]
    rw [hn _ _ h]; exact ⟨_, Or.inl rfl, by simp, by simp⟩
  | disconnect t =>
    simp only [World.startOp]
    rw [hn _ _ h]; exact ⟨_, Or.inl rfl, by simp, by simp⟩

/-- the same at the level of a poll: a not-yet-polled operation, polled with the context gone -/
theorem fresh_op_after_drop (w : World) (id hd : Nat) (req : Req) (hop : w.opSt id = some (.fresh hd req))
    (h : w.hasCtx = false) :
    ∃ k, (k = ErrKind.contextExited ∨ k = ErrKind.codecError) ∧
      (w.pollOp id).out = w.out ++ [.done id (.err k)] ∧ (w.pollOp id).ops = eraseFirst id w.ops := by
  have : w.pollOp id = w.startOp id req := by simp [World.pollOp, hop]
  rw [this]; exact start_after_drop w id req h

/-- **Between the two phases of a QoS 2 publish.** The first phase succeeded (a PUBREC without error arrived
    in the oneshot) but the context is gone: the PUBREL cannot be sent and the operation completes with
    `ContextExited` in that poll. -/
theorem resume_after_drop (w : World) (id s : Nat) (a : AckRx) (h : w.hasCtx = false) (ha : a.reason < 128) :
    (w.resumeOp id s .pubrec (.pkt (.pubrec a))).out = w.out ++ [.done id (.err .contextExited)] ∧
    (w.resumeOp id s .pubrec (.pkt (.pubrec a))).ops = eraseFirst id w.ops := by
  have hna : ¬ a.reason ≥ 128 := by omega
  simp only [World.resumeOp, hna, ↓reduceIte]
  rw [World.sendMsg_none _ _ (by simpa using h)]
  simp

/-- **A stream drains, then ends.** With the sending half gone: a poll yields the oldest buffered item (and
    flags the stream again, so the executor polls it again); with nothing buffered it emits `END` and the
    stream is removed. -/
theorem stream_drains_then_ends (w : World) (id : Nat) (ch : Chan) (hst : id ∈ w.streams)
    (hc : w.chan id = some ch) (ht : ch.txAlive = false) :
    (∀ p rest, ch.buf = p :: rest →
      w.pollStream id = ((w.setChan id { ch with buf := rest }).emit (.item id p)).wake (.st id) ∧
      .st id ∈ (w.pollStream id).woken) ∧
    (ch.buf = [] →
      w.pollStream id =
        (({ w with streams := w.streams.filter (· ≠ id) }).dropChanRx id).emit (.endStream id) ∧
      id ∉ (w.pollStream id).streams) := by
  refine ⟨fun p rest hb => ?_, fun hb => ?_⟩
  · have e : w.pollStream id = ((w.setChan id { ch with buf := rest }).emit (.item id p)).wake (.st id) := by
      simp [World.pollStream, hst, hc, hb]
    exact ⟨e, by rw [e]; exact World.mem_wake_self _ _⟩
  · have e : w.pollStream id =
        (({ w with streams := w.streams.filter (· ≠ id) }).dropChanRx id).emit (.endStream id) := by
      simp [World.pollStream, hst, hc, hb, ht]
    exact ⟨e, by rw [e]; simp [World.dropChanRx]⟩

/-- **A stream with n buffered items ends after exactly n + 1 polls, having yielded them in order.**
    With the sending half gone and `items` buffered: `items.length + 1` polls append exactly
    `ITEM` for each buffered message, oldest first, then `END`; afterwards the stream is gone; and after any
    smaller number of polls it is still there (it has not ended early). -/
theorem stream_ends_after_n_plus_one (w : World) (id : Nat) (ch : Chan) (hst : id ∈ w.streams)
    (hc : w.chan id = some ch) (ht : ch.txAlive = false) :
    (World.pollStreamTimes id (ch.buf.length + 1) w).out =
      w.out ++ ch.buf.map (Obs.item id) ++ [.endStream id] ∧
    id ∉ (World.pollStreamTimes id (ch.buf.length + 1) w).streams ∧
    (∀ n, n ≤ ch.buf.length →
      id ∈ (World.pollStreamTimes id n w).streams ∧
      (World.pollStreamTimes id n w).out = w.out ++ (ch.buf.take n).map (Obs.item id)) := by
  generalize hb : ch.buf = items
  induction items generalizing w ch with
  | nil =>
    obtain ⟨e, hn⟩ := (stream_drains_then_ends w id ch hst hc ht).2 hb
    refine ⟨by simp [World.pollStreamTimes, e], by simpa [World.pollStreamTimes] using hn, ?_⟩
    intro n hn
    have : n = 0 := by simpa using hn
    subst this
    simp [World.pollStreamTimes, hst]
  | cons p rest ih =>
    obtain ⟨e, _⟩ := (stream_drains_then_ends w id ch hst hc ht).1 p rest hb
    have hst1 : id ∈ (w.pollStream id).streams := by rw [e]; simpa using hst
    have hc1 : (w.pollStream id).chan id = some { ch with buf := rest } := by
      rw [e]; simp [World.chan, World.setChan, lookupFirst_setAssoc_self]
    have ho1 : (w.pollStream id).out = w.out ++ [.item id p] := by rw [e]; simp
    obtain ⟨a1, a2, a3⟩ := ih (w.pollStream id) { ch with buf := rest } hst1 hc1 ht rfl
    refine ⟨?_, ?_, ?_⟩
    · simp only [List.length_cons, World.pollStreamTimes] at a1 ⊢
      rw [a1, ho1]; simp
    · simpa [World.pollStreamTimes] using a2
    · intro n hn
      cases n with
      | zero => simp [World.pollStreamTimes, hst]
      | succ n =>
        simp only [List.length_cons, Nat.add_le_add_iff_right] at hn
        obtain ⟨b1, b2⟩ := a3 n hn
        simp only [World.pollStreamTimes]
        exact ⟨b1, by rw [b2, ho1]; simp⟩

/-! ## Non-vacuity: the hypotheses are satisfiable and the conclusions are not trivial (worlds of Lemmas/WorldEx.lean) -/
section NonVacuity
open Ex

/-- the hypotheses of `dropCtx_closes` / `dropCtx_wakes` hold for the serving client `wRun` … -/
example : wRun.hasCtx = true ∧ wRun.slot 2 = some .empty ∧ 2 ∈ wRun.slotReg ∧
    (∃ e ∈ wRun.c.awaiting, e.2 = 2) ∧ wRun.chan 3 = some { buf := [], reg := true } ∧
    (∃ e ∈ wRun.c.subs, e.2 = 3) := by decide
/-- … and the conclusions, evaluated: the oneshot is closed, the channel's sender is gone, both tasks woken -/
example : (wRun.apply .dropCtx).slot 2 = some .closed ∧
    (wRun.apply .dropCtx).chan 3 = some { buf := [], txAlive := false, reg := false } ∧
    Task.op 1 ∈ (wRun.apply .dropCtx).woken ∧ Task.st 3 ∈ (wRun.apply .dropCtx).woken := by decide
/-- the pending operation then completes with `ContextExited` (`closed_slot_completes`) … -/
example : ((wRun.apply .dropCtx).pollOp 1).out = [.done 1 (.err .contextExited)] ∧
    ((wRun.apply .dropCtx).pollOp 1).opSt 1 = none := by decide
/-- … an operation polled for the first time after the drop fails at once (`fresh_op_after_drop`) … -/
example : ((wRun.apply .dropCtx).pollOp 5).out = [.done 5 (.err .contextExited)] ∧
    ((wRun.apply .dropCtx).pollOp 5).opSt 5 = none := by decide
/-- … and the stream ends (`stream_drains_then_ends`, empty buffer) -/
example : ((wRun.apply .dropCtx).pollStream 3).out = [.endStream 3] ∧
    3 ∉ ((wRun.apply .dropCtx).pollStream 3).streams := by decide
/-- two buffered messages, sender gone: exactly three polls, `ITEM`, `ITEM`, `END`
    (`stream_ends_after_n_plus_one`); after two polls the stream is still there -/
example : (World.pollStreamTimes 3 3 wDrain).out =
      [.item 3 { topic := [0x61] }, .item 3 { topic := [0x62] }, .endStream 3] ∧
    3 ∉ (World.pollStreamTimes 3 3 wDrain).streams ∧ 3 ∈ (World.pollStreamTimes 3 2 wDrain).streams := by decide
/-- a result that had arrived survives the drop (`full_slot_still_delivers`) -/
example : ((({ wRun with slots := [(2, .full (.pkt (.puback { packetId := 1 })))] } : World).apply
    .dropCtx).pollOp 1).out = [.done 1 .ok] := by decide
/-- between the phases of a QoS 2 publish (`resume_after_drop`) -/
example : (({ } : World).resumeOp 1 2 .pubrec (.pkt (.pubrec { packetId := 1 }))).out =
    [.done 1 (.err .contextExited)] :=
  (resume_after_drop {} 1 2 { packetId := 1 } rfl (by decide)).1

end NonVacuity

#print axioms dropCtx_closes
#print axioms dropSlotTx_wakes
#print axioms dropChanTx_wakes
#print axioms dropCtx_wakes
#print axioms closed_slot_completes
#print axioms full_slot_still_delivers
#print axioms start_after_drop
#print axioms fresh_op_after_drop
#print axioms resume_after_drop
#print axioms stream_drains_then_ends
#print axioms stream_ends_after_n_plus_one

end Poster
