/-
  Properties/C11.lean — C11: packet identifiers (and subscription identifiers) are non-zero and unique among
  outstanding operations, for any history.

  `ContextHandle` allocates identifiers with `fetch_update` on one shared atomic counter per kind
  (`World.allocPid` / `World.allocSub`): the counter value is returned and replaced by its successor in the
  cycle 1, 2, …, MAX, 1, … (`nextPid`, `nextSub` in Lemmas/UserAlloc.lean; `iter f k a` is `f` applied `k` times).
  Two allocations can only collide if MAX allocations lie between them.
-/
import PosterModel.Lemmas.UserAlloc
import PosterModel.Lemmas.UserWorld

namespace Poster
open World User

/-- `allocPid` returns the current counter value and advances the shared counter by one `nextPid` step;
    nothing else in the world changes. -/
theorem allocPid_spec (w : World) : w.allocPid = (w.pidCtr, { w with pidCtr := nextPid w.pidCtr }) := rfl

/-- `allocSub` returns the current counter value and advances the shared counter by one `nextSub` step. -/
theorem allocSub_spec (w : World) : w.allocSub = (w.subCtr, { w with subCtr := nextSub w.subCtr }) := rfl

/-- Closed form of the packet-identifier cycle: the `k`-th successor of a counter value `c` in 1..65535 is
    `(c - 1 + k) mod 65535 + 1`. -/
theorem alloc_closed_form (c k : Nat) (h : 1 ≤ c ∧ c ≤ 65535) :
    iter nextPid k c = (c - 1 + k) % 65535 + 1 := nextPid_closed c k h

/-- Starting from 1 (the initial counter), every identifier ever allocated lies in 1..65535, after any number of
    allocations: it is never 0, so `NonZero::try_from(id).unwrap()` in the options builders cannot panic, and it
    always fits the 16-bit field. -/
theorem alloc_nonzero (k : Nat) : 1 ≤ iter nextPid k 1 ∧ iter nextPid k 1 ≤ 65535 := by
  rw [alloc_closed_form 1 k (by omega)]; omega

/-- The same from any counter value in range (the invariant of the counter). -/
theorem alloc_in_range (c k : Nat) (h : 1 ≤ c ∧ c ≤ 65535) : 1 ≤ iter nextPid k c ∧ iter nextPid k c ≤ 65535 := by
  rw [alloc_closed_form c k h]; omega

/-- Any two of fewer than 65535 consecutive allocations differ — also across the wrap-around from 65535 to 1.
    So an operation's identifier is not handed out again while fewer than 65535 identifiers are allocated
    during its lifetime. -/
theorem alloc_unique_window (c i j : Nat) (h : 1 ≤ c ∧ c ≤ 65535) (hij : i < j) (hw : j - i < 65535) :
    iter nextPid i c ≠ iter nextPid j c := by
  rw [alloc_closed_form c i h, alloc_closed_form c j h]; omega

/-- The cycle has period exactly 65535: the allocation 65535 steps later returns the same identifier (so the
    window of `alloc_unique_window` cannot be enlarged). -/
theorem alloc_period (c i : Nat) (h : 1 ≤ c ∧ c ≤ 65535) : iter nextPid (i + 65535) c = iter nextPid i c := by
  rw [alloc_closed_form c _ h, alloc_closed_form c i h]; omega

/-- Closed form of the subscription-identifier cycle (modulus 268435455, the largest variable byte integer). -/
theorem sub_closed_form (c k : Nat) (h : 1 ≤ c ∧ c ≤ 268435455) :
    iter nextSub k c = (c - 1 + k) % 268435455 + 1 := nextSub_closed c k h

/-- Every subscription identifier allocated is in 1..268435455: non-zero (the `unwrap()` cannot panic) and
    encodable as a variable byte integer. -/
theorem sub_nonzero (k : Nat) : 1 ≤ iter nextSub k 1 ∧ iter nextSub k 1 ≤ 268435455 := by
  rw [sub_closed_form 1 k (by omega)]; omega

/-- Any two of fewer than 268435455 consecutive subscription-identifier allocations differ: every `subscribe()`
    call gets its own identifier. -/
theorem sub_unique_window (c i j : Nat) (h : 1 ≤ c ∧ c ≤ 268435455) (hij : i < j) (hw : j - i < 268435455) :
    iter nextSub i c ≠ iter nextSub j c := by
  rw [sub_closed_form c i h, sub_closed_form c j h]; omega

/-- Subscription identifiers repeat exactly at distance 268435455. -/
theorem sub_period (c i : Nat) (h : 1 ≤ c ∧ c ≤ 268435455) : iter nextSub (i + 268435455) c = iter nextSub i c := by
  rw [sub_closed_form c _ h, sub_closed_form c i h]; omega

/-- Allocations from any clones of the handle are `allocPid` steps on the one shared counter: in any sequence of
    worlds in which each next world's counter is the one `allocPid` left (whatever else happened to the world and
    whichever handle or future performed the step), the identifier returned by the `k`-th allocation overall is
    `iter nextPid k 1`. Interleaving cannot produce a duplicate or skip a value. -/
theorem alloc_interleaving_irrelevant (ws : List World)
    (h0 : ∀ h : 0 < ws.length, ws[0].pidCtr = 1)
    (hlink : ∀ k (h : k + 1 < ws.length), ws[k+1].pidCtr = (ws[k].allocPid).2.pidCtr)
    (k : Nat) (hk : k < ws.length) : (ws[k].allocPid).1 = iter nextPid k 1 := by
  induction k with
  | zero => simpa [allocPid, iter] using h0 hk
  | succ k ih =>
    have := ih (by omega)
    rw [iter_succ', ← this]
    have hl := hlink k hk
    simp only [allocPid] at hl ⊢
    rw [hl]; rfl

/-- The same for subscription identifiers. -/
theorem sub_interleaving_irrelevant (ws : List World)
    (h0 : ∀ h : 0 < ws.length, ws[0].subCtr = 1)
    (hlink : ∀ k (h : k + 1 < ws.length), ws[k+1].subCtr = (ws[k].allocSub).2.subCtr)
    (k : Nat) (hk : k < ws.length) : (ws[k].allocSub).1 = iter nextSub k 1 := by
  induction k with
  | zero => simpa [allocSub, iter] using h0 hk
  | succ k ih =>
    have := ih (by omega)
    rw [iter_succ', ← this]
    have hl := hlink k hk
    simp only [allocSub] at hl ⊢
    rw [hl]; rfl

/-- Consequently two allocations `i < j` of one client, fewer than 65535 apart, return different identifiers
    whoever performs them. -/
theorem alloc_interleaved_unique (ws : List World)
    (h0 : ∀ h : 0 < ws.length, ws[0].pidCtr = 1)
    (hlink : ∀ k (h : k + 1 < ws.length), ws[k+1].pidCtr = (ws[k].allocPid).2.pidCtr)
    (i j : Nat) (hij : i < j) (hj : j < ws.length) (hw : j - i < 65535) :
    (ws[i].allocPid).1 ≠ (ws[j].allocPid).1 := by
  rw [alloc_interleaving_irrelevant ws h0 hlink i (by omega), alloc_interleaving_irrelevant ws h0 hlink j hj]
  exact alloc_unique_window 1 i j (by omega) hij hw

/-- A handle future started from whichever clone `h` of the handle runs the same `startOp` on the same shared
    world: the clone plays no role in which identifier is allocated. -/
theorem pollOp_fresh_ignores_handle (w : World) (id h : Nat) (req : Req)
    (hop : w.opSt id = some (.fresh h req)) : w.pollOp id = w.startOp id req := by
  simp [pollOp, hop]

/-- `publish()` with QoS > 0 takes its packet identifier before the packet is built and validated: the counter
    advances by exactly one step — and the subscription counter not at all — even when the request is then refused
    (no topic) or the context is gone. -/
theorem startOp_allocates_before_build_publish (w : World) (id : Nat) (t : PublishTx) (hq : t.qos ≠ 0) :
    (w.startOp id (.publish t)).pidCtr = nextPid w.pidCtr ∧ (w.startOp id (.publish t)).subCtr = w.subCtr := by
  rw [startOp_publish12 w id t hq]
  constructor <;> split <;> first | rfl | (simp <;> rfl)

/-- `subscribe()` takes one packet identifier and one subscription identifier, whatever happens next. -/
theorem startOp_allocates_before_build_subscribe (w : World) (id : Nat) (t : SubscribeTx) :
    (w.startOp id (.subscribe t)).pidCtr = nextPid w.pidCtr ∧
    (w.startOp id (.subscribe t)).subCtr = nextSub w.subCtr := by
  rw [startOp_subscribe]
  by_cases hc : w.hasCtx = true
  · obtain ⟨wk, qr, e⟩ := sendMsg_shape (((w.allocPid.2).allocSub.2).setChan id {})
      (.subscribe (actionId 9 w.pidCtr) w.subCtr
        ({ t with packetId := w.pidCtr, subId := some w.subCtr } : SubscribeTx).encode (2 * id) id) hc
    simp only [e]
    constructor <;> split <;> first | rfl | (simp <;> rfl)
  · have e := sendMsg_none (((w.allocPid.2).allocSub.2).setChan id {})
      (.subscribe (actionId 9 w.pidCtr) w.subCtr
        ({ t with packetId := w.pidCtr, subId := some w.subCtr } : SubscribeTx).encode (2 * id) id)
      (by simpa [setChan, allocPid, allocSub] using hc)
    simp only [e]
    constructor <;> split <;> first | rfl | (simp <;> rfl)

/-- `unsubscribe()` takes one packet identifier, whatever happens next. -/
theorem startOp_allocates_before_build_unsubscribe (w : World) (id : Nat) (t : UnsubscribeTx) :
    (w.startOp id (.unsubscribe t)).pidCtr = nextPid w.pidCtr ∧
    (w.startOp id (.unsubscribe t)).subCtr = w.subCtr := by
  rw [startOp_unsubscribe]
  constructor <;> split <;> first | rfl | (simp <;> rfl)

/-- A QoS 0 publish, a ping and a disconnect carry no identifier and leave both counters alone. -/
theorem startOp_no_allocation (w : World) (id : Nat) (req : Req)
    (hreq : (∃ t, req = .publish t ∧ t.qos = 0) ∨ req = .ping ∨ ∃ t, req = .disconnect t) :
    (w.startOp id req).pidCtr = w.pidCtr ∧ (w.startOp id req).subCtr = w.subCtr := by
  rcases hreq with ⟨t, rfl, hq⟩ | rfl | ⟨t, rfl⟩
  · rw [startOp_publish0 w id t hq]; constructor <;> split <;> simp
  · rw [startOp_ping]; simp
  · rw [startOp_disconnect]; simp

/-- non-vacuity: the cycle really wraps from 65535 to 1 and never yields 0 -/
example : nextPid 65535 = 1 ∧ nextPid 1 = 2 ∧ iter nextPid 65535 1 = 1 ∧ iter nextPid 65534 1 = 65535 := by
  refine ⟨rfl, rfl, ?_, ?_⟩ <;> rw [alloc_closed_form _ _ (by omega)]

example : (World.allocPid { pidCtr := 65535 }).1 = 65535 ∧ (World.allocPid { pidCtr := 65535 }).2.pidCtr = 1 :=
  ⟨rfl, rfl⟩

/-- non-vacuity: a refused subscribe (no filters) still consumes both identifiers -/
example : ((({ hasCtx := true } : World).startOp 0 (.subscribe { packetId := 0 })).pidCtr,
           (({ hasCtx := true } : World).startOp 0 (.subscribe { packetId := 0 })).subCtr) = (2, 2) := by decide

#print axioms allocPid_spec
#print axioms allocSub_spec
#print axioms alloc_closed_form
#print axioms alloc_nonzero
#print axioms alloc_in_range
#print axioms alloc_unique_window
#print axioms alloc_period
#print axioms sub_closed_form
#print axioms sub_nonzero
#print axioms sub_unique_window
#print axioms sub_period
#print axioms alloc_interleaving_irrelevant
#print axioms sub_interleaving_irrelevant
#print axioms alloc_interleaved_unique
#print axioms pollOp_fresh_ignores_handle
#print axioms startOp_allocates_before_build_publish
#print axioms startOp_allocates_before_build_subscribe
#print axioms startOp_allocates_before_build_unsubscribe
#print axioms startOp_no_allocation

end Poster
