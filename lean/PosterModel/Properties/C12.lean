/-
  Properties/C12.lean — the server's Maximum Packet Size is honoured exactly.

  Model: `Ctx.sizeOk` = `validate_packet_size`, `Ctx.handleMsg` = `handle_message`, `Ctx.handleConnack` = `handle_connack`
  (src/client/context.rs). `m.pkt` is the encoded packet of a request (publish, subscribe, unsubscribe, ping, disconnect,
  pubrel, auth), `m.slot` the oneshot on which the caller awaits the outcome.
-/
import PosterModel.Lemmas.CtxPkt

set_option linter.unusedVariables false
set_option linter.unusedSimpArgs false

namespace Poster

/-- **The size check is exact**: a packet passes iff no Maximum Packet Size was announced or its length is at most the
    announced value (a packet of exactly `M` bytes passes, one of `M + 1` does not). -/
theorem sizeOk_iff (c : Ctx) (pkt : Bytes) :
    c.sizeOk pkt = true ↔ c.maxPkt = none ∨ ∃ M, c.maxPkt = some M ∧ pkt.length ≤ M := by
  unfold Ctx.sizeOk
  cases h : c.maxPkt <;> simp

/-- **Too big: refused, cleanly.** A request whose packet exceeds the announced maximum changes nothing in the context —
    no quota slot taken, no subscription stream registered, no pending acknowledgement, nothing queued for
    retransmission —, not one byte is written, the caller receives `MaximumPacketSizeExceeded`, and `run()` goes on.
    Whether the transport would have accepted a write is irrelevant. -/
theorem too_big_refused (c : Ctx) (m : Msg) (wok : Bool) (h : c.sizeOk m.pkt = false) :
    (c.handleMsg m wok).1 = c ∧ writesOf (c.handleMsg m wok).2.1 = [] ∧
    (m.slot, SlotVal.errSize) ∈ sendsOf (c.handleMsg m wok).2.1 ∧ (c.handleMsg m wok).2.2 = .cont := by
  cases m <;> simp only [Msg.pkt] at h <;> simp [Ctx.handleMsg, h, Msg.slot]

/-- **Fits: written in full.** A request whose packet passes the size check is written as it is, in one piece, on a
    transport that accepts the write — the only exception being a QoS>0 PUBLISH refused because the send quota is
    exhausted (property C10), which writes nothing. -/
theorem fits_written_whole (c : Ctx) (m : Msg) (h : c.sizeOk m.pkt = true) :
    (pktType m.pkt = 3 ∧ c.quota = 0 ∧ ∃ aid pkt slot, m = .awaitAck aid pkt slot) ∨
    writesOf (c.handleMsg m true).2.1 = [m.pkt] := by
  cases m with
  | ff pkt slot => right; simp only [Msg.pkt] at h; simp [Ctx.handleMsg, h, Msg.pkt]
  | subscribe aid sid pkt slot chan => right; simp only [Msg.pkt] at h; simp [Ctx.handleMsg, h, Msg.pkt]
  | awaitAck aid pkt slot =>
    simp only [Msg.pkt] at h
    by_cases h3 : pktType pkt = 3
    · by_cases hq : c.quota = 0
      · left; exact ⟨h3, hq, aid, pkt, slot, rfl⟩
      · right; simp [Ctx.handleMsg, h, Msg.pkt, h3, hq]
    · right
      by_cases h6 : pktType pkt = 6 <;> simp [Ctx.handleMsg, h, Msg.pkt, h3, h6]

/-- the same on a transport that refuses the write: the (whole) packet is what was handed to `write`, and `run()` ends with
    the socket error -/
theorem fits_write_attempted (c : Ctx) (m : Msg) (h : c.sizeOk m.pkt = true) :
    (pktType m.pkt = 3 ∧ c.quota = 0 ∧ ∃ aid pkt slot, m = .awaitAck aid pkt slot) ∨
    (writesOf (c.handleMsg m false).2.1 = [m.pkt] ∧ (c.handleMsg m false).2.2 = .exitSocket) := by
  cases m with
  | ff pkt slot => right; simp only [Msg.pkt] at h; simp [Ctx.handleMsg, h, Msg.pkt]
  | subscribe aid sid pkt slot chan => right; simp only [Msg.pkt] at h; simp [Ctx.handleMsg, h, Msg.pkt]
  | awaitAck aid pkt slot =>
    simp only [Msg.pkt] at h
    by_cases h3 : pktType pkt = 3
    · by_cases hq : c.quota = 0
      · left; exact ⟨h3, hq, aid, pkt, slot, rfl⟩
      · right; simp [Ctx.handleMsg, h, Msg.pkt, h3, hq]
    · right
      by_cases h6 : pktType pkt = 6 <;> simp [Ctx.handleMsg, h, Msg.pkt, h3, h6]

/-- **Where the limit comes from.** The limit in force is exactly the Maximum Packet Size of the connection's CONNACK:
    present ⇒ that value, absent ⇒ no limit — whatever an earlier connection of the same context announced (none on a
    fresh context). -/
theorem maxPkt_from_connack (c : Ctx) (k : ConnackRx) :
    (c.handleConnack k).maxPkt = k.maxPacketSize ∧ ({} : Ctx).maxPkt = none := by
  refine ⟨?_, rfl⟩
  unfold Ctx.handleConnack
  cases k.sessionExpiry <;> simp

/-- serving never changes the limit: it is the one of the last CONNACK for the whole connection -/
theorem maxPkt_constant (c : Ctx) (is : List CIn) : (c.serve is).1.maxPkt = c.maxPkt := by
  refine Ctx.serve_inv (fun c' => c'.maxPkt = c.maxPkt) ?_ c is rfl
  intro c' i h
  cases i with
  | msg m wok => simp only [Ctx.stepIn]; rw [(Ctx.handleMsg_frame c' m wok).2.1]; exact h
  | pkt p dead wok => simp only [Ctx.stepIn]; rw [Ctx.handlePkt_maxPkt]; exact h

/-- M = 4: a 5-byte PINGREQ-like packet is refused without a trace, a 4-byte QoS 1 PUBLISH is written whole -/
example :
    let c : Ctx := ({} : Ctx).handleConnack { sessionPresent := false, reason := 0, maxPacketSize := some 4 }
    c.handleMsg (.ff [0xC0, 3, 0, 0, 0] 1) true = (c, [.send 1 .errSize], .cont) ∧
    (c.handleMsg (.awaitAck 5 [0x32, 2, 0, 0] 2) true).2.1 = [.write [0x32, 2, 0, 0]] := by decide

#print axioms sizeOk_iff
#print axioms too_big_refused
#print axioms fits_written_whole
#print axioms fits_write_attempted
#print axioms maxPkt_from_connack
#print axioms maxPkt_constant

end Poster
