/-
  Properties/Reconnect.lean — what `Context::set_up` on a Context that has been connected before must (and must not) reset.

  Round 10 of the seeded changes (DESIGN.md section 12) showed that "the same Context connected a second time" is where
  realistic slips hide: three of them (C02-j, C03-i, C04-j) kept part of the previous connection's framer. The script-level
  statement is C03World's (`decoded_frames_are_reference_frames` is per connection); this file states the step itself, for
  EVERY world — whatever the previous connection left in the framer and at the writer.
-/
import PosterModel.World
namespace Poster
open Poster.Framing

/-- **A connection set up on the same Context starts with a fresh framer and a fresh transport**, whatever the previous
    connection left behind (bytes of an unfinished packet, bytes behind the last served packet, a state tag, a count of
    written bytes, a partial packet at the writer) — and keeps the session, the request queue, the operations and the
    handles. Seeded changes C02-j, C03-i, C04-j (round 10) are violations of exactly this. -/
theorem setup_starts_a_fresh_connection (w : World) (ht : w.task = .none) (hd : w.ctxDropped = false) (hc : w.hasCtx = true) :
    (w.apply .setup).rx = {} ∧ (w.apply .setup).reader = [] ∧ (w.apply .setup).readerReg = false ∧
    (w.apply .setup).written = 0 ∧ (w.apply .setup).wirePend = [] ∧
    (w.apply .setup).c = w.c ∧ (w.apply .setup).queue = w.queue ∧ (w.apply .setup).ops = w.ops ∧
    (w.apply .setup).handles = w.handles ∧ (w.apply .setup).bad = w.bad := by
  simp only [World.apply, ht, hd, hc, ne_eq, not_true_eq_false, Bool.false_eq_true, or_self, if_false, Bool.not_true]
  unfold World.flushRaw
  split <;> simp [World.emit, *]

/-- hence the first thing the new connection reads is framed exactly as on a brand-new Context: the result of the framer's
    first poll depends on the new transport's reads alone -/
theorem first_read_of_a_new_connection_ignores_the_old_one (w w' : World)
    (ht : w.task = .none) (hd : w.ctxDropped = false) (hc : w.hasCtx = true)
    (ht' : w'.task = .none) (hd' : w'.ctxDropped = false) (hc' : w'.hasCtx = true) (rd : List ReadEv) :
    pollNext (w.apply .setup).rx rd = pollNext (w'.apply .setup).rx rd ∧
    pollNext (w.apply .setup).rx rd = pollNext {} rd := by
  rw [(setup_starts_a_fresh_connection w ht hd hc).1, (setup_starts_a_fresh_connection w' ht' hd' hc').1]
  exact ⟨rfl, rfl⟩

end Poster
#print axioms Poster.setup_starts_a_fresh_connection
#print axioms Poster.first_read_of_a_new_connection_ignores_the_old_one
