/-
  Properties/C06World.lean — C06 at the level of whole scripts: where a PUBREL comes from, and what the `DONE` line of
  a publish reports.

  C06: "Every publish() that is not refused locally (size limit, send quota) puts exactly one PUBLISH on the connection,
  with DUP=0, the requested QoS/retain/topic/payload and (for QoS>0) a packet identifier; QoS 0 completes once written,
  QoS 1 completes on its PUBACK, and QoS 2 sends exactly one PUBREL with the same identifier only after a PUBREC with
  reason < 0x80 and completes on the PUBCOMP. A PUBACK, PUBREC or PUBCOMP reason >= 0x80 makes publish() fail with the
  matching error carrying that reason, every smaller reason is success, and after a failing PUBREC no PUBREL is ever
  sent."

  Vocabulary (Lemmas/WorldRet.lean)
    `World.W7.During cfg w`      `w` is a state the client is in at some moment of the execution of a script under `cfg`
    `World.W7.Micro w w'`        one elementary transition: one poll of one task, one script event, …
    `World.W7.publishMsg t id pid`  the message `publish()` queues at the first poll of its future (request `t`)
    `World.W7.pubrelMsg pid s`   the message `publish()` queues for its PUBREL: `awaitAck (actionId 7 pid) (ackBytes 0x62 pid) s`
    `World.W7.PubrecSeen cfg w pid` at an earlier moment `w0` of the execution that led to `w` (`During cfg w0`,
                              `Reaches w0 w`), the future of a QoS 2 publish waiting for its PUBREC found in its oneshot a
                              PUBREC with reason < 0x80 and packet identifier `pid`
    `World.W7.Reaches a b`    `b` is reached from `a` by elementary transitions
    `World.W7.PubQos out`        every publish request logged in the transcript `out` has QoS 0, 1 or 2 (the model's `qos`
                              field is a natural number; the library's `QoS` enum has only these three values)
    `World.W7.ResumeRes k v ctx r`  what a future waiting for `k` reports when resumed with the oneshot value `v`
-/
import PosterModel.Lemmas.WorldRet
import PosterModel.Lemmas.WorldEx

set_option linter.unusedVariables false
set_option linter.unusedSimpArgs false

namespace Poster
open Framing World World.W7

/-! ## 5. a PUBREL only after a successful PUBREC, for every script -/

/-- **Every PUBREL the context holds stems from a successful PUBREC — at every moment of every execution.** At any
    moment `w` of an execution whose logged publish requests have a QoS of the `QoS` enum: every queued message of
    packet type 6 is the PUBREL message `publish()` builds (`pubrelMsg pid s`), every entry of the retransmit queue of
    packet type 6 is that PUBREL stored under its PUBCOMP action identifier, and in both cases, at an earlier moment
    of the same execution (one from which `w` is reached), the future of a QoS 2 publish that was waiting for its PUBREC
    found in its oneshot a PUBREC with reason < 0x80 carrying that packet identifier `pid` (`PubrecSeen`). -/
theorem pubrel_held_only_after_successful_pubrec (cfg : Cfg) (w : World) (hd : During cfg w) (hq : PubQos w.out) :
    (∀ m ∈ w.queue, pktType m.pkt = 6 → ∃ pid s, m = pubrelMsg pid s ∧ PubrecSeen cfg w pid) ∧
    (∀ x ∈ w.c.retx, pktType x.2 = 6 → ∃ pid, x = (actionId 7 pid, ackBytes 0x62 pid) ∧ PubrecSeen cfg w pid) :=
  ⟨(during_pubrelSeen hd hq).queue, (during_pubrelSeen hd hq).retx⟩

/-- the same for the world a script ends in, the hypothesis being on the script: its publish requests have QoS ≤ 2 -/
theorem pubrel_held_only_after_successful_pubrec_script (cfg : Cfg) (evs : List Ev)
    (hq : ∀ id h t, Ev.op id h (.publish t) ∈ evs → t.qos ≤ 2) :
    let w := evs.foldl World.step { cfg := cfg }
    (∀ m ∈ w.queue, pktType m.pkt = 6 → ∃ pid s, m = pubrelMsg pid s ∧ PubrecSeen cfg w pid) ∧
    (∀ x ∈ w.c.retx, pktType x.2 = 6 → ∃ pid, x = (actionId 7 pid, ackBytes 0x62 pid) ∧ PubrecSeen cfg w pid) :=
  pubrel_held_only_after_successful_pubrec cfg _ (during_run cfg evs) (pubQos_of_script cfg evs hq).2

/-- **A PUBREL enters the message queue only through a QoS 2 publish future that received a successful PUBREC.** At
    any moment `w` of such an execution, for every elementary transition `w → w'`: a message of packet type 6 queued in
    `w'` was already queued in `w`, or the transition is the poll of the future of an operation `id` that was waiting
    for its PUBREC on the oneshot `s`, that oneshot held a PUBREC `a` with reason < 0x80, and the message is exactly
    the PUBREL with `a`'s packet identifier, to be acknowledged (PUBCOMP) on the oneshot `s + 1`. -/
theorem pubrel_enters_queue_only_after_successful_pubrec (cfg : Cfg) (w w' : World) (hd : During cfg w)
    (hq : PubQos w.out) (hm : Micro w w') :
    ∀ m ∈ w'.queue, pktType m.pkt = 6 → m ∈ w.queue ∨
      ∃ id s a, w' = w.pollTask (.op id) ∧ w.opSt id = some (.wait s .pubrec) ∧
        w.slot s = some (.full (.pkt (.pubrec a))) ∧ a.reason < 128 ∧ m = pubrelMsg a.packetId (s + 1) :=
  pubrel_queue_origin hm (qosOk_of_logged (during_freshLogged hd) hq)

/-- **The retransmit queue gets its PUBREL entries from queued PUBREL messages only.** In any world, after a poll of
    the context task: the queued messages are among those queued before, and an entry of the retransmit queue of
    packet type 6 was there before the poll or is the action identifier and the bytes, unchanged, of a message that
    was queued when the poll started. -/
theorem pubrel_reaches_retransmit_queue_only_from_queue (w : World) :
    (∀ m ∈ w.pollCtx.queue, m ∈ w.queue) ∧
    ∀ x ∈ w.pollCtx.c.retx, pktType x.2 = 6 → x ∈ w.c.retx ∨ ∃ s, Msg.awaitAck x.1 x.2 s ∈ w.queue :=
  pollCtx_retx_origin w

/-- **The context never originates a PUBREL.** In every history the serving loop goes through (`Ctx.serve`; by
    `world_poll_is_serve` every poll of `run()` is one, its requests being the messages popped from the queue): a
    written packet of type 6 is the packet, as given, of the request handled at that point — never something
    `handle_packet` produced. -/
theorem loop_writes_pubrel_only_for_a_queued_pubrel (c : Ctx) (is : List CIn) :
    ∀ o ∈ (c.serve is).2, ∀ b ∈ writesOf o.effs, pktType b = 6 → ∃ m effs fl, o = .msg m effs fl ∧ b = m.pkt := by
  intro o ho b hb h6
  obtain ⟨c', i, _, rfl⟩ := Ctx.serve_obs c is o ho
  cases i with
  | msg m wok =>
    refine ⟨m, _, _, rfl, ?_⟩
    have hb' : b ∈ writesOf (c'.handleMsg m wok).2.1 := hb
    rcases handleMsg_writes c' m wok with e | e <;> rw [e] at hb' <;> simp at hb'
    exact hb'
  | pkt p dead wok =>
    have hb' : b ∈ writesOf (c'.handlePkt (fun ch => ch ∉ dead) p wok).2.1 := hb
    exact absurd h6 (handlePkt_never_writes_pubrel c' _ p wok b hb')

/-- **What `run()` re-sends when a session is resumed is the retransmit queue**: every packet re-sent by the prelude
    of `run()` is the bytes of an entry of the retransmit queue (so, by `pubrel_held_only_after_successful_pubrec`, a
    re-sent PUBREL is one built after a successful PUBREC). -/
theorem resend_only_from_retransmit_queue (c : Ctx) : ∀ b ∈ c.resume.2.2, ∃ x ∈ c.retx, b = x.2 := by
  intro b hb
  unfold Ctx.resume at hb
  split at hb
  · simp at hb
  · rename_i el _
    by_cases hx : c.sessionExpired el = true
    · simp [hx, Ctx.resetSession] at hb
    · simp only [hx, Bool.false_eq_true, ↓reduceIte, List.mem_map] at hb
      obtain ⟨x, hx1, hx2⟩ := hb
      exact ⟨x, hx1, hx2.symm⟩

/-- **After a failing PUBREC no PUBREL is sent.** In any world: if a poll of the future of `id` logs
    `DONE id (PubrecError reason …)`, then that future was waiting for its PUBREC (it had not sent a PUBREL: that is
    done by the transition from "waiting for PUBREC" to "waiting for PUBCOMP" only), its oneshot held a PUBREC `a`
    with `a.reason ≥ 0x80` whose reason, reason string and user properties are the ones reported, the poll queues
    nothing, and the operation leaves the table — so it is never polled into sending anything later. -/
theorem failing_pubrec_queues_no_pubrel (w : World) (id reason : Nat) (rs : Option Bytes) (up : List (Bytes × Bytes))
    (h : (w.pollOp id).out = w.out ++ [.done id (.errAck .pubrecError reason rs up)]) :
    ∃ s a, w.opSt id = some (.wait s .pubrec) ∧ w.slot s = some (.full (.pkt (.pubrec a))) ∧ a.reason ≥ 128 ∧
      reason = a.reason ∧ rs = a.reasonString ∧ up = a.userProps ∧
      (w.pollOp id).queue = w.queue ∧ (w.pollOp id).ops = eraseFirst id w.ops := by
  rcases pollOp_done_cases w id _ h with ⟨hd, req, _, h1 | ⟨h1, _⟩⟩ | ⟨s, k, hop, ⟨_, h1⟩ | ⟨v, hs, he, hr⟩⟩
  · cases h1
  · cases h1
  · cases h1
  · generalize w.hasCtx = b0 at hr
    cases hr with
    | pubrecErr a b ha =>
      refine ⟨s, a, hop, hs, ha, rfl, rfl, rfl, ?_, ?_⟩
      · rw [he]; exact ((pubrec_outcome w id s a).1 ha).2
      · rw [he]; exact (resumeOp_removes_op w id s).2.2.1 a ha

/-- **…for every script.** If the transcript of a script contains `DONE id (PubrecError reason …)`, that line was
    logged at a moment `w0` of the execution (transcript so far: `pre`) by a poll of the future of `id`, which was
    waiting for its PUBREC and found a PUBREC `a` with `a.reason = reason ≥ 0x80` in its oneshot; that poll queued
    nothing — no PUBREL — and removed the operation from the table. -/
theorem failing_pubrec_in_transcript (cfg : Cfg) (evs : List Ev) (pre post : List Obs) (id reason : Nat)
    (rs : Option Bytes) (up : List (Bytes × Bytes))
    (h : World.run cfg evs = pre ++ .done id (.errAck .pubrecError reason rs up) :: post) :
    ∃ w0 s a, During cfg w0 ∧ w0.out = pre ∧ w0.opSt id = some (.wait s .pubrec) ∧
      w0.slot s = some (.full (.pkt (.pubrec a))) ∧ a.reason ≥ 128 ∧ reason = a.reason ∧ rs = a.reasonString ∧
      up = a.userProps ∧ (w0.pollOp id).queue = w0.queue ∧ (w0.pollOp id).ops = eraseFirst id w0.ops ∧
      Reaches (w0.pollOp id) (evs.foldl World.step { cfg := cfg }).finishScript := by
  obtain ⟨w0, hd, ho, hp, hr⟩ := during_done_origin (during_script cfg evs).1 h
  obtain ⟨s, a, h1, h2, h3, h4, h5, h6, h7, h8⟩ :=
    failing_pubrec_queues_no_pubrel w0 id reason rs up (by rw [ho, hp])
  exact ⟨w0, s, a, hd, hp, h1, h2, h3, h4, h5, h6, h7, h8, hr⟩

/-! ## 6. what a `DONE` line reports -/

/-- **Every `DONE` line of a transcript has a documented cause.** If the transcript of a script is
    `pre ++ DONE id r :: post`, there was a moment `w0` of the execution with transcript `pre` at which the future of
    `id` was polled, that poll logged exactly this line, the end of the script is reached from there, and: the future had not been polled before and its request
    cannot be encoded (codec error) or the context is gone (`ContextExited`); or it was waiting on the oneshot `s` for
    `k` and the oneshot was closed (`ContextExited`) or held a value `v` and `r` is what `ResumeRes` says for `k` and
    `v` (see `publish_result_mapping`). -/
theorem done_has_a_documented_cause (cfg : Cfg) (evs : List Ev) (pre post : List Obs) (id : Nat) (r : DoneRes)
    (h : World.run cfg evs = pre ++ .done id r :: post) :
    ∃ w0, During cfg w0 ∧ w0.out = pre ∧ (w0.pollOp id).out = pre ++ [.done id r] ∧
      Reaches (w0.pollOp id) (evs.foldl World.step { cfg := cfg }).finishScript ∧
      ((∃ hd req, w0.opSt id = some (.fresh hd req) ∧
          (r = .err .codecError ∨ (r = .err .contextExited ∧ w0.hasCtx = false))) ∨
       (∃ s k, w0.opSt id = some (.wait s k) ∧
          ((w0.slot s = some .closed ∧ r = .err .contextExited) ∨
           ∃ v, w0.slot s = some (.full v) ∧ w0.pollOp id = w0.resumeOp id s k v ∧ ResumeRes k v w0.hasCtx r))) := by
  obtain ⟨w0, hd, ho, hp, hr⟩ := during_done_origin (during_script cfg evs).1 h
  exact ⟨w0, hd, hp, ho, hr, pollOp_done_cases w0 id r (by rw [ho, hp])⟩

/-- **The outcome of a publish.** A publish future waits for "written" (`ff`, QoS 0), its PUBACK (QoS 1), or its
    PUBREC and then its PUBCOMP (QoS 2). Whatever it reports when resumed with the value `v` of its oneshot is one of:
    * success — and then `v` is "written" (QoS 0), or a PUBACK resp. PUBCOMP with reason < 0x80: a QoS 2 publish
      never succeeds on its PUBREC, only on its PUBCOMP;
    * `PubackError` / `PubrecError` / `PubcompError` carrying the reason (≥ 0x80), reason string and user properties of
      the PUBACK / PUBREC / PUBCOMP in its oneshot — the error kind matching the acknowledgement;
    * a local refusal: `QuotaExceeded`, `MaximumPacketSizeExceeded`; or `ContextExited` (QoS 2, PUBREC fine, but the
      context is gone so the PUBREL cannot be sent);
    * `InternalError`, only if a oneshot of a QoS > 0 publish received "written" — which never happens when operation
      ids are not reused (`no_internal_error`). -/
theorem publish_result_mapping {k : Wait} {v : SlotVal} {b : Bool} {r : DoneRes} (h : ResumeRes k v b r)
    (hk : k = .ff ∨ k = .puback ∨ k = .pubrec ∨ k = .pubcomp) :
    (r = .ok ∧ ((k = .ff ∧ v = .unit) ∨ ∃ a : AckRx, a.reason < 128 ∧
        ((k = .puback ∧ v = .pkt (.puback a)) ∨ (k = .pubcomp ∧ v = .pkt (.pubcomp a))))) ∨
    (∃ a : AckRx, a.reason ≥ 128 ∧
      ((k = .puback ∧ v = .pkt (.puback a) ∧ r = .errAck .pubackError a.reason a.reasonString a.userProps) ∨
       (k = .pubrec ∧ v = .pkt (.pubrec a) ∧ r = .errAck .pubrecError a.reason a.reasonString a.userProps) ∨
       (k = .pubcomp ∧ v = .pkt (.pubcomp a) ∧ r = .errAck .pubcompError a.reason a.reasonString a.userProps))) ∨
    (r = .err .quotaExceeded ∧ v = .errQuota) ∨ (r = .err .maximumPacketSizeExceeded ∧ v = .errSize) ∨
    (r = .err .contextExited ∧ b = false ∧ ∃ a : AckRx, a.reason < 128 ∧ k = .pubrec ∧ v = .pkt (.pubrec a)) ∨
    (r = .err .internalError ∧ k ≠ .ff ∧ v = .unit) := by
  cases h with
  | tooLarge k b => exact Or.inr (Or.inr (Or.inr (Or.inl ⟨rfl, rfl⟩)))
  | quota k b => exact Or.inr (Or.inr (Or.inl ⟨rfl, rfl⟩))
  | written b => exact Or.inl ⟨rfl, Or.inl ⟨rfl, rfl⟩⟩
  | internal k b hne => exact Or.inr (Or.inr (Or.inr (Or.inr (Or.inr ⟨rfl, hne, rfl⟩))))
  | pubackOk a b ha => exact Or.inl ⟨rfl, Or.inr ⟨a, ha, Or.inl ⟨rfl, rfl⟩⟩⟩
  | pubackErr a b ha => exact Or.inr (Or.inl ⟨a, ha, Or.inl ⟨rfl, rfl, rfl⟩⟩)
  | pubrecErr a b ha => exact Or.inr (Or.inl ⟨a, ha, Or.inr (Or.inl ⟨rfl, rfl, rfl⟩)⟩)
  | pubrecNoCtx a ha => exact Or.inr (Or.inr (Or.inr (Or.inr (Or.inl ⟨rfl, rfl, a, ha, rfl, rfl⟩))))
  | pubcompOk a b ha => exact Or.inl ⟨rfl, Or.inr ⟨a, ha, Or.inr ⟨rfl, rfl⟩⟩⟩
  | pubcompErr a b ha => exact Or.inr (Or.inl ⟨a, ha, Or.inr (Or.inr ⟨rfl, rfl, rfl⟩)⟩)
  | suback a b => rcases hk with h | h | h | h <;> cases h
  | unsuback a b => rcases hk with h | h | h | h <;> cases h
  | pingresp b => rcases hk with h | h | h | h <;> cases h

/-- **`InternalError` is never reported when operation ids are not reused.** For every script that issues every
    operation id at most once, no `DONE id InternalError` line appears in the transcript: "written" only ever reaches
    the oneshot of a fire-and-forget operation (`during_unitOk`), so the outcomes of a publish are exactly success, the
    acknowledgement errors, `QuotaExceeded`, `MaximumPacketSizeExceeded`, `ContextExited` and a codec error
    (`done_has_a_documented_cause`, `publish_result_mapping`). -/
theorem no_internal_error (cfg : Cfg) (evs : List Ev) (hn : (opIds evs).Nodup) (id : Nat) :
    Obs.done id (.err .internalError) ∉ World.run cfg evs := by
  intro hmem
  obtain ⟨pre, post, h⟩ := List.append_of_mem hmem
  obtain ⟨w0, hd, ho, hp, _⟩ := during_done_origin (during_script cfg evs).1 h
  have hn0 : (loggedIds w0.out).Nodup := by
    have := loggedIds_nodup_of_script cfg evs hn
    rw [h, ← hp, loggedIds_append] at this
    exact (List.nodup_append.mp this).1
  have hu := during_unitOk hd hn0
  rcases pollOp_done_cases w0 id _ (by rw [ho, hp]) with ⟨_, _, _, h1 | ⟨h1, _⟩⟩ | ⟨s, k, hop, ⟨_, h1⟩ | ⟨v, hs, _, hr⟩⟩
  · cases h1
  · cases h1
  · cases h1
  · generalize w0.hasCtx = b0 at hr
    cases hr with
    | internal k b hne => exact hne (hu id s k (mem_of_opSt hop) hs)

/-- the kinds a publish future waits for: a valid QoS 0 publish waits for "written", QoS 1 for its PUBACK, QoS 2 for
    its PUBREC — and after a successful PUBREC for its PUBCOMP (`pubrec_outcome`) -/
theorem publish_future_kinds (w : World) (id : Nat) (t : PublishTx) (hc : w.hasCtx = true) :
    (t.valid = true → t.qos = 0 → (w.startOp id (.publish t)).opSt id = some (.wait (2 * id) .ff)) ∧
    (({ t with packetId := some w.pidCtr } : PublishTx).valid = true → t.qos = 1 →
      (w.startOp id (.publish t)).opSt id = some (.wait (2 * id) .puback)) ∧
    (({ t with packetId := some w.pidCtr } : PublishTx).valid = true → t.qos = 2 →
      (w.startOp id (.publish t)).opSt id = some (.wait (2 * id) .pubrec)) := by
  refine ⟨fun hv hq => (startOp_publish_qos0 w id t hv hq hc).2.2.1, fun hv hq => ?_, fun hv hq => ?_⟩
  · have := (startOp_publish_qos12 w id t (Or.inl hq) hv hc).2.1
    simpa [hq] using this
  · have := (startOp_publish_qos12 w id t (Or.inr hq) hv hc).2.1
    simpa [hq] using this

/-! ## 7. DUP = 0 on the first transmission; one message per publish, handled at most once -/

/-- **A valid publish queues exactly one message: its PUBLISH, first transmission.** First poll of the future of a
    publish whose request has the DUP flag clear (`publish()` never sets it) and a QoS of the enum, the context being
    alive: exactly one message is appended to the queue; its packet is the encoded request — for QoS > 0 with the
    packet identifier just taken from the counter — of packet type 3 with DUP = 0; QoS 0 is fire-and-forget, QoS 1 / 2
    registers for `PUBACK pid` / `PUBREC pid`. -/
theorem publish_queues_exactly_one_first_transmission (w : World) (id : Nat) (t : PublishTx) (hc : w.hasCtx = true)
    (hd : t.dup = false) (hq : t.qos ≤ 2) :
    (t.qos = 0 → t.valid = true →
      (w.startOp id (.publish t)).queue = w.queue ++ [.ff t.encode (2 * id)] ∧
      DupClear t.encode ∧ pktType t.encode = 3) ∧
    (t.qos ≠ 0 → ({ t with packetId := some w.pidCtr } : PublishTx).valid = true →
      (w.startOp id (.publish t)).queue = w.queue ++
        [.awaitAck (actionId (if t.qos = 1 then 4 else 5) w.pidCtr)
          ({ t with packetId := some w.pidCtr } : PublishTx).encode (2 * id)] ∧
      DupClear ({ t with packetId := some w.pidCtr } : PublishTx).encode ∧
      pktType ({ t with packetId := some w.pidCtr } : PublishTx).encode = 3) := by
  refine ⟨fun h0 hv => ⟨(startOp_publish_qos0 w id t hv h0 hc).1, dupClear_encode t hd hq⟩, fun h0 hv => ?_⟩
  exact ⟨(startOp_publish_qos12 w id t (by omega) hv hc).1,
    dupClear_encode ({ t with packetId := some w.pidCtr } : PublishTx) hd hq⟩

/-- **One PUBLISH per publish: a PUBLISH enters the message queue only at the first poll of a publish future, and it
    is that publish's own packet.** For every elementary transition `w → w'` (any world): a message of packet type 3
    queued in `w'` was already queued in `w`, or the transition is the first poll of the future of a publish operation
    `id` with request `t`, the message is `publishMsg t id w.pidCtr` — the encoded request (requested QoS, retain, topic,
    payload, properties), for QoS > 0 with the packet identifier just taken from the counter and registered for the
    PUBACK / PUBREC with that identifier — and afterwards the future waits on its oneshot: it is never "first polled"
    again, so it never queues a second PUBLISH (a resumed future queues nothing but a PUBREL,
    `pubrel_enters_queue_only_after_successful_pubrec`). -/
theorem publish_enters_queue_only_at_first_poll {w w' : World} (hm : Micro w w') :
    ∀ m ∈ w'.queue, pktType m.pkt = 3 → m ∈ w.queue ∨
      ∃ id h t, w' = w.pollTask (.op id) ∧ w.opSt id = some (.fresh h (.publish t)) ∧
        m = publishMsg t id w.pidCtr ∧ ∃ k, w'.opSt id = some (.wait (2 * id) k) :=
  publish_queue_origin hm

/-- **Every queued PUBLISH has DUP = 0, at every moment of every execution** whose logged publish requests have a QoS
    of the enum and the DUP flag clear. Since the context writes a queued packet exactly as given
    (`handleMsg_writes`), what `run()` writes for a publish request is a first transmission. -/
theorem queued_publish_has_dup0 (cfg : Cfg) (w : World) (hd : During cfg w) (hq : PubPlain w.out) :
    ∀ m ∈ w.queue, pktType m.pkt = 3 → DupClear m.pkt :=
  during_firstTx hd hq

/-- the same for the world a script ends in, the hypothesis being on the script -/
theorem queued_publish_has_dup0_script (cfg : Cfg) (evs : List Ev)
    (hq : ∀ id h t, Ev.op id h (.publish t) ∈ evs → t.qos ≤ 2 ∧ t.dup = false) :
    ∀ m ∈ (evs.foldl World.step { cfg := cfg }).queue, pktType m.pkt = 3 → DupClear m.pkt :=
  during_firstTx (during_run cfg evs) (pubPlain_of_script cfg evs hq)

/-- **A queued message is handled at most once, and written at most once, as given.** An iteration of the loop that
    goes on either pops the head of the queue — the message it handles — or leaves the queue alone; and whatever the
    message and the outcome, the handler writes nothing or exactly the message's packet. -/
theorem message_handled_at_most_once {w w1 : World} (h : RunCont w w1) :
    ((∃ m, w.queue = m :: w1.queue) ∨ w1.queue = w.queue) ∧
    ∀ m wok, writesOf (w.c.handleMsg m wok).2.1 = [] ∨ writesOf (w.c.handleMsg m wok).2.1 = [m.pkt] :=
  ⟨runCont_queue h, fun m wok => handleMsg_writes w.c m wok⟩

/-- **DUP is set on the retransmission copy only.** When an accepted PUBLISH is written, the bytes written are the
    packet as queued, and the copy kept in the retransmit queue is that packet with the DUP flag set. -/
theorem retransmission_copy_has_dup_set (c : Ctx) (aid : Nat) (pkt : Bytes) (slot : Nat)
    (hs : c.sizeOk pkt = true) (hq : c.quota ≠ 0) (ht : pktType pkt = 3) :
    writesOf (c.handleMsg (.awaitAck aid pkt slot) true).2.1 = [pkt] ∧
    (c.handleMsg (.awaitAck aid pkt slot) true).1.retx = c.retx ++ [(aid, setDup pkt)] ∧ DupSet (setDup pkt) := by
  obtain ⟨h1, h2⟩ := publish_written_once_dup0 c aid pkt slot hs hq ht
  refine ⟨h2, by rw [h1], dupSet_setDup pkt ?_⟩
  intro e; rw [e] at ht; simp [pktType] at ht

/-! ## non-vacuity -/
section NonVacuity

/-- a script with a QoS 2 publish: its hypotheses hold, and the world it ends in (the PUBLISH is queued, the context has
    not been started) is a moment of an execution -/
example :
    let evs : List Ev := [.setup, .op 3 0 (.publish { qos := 2, topic := some [97] })]
    (∀ id h t, Ev.op id h (.publish t) ∈ evs → t.qos ≤ 2) ∧
    (evs.foldl World.step {}).queue =
      [.awaitAck (actionId 5 1) ({ qos := 2, topic := some [97], packetId := some 1 } : PublishTx).encode 6] := by
  refine ⟨?_, by decide⟩
  intro id h t hm
  simp only [List.mem_cons, List.not_mem_nil, or_false, reduceCtorEq, false_or, Ev.op.injEq, Req.publish.injEq] at hm
  rw [hm.2.2]; decide

/-- the transition of `pubrel_enters_queue_only_after_successful_pubrec` exists: a QoS 2 publish future waiting for
    its PUBREC on oneshot 6 finds PUBREC(packet identifier 1, reason 0) there; polled, it queues exactly
    `pubrelMsg 1 7` — and with reason 0x80 it queues nothing and reports `PubrecError 0x80` -/
example :
    let w : World := { hasCtx := true, ops := [(3, .wait 6 .pubrec)],
                       slots := [(6, .full (.pkt (.pubrec { packetId := 1 })))] }
    Micro w (w.pollTask (.op 3)) ∧ (w.pollTask (.op 3)).queue = [pubrelMsg 1 7] ∧
    pktType (pubrelMsg 1 7).pkt = 6 := by
  exact ⟨.user _ _ (by decide), by decide, by decide⟩

example :
    let w : World := { hasCtx := true, ops := [(3, .wait 6 .pubrec)],
                       slots := [(6, .full (.pkt (.pubrec { packetId := 1, reason := 0x80 })))] }
    (w.pollOp 3).out = w.out ++ [.done 3 (.errAck .pubrecError 0x80 none [])] ∧ (w.pollOp 3).queue = [] := by decide

/-- a transcript with a `DONE` line, as required by `done_has_a_documented_cause` (the context was dropped: the
    publish fails with `ContextExited`) -/
example :
    World.run {} [.setup, .dropCtx, .op 1 0 (.publish { qos := 1, topic := some [97] })] =
      [.ev .setup, .ev .dropCtx, .ev (.op 1 0 (.publish { qos := 1, topic := some [97] }))] ++
        .done 1 (.err .contextExited) :: [] := by decide

/-- `ResumeRes` is inhabited for a publish: a PUBACK with reason 0x97 makes the QoS 1 publish fail with that reason -/
example : ResumeRes .puback (.pkt (.puback { packetId := 1, reason := 0x97 })) true
    (.errAck .pubackError 0x97 none []) := .pubackErr { packetId := 1, reason := 0x97 } true (by decide)

/-- the history theorem applies to a non-trivial history: a queued PUBREL handled by the loop is written as given -/
example :
    let c : Ctx := {}
    (c.serve [.msg (pubrelMsg 1 7) true]).2.flatMap (fun o => writesOf o.effs) = [ackBytes 0x62 1] := by decide

/-- the first poll of a QoS 1 publish: one message, DUP = 0 -/
example :
    let t : PublishTx := { qos := 1, topic := some [97], retain := true }
    let w : World := { hasCtx := true }
    t.dup = false ∧ t.qos ≤ 2 ∧ ({ t with packetId := some w.pidCtr } : PublishTx).valid = true ∧
    (w.startOp 3 (.publish t)).queue.length = 1 := by decide

/-- a script satisfying the hypothesis of `queued_publish_has_dup0_script`, with a PUBLISH queued at the end -/
example :
    let evs : List Ev := [.setup, .op 3 0 (.publish { qos := 1, topic := some [97] })]
    (∀ id h t, Ev.op id h (.publish t) ∈ evs → t.qos ≤ 2 ∧ t.dup = false) ∧
    ((evs.foldl World.step {}).queue.map fun m => pktType m.pkt) = [3] := by
  refine ⟨?_, by decide⟩
  intro id h t hm
  simp only [List.mem_cons, List.not_mem_nil, or_false, reduceCtorEq, false_or, Ev.op.injEq, Req.publish.injEq] at hm
  rw [hm.2.2]; decide

/-- the transition of `publish_enters_queue_only_at_first_poll` exists: the first poll of a QoS 2 publish future queues
    exactly `publishMsg` of its request -/
example :
    let t : PublishTx := { qos := 2, topic := some [97] }
    let w : World := { hasCtx := true, ops := [(3, .fresh 0 (.publish t))] }
    Micro w (w.pollTask (.op 3)) ∧ (w.pollTask (.op 3)).queue = [publishMsg t 3 w.pidCtr] ∧
    pktType (publishMsg t 3 w.pidCtr).pkt = 3 := by
  exact ⟨.user _ _ (by decide), by decide, by decide⟩

/-- a script satisfying the hypothesis of `no_internal_error` -/
example : (opIds [Ev.setup, .dropCtx, .op 1 0 (.publish { qos := 1, topic := some [97] })]).Nodup := by decide

end NonVacuity

#print axioms pubrel_held_only_after_successful_pubrec
#print axioms pubrel_held_only_after_successful_pubrec_script
#print axioms pubrel_enters_queue_only_after_successful_pubrec
#print axioms pubrel_reaches_retransmit_queue_only_from_queue
#print axioms loop_writes_pubrel_only_for_a_queued_pubrel
#print axioms resend_only_from_retransmit_queue
#print axioms failing_pubrec_queues_no_pubrel
#print axioms failing_pubrec_in_transcript
#print axioms done_has_a_documented_cause
#print axioms publish_result_mapping
#print axioms no_internal_error
#print axioms publish_future_kinds
#print axioms publish_queues_exactly_one_first_transmission
#print axioms publish_enters_queue_only_at_first_poll
#print axioms queued_publish_has_dup0
#print axioms queued_publish_has_dup0_script
#print axioms message_handled_at_most_once
#print axioms retransmission_copy_has_dup_set

end Poster
