/-
  Properties/C07.lean — C07: inbound messages reach exactly their subscription's stream(s), in order, intact.

  The context keeps `subs : List (subscription identifier × channel)`. A SUBSCRIBE registers its channel when it is
  written (`handleMsg`); an inbound PUBLISH is pushed, unchanged, into the channel registered under each
  subscription identifier it carries (`Ctx.dispatch`); the user's stream pops its channel in FIFO order
  (`World.deliver` / `World.pollStream`).
-/
import PosterModel.Lemmas.UserCtx

namespace Poster
open World User

/-! ## dispatch -/

/-- The dispatch loop, one subscription identifier at a time: an identifier nobody is registered under is skipped;
    if the first entry registered under it has a live receiver the message `p` itself is delivered there and the
    table is unchanged; if its receiver is gone that entry (only) is removed and its sender dropped. The rest of
    the identifiers are then dispatched against the *current* table. -/
theorem dispatch_step (alive : Nat → Bool) (p : PublishRx) (subs : List (Nat × Nat)) :
    Ctx.dispatch alive p [] subs = (subs, []) ∧
    (∀ sid rest, lookupFirst sid subs = none →
      Ctx.dispatch alive p (sid :: rest) subs = Ctx.dispatch alive p rest subs) ∧
    (∀ sid rest ch, lookupFirst sid subs = some ch → alive ch = true →
      Ctx.dispatch alive p (sid :: rest) subs =
        ((Ctx.dispatch alive p rest subs).1, .deliver ch p :: (Ctx.dispatch alive p rest subs).2)) ∧
    (∀ sid rest ch, lookupFirst sid subs = some ch → alive ch = false →
      Ctx.dispatch alive p (sid :: rest) subs =
        ((Ctx.dispatch alive p rest (eraseFirst sid subs)).1,
         .dropChan ch :: (Ctx.dispatch alive p rest (eraseFirst sid subs)).2)) :=
  ⟨rfl, fun sid rest h => dispatch_cons_absent alive p sid rest subs h,
   fun sid rest ch h ha => dispatch_cons_alive alive p sid ch rest subs h ha,
   fun sid rest ch h ha => dispatch_cons_dead alive p sid ch rest subs h ha⟩

/-- Every delivery made by the dispatch loop is the message `p` itself, unchanged, into a channel whose receiver
    is alive and which is registered under one of the subscription identifiers the message carries. No other
    stream gets anything. -/
theorem dispatch_delivers_sound (alive : Nat → Bool) (p : PublishRx) (sids : List Nat) (subs : List (Nat × Nat)) :
    ∀ ch q, (ch, q) ∈ deliversOf (Ctx.dispatch alive p sids subs).2 →
      q = p ∧ alive ch = true ∧ ∃ sid ∈ sids, (sid, ch) ∈ subs := by
  induction sids generalizing subs with
  | nil => intro ch q h; simp [dispatch_nil] at h
  | cons sid rest ih =>
    intro ch q h
    cases hl : lookupFirst sid subs with
    | none =>
      rw [dispatch_cons_absent _ _ _ _ _ hl] at h
      obtain ⟨h1, h2, s, hs, hm⟩ := ih subs ch q h
      exact ⟨h1, h2, s, List.mem_cons_of_mem _ hs, hm⟩
    | some c0 =>
      cases ha : alive c0 with
      | true =>
        rw [dispatch_cons_alive _ _ _ _ _ _ hl ha] at h
        simp only [deliversOf_cons_deliver, List.mem_cons, Prod.mk.injEq] at h
        rcases h with ⟨rfl, rfl⟩ | h
        · exact ⟨rfl, ha, sid, List.mem_cons_self, lookupFirst_mem _ _ _ hl⟩
        · obtain ⟨h1, h2, s, hs, hm⟩ := ih subs ch q h
          exact ⟨h1, h2, s, List.mem_cons_of_mem _ hs, hm⟩
      | false =>
        rw [dispatch_cons_dead _ _ _ _ _ _ hl ha] at h
        simp only [deliversOf_cons_dropChan] at h
        obtain ⟨h1, h2, s, hs, hm⟩ := ih _ ch q h
        exact ⟨h1, h2, s, List.mem_cons_of_mem _ hs, (eraseFirst_sublist sid subs).subset hm⟩

/-- The dispatch loop only ever removes entries, and only entries whose receiver is gone: the new table is a
    sublist of the old one and the entries with a live receiver are all still there, in order. -/
theorem dispatch_subs (alive : Nat → Bool) (p : PublishRx) (sids : List Nat) (subs : List (Nat × Nat)) :
    (Ctx.dispatch alive p sids subs).1.Sublist subs ∧
    (Ctx.dispatch alive p sids subs).1.filter (fun e => alive e.2) = subs.filter (fun e => alive e.2) := by
  induction sids generalizing subs with
  | nil => exact ⟨List.Sublist.refl _, rfl⟩
  | cons sid rest ih =>
    cases hl : lookupFirst sid subs with
    | none => rw [dispatch_cons_absent _ _ _ _ _ hl]; exact ih subs
    | some c0 =>
      cases ha : alive c0 with
      | true => rw [dispatch_cons_alive _ _ _ _ _ _ hl ha]; exact ih subs
      | false =>
        rw [dispatch_cons_dead _ _ _ _ _ _ hl ha]
        obtain ⟨h1, h2⟩ := ih (eraseFirst sid subs)
        exact ⟨h1.trans (eraseFirst_sublist sid subs), by rw [h2, eraseFirst_filter_alive alive sid c0 subs hl ha]⟩

/-- With every registered receiver alive the table is unchanged and the deliveries are, in the order of the
    identifiers the message carries, one `(channel, p)` for each identifier somebody is registered under. -/
theorem dispatch_all_alive (alive : Nat → Bool) (p : PublishRx) (sids : List Nat) (subs : List (Nat × Nat))
    (hall : ∀ e ∈ subs, alive e.2 = true) :
    (Ctx.dispatch alive p sids subs).1 = subs ∧
    deliversOf (Ctx.dispatch alive p sids subs).2 =
      sids.filterMap (fun sid => (lookupFirst sid subs).map (·, p)) ∧
    (Ctx.dispatch alive p sids subs).2 = (deliversOf (Ctx.dispatch alive p sids subs).2).map
      (fun d => Eff.deliver d.1 d.2) := by
  induction sids with
  | nil => exact ⟨rfl, rfl, rfl⟩
  | cons sid rest ih =>
    cases hl : lookupFirst sid subs with
    | none =>
      rw [dispatch_cons_absent _ _ _ _ _ hl]
      simpa [List.filterMap_cons, hl] using ih
    | some c0 =>
      have ha : alive c0 = true := hall _ (lookupFirst_mem _ _ _ hl)
      rw [dispatch_cons_alive _ _ _ _ _ _ hl ha]
      obtain ⟨h1, h2, h3⟩ := ih
      refine ⟨h1, by simp [hl, h2], ?_⟩
      simp only [deliversOf_cons_deliver, List.map_cons]
      rw [← h3]

/-- **Exact characterisation when subscription identifiers are unique** (C11: every `subscribe()` call gets its
    own identifier, so the keys of `subs` are pairwise distinct): the deliveries are, in the order of the
    identifiers carried, `(ch, p)` for each identifier registered to a channel `ch` with a live receiver — exactly
    once per carried identifier, and nothing else. -/
theorem dispatch_spec_nodup (alive : Nat → Bool) (p : PublishRx) (sids : List Nat) (subs : List (Nat × Nat))
    (hn : (subs.map (·.1)).Nodup) :
    deliversOf (Ctx.dispatch alive p sids subs).2 =
      sids.filterMap (fun sid => (lookupFirst sid subs).bind fun ch => if alive ch then some (ch, p) else none) := by
  induction sids generalizing subs with
  | nil => rfl
  | cons sid rest ih =>
    cases hl : lookupFirst sid subs with
    | none =>
      rw [dispatch_cons_absent _ _ _ _ _ hl, ih subs hn]
      simp [hl]
    | some c0 =>
      cases ha : alive c0 with
      | true =>
        rw [dispatch_cons_alive _ _ _ _ _ _ hl ha]
        simp [hl, ha, ih subs hn]
      | false =>
        rw [dispatch_cons_dead _ _ _ _ _ _ hl ha]
        have hn' : ((eraseFirst sid subs).map (·.1)).Nodup :=
          List.Nodup.sublist ((eraseFirst_sublist sid subs).map _) hn
        simp only [deliversOf_cons_dropChan, ih _ hn', List.filterMap_cons, hl, Option.bind_some, ha,
          Bool.false_eq_true, if_false]
        apply filterMap_congr'
        intro s _
        by_cases hs : s = sid
        · subst hs; rw [lookupFirst_eraseFirst_self s subs hn, hl]; simp [ha]
        · rw [lookupFirst_eraseFirst_ne sid s subs hs]

/-- **dispatch_spec.** Summary of the dispatch loop for a message `p` carrying the identifiers `sids`:
    every delivery is `p` itself into a live channel registered under a carried identifier; entries are removed
    only when their channel is dead; and if all registered channels are alive, `subs` is unchanged and the
    deliveries are exactly `sids.filterMap (fun sid => (lookupFirst sid subs).map (·, p))`, in that order. -/
theorem dispatch_spec (alive : Nat → Bool) (p : PublishRx) (sids : List Nat) (subs : List (Nat × Nat)) :
    (∀ ch q, (ch, q) ∈ deliversOf (Ctx.dispatch alive p sids subs).2 →
      q = p ∧ alive ch = true ∧ ∃ sid ∈ sids, (sid, ch) ∈ subs) ∧
    ((Ctx.dispatch alive p sids subs).1.Sublist subs ∧
      (Ctx.dispatch alive p sids subs).1.filter (fun e => alive e.2) = subs.filter (fun e => alive e.2)) ∧
    ((∀ e ∈ subs, alive e.2 = true) →
      (Ctx.dispatch alive p sids subs).1 = subs ∧
      deliversOf (Ctx.dispatch alive p sids subs).2 = sids.filterMap (fun sid => (lookupFirst sid subs).map (·, p))) :=
  ⟨dispatch_delivers_sound alive p sids subs, dispatch_subs alive p sids subs,
   fun h => ⟨(dispatch_all_alive alive p sids subs h).1, (dispatch_all_alive alive p sids subs h).2.1⟩⟩

/-- A message that carries no subscription identifier, or only identifiers nobody is registered under, is
    delivered to no stream and leaves the table alone. -/
theorem unknown_or_absent_identifier_no_delivery (alive : Nat → Bool) (p : PublishRx) (sids : List Nat)
    (subs : List (Nat × Nat)) (h : sids = [] ∨ ∀ sid ∈ sids, lookupFirst sid subs = none) :
    Ctx.dispatch alive p sids subs = (subs, []) := by
  have h' : ∀ sid ∈ sids, lookupFirst sid subs = none := by
    rcases h with rfl | h
    · simp
    · exact h
  clear h
  induction sids with
  | nil => rfl
  | cons sid rest ih =>
    rw [dispatch_cons_absent _ _ _ _ _ (h' sid List.mem_cons_self)]
    exact ih fun s hs => h' s (List.mem_cons_of_mem _ hs)

/-- How the PUBLISH arm of `handle_packet` uses the loop: a QoS 2 PUBLISH whose identifier is already being
    handled (a re-delivery) is not dispatched again; any other PUBLISH is dispatched once, against the current
    table, with its own subscription identifiers. -/
theorem handlePkt_publish_dispatch (c : Ctx) (alive : Nat → Bool) (pb : PublishRx) (wok : Bool) :
    (pb.qos = 2 ∧ pb.packetId.getD 0 ∈ c.inQos2 →
      (c.handlePkt alive (.publish pb) wok).1.subs = c.subs ∧
      deliversOf (c.handlePkt alive (.publish pb) wok).2.1 = []) ∧
    (¬ (pb.qos = 2 ∧ pb.packetId.getD 0 ∈ c.inQos2) →
      (c.handlePkt alive (.publish pb) wok).1.subs = (Ctx.dispatch alive pb pb.subIds c.subs).1 ∧
      deliversOf (c.handlePkt alive (.publish pb) wok).2.1 =
        deliversOf (Ctx.dispatch alive pb pb.subIds c.subs).2) := by
  constructor
  · intro h
    simp only [Ctx.handlePkt, h, and_self, not_true_eq_false, and_false, if_false, if_true]
    split <;> simp
  · intro h
    simp only [Ctx.handlePkt, h, if_false]
    split <;> split <;> simp

/-! ## registration -/

/-- **Registered when the SUBSCRIBE is sent.** Handling an accepted SUBSCRIBE message makes `(sid, ch)` the last
    entry of `subs` — at the moment the packet is written, before any SUBACK and before `stream()` is called. -/
theorem registered_when_subscribe_is_sent (c : Ctx) (aid sid : Nat) (pkt : Bytes) (slot ch : Nat) (wok : Bool)
    (hs : c.sizeOk pkt = true) :
    (c.handleMsg (.subscribe aid sid pkt slot ch) wok).1.subs = c.subs ++ [(sid, ch)] ∧
    writesOf (c.handleMsg (.subscribe aid sid pkt slot ch) wok).2.1 = [pkt] := by
  simp [Ctx.handleMsg, hs]

/-- A fresh subscription identifier (C11) then resolves to that channel. -/
theorem lookup_after_subscribe (subs : List (Nat × Nat)) (sid ch : Nat) (hfresh : sid ∉ subs.map (·.1)) :
    lookupFirst sid (subs ++ [(sid, ch)]) = some ch := by
  induction subs with
  | nil => simp [lookupFirst]
  | cons hd t ih =>
    obtain ⟨a, b⟩ := hd
    simp only [List.map_cons, List.mem_cons, not_or] at hfresh
    have : ¬ a = sid := fun e => hfresh.1 e.symm
    simp only [List.cons_append, lookupFirst, this, if_false]
    exact ih hfresh.2

/-- **Messages arriving before the SUBACK are delivered.** In any later state of the context in which `sid` still
    resolves to the channel `ch` (nothing but a dead receiver removes it — see
    `subs_changed_only_by_subscribe_and_dead_receivers`) and the receiver is alive, a PUBLISH carrying `sid`
    (that is not a QoS 2 re-delivery) is delivered into `ch`, unchanged — whether or not the SUBACK has arrived
    or `stream()` has been called: neither appears in the hypotheses. -/
theorem publish_delivered_to_registered (c : Ctx) (alive : Nat → Bool) (pb : PublishRx) (wok : Bool) (sid ch : Nat)
    (hreg : lookupFirst sid c.subs = some ch) (ha : alive ch = true) (hsid : pb.subIds = [sid])
    (hnew : ¬ (pb.qos = 2 ∧ pb.packetId.getD 0 ∈ c.inQos2)) :
    deliversOf (c.handlePkt alive (.publish pb) wok).2.1 = [(ch, pb)] ∧
    (c.handlePkt alive (.publish pb) wok).1.subs = c.subs := by
  obtain ⟨h1, h2⟩ := (handlePkt_publish_dispatch c alive pb wok).2 hnew
  rw [h1, h2, hsid, dispatch_cons_alive _ _ _ _ _ _ hreg ha]
  exact ⟨rfl, rfl⟩

/-- **The table changes only by a SUBSCRIBE and by dead receivers.** A message other than a SUBSCRIBE — in
    particular an UNSUBSCRIBE — leaves `subs` unchanged; so does every inbound packet other than a PUBLISH
    (SUBACK and UNSUBACK included: their timing is irrelevant to delivery); and a PUBLISH removes only entries
    whose receiver is gone. -/
theorem subs_changed_only_by_subscribe_and_dead_receivers (c : Ctx) :
    (∀ m wok, (∀ aid sid pkt slot ch, m ≠ .subscribe aid sid pkt slot ch) → (c.handleMsg m wok).1.subs = c.subs) ∧
    (∀ alive p wok, (∀ pb, p ≠ .publish pb) → (c.handlePkt alive p wok).1.subs = c.subs) ∧
    (∀ alive pb wok,
      (c.handlePkt alive (.publish pb) wok).1.subs.Sublist c.subs ∧
      (c.handlePkt alive (.publish pb) wok).1.subs.filter (fun e => alive e.2) = c.subs.filter (fun e => alive e.2)) := by
  refine ⟨?_, ?_, ?_⟩
  · intro m wok hm
    cases m with
    | ff pkt s =>
      simp only [Ctx.handleMsg]
      split
      · rfl
      · split <;> rfl
    | awaitAck aid pkt s =>
      simp only [Ctx.handleMsg]
      split
      · rfl
      · split
        · split
          · rfl
          · split <;> rfl
        · split <;> split <;> rfl
    | subscribe aid sid pkt s ch => exact absurd rfl (hm aid sid pkt s ch)
  · intro alive p wok hp
    cases p with
    | publish pb => exact absurd rfl (hp pb)
    | puback a => simp [Ctx.handlePkt]
    | pubrec a => simp only [Ctx.handlePkt, complete_subs]; split <;> simp
    | pubcomp a => simp [Ctx.handlePkt]
    | suback a => simp [Ctx.handlePkt]
    | unsuback a => simp [Ctx.handlePkt]
    | pingresp => simp [Ctx.handlePkt]
    | pubrel a => simp [Ctx.handlePkt]
    | connack k => simp [Ctx.handlePkt]
    | auth a => simp [Ctx.handlePkt]
    | disconnect d => simp [Ctx.handlePkt]
  · intro alive pb wok
    by_cases h : pb.qos = 2 ∧ pb.packetId.getD 0 ∈ c.inQos2
    · rw [((handlePkt_publish_dispatch c alive pb wok).1 h).1]; exact ⟨List.Sublist.refl _, rfl⟩
    · rw [((handlePkt_publish_dispatch c alive pb wok).2 h).1]; exact dispatch_subs alive pb pb.subIds c.subs

/-- `unsubscribe()` on the user side touches no channel and no part of the context's state either. -/
theorem unsubscribe_leaves_streams_alone (w : World) (id : Nat) (t : UnsubscribeTx) (s : Nat) (a : SubackRx) :
    (w.startOp id (.unsubscribe t)).chans = w.chans ∧ (w.startOp id (.unsubscribe t)).c = w.c ∧
    (w.resumeOp id s .unsuback (.pkt (.unsuback a))).chans = w.chans := by
  refine ⟨?_, ?_, resumeOp_chans w id s _ _⟩
  · rw [startOp_unsubscribe]; split <;> simp [allocPid]
  · rw [startOp_unsubscribe]; split <;> simp [allocPid]

/-! ## the channel and the stream -/

/-- **The channel is a FIFO.** `deliver` appends the message at the end of the channel's buffer; polling the
    stream emits the head of the buffer as `ITEM`, unchanged, and removes exactly it. -/
theorem channel_fifo (w : World) (ch : Nat) (p : PublishRx) (c0 : Chan) (hc : w.chan ch = some c0) :
    (w.deliver ch p).chan ch = some { c0 with buf := c0.buf ++ [p], reg := false } ∧
    (w.deliver ch p).out = w.out ∧
    (∀ q rest, ch ∈ w.streams → c0.buf = q :: rest →
      (w.pollStream ch).out = w.out ++ [.item ch q] ∧
      (w.pollStream ch).chan ch = some { c0 with buf := rest } ∧
      (w.pollStream ch).streams = w.streams) := by
  obtain ⟨wk, e⟩ := deliver_shape w ch p c0 hc
  refine ⟨by rw [e]; exact lookupFirst_setAssoc_self _ _ _, by rw [e], ?_⟩
  intro q rest hs hb
  obtain ⟨wk', e'⟩ := pollStream_item w ch c0 q rest hs hc hb
  rw [e']
  exact ⟨rfl, lookupFirst_setAssoc_self _ _ _, rfl⟩

/-- **Items come out in arrival order.** Polling a stream as many times as its channel holds messages emits
    exactly those messages, in the order they were delivered, each once and unchanged, and empties the buffer. -/
theorem stream_yields_in_arrival_order (w : World) (id : Nat) (c0 : Chan) (hs : id ∈ w.streams)
    (hc : w.chan id = some c0) :
    (pollStreamN w id c0.buf.length).out = w.out ++ c0.buf.map (Obs.item id) ∧
    (pollStreamN w id c0.buf.length).chan id = some { c0 with buf := [] } := by
  obtain ⟨buf, tx, rx, reg⟩ := c0
  induction buf generalizing w with
  | nil => simp [pollStreamN, hc]
  | cons q rest ih =>
    obtain ⟨wk, e⟩ := pollStream_item w id ⟨q :: rest, tx, rx, reg⟩ q rest hs hc rfl
    have hs' : id ∈ (w.pollStream id).streams := by rw [e]; exact hs
    have hc' : (w.pollStream id).chan id = some ⟨rest, tx, rx, reg⟩ := by
      rw [e]; exact lookupFirst_setAssoc_self _ _ _
    obtain ⟨h1, h2⟩ := ih (w.pollStream id) hs' hc'
    simp only [List.length_cons, pollStreamN, List.map_cons]
    refine ⟨?_, h2⟩
    rw [h1, e]; simp

/-- **Other streams are untouched.** Polling stream `id`, dropping it, or delivering into it does not change the
    channel of any other stream `id'` — a lagging or dropped stream cannot affect the others. -/
theorem pollStream_other_streams_untouched (w : World) (id id' : Nat) (h : id' ≠ id) :
    (w.pollStream id).chan id' = w.chan id' ∧ (w.dropChanRx id).chan id' = w.chan id' ∧
    (∀ p, (w.deliver id p).chan id' = w.chan id') := by
  refine ⟨?_, lookupFirst_eraseFirst_ne id id' w.chans h, ?_⟩
  · by_cases hs : id ∈ w.streams
    · cases hc : w.chan id with
      | none => rw [pollStream_noop w id (Or.inr hc)]
      | some c0 =>
        obtain ⟨buf, tx, rx, reg⟩ := c0
        cases buf with
        | cons q rest =>
          obtain ⟨wk, e⟩ := pollStream_item w id _ q rest hs hc rfl
          rw [e]; exact lookupFirst_setAssoc_ne id id' _ w.chans h
        | nil =>
          cases tx with
          | true => rw [pollStream_pending w id _ hs hc rfl rfl]; exact lookupFirst_setAssoc_ne id id' _ w.chans h
          | false => rw [pollStream_end w id _ hs hc rfl rfl]; exact lookupFirst_eraseFirst_ne id id' w.chans h
    · rw [pollStream_noop w id (Or.inl hs)]
  · intro p
    cases hc : w.chan id with
    | none => rw [deliver_none w id p hc]
    | some c0 =>
      obtain ⟨wk, e⟩ := deliver_shape w id p c0 hc
      rw [e]; exact lookupFirst_setAssoc_ne id id' _ w.chans h

/-- **A stream ends only without a sender.** One poll of a stream emits nothing, or one `ITEM`, or `END`; it emits
    `END` only if the channel's sending half is gone (`txAlive = false`) and every buffered message has been
    yielded (empty buffer). -/
theorem stream_ends_only_without_sender (w : World) (id : Nat) :
    (w.pollStream id).out = w.out ∨
    (∃ p, (w.pollStream id).out = w.out ++ [.item id p]) ∨
    ((w.pollStream id).out = w.out ++ [.endStream id] ∧
      ∃ ch, w.chan id = some ch ∧ ch.txAlive = false ∧ ch.buf = []) := by
  by_cases hs : id ∈ w.streams
  · cases hc : w.chan id with
    | none => left; rw [pollStream_noop w id (Or.inr hc)]
    | some c0 =>
      obtain ⟨buf, tx, rx, reg⟩ := c0
      cases buf with
      | cons q rest =>
        obtain ⟨wk, e⟩ := pollStream_item w id _ q rest hs hc rfl
        right; left; exact ⟨q, by rw [e]⟩
      | nil =>
        cases tx with
        | true => left; rw [pollStream_pending w id _ hs hc rfl rfl]
        | false => right; right; rw [pollStream_end w id _ hs hc rfl rfl]; exact ⟨rfl, _, rfl, rfl, rfl⟩
  · left; rw [pollStream_noop w id (Or.inl hs)]

/-- **The sending half disappears only through `dropChanTx`.** None of the other steps of the model that touch
    channels or that the context task and the user tasks perform — delivering a message, completing or dropping a
    oneshot, writing to the transport, polling or dropping a stream, polling or dropping a handle future
    (including the creation of a new channel by `subscribe()`) — produces a channel entry without sender that was
    not already there; `dropChanTx c` produces one only for `c`.
    `World` applies `dropChanTx` (the effect `Eff.dropChan`) exactly where the context drops a subscription
    sender: the context is dropped (`Ev.dropCtx`: queued SUBSCRIBE messages and the whole `subs` table),
    an expired session is reset on reconnection (`Ctx.resetSession`), the receiver itself is already gone
    (`Ctx.dispatch`, dead branch), and a SUBSCRIBE refused for its size (`Ctx.handleMsg`). -/
theorem txAlive_cleared_only_by_dropChanTx (w : World) (ch : Nat) :
    (∀ c p, noSender (w.deliver c p) ch → noSender w ch) ∧
    (∀ s v, noSender (w.sendSlot s v) ch → noSender w ch) ∧
    (∀ s, noSender (w.dropSlotTx s) ch → noSender w ch) ∧
    (∀ bs, noSender (w.writeBytes bs) ch → noSender w ch) ∧
    (∀ id, noSender (w.pollStream id) ch → noSender w ch) ∧
    (∀ id, noSender (w.dropChanRx id) ch → noSender w ch) ∧
    (∀ id, noSender (w.pollOp id) ch → noSender w ch) ∧
    (∀ id, noSender (w.dropOp id) ch → noSender w ch) ∧
    (∀ c, noSender (w.dropChanTx c) ch → noSender w ch ∨ ch = c) := by
  have hset : ∀ (k : Nat) (v : Chan) (w' : World), w'.chans = setAssoc k v w.chans →
      (v.txAlive = false → ∃ c0, (k, c0) ∈ w.chans ∧ c0.txAlive = false) → noSender w' ch → noSender w ch := by
    intro k v w' hw hv ⟨c1, hm, ht⟩
    rw [hw] at hm
    rcases mem_setAssoc hm with h | h
    · simp only [Prod.mk.injEq] at h; obtain ⟨rfl, rfl⟩ := h; exact hv ht
    · exact ⟨c1, h, ht⟩
  have hsub : ∀ (w' : World), w'.chans.Sublist w.chans → noSender w' ch → noSender w ch :=
    fun w' hw ⟨c1, hm, ht⟩ => ⟨c1, hw.subset hm, ht⟩
  have heq : ∀ (w' : World), w'.chans = w.chans → noSender w' ch → noSender w ch :=
    fun w' hw h => hsub w' (by rw [hw]; exact List.Sublist.refl _) h
  have hnew : ∀ (k : Nat) (w' : World), w'.chans = setAssoc k {} w.chans → noSender w' ch → noSender w ch :=
    fun k w' hw h => hset k {} w' hw (fun h => by cases h) h
  refine ⟨?_, ?_, ?_, ?_, ?_, ?_, ?_, ?_, ?_⟩
  · intro c p
    cases hc : w.chan c with
    | none => rw [deliver_none w c p hc]; exact id
    | some c0 =>
      obtain ⟨wk, e⟩ := deliver_shape w c p c0 hc
      rw [e]
      exact hset c _ _ rfl fun ht => ⟨c0, lookupFirst_mem _ _ _ hc, ht⟩
  · intro s v; exact heq _ (sendSlot_chans w s v).1
  · intro s; exact heq _ (dropSlotTx_chans w s).1
  · intro bs; exact heq _ (writeBytes_chans w bs)
  · intro id
    by_cases hs : id ∈ w.streams
    · cases hc : w.chan id with
      | none => rw [pollStream_noop w id (Or.inr hc)]; exact fun h => h
      | some c0 =>
        have hm := lookupFirst_mem _ _ _ hc
        obtain ⟨buf, tx, rx, reg⟩ := c0
        cases buf with
        | cons q rest =>
          obtain ⟨wk, e⟩ := pollStream_item w id _ q rest hs hc rfl
          rw [e]; exact hset id _ _ rfl fun ht => ⟨_, hm, ht⟩
        | nil =>
          cases tx with
          | true =>
            rw [pollStream_pending w id _ hs hc rfl rfl]; exact hset id _ _ rfl fun ht => ⟨_, hm, ht⟩
          | false => rw [pollStream_end w id _ hs hc rfl rfl]; exact hsub _ (eraseFirst_sublist _ _)
    · rw [pollStream_noop w id (Or.inl hs)]; exact fun h => h
  · intro id; exact hsub _ (eraseFirst_sublist _ _)
  · intro id
    rcases pollOp_chans w id with h | h | h
    · exact heq _ h
    · exact hnew id _ h
    · intro ⟨c1, hm, ht⟩
      rw [h] at hm
      exact hnew id { w with chans := setAssoc id {} w.chans } rfl ⟨c1, (eraseFirst_sublist _ _).subset hm, ht⟩
  · intro id
    rcases dropOp_chans w id with h | h
    · exact heq _ h
    · exact hsub _ (by rw [h]; exact eraseFirst_sublist _ _)
  · intro c
    cases hc : w.chan c with
    | none => rw [dropChanTx_none w c hc]; exact Or.inl
    | some c0 =>
      obtain ⟨wk, e⟩ := dropChanTx_shape w c c0 hc
      rw [e]
      intro ⟨c1, hm, ht⟩
      rcases mem_setAssoc hm with h | h
      · right; simp only [Prod.mk.injEq] at h; exact h.1
      · left; exact ⟨c1, h, ht⟩

/-! ## non-vacuity -/

/-- a message carrying identifiers 7 and 9 with both receivers alive goes to channels 1 and 2, nowhere else -/
example :
    deliversOf (Ctx.dispatch (fun _ => true) { topic := [97] } [7, 9] [(7, 1), (8, 5), (9, 2)]).2 =
      [(1, { topic := [97] }), (2, { topic := [97] })] := by
  decide

/-- a dead receiver is removed, the live one still gets the message -/
example :
    Ctx.dispatch (fun ch => ch != 1) { topic := [97] } [7, 9] [(7, 1), (9, 2)] =
      ([(9, 2)], [.dropChan 1, .deliver 2 { topic := [97] }]) := by
  decide

/-- a subscribe followed by a publish before any SUBACK: delivered -/
example :
    let c := (({} : Ctx).handleMsg (.subscribe (actionId 9 1) 1 [130, 0] 0 0) true).1
    deliversOf (c.handlePkt (fun _ => true) (.publish { topic := [97], subIds := [1] }) true).2.1 =
      [(0, { topic := [97], subIds := [1] })] := by
  decide

#print axioms dispatch_step
#print axioms dispatch_delivers_sound
#print axioms dispatch_subs
#print axioms dispatch_all_alive
#print axioms dispatch_spec_nodup
#print axioms dispatch_spec
#print axioms unknown_or_absent_identifier_no_delivery
#print axioms handlePkt_publish_dispatch
#print axioms registered_when_subscribe_is_sent
#print axioms lookup_after_subscribe
#print axioms publish_delivered_to_registered
#print axioms subs_changed_only_by_subscribe_and_dead_receivers
#print axioms unsubscribe_leaves_streams_alone
#print axioms channel_fifo
#print axioms stream_yields_in_arrival_order
#print axioms pollStream_other_streams_untouched
#print axioms stream_ends_only_without_sender
#print axioms txAlive_cleared_only_by_dropChanTx

end Poster
