/-
  Properties/C17.lean — resuming a session re-sends exactly the unfinished outbound handshakes.

  Model (src/client/context.rs): `Ctx.resume` = the prelude of `run()` on a reconnect
  (`if session_expired { reset_session }; retransmit`), `Ctx.sessionExpired`, `Ctx.resetSession`; the retransmit queue
  `c.retx` is filled by `Ctx.handleMsg` and emptied by the PUBACK / PUBREC / PUBCOMP arms of `Ctx.handlePkt`.
  `c.disc = some e` means: a disconnection was recorded `e` seconds ago; `c.sei` is the session expiry interval in force.

  Specification of the queue, from the history alone (Lemmas/CtxRetx.lean): `unfinished t` — every PUBLISH / PUBREL request
  that was accepted and written (PUBLISH with DUP set), in order, minus those whose PUBACK / PUBREC / PUBCOMP was handled.
-/
import PosterModel.Lemmas.CtxRetx

set_option linter.unusedVariables false
set_option linter.unusedSimpArgs false

namespace Poster

/-- **When a session has expired**: interval 0 — always; interval 0xFFFFFFFF — never; otherwise exactly when more
    seconds than the interval have elapsed since the recorded disconnection (`elapsed` as a `u32`). -/
theorem sessionExpired_iff (c : Ctx) (elapsed : Nat) (he : elapsed ≤ 4294967295) :
    c.sessionExpired elapsed = true ↔ c.sei = 0 ∨ (c.sei ≠ 4294967295 ∧ c.sei < elapsed) := by
  unfold Ctx.sessionExpired
  have : ¬ elapsed > 4294967295 := by omega
  by_cases h0 : c.sei = 0
  · simp [h0]
  · by_cases hm : c.sei = 4294967295
    · simp [h0, hm]
    · simp [h0, hm, this]

/-- an elapsed time that does not fit a `u32` saturates: it counts as 0xFFFFFFFF seconds -/
theorem sessionExpired_saturates (c : Ctx) (elapsed : Nat) (he : elapsed > 4294967295) :
    c.sessionExpired elapsed = c.sessionExpired 4294967295 := by
  unfold Ctx.sessionExpired
  simp [he]

/-- **First connection**: nothing recorded, nothing re-sent, nothing touched. -/
theorem resume_first_connection (c : Ctx) (h : c.disc = none) : c.resume = (c, [], []) := by
  simp [Ctx.resume, h]

/-- **Session still alive.** The packets re-sent before any new traffic are exactly the packets of the retransmit queue, in
    queue order; no caller is failed, no stream is closed; the pending acknowledgements, the subscriptions, the queue and
    the quota are what they were — so the original `publish()` futures complete on the acknowledgements that arrive on the
    new connection —; the recorded disconnection is cleared. -/
theorem resume_not_expired (c : Ctx) (e : Nat) (h : c.disc = some e) (hx : c.sessionExpired e = false) :
    c.resume = ({ c with disc := none }, [], c.retx.map (·.2)) ∧
    c.resume.2.2 = c.retx.map (·.2) ∧ c.resume.2.1 = [] ∧
    c.resume.1.awaiting = c.awaiting ∧ c.resume.1.subs = c.subs ∧ c.resume.1.retx = c.retx ∧
    c.resume.1.quota = c.quota ∧ c.resume.1.inQos2 = c.inQos2 ∧ c.resume.1.disc = none := by
  have : c.resume = ({ c with disc := none }, [], c.retx.map (·.2)) := by simp [Ctx.resume, h, hx]
  simp [this]

/-- **Session expired.** Nothing is re-sent and nothing is written; every abandoned operation fails instead of hanging:
    the oneshot of every pending acknowledgement is dropped (its future resolves with an error) and every subscription
    sender is dropped (its stream ends); afterwards the session is empty. -/
theorem resume_expired (c : Ctx) (e : Nat) (h : c.disc = some e) (hx : c.sessionExpired e = true) :
    c.resume.2.2 = [] ∧ writesOf c.resume.2.1 = [] ∧
    (∀ as ∈ c.awaiting, Eff.dropSlot as.2 ∈ c.resume.2.1) ∧ (∀ sc ∈ c.subs, Eff.dropChan sc.2 ∈ c.resume.2.1) ∧
    c.resume.1.awaiting = [] ∧ c.resume.1.retx = [] ∧ c.resume.1.subs = [] ∧ c.resume.1.inQos2 = [] ∧
    c.resume.1.disc = none := by
  have hres : c.resume = ({ c with awaiting := [], subs := [], retx := [], inQos2 := [], disc := none },
      c.awaiting.map (fun (_, s) => Eff.dropSlot s) ++ c.subs.map (fun (_, ch) => Eff.dropChan ch), []) := by
    simp [Ctx.resume, h, hx, Ctx.resetSession]
  rw [hres]
  refine ⟨rfl, ?_, ?_, ?_, rfl, rfl, rfl, rfl, rfl⟩
  · simp only [writesOf_append]
    have h1 : ∀ l : List (Nat × Nat), writesOf (l.map (fun (_, s) => Eff.dropSlot s)) = [] := by
      intro l; induction l with
      | nil => rfl
      | cons x t ih => simpa using ih
    have h2 : ∀ l : List (Nat × Nat), writesOf (l.map (fun (_, s) => Eff.dropChan s)) = [] := by
      intro l; induction l with
      | nil => rfl
      | cons x t ih => simpa using ih
    simp [h1, h2]
  · intro as has
    simp only [List.mem_append, List.mem_map]
    exact Or.inl ⟨as, has, rfl⟩
  · intro sc hsc
    simp only [List.mem_append, List.mem_map]
    exact Or.inr ⟨sc, hsc, rfl⟩

/-- **The queue is the unfinished handshakes.** After any history, the retransmit queue is what the specification computes
    from the observations alone: the accepted-and-written PUBLISH (DUP set) and PUBREL requests, in the order they were
    made, minus the first entry addressed by every PUBACK / PUBREC / PUBCOMP handled. -/
theorem retx_is_unfinished (c : Ctx) (is : List CIn) :
    (c.serve is).1.retx = unfinishedFrom c.retx (c.serve is).2 ∧
    (c.retx = [] → (c.serve is).1.retx = unfinished (c.serve is).2) := by
  have h := Ctx.serve_fold (·.retx) retxStep step_retx c is
  refine ⟨h, fun h0 => ?_⟩
  rw [h, h0]; rfl

/-- **C17 end to end.** Serve any history from an empty queue, lose the connection, come back before the session expires:
    what is re-sent, before anything else, is exactly the list of unfinished handshakes of that history, in their original
    order. -/
theorem resume_resends_unfinished (c : Ctx) (is : List CIn) (e : Nat) (h0 : c.retx = [])
    (hx : (c.serve is).1.sessionExpired e = false) :
    ({ (c.serve is).1 with disc := some e } : Ctx).resume.2.2 = (unfinished (c.serve is).2).map (·.2) := by
  have hx' : ({ (c.serve is).1 with disc := some e } : Ctx).sessionExpired e = false := hx
  rw [(resume_not_expired _ e rfl hx').2.1]
  simp only
  rw [(retx_is_unfinished c is).2 h0]

/-- **Acknowledged, hence not re-sent.** With pairwise distinct outstanding action identifiers (`nodup_preserved`), after a
    PUBACK (resp. PUBREC with any reason code, PUBCOMP) for `pid` no entry addressed by it is left in the queue. -/
theorem acked_not_resent (c : Ctx) (alive : Nat → Bool) (a : AckRx) (wok : Bool) (hnd : (c.retx.map (·.1)).Nodup) :
    (∀ e ∈ (c.handlePkt alive (.puback a) wok).1.retx, e.1 ≠ actionId 4 a.packetId) ∧
    (∀ e ∈ (c.handlePkt alive (.pubrec a) wok).1.retx, e.1 ≠ actionId 5 a.packetId) ∧
    (∀ e ∈ (c.handlePkt alive (.pubcomp a) wok).1.retx, e.1 ≠ actionId 7 a.packetId) := by
  simp only [Ctx.handlePkt_retx]
  exact ⟨eraseFirst_no_key _ _ hnd, eraseFirst_no_key _ _ hnd, eraseFirst_no_key _ _ hnd⟩

/-- … and nothing else is lost: an entry addressed by another identifier stays in the queue -/
theorem unacked_still_queued (c : Ctx) (alive : Nat → Bool) (p : RxPacket) (wok : Bool) (e : Nat × Bytes) (he : e ∈ c.retx)
    (hk : ∀ k, rxActionId p = some k → e.1 ≠ k) : e ∈ (c.handlePkt alive p wok).1.retx := by
  rw [Ctx.handlePkt_retx]
  cases p <;> first
    | exact he
    | exact mem_eraseFirst_of_ne _ _ e he (hk _ rfl)

/-- **Order preserved.** Handling an inbound packet only erases entries (what remains keeps its relative order); handling a
    request leaves the queue alone or appends exactly one entry at the end — for a PUBLISH or PUBREL awaiting its
    acknowledgement. -/
theorem retx_order_preserved (c : Ctx) :
    (∀ alive p wok, ((c.handlePkt alive p wok).1.retx).Sublist c.retx) ∧
    (∀ m wok, (c.handleMsg m wok).1.retx = c.retx ∨
      ∃ aid pkt slot, m = .awaitAck aid pkt slot ∧
        ((pktType pkt = 3 ∧ (c.handleMsg m wok).1.retx = c.retx ++ [(aid, setDup pkt)]) ∨
         (pktType pkt = 6 ∧ (c.handleMsg m wok).1.retx = c.retx ++ [(aid, pkt)]))) := by
  constructor
  · intro alive p wok
    rw [Ctx.handlePkt_retx]
    cases p <;> first | exact List.Sublist.refl _ | exact eraseFirst_sublist _ _
  · intro m wok
    have h := step_retx c (.msg m wok)
    simp only [Ctx.stepIn] at h
    rw [h]
    cases m with
    | ff pkt slot => left; rfl
    | subscribe aid sid pkt slot chan => left; rfl
    | awaitAck aid pkt slot =>
      simp only [retxStep]
      split
      · split
        · rename_i h3; right; exact ⟨aid, pkt, slot, rfl, Or.inl ⟨h3, rfl⟩⟩
        · split
          · rename_i h6; right; exact ⟨aid, pkt, slot, rfl, Or.inr ⟨h6, rfl⟩⟩
          · left; rfl
      · left; rfl

/-- **Stored with DUP, written without.** An accepted QoS>0 PUBLISH is written exactly as the caller encoded it and stored
    for retransmission as `setDup pkt`; an accepted PUBREL is stored as it is. -/
theorem retx_dup_marked (c : Ctx) (aid : Nat) (pkt : Bytes) (slot : Nat) (hs : c.sizeOk pkt = true) :
    (pktType pkt = 3 → c.quota ≠ 0 →
      (c.handleMsg (.awaitAck aid pkt slot) true).1.retx = c.retx ++ [(aid, setDup pkt)] ∧
      (c.handleMsg (.awaitAck aid pkt slot) true).2.1 = [.write pkt]) ∧
    (pktType pkt = 6 →
      (c.handleMsg (.awaitAck aid pkt slot) true).1.retx = c.retx ++ [(aid, pkt)] ∧
      (c.handleMsg (.awaitAck aid pkt slot) true).2.1 = [.write pkt]) := by
  constructor
  · intro h3 hq; simp [Ctx.handleMsg, hs, h3, hq]
  · intro h6; simp [Ctx.handleMsg, hs, h6]

/-- **What DUP marking changes**: bit 3 of the first byte becomes 1; the packet type (high nibble), the QoS and RETAIN
    bits (bits 2..0) and every other byte — identifier, topic, properties, payload — are the ones written the first time. -/
theorem setDup_spec (b : UInt8) (t : Bytes) :
    setDup (b :: t) = UInt8.ofNat (b.toNat ||| 8) :: t ∧
    (UInt8.ofNat (b.toNat ||| 8)).toNat = b.toNat ||| 8 ∧
    (b.toNat ||| 8) % 8 = b.toNat % 8 ∧ (b.toNat ||| 8) / 16 = b.toNat / 16 ∧ (b.toNat ||| 8) / 8 % 2 = 1 ∧
    pktType (setDup (b :: t)) = pktType (b :: t) ∧ (setDup (b :: t)).length = (b :: t).length := by
  obtain ⟨h1, h2, h3, h4⟩ := lor8_bits b.toNat b.toNat_lt
  have hm : (b.toNat ||| 8) % 256 = b.toNat ||| 8 := Nat.mod_eq_of_lt h4
  refine ⟨rfl, by simp [hm], h1, h2, h3, ?_, rfl⟩
  simp [setDup, pktType, hm, h2]

/-- **Outstanding identifiers stay distinct** (the queue side of property C11): if the keys of the queue are pairwise
    distinct and a new PUBLISH / PUBREL request does not reuse the action identifier of an unfinished one, they are
    pairwise distinct after the step. -/
theorem nodup_preserved (c : Ctx) (i : CIn) (hnd : (c.retx.map (·.1)).Nodup)
    (hnew : ∀ aid pkt slot wok, i = .msg (.awaitAck aid pkt slot) wok → aid ∉ c.retx.map (·.1)) :
    ((c.stepIn i).1.retx.map (·.1)).Nodup := by
  cases i with
  | pkt p dead wok =>
    simp only [Ctx.stepIn]
    exact ((retx_order_preserved c).1 _ p wok |>.map _).nodup hnd
  | msg m wok =>
    simp only [Ctx.stepIn]
    rcases (retx_order_preserved c).2 m wok with h | ⟨aid, pkt, slot, rfl, ⟨_, h⟩ | ⟨_, h⟩⟩
    · rw [h]; exact hnd
    · rw [h]
      have hn := hnew aid pkt slot wok rfl
      simp only [List.map_append, List.map_cons, List.map_nil]
      exact List.nodup_append.mpr ⟨hnd, by simp, by
        intro a ha b hb; simp at hb; subst hb; intro hab; subst hab; exact hn ha⟩
    · rw [h]
      have hn := hnew aid pkt slot wok rfl
      simp only [List.map_append, List.map_cons, List.map_nil]
      exact List.nodup_append.mpr ⟨hnd, by simp, by
        intro a ha b hb; simp at hb; subst hb; intro hab; subst hab; exact hn ha⟩

/-- QoS 1 PUBLISH id 1, QoS 2 PUBLISH id 2, PUBREL id 3 are sent; PUBACK 1 arrives; the connection is lost for 5 s with a
    60 s session: the QoS 2 PUBLISH (now with DUP: 0x34 → 0x3C) and the PUBREL are re-sent, in that order, and the two
    callers are still waiting. With a 3 s session nothing is re-sent and both callers are failed. -/
example :
    let r := ({} : Ctx).serve
      [.msg (.awaitAck (actionId 4 1) [0x32, 2, 0, 1] 10) true,
       .msg (.awaitAck (actionId 5 2) [0x34, 2, 0, 2] 11) true,
       .msg (.awaitAck (actionId 7 3) [0x62, 2, 0, 3] 12) true,
       .pkt (.puback { packetId := 1 }) [] true]
    unfinished r.2 = [(actionId 5 2, [0x3C, 2, 0, 2]), (actionId 7 3, [0x62, 2, 0, 3])] ∧
    ({ r.1 with disc := some 5, sei := 60 } : Ctx).resume.2 = ([], [[0x3C, 2, 0, 2], [0x62, 2, 0, 3]]) ∧
    ({ r.1 with disc := some 5, sei := 60 } : Ctx).resume.1.awaiting = [(actionId 5 2, 11), (actionId 7 3, 12)] ∧
    ({ r.1 with disc := some 5, sei := 3 } : Ctx).resume.2 = ([.dropSlot 11, .dropSlot 12], []) := by decide

#print axioms sessionExpired_iff
#print axioms sessionExpired_saturates
#print axioms resume_first_connection
#print axioms resume_not_expired
#print axioms resume_expired
#print axioms retx_is_unfinished
#print axioms resume_resends_unfinished
#print axioms acked_not_resent
#print axioms unacked_still_queued
#print axioms retx_order_preserved
#print axioms retx_dup_marked
#print axioms setDup_spec
#print axioms nodup_preserved

end Poster
