/-
  Properties/C16Fuel.lean — C16 end to end WITHOUT the fuel side condition.

  Properties/C16World.lean proves that sweeps and spurious polls are unobservable over whole scripts under two
  executable side conditions: `evOk` (no re-used SUBSCRIBE identifier; implied by pairwise distinct operation ids)
  and `stepsFuelOk` (the executor's fuel `drainFuel` sufficed at every step). Properties/C04World.lean /
  Lemmas/WorldFuelScript.lean prove that the second condition ALWAYS holds (`W5.stepsFuelOk_script`): every poll
  decreases a potential that `drainFuel` dominates. Here the C16 theorems are restated with the fuel hypothesis
  discharged; the "executor idle" hypothesis of the spurious-poll theorem is discharged as well.
-/
import PosterModel.Properties.C16World
import PosterModel.Lemmas.WorldFuelScript

set_option linter.unusedVariables false
set_option linter.unusedSimpArgs false

namespace Poster
open Framing

/-- **Every step of every script with pairwise distinct operation ids is fine** (`runOk`): the SUBSCRIBE
    identifiers are not re-used and the drain fuel suffices — the hypothesis of the `_partial` theorems of
    Properties/C16World.lean holds for all such scripts. -/
theorem runOk_of_distinct_ids (cfg : Cfg) (evs : List Ev) (hd : (World.opIds evs).Nodup) :
    World.runOk cfg evs = true :=
  World.stepsOk_of_evsOk_fuelOk evs _ (World.evsOk_init_of_distinct cfg evs hd) (World.W5.stepsFuelOk_script cfg evs)

/-- **Quiescence and full registration after every step.** For every configuration and every script with pairwise
    distinct operation ids that was not refused as malformed, the world reached is quiesced: the executor has
    nothing left to poll and every live task that is not flagged is parked with all its wake sources registered
    (`quiesced_full_registration` spells this out). No fuel hypothesis. -/
theorem script_quiesced_of_distinct_ids (cfg : Cfg) (evs : List Ev) (hd : (World.opIds evs).Nodup)
    (hb : (evs.foldl World.step { cfg := cfg }).bad = false) :
    World.Quiesced (evs.foldl World.step { cfg := cfg }) :=
  script_quiesced cfg evs (runOk_of_distinct_ids cfg evs hd) hb

/-- **C16 (2), full: an executor that additionally polls every task at every step sees nothing more.** For every
    configuration and every script whose `op` events carry pairwise distinct identifiers, the transcript (bytes
    written, results of the calls and operations, stream items and ends, panics, stalls) of the `exec=sweep` run
    equals the transcript of the wake-only run. -/
theorem sweep_irrelevant (cfg : Cfg) (evs : List Ev) (hd : (World.opIds evs).Nodup) :
    World.run { cfg with sweep := true } evs = World.run { cfg with sweep := false } evs :=
  sweep_irrelevant_of_distinct_ids cfg evs hd (World.W5.stepsFuelOk_script _ evs)

/-- the same at the level of worlds: every field but the switch itself is identical -/
theorem sweep_irrelevant_world (cfg : Cfg) (evs : List Ev) (hd : (World.opIds evs).Nodup) :
    evs.foldl World.step { cfg := { cfg with sweep := true } } =
      World.tweak true [] (evs.foldl World.step { cfg := { cfg with sweep := false } }) :=
  sweep_irrelevant_world_partial cfg evs (runOk_of_distinct_ids _ evs hd)

/-- **C16 (3), full: a spurious poll inserted anywhere in a script only inserts its own observation.** Run `evs₁`
    (pairwise distinct operation ids) to the world `w₁` and let `t` be any task that is not flagged woken there
    (alive or not, held or not). Then the transcripts of `evs₁ ++ evs₂` and of `evs₁ ++ [poll t] ++ evs₂` are
    `w₁.out ++ post` and `w₁.out ++ pollSeg w₁ t ++ post` for the same `post`: what is inserted is `pollSeg w₁ t` —
    the event marker `ev (poll t)`, followed by one more `stall` marker if the (held) context future is stalled at
    that point, or nothing at all if the script had been refused as malformed. No fuel hypothesis and no "executor
    idle" hypothesis: the executor IS idle after every step. -/
theorem spurious_poll_inserted (cfg : Cfg) (evs₁ evs₂ : List Ev) (t : Task) (hd : (World.opIds evs₁).Nodup)
    (hw : t ∉ (evs₁.foldl World.step { cfg := cfg }).woken) :
    ∃ post,
      World.run cfg (evs₁ ++ evs₂) = (evs₁.foldl World.step { cfg := cfg }).out ++ post ∧
      World.run cfg (evs₁ ++ [.poll t] ++ evs₂) =
        (evs₁.foldl World.step { cfg := cfg }).out ++
          World.pollSeg (evs₁.foldl World.step { cfg := cfg }) t ++ post := by
  rcases World.W5.quiet_script' cfg evs₁ with hb | hidle
  · -- the script was refused: nothing happens any more
    have hrun1 : World.run cfg (evs₁ ++ evs₂) =
        ((evs₂.foldl World.step (evs₁.foldl World.step { cfg := cfg })).finishScript).out := by
      simp [World.run, List.foldl_append]
    have hrun2 : World.run cfg (evs₁ ++ [.poll t] ++ evs₂) =
        ((evs₂.foldl World.step ((evs₁.foldl World.step { cfg := cfg }).step (.poll t))).finishScript).out := by
      simp [World.run, List.foldl_append]
    rw [hrun1, hrun2]
    generalize evs₁.foldl World.step { cfg := cfg } = w₁ at hb hw ⊢
    rw [World.step_of_bad w₁ _ hb, World.W5.foldl_step_of_bad evs₂ w₁ hb]
    have hseg : World.pollSeg w₁ t = [] := by simp [World.pollSeg, hb]
    rw [hseg, List.append_nil]
    unfold World.finishScript World.flushRaw
    split
    · exact ⟨[], by simp, by simp⟩
    · exact ⟨[.wraw w₁.wirePend], rfl, rfl⟩
  · exact spurious_poll_inserted_of_distinct_ids cfg evs₁ evs₂ t hd hidle hw

/-! ## Non-vacuity -/
section NonVacuity

/-- the script `demo` of Properties/C16World.lean has pairwise distinct ids: all theorems above apply to it, with
    no side condition left to check -/
example : World.run { sweep := true } demo = World.run { sweep := false } demo :=
  sweep_irrelevant {} demo (by decide)
example : World.Quiesced (demo.foldl World.step {}) := script_quiesced_of_distinct_ids {} demo (by decide) (by decide)
/-- operation 1 is alive, waiting and not flagged after `demo`: polling it once more inserts exactly its marker -/
example : ∃ post, World.run {} (demo ++ [.op 4 0 .ping]) = (demo.foldl World.step {}).out ++ post ∧
    World.run {} (demo ++ [.poll (.op 1)] ++ [.op 4 0 .ping]) =
      (demo.foldl World.step {}).out ++ [.ev (.poll (.op 1))] ++ post := by
  have h := spurious_poll_inserted {} demo [.op 4 0 .ping] (.op 1) (by decide) (by decide)
  rw [pollSeg_single _ _ (by decide) (Or.inl (by decide))] at h
  exact h

end NonVacuity

#print axioms runOk_of_distinct_ids
#print axioms script_quiesced_of_distinct_ids
#print axioms sweep_irrelevant
#print axioms sweep_irrelevant_world
#print axioms spurious_poll_inserted

end Poster
