/-
  Properties/C04.lean — no packet order or transport fault can panic or wedge the client (actor part).

  C04: "For every byte sequence and every sequence of well- or ill-formed, expected or unexpected packets the
  transport delivers during connect, authorize or run, and for every transport fault (read or write error,
  end-of-stream at any offset), the client never panics and never stalls with unread input: the affected call
  either keeps serving or returns an error. The only exemption is the documented assertion on brokers that
  announce no subscription-identifier support."

  The decoder part (no byte sequence makes `decodeRx` panic on a non-empty frame) is Properties/C04Decode.lean,
  the framing part (index safety, frames of length ≥ 2) is Properties/C03.lean. This file is about the actor:
  `Ctx.handlePkt` on unexpected packets, `World.awaitFirst` / `World.runLoop` / `World.resumeOp` /
  `World.pollTask` — every place an `Obs.panic` can be appended — and transport faults.
  Helper lemmas: PosterModel/Lemmas/WorldPanic.lean, WorldRun.lean, World.lean.
-/
import PosterModel.Lemmas.WorldPanic
import PosterModel.Lemmas.WorldReach
import PosterModel.Lemmas.WorldEx

set_option linter.unusedVariables false
set_option linter.unusedSimpArgs false

namespace Poster
open Framing

/-- **An acknowledgement nobody waits for is ignored.** A PUBACK / PUBREC / PUBCOMP / SUBACK / UNSUBACK /
    PINGRESP (or PUBREL) whose action identifier is not registered in `awaiting_ack`: no oneshot is completed,
    `awaiting_ack` is unchanged, and `run()` goes on (for PUBREL — which always owes a PUBCOMP — provided the
    transport takes that write). -/
theorem unknown_identifier_ignored (c : Ctx) (alive : Nat → Bool) (p : RxPacket) (wok : Bool) (aid : Nat)
    (ha : rxActionId p = some aid) (hn : aid ∉ c.awaiting.map (·.1)) :
    sendsOf (c.handlePkt alive p wok).2.1 = [] ∧
    (c.handlePkt alive p wok).1.awaiting = c.awaiting ∧
    ((wok = true ∨ ∀ a, p ≠ .pubrel a) → (c.handlePkt alive p wok).2.2 = .cont) := by
  have hl : lookupFirst aid c.awaiting = none := lookupFirst_none_of_not_mem _ _ hn
  have he : eraseFirst aid c.awaiting = c.awaiting := eraseFirst_of_not_mem _ _ hn
  cases p with
  | puback a =>
    simp only [rxActionId, Option.some.injEq] at ha; subst ha
    simp [Ctx.handlePkt, Ctx.complete_fst, Ctx.complete_snd, hl, he, sendsOf]
  | pubrec a =>
    simp only [rxActionId, Option.some.injEq] at ha; subst ha
    by_cases hr : a.reason ≥ 128 <;>
      simp [Ctx.handlePkt, Ctx.complete_fst, Ctx.complete_snd, hl, he, sendsOf, hr]
  | pubcomp a =>
    simp only [rxActionId, Option.some.injEq] at ha; subst ha
    simp [Ctx.handlePkt, Ctx.complete_fst, Ctx.complete_snd, hl, he, sendsOf]
  | suback a =>
    simp only [rxActionId, Option.some.injEq] at ha; subst ha
    simp [Ctx.handlePkt, Ctx.complete_fst, Ctx.complete_snd, hl, he, sendsOf]
  | unsuback a =>
    simp only [rxActionId, Option.some.injEq] at ha; subst ha
    simp [Ctx.handlePkt, Ctx.complete_fst, Ctx.complete_snd, hl, he, sendsOf]
  | pingresp =>
    simp only [rxActionId, Option.some.injEq] at ha; subst ha
    simp [Ctx.handlePkt, Ctx.complete_fst, Ctx.complete_snd, hl, he, sendsOf]
  | pubrel a =>
    refine ⟨by simp [Ctx.handlePkt, sendsOf], by simp [Ctx.handlePkt], ?_⟩
    rintro (h | h)
    · simp [Ctx.handlePkt, h]
    · exact absurd rfl (h a)
  | publish pb => simp [rxActionId] at ha
  | connack k => simp [rxActionId] at ha
  | auth k => simp [rxActionId] at ha
  | disconnect d => simp [rxActionId] at ha

/-- **A CONNACK or AUTH while `run()` is serving is ignored**: no state change, no effect, `run()` goes on. -/
theorem connack_auth_while_running_ignored (c : Ctx) (alive : Nat → Bool) (wok : Bool) (k : ConnackRx)
    (au : AuthRx) :
    c.handlePkt alive (.connack k) wok = (c, [], .cont) ∧ c.handlePkt alive (.auth au) wok = (c, [], .cont) :=
  ⟨rfl, rfl⟩

/-- **An unexpected first packet is an error, not a panic.** While `connect()` / `authorize()` wait for the
    first response, any decodable packet that is neither CONNACK nor AUTH makes the call return a codec error
    (and so does an undecodable frame). -/
theorem unexpected_first_packet_is_an_error (w : World) (call : Call) (t : ConnectTx) (a : AuthTx) (rx' : Rx)
    (rd' : List ReadEv) (fr : Bytes) (hp : pollNext w.rx w.reader = (rx', rd', .item fr)) :
    (∀ p, decodeRx fr = .ok p → (∀ k, p ≠ .connack k) → (∀ au, p ≠ .auth au) →
      w.awaitFirst call t a = ({ w with rx := rx', reader := rd' }).finish call (.err .codecError)) ∧
    (decodeRx fr = .err →
      w.awaitFirst call t a = ({ w with rx := rx', reader := rd' }).finish call (.err .codecError)) := by
  refine ⟨fun p hd h1 h2 => ?_, fun hd => by simp [World.awaitFirst, hp, hd]⟩
  cases p with
  | connack k => exact absurd rfl (h1 k)
  | auth au => exact absurd rfl (h2 au)
  | _ => simp [World.awaitFirst, hp, hd]

/-- what `Wait.accepts k p` says: the packet in the oneshot is of the kind the suspended handle future
    waits for (a fire-and-forget future accepts no packet at all: it is completed with `()`). -/
theorem wait_accepts_iff (k : Wait) (p : RxPacket) :
    World.Wait.accepts k p = true ↔
      (k = .puback ∧ ∃ a, p = .puback a) ∨ (k = .pubrec ∧ ∃ a, p = .pubrec a) ∨
      (k = .pubcomp ∧ ∃ a, p = .pubcomp a) ∨ (k = .suback ∧ ∃ a, p = .suback a) ∨
      (k = .unsuback ∧ ∃ a, p = .unsuback a) ∨ (k = .pingresp ∧ p = .pingresp) := by
  cases k <;> cases p <;> simp [World.Wait.accepts]

/-- **(i), (ii) for `connect()` / `authorize()`.** Waiting for the first response appends
    `PANIC ctx assert-subid` exactly when the first response is a CONNACK with reason < 0x80 announcing no
    subscription-identifier support (the documented assertion), and `PANIC ctx other` exactly when the decoder
    panics on the frame the framing layer handed over; otherwise it appends no panic at all. -/
theorem awaitFirst_panics (w : World) (call : Call) (t : ConnectTx) (a : AuthTx) :
    ((w.awaitFirst call t a).out = w.out ++ [.panic .ctx "assert-subid"] ↔
      ∃ rx' rd' fr k, pollNext w.rx w.reader = (rx', rd', .item fr) ∧ decodeRx fr = .ok (.connack k) ∧
        k.reason < 128 ∧ k.subIdAvail = false) ∧
    ((w.awaitFirst call t a).out = w.out ++ [.panic .ctx "other"] ↔
      ∃ rx' rd' fr, pollNext w.rx w.reader = (rx', rd', .item fr) ∧ decodeRx fr = .panic) ∧
    (∀ tk cls, (∃ pre, (w.awaitFirst call t a).out = w.out ++ pre ∧ Obs.panic tk cls ∈ pre) →
      tk = .ctx ∧ (cls = "assert-subid" ∨ cls = "other")) := by
  have key := World.firstEnd_out (World.awaitFirst_spec w call t a)
  refine ⟨⟨fun h => ?_, ?_⟩, ⟨fun h => ?_, ?_⟩, ?_⟩
  · rcases key with ⟨_, _, _, last, ho, hl⟩ | ⟨_, ho, _⟩
    · rw [ho] at h
      have : last = .panic .ctx "assert-subid" := by simpa using h
      subst this
      rcases hl with ⟨res, hr⟩ | ⟨_, hx⟩ | ⟨hr, _⟩
      · cases hr
      · exact hx
      · simp at hr
    · rw [ho] at h; simp at h
  · rintro ⟨rx', rd', fr, k, hp, hd, hk, hs⟩
    have : ¬ k.reason ≥ 128 := by omega
    simp [World.awaitFirst, hp, hd, this, hs]
  · rcases key with ⟨_, _, _, last, ho, hl⟩ | ⟨_, ho, _⟩
    · rw [ho] at h
      have : last = .panic .ctx "other" := by simpa using h
      subst this
      rcases hl with ⟨res, hr⟩ | ⟨hr, _⟩ | ⟨_, hx⟩
      · cases hr
      · simp at hr
      · exact hx
    · rw [ho] at h; simp at h
  · rintro ⟨rx', rd', fr, hp, hd⟩
    simp [World.awaitFirst, hp, hd]
  · rintro tk cls ⟨pre, hpre, hmem⟩
    rcases key with ⟨_, _, _, last, ho, hl⟩ | ⟨_, ho, _⟩
    · rw [ho] at hpre
      have : pre = [last] := (List.append_cancel_left hpre).symm
      subst this
      simp only [List.mem_singleton] at hmem
      subst hmem
      rcases hl with ⟨res, hr⟩ | ⟨hr, _⟩ | ⟨hr, _⟩
      · cases hr
      · simp only [Obs.panic.injEq] at hr; exact ⟨hr.1, Or.inl hr.2⟩
      · simp only [Obs.panic.injEq] at hr; exact ⟨hr.1, Or.inr hr.2⟩
    · rw [ho] at hpre
      have : pre = [] := by simpa using hpre
      subst this; simp at hmem

/-- **(ii) for `run()`, one step.** With nothing queued and a sender alive, the loop appends
    `PANIC ctx other` when — and, by `world_panics_enumerated`, only when — the decoder panics on the frame the
    framing layer handed over. -/
theorem runLoop_panic_step (f : Nat) (w : World) (rx' : Rx) (rd' : List ReadEv) (fr : Bytes)
    (hq : w.queue = []) (hs : w.senders ≠ 0) (hp : pollNext w.rx w.reader = (rx', rd', .item fr))
    (hd : decodeRx fr = .panic) :
    w.runLoop (f + 1) = ({ w with rx := rx', reader := rd', task := .none }).emit (.panic .ctx "other") := by
  rw [World.runLoop_succ]; simp [World.runIter, hq, hs, hp, hd]

/-- **(iii) for a handle future.** Resuming an operation with the value of its oneshot appends
    `PANIC op<id> unreachable` exactly when the oneshot holds a packet whose kind is not the one the operation
    waits for; the operation is removed either way. (`Ctx.complete` only ever sends an acknowledgement to the
    oneshot registered under that acknowledgement's own action identifier, so this does not happen as long as
    action identifiers are not reused while in flight.) -/
theorem resumeOp_panics (w : World) (id s : Nat) (k : Wait) (v : SlotVal) :
    (w.resumeOp id s k v).out = w.out ++ [.panic (.op id) "unreachable"] ↔
      ∃ p, v = .pkt p ∧ World.Wait.accepts k p = false := by
  constructor
  · intro h
    by_cases hm : ∃ p, v = .pkt p ∧ World.Wait.accepts k p = false
    · exact hm
    · exfalso
      have hc : ∀ p, v = .pkt p → World.Wait.accepts k p = true := by
        intro p hv
        cases ha : World.Wait.accepts k p with
        | true => rfl
        | false => exact absurd ⟨p, hv, ha⟩ hm
      obtain ⟨added, e, hcalm⟩ := World.resumeOp_calm w id s k v hc
      rw [e] at h
      have : added = [.panic (.op id) "unreachable"] := List.append_cancel_left h
      subst this
      exact hcalm _ (by simp) (.op id) "unreachable" rfl
  · rintro ⟨p, rfl, hp⟩
    exact (World.resumeOp_panic w id s k p hp).1

/-- **The panics of the whole client, enumerated.** One poll of any task appends observations to the log;
    every `PANIC` among them is one of:
    (i) `ctx assert-subid` — the task polled is the `connect()` / `authorize()` future and the first response
        is a CONNACK with reason < 0x80 and no subscription-identifier support (the documented assertion);
    (ii) `ctx other` — the decoder panicked on a frame emitted by `poll_next` from a framing state reachable
        from the current one (excluded by `reachable_client_never_panics_other`);
    (iii) `op<id> unreachable` — the task polled is that handle future and its oneshot holds a packet of a kind
        it does not wait for. -/
theorem world_panics_enumerated (w : World) (t : Task) :
    ∃ added, (w.pollTask t).out = w.out ++ added ∧ ∀ tk cls, Obs.panic tk cls ∈ added →
      (t = .ctx ∧ tk = .ctx ∧ cls = "assert-subid" ∧ ∃ call tx a st rx' rd' fr k,
        w.task = .connecting call tx a st ∧ pollNext w.rx w.reader = (rx', rd', .item fr) ∧
        decodeRx fr = .ok (.connack k) ∧ k.reason < 128 ∧ k.subIdAvail = false) ∨
      (t = .ctx ∧ tk = .ctx ∧ cls = "other" ∧ ∃ rx rd rx' rd' fr, (Reach w.rx → Reach rx) ∧
        pollNext rx rd = (rx', rd', .item fr) ∧ decodeRx fr = .panic) ∨
      (∃ id s k p, t = .op id ∧ tk = .op id ∧ cls = "unreachable" ∧ w.opSt id = some (.wait s k) ∧
        w.slot s = some (.full (.pkt p)) ∧ World.Wait.accepts k p = false) := by
  cases t with
  | ctx =>
    obtain ⟨added, e, hP⟩ := World.pollCtx_panics (w.unwake .ctx)
    refine ⟨added, by simpa [World.pollTask] using e, fun tk cls hmem => ?_⟩
    rcases hP _ hmem with hc | ⟨he, call, tx, a, st, rx', rd', fr, k, h1, h2, h3, h4, h5⟩ |
        ⟨he, rx, rd, rx', rd', fr, h1, h2, h3⟩
    · exact absurd rfl (hc tk cls)
    · simp only [Obs.panic.injEq] at he
      exact Or.inl ⟨rfl, he.1, he.2, call, tx, a, st, rx', rd', fr, k, by simpa using h1, by simpa using h2,
        h3, h4, h5⟩
    · simp only [Obs.panic.injEq] at he
      exact Or.inr (Or.inl ⟨rfl, he.1, he.2, rx, rd, rx', rd', fr, by simpa using h1, h2, h3⟩)
  | op id =>
    rcases World.pollOp_panics (w.unwake (.op id)) id with ⟨s, k, p, h1, h2, h3, h4⟩ | ⟨_, added, e, hc⟩
    · refine ⟨[.panic (.op id) "unreachable"], by simpa [World.pollTask] using h4, fun tk cls hmem => ?_⟩
      simp only [List.mem_singleton, Obs.panic.injEq] at hmem
      exact Or.inr (Or.inr ⟨id, s, k, p, rfl, hmem.1, hmem.2, by simpa using h1, by simpa using h2, h3⟩)
    · exact ⟨added, by simpa [World.pollTask] using e, fun tk cls hmem => absurd rfl (hc _ hmem tk cls)⟩
  | st id =>
    obtain ⟨added, e, hc⟩ := World.pollStream_calm (w.unwake (.st id)) id
    exact ⟨added, by simpa [World.pollTask] using e, fun tk cls hmem => absurd rfl (hc _ hmem tk cls)⟩

/-- **From reachable framing states the decoder panic is impossible**: the framing layer only hands over
    frames of at least two bytes (`framing_index_safe`) and the decoder does not panic on a non-empty frame
    (`decodeRx_never_panics`). So the only panics one poll of any task can produce are the documented
    assertion (i) and the wrong-kind packet in a oneshot (iii). -/
theorem reachable_client_never_panics_other (w : World) (t : Task) (hr : Reach w.rx) :
    ∃ added, (w.pollTask t).out = w.out ++ added ∧ ∀ tk cls, Obs.panic tk cls ∈ added →
      (t = .ctx ∧ tk = .ctx ∧ cls = "assert-subid" ∧ ∃ call tx a st rx' rd' fr k,
        w.task = .connecting call tx a st ∧ pollNext w.rx w.reader = (rx', rd', .item fr) ∧
        decodeRx fr = .ok (.connack k) ∧ k.reason < 128 ∧ k.subIdAvail = false) ∨
      (∃ id s k p, t = .op id ∧ tk = .op id ∧ cls = "unreachable" ∧ w.opSt id = some (.wait s k) ∧
        w.slot s = some (.full (.pkt p)) ∧ World.Wait.accepts k p = false) := by
  obtain ⟨added, e, h⟩ := world_panics_enumerated w t
  refine ⟨added, e, fun tk cls hmem => ?_⟩
  rcases h tk cls hmem with h1 | ⟨_, _, _, rx, rd, rx', rd', fr, h2, h3, h4⟩ | h3
  · exact Or.inl h1
  · exact absurd h4 (World.no_decoder_panic (h2 hr) h3)
  · exact Or.inr h3

/-- **A transport fault makes the affected call return an error — it neither panics nor hangs.**
    (a) `poll_next` reporting the end of the stream (end-of-stream, a read error, or a malformed length field —
        `pollNext_spec` in C03 says these are the only reasons) makes `run()` return `SocketClosed` …
    (b) … and `connect()` / `authorize()` return `SocketClosed`;
    (c) a handler whose write the transport cannot take is run with `wok = false`; whenever such a handler
        attempts a write, `run()` ends with `SocketClosed`. -/
theorem transport_fault_returns_error (w : World) :
    (∀ f rx' rd', w.queue = [] → w.senders ≠ 0 → pollNext w.rx w.reader = (rx', rd', .none) →
      w.runLoop (f + 1) = ({ w with rx := rx', reader := rd' }).finish .run (.err .socketClosed)) ∧
    (∀ call t a rx' rd', pollNext w.rx w.reader = (rx', rd', .none) →
      w.awaitFirst call t a = ({ w with rx := rx', reader := rd' }).finish call (.err .socketClosed)) ∧
    (∀ h : Bool → Ctx × List Eff × Flow, w.canWrite (World.writeNeed (h true).2.1) = false →
      (w.runHandler h).2 = (h false).2.2 ∧ (w.runHandler h).1.c = (h false).1) ∧
    (∀ (c : Ctx) (m : Msg), writesOf (c.handleMsg m false).2.1 ≠ [] →
      World.flowRet (c.handleMsg m false).2.2 = .err .socketClosed) ∧
    (∀ (c : Ctx) (alive : Nat → Bool) (p : RxPacket), writesOf (c.handlePkt alive p false).2.1 ≠ [] →
      World.flowRet (c.handlePkt alive p false).2.2 = .err .socketClosed) := by
  refine ⟨fun f rx' rd' hq hs hp => ?_, fun call t a rx' rd' hp => ?_, fun h hc => ?_, fun c m hw => ?_,
    fun c alive p hw => ?_⟩
  · rw [World.runLoop_succ]; simp [World.runIter, hq, hs, hp]
  · simp [World.awaitFirst, hp]
  · rw [World.runHandler_eq, hc]; simp
  · have : (c.handleMsg m false).2.2 = .exitSocket := by
      cases m with
      | ff pkt slot => cases hs : c.sizeOk pkt <;> simp_all [Ctx.handleMsg, writesOf]
      | awaitAck aid pkt slot =>
        cases hs : c.sizeOk pkt <;> by_cases h3 : pktType pkt = 3 <;> by_cases h6 : pktType pkt = 6 <;>
          by_cases hq : c.quota = 0 <;> simp_all [Ctx.handleMsg, writesOf]
      | subscribe aid sid pkt slot ch => cases hs : c.sizeOk pkt <;> simp_all [Ctx.handleMsg, writesOf]
    rw [this]; rfl
  · have : (c.handlePkt alive p false).2.2 = .exitSocket := by
      cases p with
      | publish pb =>
        obtain ⟨effs0, h0, h1, h2⟩ := Ctx.handlePkt_publish c alive pb false
        obtain ⟨hw0, _⟩ := Ctx.writesOf_of_dispatchLike alive pb effs0 h0
        rw [h1] at hw; rw [h2]
        cases hp : pb.packetId <;> simp_all [Ctx.writesOf_append]
      | pubrel a => simp [Ctx.handlePkt]
      | disconnect d => simp [Ctx.handlePkt, writesOf] at hw
      | connack k => simp [Ctx.handlePkt, writesOf] at hw
      | auth k => simp [Ctx.handlePkt, writesOf] at hw
      | puback a => simp [Ctx.handlePkt, Ctx.writesOf_complete] at hw
      | pubrec a => simp [Ctx.handlePkt, Ctx.writesOf_complete] at hw
      | pubcomp a => simp [Ctx.handlePkt, Ctx.writesOf_complete] at hw
      | suback a => simp [Ctx.handlePkt, Ctx.writesOf_complete] at hw
      | unsuback a => simp [Ctx.handlePkt, Ctx.writesOf_complete] at hw
      | pingresp => simp [Ctx.handlePkt, Ctx.writesOf_complete] at hw
    rw [this]; rfl

/-- **The context never goes to sleep on unread input.** Whenever a poll leaves the `connect()` /
    `authorize()` / `run()` future alive (from a framing state satisfying the invariant): the transport's
    event queue has been read to the end, or the task has woken itself and will be polled again; the framing
    machine is idle and what it has buffered contains no complete packet (`framing_no_lost_wakeup`). So the
    executor's stall check — context alive with unread transport events and nobody woken — cannot fire. -/
theorem stall_impossible_after_pending (w : World) (hok : w.rx.Ok) (h : (w.pollCtx).task ≠ .none) :
    ((w.pollCtx).reader = [] ∨ .ctx ∈ (w.pollCtx).woken) ∧ (w.pollCtx).rx.st = .idle ∧
    frames (w.pollCtx).rx.valid = some ([], (w.pollCtx).rx.valid) := by
  have fin : ∀ (rx0 : Rx) (rd0 : List ReadEv) (r : World), rx0.Ok →
      pollNext rx0 rd0 = (r.rx, r.reader, .pending) →
      ((r.reader = [] ∧ r.readerReg = true) ∨ .ctx ∈ r.woken) →
      (r.reader = [] ∨ .ctx ∈ r.woken) ∧ r.rx.st = .idle ∧ frames r.rx.valid = some ([], r.rx.valid) := by
    intro rx0 rd0 r h0 hp hw
    obtain ⟨_, h2, h3⟩ := framing_no_lost_wakeup rx0 rd0 r.rx r.reader h0 hp
    exact ⟨hw.imp (fun x => x.1) id, h2, h3⟩
  unfold World.pollCtx at h ⊢
  cases ht : w.task with
  | none => simp [ht] at h
  | connecting call t a started =>
    simp only [ht] at h ⊢
    cases started with
    | true =>
      simp only [World.pollConnect, ↓reduceIte] at h ⊢
      rcases World.firstEnd_out (World.awaitFirst_spec w call t a) with ⟨h1, _⟩ | ⟨_, _, _, _, h5, h6⟩
      · exact absurd h1 h
      · exact fin _ _ _ hok h6 h5
    | false =>
      rcases World.pollConnect_prelude w call t a with ⟨_, h2⟩ | ⟨_, w0, a1, _, _, _, _, _, _, h2 | h2⟩
      · rw [h2] at h; exact absurd rfl h
      · rw [h2] at h ⊢
        rcases World.firstEnd_out (World.awaitFirst_spec w0 call t a) with ⟨h1, _⟩ | ⟨_, _, _, _, h5, h6⟩
        · exact absurd h1 h
        · exact fin _ _ _ (a1 ▸ hok) h6 h5
      · rw [h2] at h; exact absurd rfl h
  | running started =>
    simp only [ht] at h ⊢
    cases started with
    | true =>
      simp only [World.pollRun, ↓reduceIte] at h ⊢
      obtain ⟨_, _, _, _, h5, wm, _, hokm, _, hp⟩ := World.runLoop_alive_facts w hok h
      exact fin _ _ _ hokm hp h5
    | false =>
      obtain ⟨w0, a1, _, _, _, _, _, _, h2 | h2⟩ := World.pollRun_prelude w
      · rw [h2] at h ⊢
        obtain ⟨_, _, _, _, h5, wm, _, hokm, _, hp⟩ := World.runLoop_alive_facts w0 (a1 ▸ hok) h
        exact fin _ _ _ hokm hp h5
      · rw [h2] at h; exact absurd rfl h

/-- **The framing state stays reachable along every script.** Every script event — with everything the
    executor does after it: drain, sweep, drain, stall check — takes a world whose framing state is reachable
    (`Framing.Reach`: obtained from the initial state by `poll_next` calls) to another such world. `SETUP`
    installs the initial state; nothing but `poll_next` ever touches it. So the hypotheses `Reach w.rx` /
    `w.rx.Ok` of the theorems of C04, C13 and C16 hold in every world a script can produce. -/
theorem step_preserves_reach (w : World) (e : Ev) (hr : Reach w.rx) : Reach (w.step e).rx :=
  (World.step_safe w e hr).1

/-- every world of every run has a reachable framing state (and so satisfies the framing invariant) -/
theorem run_states_reachable (cfg : Cfg) (evs : List Ev) :
    Reach (evs.foldl World.step { cfg := cfg }).rx ∧ (evs.foldl World.step { cfg := cfg }).rx.Ok := by
  have h := (World.steps_safe evs { cfg := cfg } Reach.init).1
  exact ⟨h, reach_ok h⟩

/-- **No script whatsoever makes the decoder panic.** Whatever the configuration (executor, read chunking,
    write limits) and whatever the events — any bytes fed in any chunks, end of stream, read errors, any
    operations, drops and polls in any order — the transcript of the run contains no `PANIC ctx other`. -/
theorem run_never_panics_other (cfg : Cfg) (evs : List Ev) : Obs.panic .ctx "other" ∉ World.run cfg evs := by
  have h := World.steps_safe evs { cfg := cfg } Reach.init
  have h2 := World.safe_trans h (World.flushRaw_safe _ h.1)
  obtain ⟨added, e, hP⟩ := h2.2
  unfold World.run World.finishScript
  rw [e]
  simp only [List.nil_append]
  intro hmem
  exact hP _ hmem rfl

/-! ## Non-vacuity: the hypotheses are satisfiable and the conclusions are not trivial (worlds of Lemmas/WorldEx.lean) -/
section NonVacuity
open Ex

/-- a PUBACK for packet 9 which nobody awaits (`unknown_identifier_ignored` applies): nothing is sent -/
example : rxActionId (.puback { packetId := 9 }) = some (actionId 4 9) ∧
    actionId 4 9 ∉ wRun.c.awaiting.map (·.1) ∧
    (wRun.c.handlePkt (fun _ => true) (.puback { packetId := 9 }) true).2 = ([], .cont) := by decide
/-- (i) the documented assertion: a CONNACK announcing no subscription-identifier support -/
example : ((wConn connackNoSubId).awaitFirst .connect {} {}).out = [.panic .ctx "assert-subid"] :=
  (awaitFirst_panics (wConn connackNoSubId) .connect {} {}).1.mpr
    ⟨{}, [], connackNoSubId, kNoSubId, pn_connackNoSubId, dec_connackNoSubId, by decide, rfl⟩
/-- a PINGRESP as the first response is an error, not a panic -/
example : ((wConn pingresp).awaitFirst .connect {} {}).out = [.ret .connect (.err .codecError)] := by
  rw [(unexpected_first_packet_is_an_error (wConn pingresp) .connect {} {} {} [] pingresp pn_pingresp).1
    .pingresp dec_pingresp (by intro k h; cases h) (by intro k h; cases h)]
  rfl
/-- (iii) a PINGRESP in the oneshot of an operation waiting for a PUBACK -/
example : (wRun.resumeOp 1 2 .puback (.pkt .pingresp)).out = [.panic (.op 1) "unreachable"] :=
  (resumeOp_panics wRun 1 2 .puback (.pkt .pingresp)).mpr ⟨_, rfl, rfl⟩
/-- the hypothesis `Reach w.rx` of `reachable_client_never_panics_other` holds for a fresh transport, and is
    kept by every `poll_next` -/
example : Reach (wConn connackOk).rx ∧ Reach (pollNext (wConn connackOk).rx (wConn connackOk).reader).1 :=
  ⟨Reach.init, Reach.poll _ Reach.init⟩
/-- end of stream while connecting: `SocketClosed` -/
example : (({ wConn [] with reader := [.eof] } : World).awaitFirst .connect {} {}).out =
    [.ret .connect (.err .socketClosed)] := by
  rw [(transport_fault_returns_error _).2.1 .connect {} {} {} [.eof] pn_eof]; rfl
/-- a write the transport refuses (limit 0): the PUBREL handler's flow is `SocketClosed` -/
example : World.flowRet (wRun.c.handlePkt (fun _ => true) (.pubrel { packetId := 3 }) false).2.2 =
    .err .socketClosed := by decide
/-- pending with everything read: the hypotheses and conclusion of `stall_impossible_after_pending` -/
example : (wConn [0x20]).rx.Ok ∧ ((wConn [0x20]).pollCtx).task ≠ .none ∧ ((wConn [0x20]).pollCtx).reader = [] := by
  have : (wConn [0x20]).pollCtx = (wConn [0x20]).awaitFirst .connect {} {} := rfl
  rw [this]
  refine ⟨ok_init, ?_, ?_⟩ <;> simp [World.awaitFirst, wConn, pn_pending]

end NonVacuity

#print axioms unknown_identifier_ignored
#print axioms connack_auth_while_running_ignored
#print axioms unexpected_first_packet_is_an_error
#print axioms wait_accepts_iff
#print axioms awaitFirst_panics
#print axioms runLoop_panic_step
#print axioms resumeOp_panics
#print axioms world_panics_enumerated
#print axioms reachable_client_never_panics_other
#print axioms transport_fault_returns_error
#print axioms stall_impossible_after_pending
#print axioms step_preserves_reach
#print axioms run_states_reachable
#print axioms run_never_panics_other

end Poster
