/-
  Properties/C04Decode.lean — C04, decoder part: no byte sequence makes the packet decoders panic.

  C04: "For every byte sequence … the client never panics." The modelled panics of the decoding layer are
    (1) `Bytes::advance` past the end of the buffer (`tryDec`, `advanceBy`),
    (2) `bytes[0]` on an empty frame (`decodeRx []`) — excluded: the framing layer hands over frames of ≥ 2 bytes,
    (3) `u32` overflow in the variable byte integer loop (debug builds) — `decVar_no_overflow`.
  Helper lemmas: PosterModel/Lemmas/NoPanic.lean.
-/
import PosterModel.Lemmas.NoPanic

namespace Poster

/-- **C04 (decoder).** `RxPacket::try_decode` never panics on a non-empty frame, whatever the bytes are:
    no primitive decoder reports a byte length larger than the buffer it decoded from, so no
    `Decoder::try_decode` / `advance_by` runs past the end. -/
theorem decodeRx_never_panics (bs : Bytes) (h : bs ≠ []) : decodeRx bs ≠ .panic := by
  cases bs with
  | nil => exact absurd rfl h
  | cons b t =>
    simp only [decodeRx]
    split
    · exact Res.map_ne_panic (decConnack_np _)
    · exact Res.map_ne_panic (decPublish_np _)
    · exact Res.map_ne_panic (decAck_np _ _ _)
    · exact Res.map_ne_panic (decAck_np _ _ _)
    · exact Res.map_ne_panic (decAck_np _ _ _)
    · exact Res.map_ne_panic (decAck_np _ _ _)
    · exact Res.map_ne_panic (decSubackLike_np _ _ _)
    · exact Res.map_ne_panic (decSubackLike_np _ _ _)
    · refine Res.bind_ne_panic (dU8_np _) fun ⟨hd, _⟩ _ => ?_
      simp only; split <;> simp
    · exact Res.map_ne_panic (decDisconnect_np _)
    · exact Res.map_ne_panic (decAuth_np _)
    · simp

/-- The one modelled panic of `decodeRx`: indexing `bytes[0]` of an empty buffer (so the hypothesis of
    `decodeRx_never_panics` is necessary). -/
example : decodeRx [] = .panic := rfl

/-- Each packet decoder on its own never panics, for every input including the empty one
    (`decoder.try_decode::<u8>()` on an empty buffer is an error, not a panic). -/
theorem packet_decoders_never_panic (bs : Bytes) :
    decConnack bs ≠ .panic ∧ decAuth bs ≠ .panic ∧ decPublish bs ≠ .panic ∧ decDisconnect bs ≠ .panic ∧
    (∀ hdr ok, decAck hdr ok bs ≠ .panic) ∧ (∀ hdr ok, decSubackLike hdr ok bs ≠ .panic) :=
  ⟨decConnack_np bs, decAuth_np bs, decPublish_np bs, decDisconnect_np bs,
   fun _ _ => decAck_np _ _ bs, fun _ _ => decSubackLike_np _ _ bs⟩

/-- The calls `decVarAux idx mult acc rest` that the loop of `VarSizeInt::try_from(&[u8])` makes on `input`:
    it starts at `decVarAux 0 1 0 input` and recurses exactly when the multiplier test passes and the byte has
    its continuation bit set. -/
inductive VarReach (input : Bytes) : Nat → Nat → Nat → Bytes → Prop where
  | start : VarReach input 0 1 0 input
  | step {idx mult acc : Nat} {b : UInt8} {rest : Bytes} :
      VarReach input idx mult acc (b :: rest) → ¬ mult > varMax → ¬ b.toNat < 128 →
      VarReach input (idx + 1) (mult * 128) (acc + (b.toNat % 128) * mult) rest

/-- `VarReach` is faithful to the recursion: every reachable call computes the result of the whole loop. -/
theorem varReach_result {input : Bytes} {idx mult acc : Nat} {bs : Bytes} (h : VarReach input idx mult acc bs) :
    decVarAux idx mult acc bs = decVar input := by
  induction h with
  | start => rfl
  | step _ hm hb ih => rw [← ih]; simp only [decVarAux, hm, hb, ↓reduceIte]

/-- **C04 (arithmetic).** In the variable byte integer loop, at every reachable iteration the multiplier is one of
    1, 128, 128², 128³, 128⁴ (so `≤ 2^28`), the accumulator is below the multiplier (so `< 2^28`), and whenever the
    multiplier test `mult > MAX` passes, the two `u32` operations of the iteration — `acc + (b & 127) * mult` and
    `mult * 128` — stay `< 2^28` resp. `≤ 2^28`: nothing overflows a `u32`, and at most four bytes are consumed. -/
theorem decVar_no_overflow {input : Bytes} {idx mult acc : Nat} {bs : Bytes} (h : VarReach input idx mult acc bs) :
    idx ≤ 4 ∧ mult = 128 ^ idx ∧ mult ≤ 2 ^ 28 ∧ acc < mult ∧ acc < 2 ^ 28 ∧
    (¬ mult > varMax → idx ≤ 3 ∧ mult * 128 ≤ 2 ^ 28 ∧
      ∀ b : UInt8, (b.toNat % 128) * mult < 2 ^ 28 ∧ acc + (b.toNat % 128) * mult < 2 ^ 28) := by
  have key : (idx = 0 ∧ mult = 1) ∨ (idx = 1 ∧ mult = 128) ∨ (idx = 2 ∧ mult = 16384) ∨
      (idx = 3 ∧ mult = 2097152) ∨ (idx = 4 ∧ mult = 268435456) := by
    induction h with
    | start => simp
    | step _ hm _ ih => simp only [varMax] at hm; omega
  have hacc : acc < mult := by
    induction h with
    | start => simp
    | @step idx mult acc b rest _ _ _ ih =>
      have : b.toNat % 128 ≤ 127 := by omega
      have : b.toNat % 128 * mult ≤ 127 * mult := Nat.mul_le_mul_right _ this
      omega
  simp only [varMax]
  rcases key with ⟨rfl, rfl⟩ | ⟨rfl, rfl⟩ | ⟨rfl, rfl⟩ | ⟨rfl, rfl⟩ | ⟨rfl, rfl⟩ <;>
    refine ⟨by omega, by decide, by omega, hacc, by omega, fun hm => ⟨by omega, by omega, fun b => ?_⟩⟩ <;>
    omega

/-- non-vacuity of `VarReach`: on `ff ff ff 7f` the loop reaches index 3 with multiplier 128³. -/
example : VarReach [0xff, 0xff, 0xff, 0x7f] 3 2097152 2097151 [0x7f] :=
  .step (.step (.step .start (by decide) (by decide)) (by decide) (by decide)) (by decide) (by decide)

end Poster

#print axioms Poster.decodeRx_never_panics
#print axioms Poster.packet_decoders_never_panic
#print axioms Poster.varReach_result
#print axioms Poster.decVar_no_overflow
