/-
  Properties/C08.lean — every inbound QoS>0 PUBLISH and every PUBREL is acknowledged exactly once, with its packet
  identifier, in arrival order; a QoS 0 PUBLISH and every other packet is answered with nothing.

  Model: `Ctx.handlePkt` / `Ctx.handleMsg` (PosterModel/Ctx.lean) = `handle_packet` / `handle_message` of
  src/client/context.rs; histories `Ctx.serve` and the predicate `P_C08` are in PosterModel/CtxRun.lean.

  Vocabulary
    `writesOf effs`   the byte strings a handler wrote on the transport, in order
    `ackOwed p`       the acknowledgement MQTT 5 requires for the inbound packet `p` (one PUBACK / PUBREC / PUBCOMP with
                      the packet's identifier, or nothing), as bytes
    `RxPacket.wf`     what the decoder guarantees (`decodeRx_wf`): identifiers in 1..65535, a PUBLISH has QoS ≤ 2 and an
                      identifier exactly when QoS > 0
    `pktWrites t` / `pktOwed t`   concatenation of `writesOf` / `ackOwed` over the handled packets of a history
-/
import PosterModel.Lemmas.CtxPkt
import PosterModel.Lemmas.CtxDecodeWf

set_option linter.unusedVariables false
set_option linter.unusedSimpArgs false

namespace Poster

/-- **The decoder establishes `RxPacket.wf`.** Whatever bytes arrive, a packet that `RxPacket::try_decode` accepts has a
    packet identifier in 1..65535 wherever it has one, and a PUBLISH has QoS 0, 1 or 2 and carries an identifier exactly
    when its QoS is 1 or 2. This is what makes the `unreachable!("No acknowledgement for QoS==0.")` in the PUBLISH arm of
    `handle_packet` unreachable. -/
theorem decodeRx_wf (bs : Bytes) (p : RxPacket) : decodeRx bs = .ok p → p.wf :=
  decodeRx_wf_aux bs p

/-- **The acknowledgements the client writes are the four-byte short form**: fixed header, remaining length 2, the
    packet identifier big-endian (and for an identifier below 65536 the two bytes are that identifier). -/
theorem ackBytes_shape (hdr pid : Nat) (h : pid < 65536) :
    ackBytes hdr pid = [UInt8.ofNat hdr, 2, UInt8.ofNat (pid / 256), UInt8.ofNat (pid % 256)] ∧
    (UInt8.ofNat (pid / 256)).toNat * 256 + (UInt8.ofNat (pid % 256)).toNat = pid := by
  constructor
  · simp [ackBytes, AckTx.encode, AckTx.remainingLen, AckTx.propertyLen, oLen, userLen, encU8, encVar, encU16]
  · simp only [u8_toNat_ofNat]; omega

/-- **One handled input.** For an inbound packet the client writes exactly the acknowledgement owed — one PUBACK for a
    QoS 1 PUBLISH, one PUBREC for a QoS 2 PUBLISH (first delivery or re-delivery), one PUBCOMP for a PUBREL, each with
    the packet's identifier, and nothing for a QoS 0 PUBLISH or any other packet — in EVERY state: whether or not the
    PUBLISH names subscriptions, whether they are registered, whether their streams are alive (`dead`), whether the
    identifier of an acknowledgement is known. Handling an application request writes nothing or exactly that request's
    packet, so it never adds or removes an acknowledgement. -/
theorem step_acks (c : Ctx) (i : CIn) (h : i.wf) :
    match i with
    | .pkt p dead wok => writesOf (c.stepIn i).2.effs = ackOwed p
    | .msg m wok => writesOf (c.stepIn i).2.effs = [] ∨ writesOf (c.stepIn i).2.effs = [m.pkt] := by
  cases i with
  | msg m wok =>
    simp only [Ctx.stepIn, CObs.effs]
    cases m <;> simp only [Ctx.handleMsg, Msg.pkt] <;> (repeat' split) <;> simp
  | pkt p dead wok =>
    simp only [Ctx.stepIn, CObs.effs]
    rw [Ctx.handlePkt_writes]
    cases p with
    | publish pb =>
      obtain ⟨hq, hiff, hrange⟩ : pb.wf := h
      simp only
      cases hp : pb.packetId with
      | none => simp [ackOwed_publish_none pb hp]
      | some pid =>
        have hq0 : pb.qos ≠ 0 := by intro h0; rw [hiff.mp h0] at hp; simp at hp
        by_cases h1 : pb.qos = 1
        · simp [ackOwed_publish_q1 pb pid h1 hp, h1]
        · have h2 : pb.qos = 2 := by omega
          simp [ackOwed_publish_q2 pb pid h2 hp, h2]
    | _ => simp [ackOwed]

/-- **Every history.** Whatever the starting state and whatever sequence of application requests and (decodable) inbound
    packets `run()` serves, with writes succeeding or failing: every handled packet is answered with exactly the
    acknowledgement owed, every handled request with nothing or its own packet. -/
theorem acks_exact (c : Ctx) (is : List CIn) (h : ∀ i ∈ is, i.wf) : P_C08 (c.serve is).2 = true := by
  simp only [P_C08, List.all_eq_true]
  intro o ho
  obtain ⟨c', i, hi, rfl⟩ := Ctx.serve_obs c is o ho
  have hs := step_acks c' i (h i hi)
  cases i with
  | msg m wok =>
    simp only [Ctx.stepIn, CObs.effs] at hs ⊢
    simpa using hs
  | pkt p dead wok =>
    simp only [Ctx.stepIn, CObs.effs] at hs ⊢
    simpa using hs

/-- **In arrival order.** Reading off the history everything written while handling inbound packets gives exactly the list
    of acknowledgements owed for those packets, in the order the packets arrived: none missing, none twice, none out of
    order, none for a packet that is owed nothing. -/
theorem acks_in_arrival_order (c : Ctx) (is : List CIn) (h : ∀ i ∈ is, i.wf) :
    pktWrites (c.serve is).2 = pktOwed (c.serve is).2 := by
  have hall : ∀ o ∈ (c.serve is).2, obsWrites o = obsOwed o := by
    intro o ho
    obtain ⟨c', i, hi, rfl⟩ := Ctx.serve_obs c is o ho
    have hs := step_acks c' i (h i hi)
    cases i with
    | msg m wok => simp [Ctx.stepIn, obsWrites, obsOwed]
    | pkt p dead wok => simpa [Ctx.stepIn, CObs.effs, obsWrites, obsOwed] using hs
  unfold pktWrites pktOwed
  generalize (c.serve is).2 = t at hall
  induction t with
  | nil => rfl
  | cons o t ih =>
    simp only [List.flatMap_cons]
    rw [hall o (by simp), ih (fun o' ho' => hall o' (by simp [ho']))]

/-- the acknowledgement is written even when the subscription identifier is unknown and the channel is dead -/
example :
    ((({} : Ctx).serve
      [.pkt (.publish { topic := [], qos := 1, packetId := some 7, subIds := [3] }) [5] true,
       .pkt (.publish { topic := [], qos := 2, packetId := some 8 }) [] true,
       .pkt (.publish { topic := [], qos := 2, packetId := some 8 }) [] true,
       .pkt (.publish { topic := [] }) [] true,
       .pkt (.pubrel { packetId := 8 }) [] true]).2.map fun o => writesOf o.effs) =
    [[[0x40, 2, 0, 7]], [[0x50, 2, 0, 8]], [[0x50, 2, 0, 8]], [], [[0x70, 2, 0, 8]]] := by decide

/-- non-vacuity of `decodeRx_wf`: a PUBREL with identifier 0x0102 and a QoS 1 PUBLISH (topic "a", identifier 0x0102,
    no properties, payload 00) decode, hence are well formed -/
example : decodeRx [0x62, 2, 1, 2] = .ok (.pubrel { packetId := 258 }) := by decide
example : (RxPacket.pubrel { packetId := 258 }).wf := decodeRx_wf [0x62, 2, 1, 2] _ (by decide)
example : decodeRx [0x32, 7, 0, 1, 0x61, 1, 2, 0, 0] =
    .ok (.publish { topic := [0x61], qos := 1, packetId := some 258, payload := [0] }) := by
  simp [decodeRx, decPublish, dU8, dVar, dStr, dNzU16, tryDec, decU8, decVarR, decVar, decVarAux, varMax, decStr, decBin,
    utf8Valid, strLen, decNzU16, decU16, Res.map, foldProps, advanceBy]

#print axioms decodeRx_wf
#print axioms ackBytes_shape
#print axioms step_acks
#print axioms acks_exact
#print axioms acks_in_arrival_order

end Poster
