/-
  Properties/C03.lean — framing is independent of chunking; no lost wakeups
  (plus the framing parts of C04 "never panics" and C16 "Pending only after the reader registered the waker").

  Model: `Poster.Framing.pollNext` (PosterModel/Framing.lean) = `RxPacketStream::poll_next`.
  Reference: `Poster.Framing.frames` = greedy split of a byte string by fixed header + variable byte integer.
  Consumer loop, invariant and helper lemmas: PosterModel/Lemmas/Framing.lean.

  Vocabulary used in the statements
    `dataOf rs`   the bytes the transport script `rs` delivers before it ends
                  (on scripts without end events: the concatenation of all `data` events, `dataOf_eq_flatten`)
    `Clean rs`    `rs` consists of non-empty `data` events and `pending` events only (`clean_iff`)
    `collect n s rs = (items, s', rs', stop)`   the client's loop over the stream with fuel `n`
    `mu s rs = evBytes rs + rs.length + s.valid.length`   fuel bound (`collect_fuel`: fuel above it is irrelevant)
    `Rx.Ok`       the state invariant
-/
import PosterModel.Lemmas.Framing

set_option linter.unusedVariables false
set_option linter.unusedSimpArgs false

namespace Poster.Framing
open Poster

/-- **One call of `poll_next`**, from any state satisfying the invariant:
    an emitted item is exactly one complete frame and the byte stream is conserved
    (`buffered ++ unread = item ++ buffered' ++ unread'`);
    `Pending` conserves the stream, re-establishes the invariant and leaves the machine in `Idle`;
    `Ready(None)` conserves the stream and is reported only from `Idle` with an end-of-stream event
    (`eof`, `err`, zero-length read) next in the script, or from `ReadPacketLen` on a malformed length field. -/
theorem pollNext_spec (s : Rx) (rs : List ReadEv) (hs : s.Ok) :
    match pollNext s rs with
    | (s', rs', .item p) =>
        s.valid ++ dataOf rs = p ++ (s'.valid ++ dataOf rs') ∧ (∃ k, frameLen p = .ok p.length k) ∧ s'.Ok
    | (s', rs', .pending) =>
        s.valid ++ dataOf rs = s'.valid ++ dataOf rs' ∧ s'.Ok ∧ s'.st = .idle
    | (s', rs', .none) =>
        s.valid ++ dataOf rs = s'.valid ++ dataOf rs' ∧ s'.Ok ∧
          ((s'.st = .idle ∧ atEnd rs' = true) ∨ (s'.st = .len ∧ frameLen s'.valid = .bad)) :=
  pollNext_spec_aux s rs hs

/-- **Fuel is irrelevant**: with more fuel than `mu s rs` the consumer loop's result does not depend on it
    (and by the theorems below it never stops with `Stop.fuel`). -/
theorem collect_fuel_irrelevant (n m : Nat) (s : Rx) (rs : List ReadEv) (hs : s.Ok)
    (hn : mu s rs < n) (hm : mu s rs < m) : collect n s rs = collect m s rs :=
  collect_fuel n m s rs hs hn hm

/-- **Chunking independence.** For every byte string `bs` whose reference framing is `ps` with unfinished
    tail `tl`, and EVERY transport script made of non-empty `data` events and `pending` events whose data
    concatenates to `bs` (any cuts, any yields, any interaction with the read capacity): the client observes
    exactly the packets `ps`, in order, then sleeps with the reader queue empty (every available byte was
    consumed), the machine idle and exactly `tl` buffered. -/
theorem framing_chunking_independent (bs : Bytes) (ps : List Bytes) (tl : Bytes) (rs : List ReadEv) (n : Nat)
    (hf : frames bs = some (ps, tl))
    (hc : ∀ e ∈ rs, e = .pending ∨ ∃ c, c ≠ [] ∧ e = .data c)
    (hd : dataOf rs = bs) (hn : evBytes rs + rs.length < n) :
    ∃ s', collect n {} rs = (ps, s', [], .asleep) ∧ s'.valid = tl ∧ s'.st = .idle := by
  have hcl : Clean rs := (clean_iff rs).mpr hc
  obtain ⟨s', h1, h2, h3, _⟩ :=
    collect_clean n {} rs ps tl ok_init (by simpa [mu] using hn) hcl (by simpa [hd] using hf)
  exact ⟨s', h1, h2, h3⟩

/-- **Same packets as with one read per packet.** The emitted packets are a function of the delivered bytes
    alone: any two transport scripts (arbitrary events, including end-of-stream events and malformed data)
    that deliver the same bytes yield the same items in the same order — in particular an arbitrary chunking
    and the script with one `data` event per packet. -/
theorem framing_same_as_whole_packets (rs1 rs2 : List ReadEv) (n m : Nat) (hd : dataOf rs1 = dataOf rs2)
    (hn : evBytes rs1 + rs1.length < n) (hm : evBytes rs2 + rs2.length < m) :
    (collect n {} rs1).1 = (collect m {} rs2).1 :=
  collect_items_eq n m rs1 rs2 hd (by simpa [mu] using hn) (by simpa [mu] using hm)

/-- The script with one `data` event per packet. -/
def wholePackets (ps : List Bytes) : List ReadEv := ps.map .data

/-- **Chunked = whole packets**, spelled out: if `ps` are complete packets and `rs` is any clean script
    delivering `ps.flatten`, the loop emits exactly `ps`, and so does the script `wholePackets ps`. -/
theorem framing_chunked_eq_whole (ps : List Bytes) (rs : List ReadEv) (n m : Nat)
    (hp : ∀ p ∈ ps, ∃ k, frameLen p = .ok p.length k)
    (hc : ∀ e ∈ rs, e = .pending ∨ ∃ c, c ≠ [] ∧ e = .data c)
    (hd : dataOf rs = ps.flatten) (hn : evBytes rs + rs.length < n)
    (hm : evBytes (wholePackets ps) + ps.length < m) :
    (collect n {} rs).1 = ps ∧ (collect m {} (wholePackets ps)).1 = ps := by
  have hf := frames_flatten ps hp
  have hw : ∀ e ∈ wholePackets ps, e = .pending ∨ ∃ c, c ≠ [] ∧ e = .data c := by
    intro e he
    simp only [wholePackets, List.mem_map] at he
    obtain ⟨p, hp1, rfl⟩ := he
    obtain ⟨k, hk⟩ := hp p hp1
    have := (frameLen_ok_ge p _ _ hk).2
    exact Or.inr ⟨p, by intro h0; simp [h0] at this, rfl⟩
  have hdw : dataOf (wholePackets ps) = ps.flatten := by
    rw [dataOf_eq_flatten _ ((clean_iff _).mpr hw)]
    simp [wholePackets, List.map_map, Function.comp_def, ReadEv.bytes]
  obtain ⟨s1, h1, _⟩ := framing_chunking_independent _ ps [] rs n hf hc hd hn
  obtain ⟨s2, h2, _⟩ := framing_chunking_independent _ ps [] (wholePackets ps) m hf hw hdw
    (by simpa [wholePackets] using hm)
  rw [h1, h2]; exact ⟨rfl, rfl⟩

/-- **End-of-stream is exact.** The same script followed by an end-of-stream event `e` (`eof`, `err` or a
    zero-length read; anything may follow it): the items are again exactly `ps`, then the loop stops with
    `ended` — from `Idle`, with exactly the unfinished tail `tl` buffered, every data event consumed and the
    end event itself still at the head of the script (it is sticky). So end-of-stream is never reported while
    a complete packet is buffered or unread data remains, and never before the transport reports it. -/
theorem framing_eof_exact (bs : Bytes) (ps : List Bytes) (tl : Bytes) (rs : List ReadEv) (e : ReadEv)
    (more : List ReadEv) (n : Nat)
    (hf : frames bs = some (ps, tl))
    (hc : ∀ x ∈ rs, x = .pending ∨ ∃ c, c ≠ [] ∧ x = .data c)
    (hd : dataOf rs = bs) (he : e = .eof ∨ e = .err ∨ e = .data [])
    (hn : evBytes (rs ++ e :: more) + (rs ++ e :: more).length < n) :
    ∃ s', collect n {} (rs ++ e :: more) = (ps, s', e :: more, .ended) ∧ s'.valid = tl ∧ s'.st = .idle ∧
      ps.flatten ++ tl = bs := by
  have hcl : Clean rs := (clean_iff rs).mpr hc
  have hee : e.isEnd = true := by rcases he with rfl | rfl | rfl <;> rfl
  have hde : dataOf (e :: more) = [] := by rcases he with rfl | rfl | rfl <;> simp [dataOf]
  have hend : hasEnd (rs ++ e :: more) = true := by simp [hasEnd_append, hasEnd, hee]
  have hdat : ({} : Rx).valid ++ dataOf (rs ++ e :: more) = bs := by
    rw [dataOf_append _ _ hcl, hde, hd]; simp
  obtain ⟨s', rs', h1, h2, h3, h4⟩ := collect_end n {} _ ps tl ok_init (by simpa [mu] using hn) hend (by rw [hdat]; exact hf)
  obtain ⟨a', h5, h6⟩ := collect_suffix n {} rs e more hee hcl
  rw [h1] at h5
  simp only at h5
  subst h5
  have := atEnd_clean_append a' _ h6 h4
  subst this
  exact ⟨s', h1, h2, h3, frames_flatten_eq bs ps tl hf⟩

/-- **No spurious end-of-stream.** While the transport has not ended (no `eof`/`err`/zero-length read in the
    script) the loop stops with `ended` only if the stream contains a malformed length field. -/
theorem framing_no_spurious_end (rs : List ReadEv) (n : Nat)
    (hc : ∀ e ∈ rs, e = .pending ∨ ∃ c, c ≠ [] ∧ e = .data c)
    (hn : evBytes rs + rs.length < n) (hstop : (collect n {} rs).2.2.2 = .ended) :
    frames (dataOf rs) = none := by
  cases hf : frames (dataOf rs) with
  | none => rfl
  | some q =>
    obtain ⟨ps, tl⟩ := q
    obtain ⟨s', h, _⟩ := framing_chunking_independent _ ps tl rs n hf hc rfl hn
    rw [h] at hstop; simp at hstop

/-- **Malformed length field.** If the delivered bytes contain a malformed remaining-length field
    (`frames = none`), then for every script whatsoever the loop emits exactly the complete frames in front
    of it (`ps`: each a complete frame, `frames ps.flatten = (ps, [])`, and the bytes after them start with
    the malformed field) and then reports end-of-stream from `ReadPacketLen`. -/
theorem framing_malformed_exact (rs : List ReadEv) (n : Nat) (hf : frames (dataOf rs) = none)
    (hn : evBytes rs + rs.length < n) :
    ∃ ps s' rs', collect n {} rs = (ps, s', rs', .ended) ∧ s'.st = .len ∧ frameLen s'.valid = .bad ∧
      dataOf rs = ps.flatten ++ (s'.valid ++ dataOf rs') ∧ frames ps.flatten = some (ps, []) := by
  obtain ⟨ps, s', rs', h1, h2, h3, h4, h5⟩ :=
    collect_malformed n {} rs ok_init (by simpa [mu] using hn) (by simpa using hf)
  exact ⟨ps, s', rs', h1, h2, h3, by simpa using h4, frames_flatten ps h5⟩

/-- **No lost wakeup** (C16 for the framing layer). Whenever `poll_next` returns `Pending` from an
    invariant-satisfying state, either the reader was polled with an empty queue — the script held data
    events only, all of whose bytes are now buffered, so the reader holds the waker and nothing is left
    undelivered — or exactly one `pending` event (the reader woke the task itself) was consumed after data
    events whose bytes are all buffered. In both cases the machine is `Idle` and the buffer holds no
    complete frame: nothing that could be acted on is left waiting. -/
theorem framing_no_lost_wakeup (s : Rx) (rs : List ReadEv) (s' : Rx) (rs' : List ReadEv) (hs : s.Ok)
    (h : pollNext s rs = (s', rs', .pending)) :
    ((rs' = [] ∧ AllData rs ∧ s'.valid = s.valid ++ dataOf rs) ∨
     (∃ pre, rs = pre ++ .pending :: rs' ∧ AllData pre ∧ s'.valid = s.valid ++ dataOf pre)) ∧
    s'.st = .idle ∧ frames s'.valid = some ([], s'.valid) := by
  obtain ⟨_, hok, hidle⟩ := pollNext_pending hs h
  exact ⟨pollNext_pending_shape s rs s' rs' h, hidle, frames_of_noFrame _ (hok.2.2.2 hidle)⟩

/-- **Reads are offered room.** The capacity offered to every `poll_read` is at least 512 bytes, in
    particular at least 1 (so `Ready(Ok(0))` can only mean end-of-stream); and an `Idle` iteration that finds
    a non-empty read takes at least one byte of it. -/
theorem framing_reads_positive :
    (∀ pend size, 1 ≤ cap pend size ∧ 512 ≤ cap pend size) ∧
    (∀ s bs rs t rs2, s.st = .idle → bs ≠ [] → loopStep s (.data bs :: rs) = .inr (t, rs2) →
      s.valid.length < t.valid.length) := by
  refine ⟨fun p n => ?_, ?_⟩
  · unfold cap; split <;> omega
  · intro s bs rs t rs2 hst hb h
    have hb0 : ¬ bs.length = 0 := by simpa using hb
    have hcp := cap_pos s.pend s.valid.length
    simp only [loopStep, hst, hb0, ↓reduceIte] at h
    split at h <;> split at h <;> simp only [Sum.inr.injEq, Prod.mk.injEq] at h <;>
      obtain ⟨rfl, _⟩ := h <;> simp <;> omega

/-- **The invariant is inductive**: it holds initially and is preserved by every `poll_next` call and by
    every single loop iteration inside a call. -/
theorem framing_invariant :
    Rx.Ok {} ∧ (∀ s rs, s.Ok → (pollNext s rs).1.Ok) ∧
    (∀ s rs t rs2, s.Ok → loopStep s rs = .inr (t, rs2) → t.Ok) ∧
    (∀ s rs, pollNext s rs = match loopStep s rs with | .inl r => r | .inr (t, rs2) => pollNext t rs2) :=
  ⟨ok_init, pollNext_ok, fun s rs t rs2 => loopStep_ok s rs t rs2, pollNext_loopStep⟩

/-- **Index safety** (the no-panic obligations of `poll_next`). In every state `s` at the head of any loop
    iteration of any call in any run from the initial state:
    the invariant holds; in `ReadPacketLen` at least one byte is buffered (`&buf[1..size]` is a valid range);
    in `ReadPacketData` the announced length is the one determined by the buffer and is ≥ 2;
    when the iteration emits, `packet.end ≤ size` (`split_to(packet.end)` and `size -= packet.len()` are in
    range), the emitted frame has exactly the announced length, which is ≥ 2 (`bytes[0]` exists);
    and every frame a call returns has length ≥ 2. -/
theorem framing_index_safe (s : Rx) (hr : Reach s) :
    s.Ok ∧
    (s.st = .len → 1 ≤ s.valid.length) ∧
    (s.st = .data → (∃ k, frameLen s.valid = .ok s.pend k) ∧ 2 ≤ s.pend) ∧
    (∀ rs s' rs' p, loopStep s rs = .inl (s', rs', .item p) →
      s.pend ≤ s.valid.length ∧ p = s.valid.take s.pend ∧ p.length = s.pend ∧ 2 ≤ p.length) ∧
    (∀ rs s' rs' p, pollNext s rs = (s', rs', .item p) → 2 ≤ p.length) := by
  have hs := reach_ok hr
  refine ⟨hs, hs.2.2.1, ?_, ?_, ?_⟩
  · intro hd
    obtain ⟨k, hk⟩ := hs.2.1 hd
    exact ⟨⟨k, hk⟩, (frameLen_ok_ge _ _ _ hk).1⟩
  · intro rs s' rs' p h
    obtain ⟨_, h1, h2, h3, h4⟩ := loopStep_item s rs s' rs' p hs h
    exact ⟨h1, h2, h3, by omega⟩
  · intro rs s' rs' p h
    obtain ⟨_, ⟨k, hk⟩, _⟩ := pollNext_item hs h
    exact (frameLen_ok_ge _ _ _ hk).2


/-! ## Non-vacuity: concrete streams -/

/-- PINGRESP -/
def exP1 : Bytes := [0xD0, 0x00]
/-- a PUBLISH-shaped packet with remaining length 3 -/
def exP2 : Bytes := [0x30, 0x03, 0x61, 0x62, 0x63]
/-- the two packets delivered one byte per read -/
def exBytewise : List ReadEv := (exP1 ++ exP2).map fun b => .data [b]
/-- the two packets delivered one packet per read -/
def exWhole : List ReadEv := [.data exP1, .data exP2]
/-- a cut inside the second packet's length field, a yield, then the rest and a first byte of a third packet -/
def exRagged : List ReadEv := [.data [0xD0, 0x00, 0x30], .pending, .data [0x03, 0x61], .pending, .data [0x62, 0x63, 0xE0]]

/-- the reference framing of the concrete two-packet stream. -/
example : frames (exP1 ++ exP2) = some ([exP1, exP2], []) := by decide

/-- bytewise delivery, evaluated directly: both packets, then asleep with nothing buffered. -/
example : collect 20 {} exBytewise = ([exP1, exP2], { valid := [], pend := 0, st := .idle }, [], .asleep) := by
  unfold exBytewise exP1 exP2
  simp [collect, pollNext, cap, frameLen, decVar, decVarAux, nPending, varMax]

/-- whole-packet delivery, evaluated directly: the same result. -/
example : collect 20 {} exWhole = ([exP1, exP2], { valid := [], pend := 0, st := .idle }, [], .asleep) := by
  unfold exWhole exP1 exP2
  simp [collect, pollNext, cap, frameLen, decVar, decVarAux, nPending, varMax]

/-- ragged delivery with yields, evaluated directly: the same packets; the stray byte stays buffered. -/
example : collect 20 {} exRagged = ([exP1, exP2], { valid := [0xE0], pend := 0, st := .idle }, [], .asleep) := by
  unfold exRagged exP1 exP2
  simp [collect, pollNext, cap, frameLen, decVar, decVarAux, nPending, varMax]

/-- the hypotheses of `framing_chunking_independent` are satisfiable (bytewise script), and its conclusion
    is the directly evaluated one. -/
example : ∃ s', collect 20 {} exBytewise = ([exP1, exP2], s', [], .asleep) ∧ s'.valid = [] ∧ s'.st = .idle :=
  framing_chunking_independent (exP1 ++ exP2) [exP1, exP2] [] exBytewise 20 (by decide)
    ((clean_iff _).mp (by decide)) (by decide) (by decide)

/-- `framing_same_as_whole_packets` applied: the bytewise and the whole-packet scripts agree. -/
example : (collect 20 {} exBytewise).1 = (collect 10 {} exWhole).1 :=
  framing_same_as_whole_packets exBytewise exWhole 20 10 (by decide) (by decide) (by decide)

/-- `framing_chunked_eq_whole` applied to the bytewise script. -/
example : (collect 20 {} exBytewise).1 = [exP1, exP2] ∧ (collect 10 {} (wholePackets [exP1, exP2])).1 = [exP1, exP2] :=
  framing_chunked_eq_whole [exP1, exP2] exBytewise 20 10
    (by intro p hp; simp at hp; rcases hp with rfl | rfl <;> exact ⟨1, by decide⟩)
    ((clean_iff _).mp (by decide)) (by decide) (by decide) (by decide)

/-- end-of-stream after bytewise delivery, evaluated directly: both packets first, then `ended`, the `eof`
    event still in the queue. -/
example : collect 20 {} (exBytewise ++ [.eof]) =
    ([exP1, exP2], { valid := [], pend := 0, st := .idle }, [.eof], .ended) := by
  unfold exBytewise exP1 exP2
  simp [collect, pollNext, cap, frameLen, decVar, decVarAux, nPending, varMax]

/-- the hypotheses of `framing_eof_exact` are satisfiable. -/
example : ∃ s', collect 20 {} (exBytewise ++ [.err]) = ([exP1, exP2], s', [.err], .ended) ∧ s'.valid = [] ∧
    s'.st = .idle ∧ [exP1, exP2].flatten ++ [] = exP1 ++ exP2 :=
  framing_eof_exact (exP1 ++ exP2) [exP1, exP2] [] exBytewise .err [] 20 (by decide)
    ((clean_iff _).mp (by decide)) (by decide) (Or.inr (Or.inl rfl)) (by decide)

/-- a malformed length field (five continuation bytes) after one good packet, evaluated directly: the good
    packet is emitted, then `ended` from `ReadPacketLen`. -/
example : collect 20 {} [.data [0xD0, 0x00, 0x30], .pending, .data [0xff, 0xff, 0xff, 0xff, 0xff, 1]] =
    ([[0xD0, 0x00]], { valid := [0x30, 0xff, 0xff, 0xff, 0xff, 0xff, 1], pend := 0, st := .len }, [], .ended) := by
  simp [collect, pollNext, cap, frameLen, decVar, decVarAux, nPending, varMax]

/-- the hypothesis of `framing_malformed_exact` is satisfiable. -/
example : frames (dataOf [.data [0xD0, 0x00, 0x30], .pending, .data [0xff, 0xff, 0xff, 0xff, 0xff, 1]]) = none := by
  decide

/-- a `Pending` that consumed a `pending` event (second disjunct of `framing_no_lost_wakeup`) … -/
example : pollNext {} [.data [0xD0], .pending, .data [0x00]] = ({ valid := [0xD0] }, [.data [0x00]], .pending) := by
  simp [pollNext, cap]

/-- … and one with the reader queue exhausted (first disjunct). -/
example : pollNext {} [.data [0xD0]] = ({ valid := [0xD0] }, [], .pending) := by
  simp [pollNext, cap]

/-- `Reach` is inhabited beyond the initial state: the state after one call. -/
example : Reach (pollNext {} [.data [0xD0]]).1 := Reach.poll _ Reach.init

#print axioms pollNext_spec
#print axioms collect_fuel_irrelevant
#print axioms framing_chunking_independent
#print axioms framing_same_as_whole_packets
#print axioms framing_chunked_eq_whole
#print axioms framing_eof_exact
#print axioms framing_no_spurious_end
#print axioms framing_malformed_exact
#print axioms framing_no_lost_wakeup
#print axioms framing_reads_positive
#print axioms framing_invariant
#print axioms framing_index_safe

end Poster.Framing
