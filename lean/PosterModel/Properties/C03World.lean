/-
  Properties/C03World.lean — C03 (and the inbound half of C02) for whole scripts: what the context task hands to the
  decoder is the reference framing of what the script fed, whatever the chunking.

  C03: "For every sequence of inbound packets and every way of splitting its bytes into transport reads (single bytes,
  reads ending at any offset including the receive buffer's own boundaries, reads spanning many packets), the client
  observes exactly the same packets in the same order as when each packet arrives in a read of its own. It consumes every
  byte the transport has made available without needing an unrelated event to get polled again, and it never reports
  end-of-stream before the transport does."

  Properties/C03.lean proves this for the framing machine `Framing.pollNext` in isolation. This file lifts it to the whole
  client `World` and to whole scripts. Helper lemmas: Lemmas/WorldFraming.lean, Lemmas/WorldFramingScript.lean
  (namespace `Poster.World.W12`); the concrete script of the examples: Lemmas/WorldFramingEx.lean.

  Two facts about the model that shape the statements of section 3: the framing layer reports the end of the stream not
  only for `eof` / `err` but also for a zero-length read (an empty `feed` chunk) and for a malformed remaining-length field
  (`poll_next` returns `None` when `VarSizeInt::try_from` fails), so `run()` can return `SocketClosed` without any
  `feedEof` / `feedErr`; and under `cfg.fill` an empty chunk next to a non-empty one is merged away (`mergeRuns`), which is
  why the script-level theorems ask for `feedOk` under `cfg.fill`.

  Vocabulary
    `inbound w`       the bytes in flight on the receive side of `w`: the framing buffer `w.rx.valid` followed by what the
                      transport script `w.reader` still delivers before it ends (`dataOf`)
    `ctxFrames w`     the frames the poll `w.pollCtx` of the context task hands to `decodeRx`, in order
                      (same recursion as `pollCtx` / `runLoop`; `awaitFirst` hands over one frame)
    `OneFrame fr`     `fr` is exactly one complete frame (fixed header, well-formed remaining length, exactly that many bytes)
    `flog cfg evs`    the ghost of the script `evs`, computed alongside `World.step` without influencing it:
                        `.fed`  the read events fed since the last accepted `setup` (`scriptFed evs`, `fed_is_what_the_script_feeds`),
                        `.dec`  the frames handed to `decodeRx` since then (`ctxFrames` of every poll of the context task),
                        `.mark` the length of the transcript at that `setup`
    `dataOf rs`       the bytes the read events `rs` deliver before the first end-of-stream event (`eof`, `err`, zero-length read)
    `feedOk e`        a `feed` event has no empty chunk — needed only under `cfg.fill`, where adjacent reads are merged (which
                      would swallow the zero-length read that stands for end-of-stream)

  1. one poll: `feed_appends_to_inbound`, `setup_resets_inbound`, `yielded_frame_is_the_front_frame`,
     `poll_hands_over_the_front_frames`, `handler_input_is_the_decoded_frame`, `loop_handles_exactly_the_decoded_frames`
  2. whole scripts: `decoded_frames_conserve_the_fed_bytes`, `decoded_frames_are_reference_frames`,
     `chunking_independence_world`, `asleep_context_has_consumed_everything`, `idle_executor_context_has_consumed_everything`,
     `same_bytes_same_frames_when_asleep`
  3. never end-of-stream before the transport: `socket_closed_only_for_a_cause`, `socket_closed_since_setup`,
     `socket_closed_needs_end_event_partial`, `no_socket_closed_while_transport_open`
  4. inbound half of C02: `server_packet_is_one_frame`, `fed_server_packet_is_decoded`
-/
import PosterModel.Lemmas.WorldFramingScript
import PosterModel.Lemmas.WorldFramingEx
import PosterModel.Properties.C02
import PosterModel.Properties.C03
import PosterModel.Properties.C04World

set_option linter.unusedVariables false
set_option linter.unusedSimpArgs false

namespace Poster
open Framing World World.W12 Spec Spec.Server

/-! ## 1. One poll: the bytes in flight on the receive side -/

/-- **An accepted `setup` resets the receive side**: nothing is in flight on a new connection. -/
theorem setup_resets_inbound (w : World) (ha : (w.apply .setup).bad = false) (hb : w.bad = false) :
    inbound (w.apply .setup) = [] := by
  have hbs : w.badScript.bad = true := rfl
  simp only [World.apply] at ha ⊢
  by_cases h1 : w.task ≠ .none ∨ w.ctxDropped = true
  · rw [if_pos h1, hbs] at ha; cases ha
  · rw [if_neg h1] at ha ⊢
    cases hc : w.hasCtx with
    | false =>
      simp only [hc, Bool.not_false, ↓reduceIte] at ha ⊢
      by_cases h2 : w.handles ≠ [] ∨ w.ops ≠ []
      · rw [if_pos h2, hbs] at ha; cases ha
      · rw [if_neg h2]; rfl
    | true => simp only [Bool.not_true, Bool.false_eq_true, ↓reduceIte]; rfl

/-- **Feeding appends to the bytes in flight.** Whatever `cfg.rdp` (a spurious `Pending` before every read) and `cfg.fill`
    (adjacent reads merged) do to the chunking: after read events `evs` are fed, the bytes in flight are those before
    followed by the bytes `evs` deliver — unless the transport's script had already ended, then nothing more is ever
    delivered. (Under `cfg.fill` no zero-length read may be pending or fed.) -/
theorem feed_appends_to_inbound (w : World) (evs : List ReadEv)
    (hne : w.cfg.fill = true → NoEmpty w.reader ∧ NoEmpty evs) :
    inbound (w.feedEvents evs) = inbound w ++ (if hasEnd w.reader then [] else dataOf evs) := by
  obtain ⟨r1, r2, _⟩ := feedEvents_recv w evs
  obtain ⟨f1, _, _⟩ := fedReader_facts w evs hne
  unfold inbound
  rw [r1, r2, f1, dataOf_append_gen]
  split <;> simp

/-- … in particular a `feed` event with non-empty chunks, on a transport that has not ended, appends exactly the
    concatenation of its chunks. -/
theorem feed_event_appends_its_bytes (w : World) (chunks : List Bytes) (hc : w.hasCtx = true)
    (hend : hasEnd w.reader = false) (hne : ∀ c ∈ chunks, c ≠ []) (hfill : w.cfg.fill = true → NoEmpty w.reader) :
    inbound (w.apply (.feed chunks)) = inbound w ++ chunks.flatten := by
  have hN : NoEmpty (chunks.map ReadEv.data) := by
    intro bs hbs
    simp only [List.mem_map, ReadEv.data.injEq] at hbs
    obtain ⟨a, ha, rfl⟩ := hbs
    exact hne a ha
  have hcl : Clean (chunks.map ReadEv.data) := by
    rw [clean_iff]
    intro e he
    simp only [List.mem_map] at he
    obtain ⟨a, ha, rfl⟩ := he
    exact Or.inr ⟨a, hne a ha, rfl⟩
  have hd : dataOf (chunks.map ReadEv.data) = chunks.flatten := by
    rw [dataOf_eq_flatten _ hcl]
    simp [List.map_map, Function.comp_def, ReadEv.bytes]
  simp only [World.apply, hc, Bool.not_true, Bool.false_eq_true, ↓reduceIte]
  rw [feed_appends_to_inbound w _ (fun hf => ⟨hfill hf, hN⟩), hend, hd]
  simp

/-- **Every frame the framing layer yields is taken from the FRONT of the bytes in flight and is the first frame of
    their reference framing.** If `poll_next` yields `fr` from a state satisfying the invariant, then the bytes in flight
    were `fr` followed by the bytes in flight afterwards, `fr` is exactly one complete frame, and the reference framing
    (`Framing.frames`) of the bytes in flight is `fr` followed by the reference framing of what remains. -/
theorem yielded_frame_is_the_front_frame (w : World) (rx' : Rx) (rd' : List ReadEv) (fr : Bytes) (hok : w.rx.Ok)
    (hp : pollNext w.rx w.reader = (rx', rd', .item fr)) :
    inbound w = fr ++ inbound { w with rx := rx', reader := rd' } ∧ OneFrame fr ∧ rx'.Ok ∧
    frames (inbound w) = (frames (inbound { w with rx := rx', reader := rd' })).map fun q => (fr :: q.1, q.2) := by
  obtain ⟨h1, h2, h3⟩ := pollNext_item hok hp
  refine ⟨h1, h2, h3, ?_⟩
  obtain ⟨k, hk⟩ := h2
  have e : inbound w = fr ++ inbound { w with rx := rx', reader := rd' } := h1
  rw [e, frames_cons fr _ k hk]

/-- **One poll of the context task hands the decoder the front frames of the bytes in flight, in order.** From a state
    satisfying the framing invariant: the bytes in flight before the poll are the frames handed to `decodeRx` during the
    poll (`ctxFrames w`), concatenated, followed by the bytes in flight after the poll; each of those frames is exactly one
    complete frame; the reference framing of the bytes in flight before is those frames followed by the reference framing
    of what remains; the invariant holds again; end-of-stream events are neither consumed nor invented. -/
theorem poll_hands_over_the_front_frames (w : World) (hok : w.rx.Ok) :
    inbound w = (ctxFrames w).flatten ++ inbound w.pollCtx ∧ (∀ fr ∈ ctxFrames w, OneFrame fr) ∧ w.pollCtx.rx.Ok ∧
    frames (inbound w) = (frames (inbound w.pollCtx)).map (fun q => (ctxFrames w ++ q.1, q.2)) ∧
    hasEnd w.pollCtx.reader = hasEnd w.reader := by
  have hs := pollCtx_wstep w
  have e : inbound w = (ctxFrames w).flatten ++ inbound w.pollCtx := hs.fs.inb hok
  refine ⟨e, hs.fs.whole hok, hs.fs.ok hok, ?_, hs.fs.ends⟩
  rw [e, frames_whole_prefix _ _ (hs.fs.whole hok)]

/-- **The handler runs on the decoding of exactly that frame.** In an iteration of the `select!` loop with nothing queued,
    the input handed to `handle_packet` (`iterIn`, Properties/CtxLift.lean) is `decodeRx` of the frame `iterFrames` reports
    — and there is no input if there is no frame or the frame does not decode. -/
theorem handler_input_is_the_decoded_frame (w : World) (hq : w.queue = []) :
    w.iterIn = match iterFrames w with
      | [fr] => (match decodeRx fr with | .ok p => some (w.inPkt p) | _ => none)
      | _ => none := by
  unfold World.iterIn iterFrames
  simp only [hq]
  by_cases hs : w.senders = 0
  · simp [hs]
  · simp only [hs, ↓reduceIte, nextFrame]
    generalize pollNext w.rx w.reader = r
    obtain ⟨rx', rd', o⟩ := r
    cases o with
    | item fr => simp only [outFrames]; cases decodeRx fr <;> rfl
    | none => rfl
    | pending => rfl

/-- **…for every iteration of a poll, in order.** The inbound packets one poll of the `select!` loop hands to
    `handle_packet` — the packet inputs of the served history `loopHist` through which `runLoop_pollServe`
    (Properties/CtxLift.lean) shows the context is driven — are exactly the decodings of the frames `loopFrames` lists, in
    the same order: every frame that decodes is handled, as the packet it decodes to, and nothing else is. -/
theorem loop_handles_exactly_the_decoded_frames (f : Nat) (w : World) :
    (World.loopHist f w).filterMap pktOfIn = (loopFrames f w).filterMap okOf :=
  loopHist_pkts f w

/-! ## 2. Whole scripts -/

/-- **The ghost's `fed` is what the script says it feeds**: for a script that is not refused as malformed, the read
    events recorded since the last `setup` are `scriptFed evs` — a function of the script alone (the `feed` chunks, `eof`
    for `feedEof`, `err` for `feedErr`, reset at every `setup`). -/
theorem fed_is_what_the_script_feeds (cfg : Cfg) (evs : List Ev)
    (hb : (evs.foldl World.step { cfg := cfg }).bad = false) : (flog cfg evs).fed = scriptFed evs :=
  flog_fed cfg evs hb

/-- **Conservation, for every script.** Take any configuration (executor mode, `rdp`, `fill`, write limit) and any script
    (under `cfg.fill`: without empty `feed` chunks). Within the current connection (since the last `setup`):
    every frame the context task handed to `decodeRx` is exactly one complete frame; the frames handed over so far,
    concatenated, are a prefix of the bytes fed; and as long as the context has not been dropped, what remains of the bytes
    fed is exactly what is in flight on the receive side — nothing is lost, duplicated, reordered or invented, whatever the
    chunking. -/
theorem decoded_frames_conserve_the_fed_bytes (cfg : Cfg) (evs : List Ev)
    (hf : cfg.fill = true → ∀ e ∈ evs, feedOk e) :
    (∀ fr ∈ (flog cfg evs).dec, OneFrame fr) ∧
    (∃ rest, (flog cfg evs).dec.flatten ++ rest = dataOf (flog cfg evs).fed) ∧
    ((evs.foldl World.step { cfg := cfg }).ctxDropped = false →
      (flog cfg evs).dec.flatten ++ inbound (evs.foldl World.step { cfg := cfg }) = dataOf (flog cfg evs).fed) := by
  have h := (ginv_script cfg evs hf).inv
  obtain ⟨rest, e, hr⟩ := h.pre
  exact ⟨h.whole, ⟨rest, e⟩, fun hd => by rw [← hr hd]; exact e⟩

/-- **The decoder sees the reference framing.** For every script: if the bytes fed in this connection have the reference
    framing `ps` (with unfinished tail `tl`), the frames handed to `decodeRx` so far are a prefix of `ps` — the same
    packets in the same order as when each packet arrives in a read of its own; and while the context exists, the
    reference framing of the bytes fed is the frames handed over so far followed by the reference framing of the bytes
    still in flight (also when the stream contains a malformed length: both sides are then `none`). -/
theorem decoded_frames_are_reference_frames (cfg : Cfg) (evs : List Ev)
    (hf : cfg.fill = true → ∀ e ∈ evs, feedOk e) :
    (∀ ps tl, frames (dataOf (flog cfg evs).fed) = some (ps, tl) → (flog cfg evs).dec <+: ps) ∧
    ((evs.foldl World.step { cfg := cfg }).ctxDropped = false →
      frames (dataOf (flog cfg evs).fed) =
        (frames (inbound (evs.foldl World.step { cfg := cfg }))).map fun q => ((flog cfg evs).dec ++ q.1, q.2)) := by
  have h := (ginv_script cfg evs hf).inv
  obtain ⟨rest, e, hr⟩ := h.pre
  refine ⟨fun ps tl hfr => ?_, fun hd => ?_⟩
  · rw [← e, frames_whole_prefix _ _ h.whole] at hfr
    cases hq : frames rest with
    | none => rw [hq] at hfr; cases hfr
    | some q =>
      rw [hq] at hfr
      simp only [Option.map_some, Option.some.injEq, Prod.mk.injEq] at hfr
      rw [← hfr.1]; exact List.prefix_append _ _
  · rw [← e, hr hd, frames_whole_prefix _ _ h.whole]

/-- **Chunking independence at the level of the whole client.** Two executions — any two configurations, any two
    scripts: different cuts of the bytes into `feed` chunks and events, different interleavings with operations, polls,
    holds — that have fed the same bytes in their current connection hand the same frames, in the same order, to the
    decoder, as far as both have got: one list of decoded frames is a prefix of the other. -/
theorem chunking_independence_world (cfg1 cfg2 : Cfg) (evs1 evs2 : List Ev)
    (hf1 : cfg1.fill = true → ∀ e ∈ evs1, feedOk e) (hf2 : cfg2.fill = true → ∀ e ∈ evs2, feedOk e)
    (h : dataOf (flog cfg1 evs1).fed = dataOf (flog cfg2 evs2).fed) :
    (flog cfg1 evs1).dec <+: (flog cfg2 evs2).dec ∨ (flog cfg2 evs2).dec <+: (flog cfg1 evs1).dec := by
  have h1 := (ginv_script cfg1 evs1 hf1).inv
  have h2 := (ginv_script cfg2 evs2 hf2).inv
  obtain ⟨r1, e1, _⟩ := h1.pre
  obtain ⟨r2, e2, _⟩ := h2.pre
  exact whole_prefix_comparable _ _ r1 r2 h1.whole h2.whole (by rw [e1, e2, h])

/-- … stated on the scripts themselves: two scripts that are not refused and feed the same bytes since their last
    `setup` (`scriptFed`), cut in any way. -/
theorem chunking_independence_scripts (cfg1 cfg2 : Cfg) (evs1 evs2 : List Ev)
    (hf1 : cfg1.fill = true → ∀ e ∈ evs1, feedOk e) (hf2 : cfg2.fill = true → ∀ e ∈ evs2, feedOk e)
    (hb1 : (evs1.foldl World.step { cfg := cfg1 }).bad = false)
    (hb2 : (evs2.foldl World.step { cfg := cfg2 }).bad = false)
    (h : dataOf (scriptFed evs1) = dataOf (scriptFed evs2)) :
    (flog cfg1 evs1).dec <+: (flog cfg2 evs2).dec ∨ (flog cfg2 evs2).dec <+: (flog cfg1 evs1).dec :=
  chunking_independence_world cfg1 cfg2 evs1 evs2 hf1 hf2 (by rw [flog_fed _ _ hb1, flog_fed _ _ hb2, h])

/-- **A sleeping context has consumed everything.** In every world a script can reach: if the `connect()` /
    `authorize()` / `run()` future is alive and not flagged for the executor, then the transport's event queue is empty,
    the framing machine is in `Idle`, and the reference framing of ALL bytes fed in this connection is exactly the frames
    handed to the decoder, with exactly the unfinished tail in the receive buffer: every complete packet that was fed has
    been decoded, only an incomplete last frame is left. -/
theorem asleep_context_has_consumed_everything (cfg : Cfg) (evs : List Ev)
    (hf : cfg.fill = true → ∀ e ∈ evs, feedOk e)
    (ht : (evs.foldl World.step { cfg := cfg }).task ≠ .none)
    (hw : Task.ctx ∉ (evs.foldl World.step { cfg := cfg }).woken) :
    (evs.foldl World.step { cfg := cfg }).reader = [] ∧ (evs.foldl World.step { cfg := cfg }).rx.st = .idle ∧
    frames (dataOf (flog cfg evs).fed) = some ((flog cfg evs).dec, (evs.foldl World.step { cfg := cfg }).rx.valid) := by
  have hg := ginv_script cfg evs hf
  have h := hg.inv
  have hrd := (context_asleep_only_with_everything_read cfg evs ht hw).1
  have hidle := h.idle ht hw
  have hd : (evs.foldl World.step { cfg := cfg }).ctxDropped = false := by
    cases hd : (evs.foldl World.step { cfg := cfg }).ctxDropped with
    | false => rfl
    | true => exact absurd (hg.own.noTask (hg.own.dropped hd)) ht
  refine ⟨hrd, hidle, ?_⟩
  obtain ⟨rest, e, hr⟩ := h.pre
  have hin : rest = (evs.foldl World.step { cfg := cfg }).rx.valid := by
    rw [hr hd]; unfold inbound; rw [hrd]; simp [dataOf]
  rw [← e, hin, frames_whole_prefix _ _ h.whole, frames_of_noFrame _ (h.ok.2.2.2 hidle)]
  simp

/-- **…and that is the state after every step, unless the script holds the context back.** After every script that is
    not refused: if the call is still executing and the script has not put the context task on hold, then (the executor
    being idle, `executor_idle_after_every_step`) the context sleeps with everything consumed: no unread transport
    event, every complete packet fed so far handed to the decoder, exactly the unfinished tail buffered. No unrelated
    event is needed to get the bytes consumed. -/
theorem idle_executor_context_has_consumed_everything (cfg : Cfg) (evs : List Ev)
    (hf : cfg.fill = true → ∀ e ∈ evs, feedOk e)
    (hb : (evs.foldl World.step { cfg := cfg }).bad = false)
    (ht : (evs.foldl World.step { cfg := cfg }).task ≠ .none)
    (hh : Task.ctx ∉ (evs.foldl World.step { cfg := cfg }).held) :
    (evs.foldl World.step { cfg := cfg }).reader = [] ∧
    frames (dataOf (flog cfg evs).fed) = some ((flog cfg evs).dec, (evs.foldl World.step { cfg := cfg }).rx.valid) := by
  have hq : (evs.foldl World.step { cfg := cfg }).pick = none := by
    rcases executor_idle_after_every_step cfg evs with h | h
    · rw [hb] at h; cases h
    · exact h
  have hw := World.not_woken_of_idle _ .ctx hq (by simpa [World.taskLive] using ht) hh
  obtain ⟨a, _, c⟩ := asleep_context_has_consumed_everything cfg evs hf ht hw
  exact ⟨a, c⟩

/-- **Same bytes, same packets, same leftover.** Two executions whose contexts are both asleep and that have fed the same
    bytes in their current connection — however differently cut — have handed exactly the same frames to the decoder and
    hold exactly the same unfinished tail. -/
theorem same_bytes_same_frames_when_asleep (cfg1 cfg2 : Cfg) (evs1 evs2 : List Ev)
    (hf1 : cfg1.fill = true → ∀ e ∈ evs1, feedOk e) (hf2 : cfg2.fill = true → ∀ e ∈ evs2, feedOk e)
    (ht1 : (evs1.foldl World.step { cfg := cfg1 }).task ≠ .none)
    (hw1 : Task.ctx ∉ (evs1.foldl World.step { cfg := cfg1 }).woken)
    (ht2 : (evs2.foldl World.step { cfg := cfg2 }).task ≠ .none)
    (hw2 : Task.ctx ∉ (evs2.foldl World.step { cfg := cfg2 }).woken)
    (h : dataOf (flog cfg1 evs1).fed = dataOf (flog cfg2 evs2).fed) :
    (flog cfg1 evs1).dec = (flog cfg2 evs2).dec ∧
    (evs1.foldl World.step { cfg := cfg1 }).rx.valid = (evs2.foldl World.step { cfg := cfg2 }).rx.valid := by
  obtain ⟨_, _, c1⟩ := asleep_context_has_consumed_everything cfg1 evs1 hf1 ht1 hw1
  obtain ⟨_, _, c2⟩ := asleep_context_has_consumed_everything cfg2 evs2 hf2 ht2 hw2
  rw [h, c2] at c1
  simp only [Option.some.injEq, Prod.mk.injEq] at c1
  exact ⟨c1.1.symm, c1.2.symm⟩

/-! ## 3. Never end-of-stream before the transport -/

/-- **`SocketClosed` only for a cause.** For every script: if, since the last `setup` (from position `mark` of the
    transcript on), a call returned `SocketClosed`, then the transport refuses writes at some point (a write limit is
    configured), or an end-of-stream event — `feedEof`, `feedErr` or an empty chunk (a zero-length read) — was fed in this
    connection, or the bytes fed in this connection contain a malformed remaining-length field (`frames … = none`).
    The client never reports end-of-stream by itself. -/
theorem socket_closed_only_for_a_cause (cfg : Cfg) (evs : List Ev) (hf : cfg.fill = true → ∀ e ∈ evs, feedOk e)
    (c : Call)
    (h : Obs.ret c (.err .socketClosed) ∈ (evs.foldl World.step { cfg := cfg }).out.drop (flog cfg evs).mark) :
    cfg.wlimit ≠ none ∨ hasEnd (flog cfg evs).fed = true ∨ frames (dataOf (flog cfg evs).fed) = none := by
  have := (ginv_script cfg evs hf).inv.sock c h
  rwa [steps_cfg] at this

/-- **…stated on the script.** Split any script that is not refused at its last `setup`: `pre ++ setup :: post`. Whatever
    the transcript gains during `post` (`added`): a `RET … SocketClosed` among it means a write limit is configured, or
    `post` feeds an end-of-stream event, or the bytes `post` feeds contain a malformed remaining-length field. -/
theorem socket_closed_since_setup (cfg : Cfg) (pre post : List Ev) (hns : ∀ e ∈ post, e ≠ .setup)
    (hf : cfg.fill = true → ∀ e ∈ pre ++ Ev.setup :: post, feedOk e)
    (hb : ((pre ++ Ev.setup :: post).foldl World.step { cfg := cfg }).bad = false) :
    ∃ added, ((pre ++ Ev.setup :: post).foldl World.step { cfg := cfg }).out =
        ((pre ++ [Ev.setup]).foldl World.step { cfg := cfg }).out ++ added ∧
      ∀ c, Obs.ret c (.err .socketClosed) ∈ added →
        cfg.wlimit ≠ none ∨ hasEnd (post.flatMap evReads) = true ∨ frames (dataOf (post.flatMap evReads)) = none := by
  have esplit : pre ++ Ev.setup :: post = (pre ++ [Ev.setup]) ++ post := by simp
  obtain ⟨added, ha⟩ := steps_out_prefix post ((pre ++ [Ev.setup]).foldl World.step { cfg := cfg })
  rw [← List.foldl_append, ← esplit] at ha
  refine ⟨added, ha, fun c hc => ?_⟩
  have h0 := (ginv_script cfg (pre ++ [Ev.setup]) (fun hfl e he => hf hfl e (by
    rcases List.mem_append.mp he with h | h
    · exact List.mem_append_left _ h
    · simp only [List.mem_singleton] at h; subst h; simp))).inv
  have hmark : (flog cfg (pre ++ Ev.setup :: post)).mark = (flog cfg (pre ++ [Ev.setup])).mark := by
    unfold flog
    rw [esplit, stepsG_append]
    exact stepsG_mark post _ _ hns
  have hfed : (flog cfg (pre ++ Ev.setup :: post)).fed = post.flatMap evReads := by
    rw [flog_fed _ _ hb, scriptFed_split pre post hns]
  have := socket_closed_only_for_a_cause cfg (pre ++ Ev.setup :: post) hf c (by
    rw [ha, hmark, List.drop_append_of_le_length h0.mark]
    exact List.mem_append_right _ hc)
  rwa [hfed] at this

/-- **The statement asked for, as far as it is true of the model** (`_partial`: two more alternatives than "a `feedEof` /
    `feedErr` event occurs since the last `setup`"). On a transport without write limit: if a call returns `SocketClosed`
    during `post` (the part of an accepted script after its last `setup`), then `post` contains a `feedEof` or a `feedErr`
    event — or a `feed` event with an EMPTY chunk, which the transport delivers as a zero-length read, i.e. end-of-stream
    — or the bytes `post` feeds contain a malformed remaining-length field, which the framing layer also reports as the
    end of the stream (`RxPacketStream::poll_next` returns `None` on `VarSizeInt` errors; see the examples below: both
    extra alternatives do occur). -/
theorem socket_closed_needs_end_event_partial (cfg : Cfg) (pre post : List Ev) (hns : ∀ e ∈ post, e ≠ .setup)
    (hf : cfg.fill = true → ∀ e ∈ pre ++ Ev.setup :: post, feedOk e)
    (hb : ((pre ++ Ev.setup :: post).foldl World.step { cfg := cfg }).bad = false) (hw : cfg.wlimit = none) :
    ∃ added, ((pre ++ Ev.setup :: post).foldl World.step { cfg := cfg }).out =
        ((pre ++ [Ev.setup]).foldl World.step { cfg := cfg }).out ++ added ∧
      ∀ c, Obs.ret c (.err .socketClosed) ∈ added →
        (∃ e ∈ post, e = .feedEof ∨ e = .feedErr ∨ ∃ chunks, e = .feed chunks ∧ [] ∈ chunks) ∨
        frames (dataOf (post.flatMap evReads)) = none := by
  obtain ⟨added, ha, hc⟩ := socket_closed_since_setup cfg pre post hns hf hb
  refine ⟨added, ha, fun c hm => ?_⟩
  rcases hc c hm with h | h | h
  · exact absurd hw h
  · left
    obtain ⟨e, he, hfe⟩ := hasEnd_flatMap_evReads post h
    refine ⟨e, he, ?_⟩
    cases e with
    | feedEof => exact Or.inl rfl
    | feedErr => exact Or.inr (Or.inl rfl)
    | feed chunks => exact Or.inr (Or.inr ⟨chunks, rfl, hfe⟩)
    | _ => exact absurd hfe (by simp [feedsEnd])
  · exact Or.inr h

/-- **No spurious end-of-stream.** On a transport without write limit, as long as the script has fed no end-of-stream
    event since its last `setup` and the bytes it fed there have a reference framing (no malformed length field), no call
    returns `SocketClosed` in that connection. -/
theorem no_socket_closed_while_transport_open (cfg : Cfg) (pre post : List Ev) (hns : ∀ e ∈ post, e ≠ .setup)
    (hf : cfg.fill = true → ∀ e ∈ pre ++ Ev.setup :: post, feedOk e)
    (hb : ((pre ++ Ev.setup :: post).foldl World.step { cfg := cfg }).bad = false)
    (hw : cfg.wlimit = none) (hend : hasEnd (post.flatMap evReads) = false)
    (hfr : frames (dataOf (post.flatMap evReads)) ≠ none) :
    ∃ added, ((pre ++ Ev.setup :: post).foldl World.step { cfg := cfg }).out =
        ((pre ++ [Ev.setup]).foldl World.step { cfg := cfg }).out ++ added ∧
      ∀ c, Obs.ret c (.err .socketClosed) ∉ added := by
  obtain ⟨added, ha, hc⟩ := socket_closed_since_setup cfg pre post hns hf hb
  refine ⟨added, ha, fun c hm => ?_⟩
  rcases hc c hm with h | h | h
  · exact h hw
  · rw [hend] at h; cases h
  · exact hfr h

/-! ## 4. The inbound half of C02 for whole scripts -/

/-- **A well-formed server packet is exactly one frame** of the reference framing. -/
theorem server_packet_is_one_frame (p : ServerPacket) (h : WF p) : OneFrame (encodeServer p) := by
  have hl : (body p).length ≤ 268435455 := by
    have h' : wf p = true := h
    unfold wf at h'
    simp only [Bool.and_eq_true, decide_eq_true_eq] at h'
    exact h'.1
  refine ⟨(sVar (body p).length).length, ?_⟩
  have e : encodeServer p = UInt8.ofNat (header p) :: (sVar (body p).length ++ body p) := by
    simp [encodeServer, frame, sU8]
  rw [e, frameLen_cons, decVar_s _ hl]
  simp only [List.length_cons, List.length_append]
  congr 1; omega

/-- **A well-formed server packet fed in any chunking reaches the decoder as exactly that frame, and decodes to exactly
    the values the server encoded.** Let the context sleep with nothing buffered after the script `evs` (alive, not
    flagged, empty receive buffer). Let `more` be any further events without `setup` that feed — in any number of `feed`
    events, cut at any offsets, interleaved with anything else — exactly the bytes of `encodeServer p` for a well-formed
    server packet `p`. Then within `more` the decoder is handed nothing but that frame, at most once
    (`dec` grows from `dec₀` to at most `dec₀ ++ [encodeServer p]`); if the context sleeps again at the end it was handed
    exactly that frame and the receive buffer is empty again; and `decodeRx` of that frame is `expected p`
    (`dec_of_spec`, Properties/C02.lean): the handler runs on exactly the values the server encoded. -/
theorem fed_server_packet_is_decoded (cfg : Cfg) (evs more : List Ev) (p : ServerPacket) (hwf : WF p)
    (hf : cfg.fill = true → ∀ e ∈ evs ++ more, feedOk e)
    (ht0 : (evs.foldl World.step { cfg := cfg }).task ≠ .none)
    (hw0 : Task.ctx ∉ (evs.foldl World.step { cfg := cfg }).woken)
    (hv0 : (evs.foldl World.step { cfg := cfg }).rx.valid = [])
    (hns : ∀ e ∈ more, e ≠ .setup) (hbytes : dataOf (more.flatMap evReads) = encodeServer p)
    (hb : ((evs ++ more).foldl World.step { cfg := cfg }).bad = false) :
    (flog cfg evs).dec <+: (flog cfg (evs ++ more)).dec ∧
    (flog cfg (evs ++ more)).dec <+: (flog cfg evs).dec ++ [encodeServer p] ∧
    (((evs ++ more).foldl World.step { cfg := cfg }).task ≠ .none →
      Task.ctx ∉ ((evs ++ more).foldl World.step { cfg := cfg }).woken →
      (flog cfg (evs ++ more)).dec = (flog cfg evs).dec ++ [encodeServer p] ∧
      ((evs ++ more).foldl World.step { cfg := cfg }).rx.valid = []) ∧
    decodeRx (encodeServer p) = .ok (expected p) := by
  have hf0 : cfg.fill = true → ∀ e ∈ evs, feedOk e := fun hfl e he => hf hfl e (List.mem_append_left _ he)
  have hg0 := ginv_script cfg evs hf0
  obtain ⟨hrd0, _, hfr0⟩ := asleep_context_has_consumed_everything cfg evs hf0 ht0 hw0
  rw [hv0] at hfr0
  have hd0 : (evs.foldl World.step { cfg := cfg }).ctxDropped = false := by
    cases hd : (evs.foldl World.step { cfg := cfg }).ctxDropped with
    | false => rfl
    | true => exact absurd (hg0.own.noTask (hg0.own.dropped hd)) ht0
  have hend0 : hasEnd (flog cfg evs).fed = false := by
    rw [← hg0.inv.ends hd0, hrd0]; rfl
  have hdata0 : dataOf (flog cfg evs).fed = (flog cfg evs).dec.flatten := by
    have := frames_flatten_eq _ _ _ hfr0
    simpa using this.symm
  have hb0 : (evs.foldl World.step { cfg := cfg }).bad = false := by
    rw [List.foldl_append] at hb
    exact bad_false_of_steps more _ hb
  have hfed : (flog cfg (evs ++ more)).fed = (flog cfg evs).fed ++ more.flatMap evReads := by
    rw [flog_fed _ _ hb, flog_fed _ _ hb0]
    unfold scriptFed
    rw [List.foldl_append, foldl_fedStep_noSetup more hns]
  have hdata : dataOf (flog cfg (evs ++ more)).fed = (flog cfg evs).dec.flatten ++ encodeServer p := by
    rw [hfed, dataOf_append_gen, hend0, hdata0, hbytes]; simp
  have hframes : frames (dataOf (flog cfg (evs ++ more)).fed) = some ((flog cfg evs).dec ++ [encodeServer p], []) := by
    rw [hdata, frames_whole_prefix _ _ hg0.inv.whole, frames_oneFrame _ (server_packet_is_one_frame p hwf)]
    rfl
  have hpre : (flog cfg evs).dec <+: (flog cfg (evs ++ more)).dec := by
    unfold flog
    rw [stepsG_append]
    exact stepsG_dec more _ _ hns
  refine ⟨hpre, (decoded_frames_are_reference_frames cfg (evs ++ more) hf).1 _ _ hframes, fun ht1 hw1 => ?_,
    dec_of_spec p hwf⟩
  obtain ⟨_, _, c⟩ := asleep_context_has_consumed_everything cfg (evs ++ more) hf ht1 hw1
  rw [hframes] at c
  simp only [Option.some.injEq, Prod.mk.injEq] at c
  exact ⟨c.1.symm, c.2.symm⟩

/-! ## Non-vacuity (worlds of Lemmas/WorldEx.lean; the script `evsPing` = `SETUP`, a PINGRESP fed in two one-byte chunks,
    `run()`, evaluated stage by stage in Lemmas/WorldFramingEx.lean) -/
section NonVacuity
open Ex

/-- `setup_resets_inbound`: the very first `setup` is accepted -/
example : inbound (({} : World).apply .setup) = [] := setup_resets_inbound {} (by decide) (by decide)

/-- `feed_event_appends_its_bytes`: the serving client `wRun` is fed a PINGRESP in two chunks -/
example : inbound (wRun.apply (.feed [[0xD0], [0]])) = inbound wRun ++ [0xD0, 0] :=
  feed_event_appends_its_bytes wRun [[0xD0], [0]] rfl (by decide) (by decide) (by intro h; cases h)

/-- `feed_appends_to_inbound` under `fill` and `rdp` with a read already pending: the hypotheses are satisfiable there
    too, and the bytes in flight grow by exactly the bytes fed although the reader's script is re-chunked -/
example : inbound (({ wRun with cfg := { fill := true, rdp := true }, reader := [.data [0x30]] } : World).feedEvents
      [.data [0xD0], .data [0]]) = [0x30, 0xD0, 0] := by
  rw [feed_appends_to_inbound _ _ (fun _ => ⟨by intro bs h; simp at h; simp [h], by
    intro bs h
    simp only [List.mem_cons, ReadEv.data.injEq, List.not_mem_nil, or_false] at h
    rcases h with rfl | rfl <;> simp⟩)]
  decide

/-- `yielded_frame_is_the_front_frame`: `connect()` awaiting its response, a CONNACK readable in one read -/
example : inbound (wConn connackOk) = connackOk ++ inbound { wConn connackOk with rx := {}, reader := [] } ∧
    OneFrame connackOk :=
  let h := yielded_frame_is_the_front_frame (wConn connackOk) {} [] connackOk ok_init pn_connackOk
  ⟨h.1, h.2.1⟩

/-- `poll_hands_over_the_front_frames`: the same world — the poll hands exactly the CONNACK to the decoder … -/
example : ctxFrames (wConn connackOk) = [connackOk] := by
  simp [ctxFrames, wConn, nextFrame, pn_connackOk, outFrames]
example : inbound (wConn connackOk) = (ctxFrames (wConn connackOk)).flatten ++ inbound (wConn connackOk).pollCtx :=
  (poll_hands_over_the_front_frames (wConn connackOk) ok_init).1
/-- … and a poll of `run()` reassembles a PINGRESP from two one-byte reads -/
example : ctxFrames (wPing3a.unwake .ctx) = [pingresp] := wPing3a_frames

/-- `handler_input_is_the_decoded_frame`: `run()` serving with a PINGRESP readable: the frame is the PINGRESP and the
    handler's input is its decoding -/
example : iterFrames (wServe [.data pingresp]) = [pingresp] ∧
    (wServe [.data pingresp]).iterIn = some ((wServe [.data pingresp]).inPkt .pingresp) := by
  have hi : iterFrames (wServe [.data pingresp]) = [pingresp] := by
    have hp : pollNext (wServe [.data pingresp]).rx (wServe [.data pingresp]).reader = ({}, [], .item pingresp) :=
      pn_pingresp
    simp [iterFrames, wServe, senders, nextFrame, pn_pingresp, outFrames]
  refine ⟨hi, ?_⟩
  rw [handler_input_is_the_decoded_frame _ rfl, hi]
  simp only [dec_pingresp]

/-- `loop_handles_exactly_the_decoded_frames`: the same world, a poll with fuel 2: one frame, one handled packet -/
example : (loopFrames 2 (wServe [.data pingresp])).filterMap okOf = [.pingresp] := by
  rw [← loop_handles_exactly_the_decoded_frames,
    World.loopHist_one_frame 0 (wServe [.data pingresp]) pingresp .pingresp rfl (by decide) pn_pingresp dec_pingresp]
  rfl

/-- the script `evsPing` is not refused, feeds `[data [0xD0], data [0]]`, and its ghost records ONE decoded frame, the
    PINGRESP: the conclusions of `decoded_frames_conserve_the_fed_bytes` / `decoded_frames_are_reference_frames` are about
    a non-empty list of frames -/
example : (evsPing.foldl World.step {}).bad = false ∧ (flog {} evsPing).fed = [.data [0xD0], .data [0]] ∧
    (flog {} evsPing).dec = [pingresp] ∧ scriptFed evsPing = [.data [0xD0], .data [0]] := by
  refine ⟨evsPing_ok, ?_, ?_, by decide⟩ <;> rw [evsPing_flog]
example : (flog {} evsPing).dec.flatten ++ inbound (evsPing.foldl World.step {}) = dataOf (flog {} evsPing).fed :=
  (decoded_frames_conserve_the_fed_bytes {} evsPing (by intro h; cases h)).2.2 (by rw [evsPing_world]; decide)
/-- the reference framing of the two fed bytes is the one PINGRESP: the premise of the first part of
    `decoded_frames_are_reference_frames` holds for `evsPing` -/
example : frames (dataOf (flog {} evsPing).fed) = some ([pingresp], []) := by rw [evsPing_flog]; decide
/-- the side condition under `cfg.fill` is satisfiable: `evsPing` has no empty chunk -/
example : ({ fill := true } : Cfg).fill = true → ∀ e ∈ evsPing, feedOk e := by
  intro _ e he
  simp only [evsPing, List.mem_cons, List.not_mem_nil, or_false] at he
  rcases he with rfl | rfl | rfl
  · trivial
  · intro c hc; simp only [List.mem_cons, List.not_mem_nil, or_false] at hc; rcases hc with rfl | rfl <;> simp
  · trivial
/-- … and it can fail: an empty chunk -/
example : ¬ feedOk (.feed [[]]) := by intro h; exact h [] (by simp) rfl

/-- `chunking_independence_scripts`: `evsPing` (two one-byte chunks, then `run`) against a script that has fed the same
    two bytes in ONE chunk and has not started `run()` yet: both are accepted, feed the same bytes, and the frames of the
    second (none yet) are a prefix of the frames of the first (the PINGRESP) -/
example : (flog {} [.setup, .feed [[0xD0, 0]]]).dec <+: (flog {} evsPing).dec ∨
    (flog {} evsPing).dec <+: (flog {} [.setup, .feed [[0xD0, 0]]]).dec :=
  chunking_independence_scripts {} {} [.setup, .feed [[0xD0, 0]]] evsPing (by intro h; cases h) (by intro h; cases h)
    (by decide) evsPing_ok (by decide)

/-- `asleep_context_has_consumed_everything` / `idle_executor_context_has_consumed_everything`: after `evsPing` the
    `run()` future is alive, not flagged and not held … -/
example : (evsPing.foldl World.step {}).task ≠ .none ∧ Task.ctx ∉ (evsPing.foldl World.step {}).woken ∧
    Task.ctx ∉ (evsPing.foldl World.step {}).held := by rw [evsPing_world]; decide
/-- … so everything fed was decoded: the reference framing of the bytes fed is exactly the decoded frames, nothing
    is left in the receive buffer -/
example : frames (dataOf (flog {} evsPing).fed) = some ((flog {} evsPing).dec, []) := by
  have h := (asleep_context_has_consumed_everything {} evsPing (by intro h; cases h)
    (by rw [evsPing_world]; decide) (by rw [evsPing_world]; decide)).2.2
  rwa [show (evsPing.foldl World.step {}).rx.valid = [] by rw [evsPing_world]; decide] at h
/-- `same_bytes_same_frames_when_asleep`: its hypotheses are satisfiable (the same execution on both sides) -/
example : (flog {} evsPing).dec = (flog {} evsPing).dec ∧
    (evsPing.foldl World.step {}).rx.valid = (evsPing.foldl World.step {}).rx.valid :=
  same_bytes_same_frames_when_asleep {} {} evsPing evsPing (by intro h; cases h) (by intro h; cases h)
    (by rw [evsPing_world]; decide) (by rw [evsPing_world]; decide) (by rw [evsPing_world]; decide)
    (by rw [evsPing_world]; decide) rfl

/-- `socket_closed_since_setup` / `no_socket_closed_while_transport_open`: `evsPing` splits at its `setup`, is accepted,
    has no write limit, feeds no end-of-stream event and well-formed bytes -/
example : ∃ added, (([] ++ Ev.setup :: [.feed [[0xD0], [0]], .run]).foldl World.step {}).out =
      (([] ++ [Ev.setup]).foldl World.step {}).out ++ added ∧ ∀ c, Obs.ret c (.err .socketClosed) ∉ added :=
  no_socket_closed_while_transport_open {} [] [.feed [[0xD0], [0]], .run] (by decide) (by intro h; cases h) evsPing_ok rfl
    (by decide) (by decide)
/-- `socket_closed_needs_end_event_partial`: the same script satisfies its hypotheses -/
example : ∃ added, (([] ++ Ev.setup :: [.feed [[0xD0], [0]], .run]).foldl World.step {}).out =
      (([] ++ [Ev.setup]).foldl World.step {}).out ++ added ∧
    ∀ c, Obs.ret c (.err .socketClosed) ∈ added →
      (∃ e ∈ [Ev.feed [[0xD0], [0]], .run], e = .feedEof ∨ e = .feedErr ∨ ∃ chunks, e = .feed chunks ∧ [] ∈ chunks) ∨
      frames (dataOf (List.flatMap evReads [Ev.feed [[0xD0], [0]], .run])) = none :=
  socket_closed_needs_end_event_partial {} [] [.feed [[0xD0], [0]], .run] (by decide) (by intro h; cases h) evsPing_ok rfl
/-- the third cause is real, so statement 3 cannot be strengthened to "`SocketClosed` only after `feedEof` / `feedErr`":
    with a malformed remaining-length field readable — no end-of-stream event anywhere, no write limit — a poll of `run()`
    returns `SocketClosed`; the bytes in flight then have no reference framing (`SockCause`, third alternative) -/
example : (wServe [.data malformed]).pollCtx.out = [.ret .run (.err .socketClosed)] ∧
    hasEnd (wServe [.data malformed]).reader = false ∧ (wServe [.data malformed]).cfg.wlimit = none ∧
    frames (inbound (wServe [.data malformed])) = none :=
  ⟨wServe_malformed_closed, by decide, rfl, by decide⟩
/-- … and so is the second one: an empty chunk is a zero-length read, i.e. end-of-stream, without any `feedEof` -/
example : hasEnd (evReads (.feed [[]])) = true := by decide

/-- `server_packet_is_one_frame` / `fed_server_packet_is_decoded`: after `evsPing` the context sleeps with an empty receive
    buffer; one more PINGRESP (`morePing`, again two one-byte chunks) is a well-formed server packet whose encoding is
    exactly the bytes fed, and the extended script is accepted -/
example : WF .pingresp ∧ OneFrame (encodeServer .pingresp) ∧
    dataOf (morePing.flatMap evReads) = encodeServer .pingresp := ⟨by decide, server_packet_is_one_frame _ (by decide), by decide⟩
example : (flog {} (evsPing ++ morePing)).dec <+: [pingresp] ++ [encodeServer .pingresp] ∧
    decodeRx (encodeServer .pingresp) = .ok (expected .pingresp) := by
  have h := fed_server_packet_is_decoded {} evsPing morePing .pingresp (by decide) (by intro h; cases h)
    (by rw [evsPing_world]; decide) (by rw [evsPing_world]; decide) (by rw [evsPing_world]; decide) (by decide) (by decide)
    evsPing_more_ok
  rw [evsPing_flog] at h
  exact ⟨h.2.1, h.2.2.2⟩

end NonVacuity

#print axioms setup_resets_inbound
#print axioms feed_appends_to_inbound
#print axioms feed_event_appends_its_bytes
#print axioms yielded_frame_is_the_front_frame
#print axioms poll_hands_over_the_front_frames
#print axioms handler_input_is_the_decoded_frame
#print axioms loop_handles_exactly_the_decoded_frames
#print axioms fed_is_what_the_script_feeds
#print axioms decoded_frames_conserve_the_fed_bytes
#print axioms decoded_frames_are_reference_frames
#print axioms chunking_independence_world
#print axioms chunking_independence_scripts
#print axioms asleep_context_has_consumed_everything
#print axioms idle_executor_context_has_consumed_everything
#print axioms same_bytes_same_frames_when_asleep
#print axioms socket_closed_only_for_a_cause
#print axioms socket_closed_since_setup
#print axioms socket_closed_needs_end_event_partial
#print axioms no_socket_closed_while_transport_open
#print axioms server_packet_is_one_frame
#print axioms fed_server_packet_is_decoded

end Poster
