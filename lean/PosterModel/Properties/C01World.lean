/-
  Properties/C01World.lean — C01 for whole executions of the client: the wire is a concatenation of whole, well-formed
  packets carrying the callers' values, in submission order.

  `Properties/C01.lean` proves, per encoder, that the bytes of one request are one well-formed packet that an independent
  parser reads back as the request. Here the statement is about everything a SCRIPT makes the client hand to its transport.

  Vocabulary
    `World.submitted cfg evs`  the packets the script submits to the transport, in submission order — a ghost function
                               running in parallel with the machine (Lemmas/WorldWireSent.lean): per poll of the context
                               task (`World.ctxSubmits`) the CONNECT / AUTH packet of an accepted `connect()` /
                               `authorize()`, the retransmit queue re-sent by the first poll of `run()`, and for every
                               message / inbound packet the loop of `run()` handles the writes of its handler
    `World.sent w`             all bytes handed to the transport so far (Lemmas/WorldCtx.lean)
    `World.wires out`          the `W` lines of a transcript
    `Framing.frames`           the reference framing (greedy split of a byte string into whole packets, from the standard)
    `OneFrame p`               `p` is exactly one frame: fixed header, a well-formed remaining length equal to the size of the rest
    `WirePkt p`                `p` is a packet of known origin: the encoding of an accepted request MQTT 5 can represent
                               (`XInDomain`), completed with library-assigned identifiers; PINGREQ; PUBACK / PUBREC /
                               PUBREL / PUBCOMP in the shortest form for an identifier in 1..65535
    `WireOf S p`               the same with provenance: the request is one of the requests `S` (`srcOf evs`: the ones the
                               events of the script carry); `FromCaller S pkt`: the decoded packet is the one expected for
                               a request of `S` with library-assigned identifiers (or a re-delivery, a PINGREQ, an acknowledgement)
    `ScriptInDomain evs`       every request of the script (connect, authorize, publish, subscribe, unsubscribe,
                               disconnect), completed with ANY identifiers the library may assign, satisfies the
                               `XInDomain` predicate of Spec/ClientOf.lean
  The script-level theorems of sections 1–3 are for the unlimited transport (`cfg.wlimit = none`): a transport that cuts a
  write short leaves a partial packet on the wire by design. Section 5 (`wire_any_limit`) covers every transport limit: whole
  packets, and at most a proper prefix of ONE packet where the transport failed.
-/
import PosterModel.Lemmas.WorldWire
import PosterModel.Lemmas.WorldWireLim
import PosterModel.Lemmas.WorldWireCheck
import PosterModel.Lemmas.WorldWireEx

set_option linter.unusedVariables false
set_option linter.unusedSimpArgs false

namespace Poster
open Framing Spec

/-! ## 2a. every packet constructor yields exactly one frame -/

/-- A CONNECT within the protocol's size limit is exactly one frame of the reference framing: fixed header, remaining
    length equal to the number of bytes that follow, nothing left over. (Likewise below for every other packet.) -/
theorem connect_one_frame (t : ConnectTx) (h : t.remainingLen < 268435456) : frames t.encode = some ([t.encode], []) :=
  frames_oneFrame _ (oneFrame_connect t h)
/-- an AUTH (also in its shortened two-byte form) is exactly one frame -/
theorem auth_one_frame (t : AuthTx) (h : t.remainingLen < 268435456) : frames t.encode = some ([t.encode], []) :=
  frames_oneFrame _ (oneFrame_auth t h)
/-- a PUBLISH is exactly one frame -/
theorem publish_one_frame (t : PublishTx) (h : t.remainingLen < 268435456) : frames t.encode = some ([t.encode], []) :=
  frames_oneFrame _ (oneFrame_publish t h)
/-- a SUBSCRIBE is exactly one frame -/
theorem subscribe_one_frame (t : SubscribeTx) (h : t.remainingLen < 268435456) :
    frames t.encode = some ([t.encode], []) := frames_oneFrame _ (oneFrame_subscribe t h)
/-- an UNSUBSCRIBE is exactly one frame -/
theorem unsubscribe_one_frame (t : UnsubscribeTx) (h : t.remainingLen < 268435456) :
    frames t.encode = some ([t.encode], []) := frames_oneFrame _ (oneFrame_unsubscribe t h)
/-- a DISCONNECT is exactly one frame -/
theorem disconnect_one_frame (t : DisconnectTx) (h : t.remainingLen < 268435456) :
    frames t.encode = some ([t.encode], []) := frames_oneFrame _ (oneFrame_disconnect t h)
/-- a PUBACK / PUBREC / PUBREL / PUBCOMP (any reason, any properties) is exactly one frame -/
theorem ack_one_frame (t : AckTx) (h : t.remainingLen < 268435456) : frames t.encode = some ([t.encode], []) :=
  frames_oneFrame _ (oneFrame_ack t h)
/-- the acknowledgements the library writes by itself (PUBACK 0x40, PUBREC 0x50, PUBREL 0x62, PUBCOMP 0x70), for any
    packet identifier -/
theorem ackBytes_one_frame (hdr pid : Nat) : frames (ackBytes hdr pid) = some ([ackBytes hdr pid], []) :=
  frames_oneFrame _ (oneFrame_ackBytes hdr pid)
/-- the PINGREQ is exactly one frame -/
theorem pingreq_one_frame : frames pingreqBytes = some ([pingreqBytes], []) := frames_oneFrame _ oneFrame_pingreq
/-- a retransmission (the stored packet with the DUP bit set in its fixed header) of a packet that is one frame is one
    frame: the framing does not look at the flag bits -/
theorem retransmission_one_frame (p : Bytes) (hf : OneFrame p) :
    frames (setDup p) = some ([setDup p], []) := frames_oneFrame _ (oneFrame_setDup p hf)

/-- Every packet of known origin is exactly one frame. -/
theorem wirePkt_one_frame (p : Bytes) (h : WirePkt p) : frames p = some ([p], []) := frames_oneFrame p h.oneFrame

/-- Every packet of known origin is one well-formed MQTT 5 client packet: the independent parser `Spec.parseClient` reads
    exactly one packet from it and leaves whatever follows untouched. -/
theorem wirePkt_parses (p : Bytes) (h : WirePkt p) :
    ∃ pkt : ClientPacket, ∀ rest, parseClient (p ++ rest) = some (pkt, rest) := h.parses

/-- The retransmission of an accepted QoS 1/2 PUBLISH — the stored bytes with the DUP bit set — is the encoding of the same
    publication with the DUP flag set (`setDup_publish_encode`), hence again a well-formed PUBLISH carrying the caller's
    values. -/
theorem retransmission_is_publish (t : PublishTx) (hv : t.valid = true) (hd : PublishInDomain t) (hq : t.qos ≠ 0)
    (rest : Bytes) :
    parseClient (setDup t.encode ++ rest) = some (ofPublish { t with dup := true }, rest) := by
  have hd' : PublishInDomain ({ t with dup := true } : PublishTx) :=
    ⟨hd.qos, hd.packetId, fun h => absurd h hq, hd.topic, hd.topicAlias, hd.mei,
      hd.correlationData, hd.responseTopic, hd.contentType, hd.userProps, hd.size⟩
  have hv' : ({ t with dup := true } : PublishTx).valid = true := hv
  rw [setDup_publish_encode t hd.qos]
  exact enc_publish_parses _ hv' hd' rest

/-! ## 1. what is handed to the transport is the concatenation of the submitted packets -/

/-- **The wire is the concatenation of the submitted packets, in submission order.** For every script, on a transport
    that takes every write: the bytes handed to the transport are exactly the packets the script submits (the CONNECT /
    AUTH packets of `connect()` / `authorize()`, the packets re-sent when `run()` resumes a session, and what the handlers
    of `run()` write for each handled request and each inbound packet), one after the other, nothing in between, nothing
    lost — across reconnects (`setup` on a live context) and whatever the executor interleaving. No assumption on the requests. -/
theorem wire_is_submitted (cfg : Cfg) (evs : List Ev) (hl : cfg.wlimit = none) :
    (evs.foldl World.step { cfg := cfg }).sent = (World.submitted cfg evs).flatten := by
  have := World.scriptSubmits_sent evs { cfg := cfg } hl
  simpa [World.sent, World.submitted] using this

/-- the same, from any world reached: a continuation of a script appends exactly the packets it submits -/
theorem wire_is_submitted_from (w : World) (evs : List Ev) (hl : w.cfg.wlimit = none) :
    (evs.foldl World.step w).sent = w.sent ++ (World.scriptSubmits w evs).flatten :=
  World.scriptSubmits_sent evs w hl

/-! ## 2b. every submitted packet is one whole well-formed packet; the transcript -/

/-- **Every submitted packet is a well-formed packet whose origin is a request of the script**, for scripts whose requests
    MQTT 5 can represent: it is the encoding of an accepted `connect` / `authorize` / `op` request OF THE SCRIPT completed
    with library-assigned identifiers (CONNECT, AUTH, PUBLISH — also as a retransmission with DUP set —, SUBSCRIBE,
    UNSUBSCRIBE, DISCONNECT), the PINGREQ of a ping of the script, or a PUBACK / PUBREC / PUBREL / PUBCOMP (success, no
    properties) for a packet identifier in 1..65535. -/
theorem submitted_from_script (cfg : Cfg) (evs : List Ev) (hl : cfg.wlimit = none) (hd : ScriptInDomain evs) :
    ∀ p ∈ World.submitted cfg evs, WireOf (srcOf evs) p :=
  (World.script_wire evs { cfg := cfg } (World.WInv.init _ cfg hl) (evOk_srcOf evs hd)).2

/-- … in particular a packet of known origin (provenance forgotten), hence one frame that parses -/
theorem submitted_are_packets (cfg : Cfg) (evs : List Ev) (hl : cfg.wlimit = none) (hd : ScriptInDomain evs) :
    ∀ p ∈ World.submitted cfg evs, WirePkt p :=
  fun p hp => (submitted_from_script cfg evs hl hd p hp).wirePkt

/-- The wire invariant holds in every world a script in the domain reaches (unlimited transport): no partial packet is
    pending at the transport, the transcript has no `WRAW` line and every `W` line is a packet originating in a request of
    the script, every queued message and every entry of the retransmit queue carries such a packet, the identifier counters
    are in range, every packet stored in a oneshot is well formed. -/
theorem wire_invariant (cfg : Cfg) (evs : List Ev) (hl : cfg.wlimit = none) (hd : ScriptInDomain evs) :
    World.WInv (srcOf evs) (evs.foldl World.step { cfg := cfg }) :=
  (World.script_wire evs { cfg := cfg } (World.WInv.init _ cfg hl) (evOk_srcOf evs hd)).1

/-- **The reference framing splits the wire into exactly the submitted packets**, none left incomplete: the wire is a
    concatenation of WHOLE packets, each with a remaining-length field equal to the size of what follows it. -/
theorem wire_frames (cfg : Cfg) (evs : List Ev) (hl : cfg.wlimit = none) (hd : ScriptInDomain evs) :
    frames (evs.foldl World.step { cfg := cfg }).sent = some (World.submitted cfg evs, []) := by
  rw [wire_is_submitted cfg evs hl]
  exact frames_flatten_oneFrame _ (fun p hp => (submitted_are_packets cfg evs hl hd p hp).oneFrame)

/-- **The `W` lines of the transcript are exactly the submitted packets, in submission order**, and nothing is pending at
    the transport when the script ends. -/
theorem transcript_wires (cfg : Cfg) (evs : List Ev) (hl : cfg.wlimit = none) (hd : ScriptInDomain evs) :
    World.wires (World.run cfg evs) = World.submitted cfg evs ∧
    (evs.foldl World.step { cfg := cfg }).wirePend = [] := by
  have hw := wire_invariant cfg evs hl hd
  refine ⟨?_, hw.pend⟩
  have hrun : World.run cfg evs = (evs.foldl World.step { cfg := cfg }).out := by
    simp [World.run, World.finishScript, World.flushRaw_of_pend hw.pend]
  rw [hrun]
  apply World.oneFrame_flatten_inj
  · exact fun p hp => (hw.wires_ok p hp).oneFrame
  · exact fun p hp => (submitted_are_packets cfg evs hl hd p hp).oneFrame
  · rw [← hw.sent_eq, wire_is_submitted cfg evs hl]

/-- **No `WRAW` line is ever logged**: with a transport that takes every write and requests MQTT 5 can represent, the
    transcript of every script shows the wire as whole packets only — at no point (not at a reconnect, not at the end of the
    script) are there bytes on the wire that are not a whole number of packets. -/
theorem no_wraw (cfg : Cfg) (evs : List Ev) (hl : cfg.wlimit = none) (hd : ScriptInDomain evs) :
    ∀ o ∈ World.run cfg evs, ¬ ∃ bs, o = .wraw bs := by
  have hw := wire_invariant cfg evs hl hd
  have hrun : World.run cfg evs = (evs.foldl World.step { cfg := cfg }).out := by
    simp [World.run, World.finishScript, World.flushRaw_of_pend hw.pend]
  rw [hrun]
  rintro o ho ⟨bs, rfl⟩
  exact hw.out _ ho

/-! ## 3. the packets carry the callers' values -/

/-- **Every `W` line of a script decodes to a caller's values.** For every `W` line `bs` of the transcript of a script in
    the domain (unlimited transport), the independent parser `Spec.parseClient` reads exactly one packet from `bs`, nothing
    left over, and that packet is (`FromCaller (srcOf evs)`): the CONNECT / AUTH expected for a `connect` / `authorize`
    event of the script; the PUBLISH expected for a publish request of the script — as stated for QoS 0, with a
    library-assigned packet identifier in 1..65535 for QoS 1 / 2, possibly as a re-delivery with DUP set; the SUBSCRIBE /
    UNSUBSCRIBE expected for a request of the script with the assigned packet identifier (and subscription identifier in
    1..268435455); the DISCONNECT of a disconnect request of the script; the PINGREQ of a ping of the script; or a PUBACK /
    PUBREC / PUBREL / PUBCOMP with reason Success and no properties for an identifier in 1..65535. Nothing else is ever on
    the wire. -/
theorem wire_lines_from_callers (cfg : Cfg) (evs : List Ev) (hl : cfg.wlimit = none) (hd : ScriptInDomain evs) :
    ∀ bs, Obs.wire bs ∈ World.run cfg evs →
      ∃ pkt : ClientPacket, parseClient bs = some (pkt, []) ∧ FromCaller (srcOf evs) pkt := by
  have hw := wire_invariant cfg evs hl hd
  have hrun : World.run cfg evs = (evs.foldl World.step { cfg := cfg }).out := by
    simp [World.run, World.finishScript, World.flushRaw_of_pend hw.pend]
  rw [hrun]
  intro bs hb
  have hp : WireOf (srcOf evs) bs := hw.out _ hb
  obtain ⟨pkt, h, hf⟩ := hp.decodes
  exact ⟨pkt, by simpa using h [], hf⟩

/-- the same for the submitted packets (what is handed to the transport, before it shows in the transcript) -/
theorem submitted_from_callers (cfg : Cfg) (evs : List Ev) (hl : cfg.wlimit = none) (hd : ScriptInDomain evs) :
    ∀ p ∈ World.submitted cfg evs,
      ∃ pkt : ClientPacket, (∀ rest, parseClient (p ++ rest) = some (pkt, rest)) ∧ FromCaller (srcOf evs) pkt :=
  fun p hp => (submitted_from_script cfg evs hl hd p hp).decodes

/-- **One request, from the caller to the wire.** When a handle future is first polled in a world `w` whose context is
    alive, and the request — completed with the packet identifier `w.pidCtr` and the subscription identifier `w.subCtr` the
    library assigns — has its mandatory parts and is one MQTT 5 can represent: exactly one message is appended to the
    context's queue, carrying the oneshot `2 * id`; the independent parser reads its bytes back as exactly the caller's
    values with those identifiers (`Req.packet`: `Spec.ofPublish`, `ofSubscribe`, …); and when `run()` handles that
    message it writes either nothing (refused for its size or the send quota) or exactly those bytes. -/
theorem startOp_carries (w : World) (id : Nat) (req : Req) (hc : w.hasCtx = true)
    (hv : (w.completeReq req).accepted = true) (hd : ReqInDomain req)
    (hp : 1 ≤ w.pidCtr ∧ w.pidCtr ≤ 65535) (hs : 1 ≤ w.subCtr ∧ w.subCtr ≤ 268435455) :
    ∃ m : Msg, (w.startOp id req).queue = w.queue ++ [m] ∧ m.slot = 2 * id ∧
      (∀ rest, parseClient (m.pkt ++ rest) = some ((w.completeReq req).packet, rest)) ∧
      ∀ (c : Ctx) (wok : Bool), writesOf (c.handleMsg m wok).2.1 = [] ∨ writesOf (c.handleMsg m wok).2.1 = [m.pkt] := by
  obtain ⟨m, h1, h2, h3⟩ := World.startOp_queues w id req hc hv
  refine ⟨m, h1, h3, fun rest => ?_, fun c wok => World.handleMsg_writes c m wok⟩
  rw [h2]
  exact Req.bytes_parse _ hv (completeReq_inDomain w req hd hp hs) rest

/-- the same for `connect()`: the first poll of an accepted CONNECT request in the domain submits exactly its encoding,
    which parses back to the caller's values -/
theorem connect_carries (w : World) (t : ConnectTx) (a : AuthTx) (ht : w.task = .connecting .connect t a false)
    (hv : t.valid = true) (hd : ConnectInDomain t) (rest : Bytes) :
    w.ctxSubmits = [t.encode] ∧ parseClient (t.encode ++ rest) = some (ofConnect t, rest) := by
  refine ⟨?_, enc_connect_parses t hv hd rest⟩
  rw [World.ctxSubmits_connecting w _ t a false ht]
  simp [World.reqValid, hv, World.connectPkt]

/-- … and for `authorize()`: exactly the AUTH packet, which parses back to the caller's values -/
theorem authorize_carries (w : World) (t : ConnectTx) (a : AuthTx) (ht : w.task = .connecting .authorize t a false)
    (hv : a.valid = true) (hd : AuthInDomain a) (rest : Bytes) :
    w.ctxSubmits = [a.encode] ∧ parseClient (a.encode ++ rest) = some (ofAuth a, rest) := by
  refine ⟨?_, enc_auth_parses a hv hd rest⟩
  rw [World.ctxSubmits_connecting w _ t a false ht]
  simp [World.reqValid, hv, World.connectPkt]

/-! ## 4. refusal before anything is written -/

/-- **A request missing a mandatory part is refused before anything is written**: the operation completes with
    `CodecError`; nothing is queued for the context, nothing reaches the transport, the context is untouched; the only
    trace is that the identifier counters have advanced (`allocFor`: the packet identifier for QoS>0 PUBLISH, SUBSCRIBE and
    UNSUBSCRIBE, the subscription identifier for SUBSCRIBE — they are taken before validation). -/
theorem startOp_refused (w : World) (id : Nat) (req : Req) (hv : (w.completeReq req).accepted = false) :
    let w' := w.startOp id req
    w'.out = w.out ++ [.done id (.err .codecError)] ∧ w'.sent = w.sent ∧ w'.queue = w.queue ∧ w'.c = w.c ∧
    w'.ops = eraseFirst id w.ops ∧ w'.slots = w.slots ∧
    w'.pidCtr = (w.allocFor req).pidCtr ∧ w'.subCtr = (w.allocFor req).subCtr := by
  obtain ⟨a1, a2, a3, a4, a5, a6⟩ := World.allocFor_frame w req
  simp only
  rw [World.startOp_refused_eq w id req hv]
  refine ⟨by simp [a1], ?_, by simp [a3], by simp [a4], by simp [a5], by simp [a6], by simp, by simp⟩
  rw [World.finishOp_sent]
  exact World.sent_congr a1 a2

/-- which requests are refused: exactly those of C01 — a PUBLISH without topic, a SUBSCRIBE / UNSUBSCRIBE without topic
    filter (PINGREQ and DISCONNECT never) -/
theorem refused_iff (w : World) (req : Req) :
    (w.completeReq req).accepted = false ↔
      match req with
      | .publish t => t.topic = none
      | .subscribe t => t.filters = []
      | .unsubscribe t => t.filters = []
      | _ => False := by
  cases req with
  | publish t =>
    by_cases hq : t.qos = 0
    · cases h : t.topic <;> simp [World.completeReq, Req.accepted, PublishTx.valid, hq, h]
    · cases h : t.topic <;> simp [World.completeReq, Req.accepted, PublishTx.valid, hq, h]
  | subscribe t => cases h : t.filters <;> simp [World.completeReq, Req.accepted, SubscribeTx.valid, h]
  | unsubscribe t => cases h : t.filters <;> simp [World.completeReq, Req.accepted, UnsubscribeTx.valid, h]
  | ping => simp [World.completeReq, Req.accepted]
  | disconnect t => simp [World.completeReq, Req.accepted]

/-- **`connect()` / `authorize()` with authentication data but no method (resp. extended authentication without both) is
    refused before anything is written**: the call returns `CodecError`, nothing is submitted, the wire and the context are
    untouched. -/
theorem connect_refused (w : World) (call : Call) (t : ConnectTx) (a : AuthTx)
    (ht : w.task = .connecting call t a false) (hv : World.reqValid call t a = false) :
    w.pollCtx.out = w.out ++ [.ret call (.err .codecError)] ∧ w.pollCtx.sent = w.sent ∧ w.pollCtx.c = w.c ∧
    w.ctxSubmits = [] ∧ w.pollCtx.task = .none := by
  have e : w.pollCtx = w.finish call (.err .codecError) := by
    rcases World.pollConnect_prelude w call t a with ⟨_, h⟩ | ⟨h, _⟩
    · simp only [World.pollCtx, ht]; exact h
    · rw [hv] at h; cases h
  rw [e, World.ctxSubmits_connecting w call t a false ht]
  refine ⟨by simp, World.sent_finish _ _ _, by simp, by simp [hv], rfl⟩

/-! ## 5. whatever the transport does with the writes -/

/-- **Whatever the transport limit** (also a transport that takes only part of a write and then fails): for every script
    whose requests MQTT 5 can represent, every `W` line of the transcript is a whole packet that decodes to a caller's values
    (as in `wire_lines_from_callers`), and every `WRAW` line — the bytes left on a connection when the transport cut a write
    short, logged at the reconnect or at the end of the script — is a proper prefix of ONE such packet: never bytes of two
    packets, never anything after the cut. (The invariant behind it, `World.LInv`: once a write was cut the transport limit is
    reached and every later write on that connection adds nothing.) -/
theorem wire_any_limit (cfg : Cfg) (evs : List Ev) (hd : ScriptInDomain evs) :
    (∀ bs, Obs.wire bs ∈ World.run cfg evs →
      ∃ pkt : ClientPacket, parseClient bs = some (pkt, []) ∧ FromCaller (srcOf evs) pkt) ∧
    (∀ bs, Obs.wraw bs ∈ World.run cfg evs →
      ∃ p, WireOf (srcOf evs) p ∧ bs <+: p ∧ bs.length < p.length) := by
  have hw := (World.LInv.script evs (World.LInv.init (srcOf evs) cfg) (evOk_srcOf evs hd)).flushRaw.1
  refine ⟨fun bs hb => ?_, fun bs hb => hw.out _ hb⟩
  have hp : WireOf (srcOf evs) bs := hw.out _ hb
  obtain ⟨pkt, h, hf⟩ := hp.decodes
  exact ⟨pkt, by simpa using h [], hf⟩

/-- The invariant of section 5 holds in every world a script in the domain reaches, whatever the configuration. -/
theorem wire_invariant_any_limit (cfg : Cfg) (evs : List Ev) (hd : ScriptInDomain evs) :
    World.LInv (srcOf evs) (evs.foldl World.step { cfg := cfg }) :=
  World.LInv.script evs (World.LInv.init (srcOf evs) cfg) (evOk_srcOf evs hd)

/-! ## the hypothesis is checkable -/

/-- **`ScriptInDomain` can be checked by running a program**: `scriptInDomainB` (Lemmas/WorldWireCheck.lean) evaluates the
    `XInDomain` predicates on every request of the script, with packet identifier 1 and subscription identifier 1 standing
    for whatever the library assigns (the conditions do not depend on the identifier's value; a SUBSCRIBE within 6 bytes of
    the 268 435 455-byte limit is conservatively rejected). If it answers `true` the script is in the domain. -/
theorem script_domain_check (evs : List Ev) (h : scriptInDomainB evs = true) : ScriptInDomain evs :=
  scriptInDomainB_sound evs h

section NonVacuity
open W6Ex Ex

/-- the hypotheses of the script-level theorems hold for a rich script: connect (with session expiry), CONNACK, run, a QoS 1
    publish, a subscribe, a ping, a disconnect, loss of the connection, then a reconnect on the same context with
    authorize, connect and run (session resumed) -/
example : ({} : Cfg).wlimit = none ∧ ScriptInDomain exScript := ⟨rfl, exScript_inDomain⟩

/-- … which the executable check confirms -/
example : scriptInDomainB exScript = true := by decide

/-- a QoS 3 publication is outside the domain, and the check says so -/
example : scriptInDomainB [.op 1 0 (.publish { topic := some [1], qos := 3 })] = false := by decide

/-- … so its wire is framed into exactly the packets it submits and it never logs `WRAW` -/
example : frames (exScript.foldl World.step {}).sent = some (World.submitted {} exScript, []) ∧
    ∀ o ∈ World.run {} exScript, ¬ ∃ bs, o = .wraw bs :=
  ⟨wire_frames {} exScript rfl exScript_inDomain, no_wraw {} exScript rfl exScript_inDomain⟩

set_option maxRecDepth 100000 in
/-- a script evaluated completely: the packets submitted are the PUBLISH (packet identifier 1 assigned by the library)
    and the DISCONNECT, in the order the requests were made -/
example : World.submitted {} exShort = [[50, 8, 0, 1, 97, 0, 1, 0, 1, 2], [224, 2, 0, 0]] := by decide

set_option maxRecDepth 100000 in
/-- … and by `transcript_wires` these are the `W` lines of its transcript -/
example : World.wires (World.run {} exShort) = [[50, 8, 0, 1, 97, 0, 1, 0, 1, 2], [224, 2, 0, 0]] :=
  (transcript_wires {} exShort rfl exShort_inDomain).1.trans (by decide)

set_option maxRecDepth 100000 in
/-- the hypothesis `wlimit = none` is needed: a transport that takes only 3 bytes leaves the first three bytes of the
    PUBLISH on the wire — a `WRAW` line -/
example : Obs.wraw [50, 8, 0] ∈ World.run { wlimit := some 3 } exShort := by decide

/-- `wire_any_limit` applies to that run: the `WRAW` line is a proper prefix of the PUBLISH the script submitted -/
example : ∃ p, WireOf (srcOf exShort) p ∧ [50, 8, 0] <+: p ∧ ([50, 8, 0] : Bytes).length < p.length :=
  (wire_any_limit { wlimit := some 3 } exShort exShort_inDomain).2 _ (by decide)

/-- one poll of `run()` in the world `wBye` (DISCONNECT and PINGREQ queued): the poll submits exactly the DISCONNECT
    (which ends `run()`) -/
example : wBye.ctxSubmits = [[0xE0, 0]] := by decide

/-- `startOp_carries`: its hypotheses hold for the QoS 1 publish on a live context; the completed request has packet
    identifier 1 -/
example : wLive.hasCtx = true ∧ (wLive.completeReq (.publish exPub)).accepted = true ∧ ReqInDomain (.publish exPub) ∧
    (1 ≤ wLive.pidCtr ∧ wLive.pidCtr ≤ 65535) ∧ (1 ≤ wLive.subCtr ∧ wLive.subCtr ≤ 268435455) ∧
    (wLive.completeReq (.publish exPub)).packet = .publish false 1 false [0x61] (some 1) [] [1, 2] :=
  ⟨rfl, by decide, exPub_inDomain, by decide, by decide, by decide⟩

/-- … and for the subscribe: packet identifier 1 and subscription identifier 1 are assigned -/
example : (wLive.completeReq (.subscribe exSub)).accepted = true ∧ ReqInDomain (.subscribe exSub) ∧
    (wLive.completeReq (.subscribe exSub)).packet =
      .subscribe 1 [⟨11, .var 1 1⟩]
        [{ filter := [0x61, 0x2F, 0x23], maxQos := 2, noLocal := false, retainAsPublished := false, retainHandling := 0 }] :=
  ⟨by decide, exSub_inDomain, by decide⟩

/-- `startOp_refused`: a QoS 1 publish without a topic is refused; the packet identifier it was given is gone -/
example : (wLive.completeReq (.publish { qos := 1 })).accepted = false ∧
    (wLive.startOp 1 (.publish { qos := 1 })).pidCtr = 2 ∧ (wLive.startOp 1 (.publish { qos := 1 })).queue = [] :=
  ⟨by decide, by decide, by decide⟩

/-- `connect_refused`: authentication data without a method -/
example :
    let w : World := { wLive with task := .connecting .connect { authData := some [1] } {} false }
    w.task = .connecting .connect { authData := some [1] } {} false ∧
    World.reqValid .connect { authData := some [1] } {} = false := ⟨rfl, by decide⟩

/-- `connect_carries`: an accepted CONNECT in the domain -/
example : exConn.valid = true ∧ ConnectInDomain exConn := ⟨by decide, exConn_inDomain⟩

/-- `retransmission_is_publish`: the completed QoS 1 publish; its retransmission has first byte 0x3A (DUP set) -/
example :
    let t : PublishTx := { exPub with packetId := some 1 }
    t.valid = true ∧ PublishInDomain t ∧ t.qos ≠ 0 ∧ setDup t.encode = [58, 8, 0, 1, 97, 0, 1, 0, 1, 2] :=
  ⟨by decide, exPub_inDomain.2 (by decide) 1 (by decide) (by decide), by decide, by decide⟩

/-- the packets of known origin include every acknowledgement the context writes: PUBREC for identifier 9 -/
example : WirePkt [0x50, 2, 0, 9] := WirePkt.ack 0x50 9 (Or.inr (Or.inl rfl)) (by decide)

end NonVacuity

#print axioms connect_one_frame
#print axioms auth_one_frame
#print axioms publish_one_frame
#print axioms subscribe_one_frame
#print axioms unsubscribe_one_frame
#print axioms disconnect_one_frame
#print axioms ack_one_frame
#print axioms ackBytes_one_frame
#print axioms pingreq_one_frame
#print axioms retransmission_one_frame
#print axioms wirePkt_one_frame
#print axioms wirePkt_parses
#print axioms retransmission_is_publish
#print axioms wire_is_submitted
#print axioms wire_is_submitted_from
#print axioms submitted_from_script
#print axioms submitted_are_packets
#print axioms wire_invariant
#print axioms wire_frames
#print axioms transcript_wires
#print axioms no_wraw
#print axioms wire_lines_from_callers
#print axioms submitted_from_callers
#print axioms wire_any_limit
#print axioms wire_invariant_any_limit
#print axioms script_domain_check
#print axioms startOp_carries
#print axioms connect_carries
#print axioms authorize_carries
#print axioms startOp_refused
#print axioms refused_iff
#print axioms connect_refused

end Poster
