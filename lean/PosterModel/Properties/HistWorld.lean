/-
  Properties/HistWorld.lean — C08, C09, C10, C17 for WHOLE scripts: the histories of all polls of a connection, composed.

  Properties/CtxLift.lean lifts the per-history theorems of C08 / C09 / C10 / C17 to ONE poll of `run()`. Here the polls
  of a whole script are composed: the monitors see the whole history of a connection.

  Vocabulary (Lemmas/WorldHist.lean)
    `World.history cfg evs`  the *history of the context* over the script `evs`: the list, in order, of everything that ever
                             touches `World.c` — `HEv.handler c i` (a call of `handle_message` / `handle_packet` in context
                             state `c` on the input `i`, exactly the inputs `loopHist` of every poll), `HEv.resume c` (the
                             prelude of `run()`, once per `run()` call), `HEv.connack c k` (`handle_connack`),
                             `HEv.request c sei pkt` (`connect()` / `authorize()` hands its request to the transport;
                             `connect()` records the session expiry it asks for), `HEv.disc c n` (`markDisc`),
                             `HEv.dropCtx q c`, `HEv.fresh` (`setup` creates the context). It is a ghost computed by
                             functions that run in parallel with `pollCtx`, `pollTask`, `drain`, `sweep`, `apply`, `step`
                             (like `World.submitted` of Properties/C01World.lean).
    `Chained c h`            every event of `h` happens in the state the previous one left (the first one in `c`)
    `lastCtx c h`            the state the last event leaves
    `ctxHist h`              `h` cut into **connection segments** (`CtxSeg`): a segment has a start state `start`, the
                             reason `cause` why it starts there, and the handler calls made in it, `calls`, each with the
                             context state it was made in (`obs`: their observations, `ins`: their inputs). A handler
                             call is appended to the current segment, and ends it if it ends `run()` (flow ≠ `cont`; the
                             next segment has cause `exited`); the prelude of `run()` on a context WITHOUT a recorded
                             disconnection changes nothing and is skipped — a `run()` that returned without a handler
                             ending it, or was cancelled (`dropFut`), and is called again goes on in the same segment;
                             every other event (CONNACK, request, `markDisc`, a session resumption with a recorded
                             disconnection, drop, creation) ends the segment and opens the next one in the state it leaves.
    `sessionObs h`           the observations of all handler calls since the session started (creation, drop, or a reset
                             of an expired session by the prelude of `run()`), across segments
    `evPkts h`               the packets the events hand to the transport: the writes of each handler call, the re-sent
                             packets of each `run()` prelude, the request of each `connect()` / `authorize()`

  Why not `List SLab`: the labels of Lemmas/WorldStream.lean only show the context when it applies effects (`.ctx src`); a
  CONNACK, the session expiry recorded by `connect()` and `markDisc` are `tau` moves there, which constrain `c.subs` only.
  `script_trace_matches_history` below shows that the `.ctx` labels of a trace of stream moves of the script are exactly
  the effectful events of its history, so the conservation law of C07World can be stated in terms of the history.

  Sections: 1 the history and its segments · 2 C10 · 3 C08 · 5 C17 · 4 C09 · non-vacuity (the scripts `scrA`, `scrB`,
  `scrC`, `scrQ2`, `scrR` and their histories are in Lemmas/WorldHistEx.lean).
-/
import PosterModel.Lemmas.WorldHistEx
import PosterModel.Properties.C07World

set_option linter.unusedVariables false
set_option linter.unusedSimpArgs false

namespace Poster
open Framing World

/-! ## 1. the history of a script and its connection segments -/

/-- **Every script is tracked by its history.** For every configuration and every script: the events of
    `World.history cfg evs` are chained from the fresh context — each handler call, CONNACK, `run()` prelude, request,
    `markDisc`, drop happens in exactly the state the previous event left: NOTHING else ever changes the context, in
    particular nothing between two polls of the same `run()` call —, the context of the world the script reaches is the
    state the last event left, and every handler input is well formed (inbound packets are decoder output). -/
theorem script_history_chained (cfg : Cfg) (evs : List Ev) :
    Chained {} (World.history cfg evs) ∧
    (evs.foldl World.step { cfg := cfg }).c = lastCtx {} (World.history cfg evs) ∧
    ∀ e ∈ World.history cfg evs, e.ok :=
  have h := World.script_tracks cfg evs
  ⟨h.chained, h.c_eq, h.ok⟩

/-- the history of a script continued is the history of the script, continued from the world it reached -/
theorem script_history_append (cfg : Cfg) (a b : List Ev) :
    World.history cfg (a ++ b) = World.history cfg a ++ World.scriptEvs (a.foldl World.step { cfg := cfg }) b :=
  World.scriptEvs_append a b _

/-- **One poll of the context task contributes exactly its own events**: a poll of `run()` that is not the first one
    contributes the handler calls of the history `loopHist` of that poll (Properties/CtxLift.lean), made one after the other
    from the current context; the first poll contributes the prelude and then, unless the transport fails inside the
    re-sent packets, the handler calls of its loop from the resumed context. -/
theorem poll_events_of_run (w : World) (started : Bool) (ht : w.task = .running started) :
    w.ctxEvs =
      if started then histEvs w.c (World.loopHist w.loopFuel w)
      else .resume w.c ::
        (if w.resumed.canWrite ((w.c.resume.2.2.map List.length).sum) then
           histEvs w.c.resume.1 (World.loopHist w.resent.loopFuel w.resent)
         else []) :=
  World.ctxEvs_running w started ht

/-- **Within a segment the handler calls form ONE `Ctx.serve` history from the segment's start state** — across all polls
    of the `run()` call(s) of that connection. For every script and every connection segment `s` of its history:
    * each call was made in the state reached by handling the inputs before it one after the other from `s.start`
      (`callsOf`), so nothing touched the context in between;
    * the observations of the segment are exactly `(s.start.serve s.ins).2`, no input was skipped, every handler but
      possibly the last lets the loop go on;
    * the state at the end of the segment is `(s.start.serve s.ins).1`;
    * every input is well formed. -/
theorem segment_is_one_served_history (cfg : Cfg) (evs : List Ev) :
    ∀ s ∈ ctxHist (World.history cfg evs),
      s.calls = callsOf s.start s.ins ∧
      s.obs = (s.start.serve s.ins).2 ∧
      (s.start.serve s.ins).2.length = s.ins.length ∧
      (∀ o ∈ s.obs.dropLast, o.flow = .cont) ∧
      s.endCtx = (s.start.serve s.ins).1 ∧
      ∀ i ∈ s.ins, i.wf := by
  intro s hs
  obtain ⟨hch, _, hok⟩ := script_history_chained cfg evs
  have hg : s.Good := segs_good _ _ _ hch (CtxSeg.open_empty _ _) s hs
  have hwf := segs_wf _ _ hok (by simp [CtxSeg.ins]) s hs
  refine ⟨hg.calls_eq, hg.obs_eq, hg.full, ?_, hg.endCtx_eq, hwf⟩
  rw [hg.obs_eq]
  exact w9_serve_cont_of_full _ _ hg.full

/-- **The segments partition the handler calls**: the observations of the segments, concatenated in order, are exactly
    the observations of the handler events of the history — every handler call of the script belongs to exactly one
    segment; consecutive segments are linked as their causes say (`SegLink`: e.g. a segment of cause `connack k` starts in
    `handleConnack k` of the state the previous segment ended in, a segment of cause `resumed c` starts in `c.resume.1`
    where `c`, with a recorded disconnection, is the state the previous segment ended in, a segment of cause `exited`
    starts where the previous one ended, and that one's last handler ended `run()`); the first segment is the initial one;
    and the context of the world reached is the end state of the last segment. -/
theorem segments_partition_the_history (cfg : Cfg) (evs : List Ev) :
    (ctxHist (World.history cfg evs)).flatMap CtxSeg.obs = (World.history cfg evs).filterMap HEv.obs? ∧
    Linked (ctxHist (World.history cfg evs)) ∧
    (∃ s rest, ctxHist (World.history cfg evs) = s :: rest ∧ s.cause = .init ∧ s.start = {}) ∧
    (∀ s, (ctxHist (World.history cfg evs)).getLast? = some s →
      s.endCtx = (evs.foldl World.step { cfg := cfg }).c) := by
  obtain ⟨hch, hc, _⟩ := script_history_chained cfg evs
  refine ⟨?_, segs_linked _ _ _ hch (CtxSeg.open_empty _ _), segs_head _ _, fun s hs => ?_⟩
  · have := segs_obs (World.history cfg evs) ⟨.init, {}, []⟩
    simpa [CtxSeg.obs, ctxHist] using this
  · rw [hc]; exact segs_last _ _ _ hch (CtxSeg.open_empty _ _) s hs

/-- **A cancelled-and-restarted `run()` goes on in the same segment.** The prelude of `run()` on a context without a
    recorded disconnection is the identity (`resume_first_connection`): it changes neither the context nor the segments,
    re-sends nothing, drops nothing. -/
theorem restarted_run_continues_its_segment (a b : List HEv) (c : Ctx) (hd : c.disc = none) :
    c.resume = (c, [], []) ∧ (HEv.resume c).after = c ∧ (HEv.resume c).pkts = [] ∧
    ctxHist (a ++ .resume c :: b) = ctxHist (a ++ b) :=
  ⟨resume_first_connection c hd, by simp [HEv.after, resume_first_connection c hd],
    by simp [HEv.pkts, resume_first_connection c hd], segs_skip_resume a b c hd _⟩

/-! ## 2. C10 for every script -/

/-- **C10 in every connection segment, across all its polls.** For every script and every segment of its history whose
    start state has the quota full (`quota = recvMax = R`): the send-quota monitor accepts the WHOLE history of the
    segment — never more than `R` QoS>0 publishes written and not completed, `QuotaExceeded` returned only to a QoS>0
    PUBLISH and only with exactly `R` outstanding. -/
theorem c10_every_segment (cfg : Cfg) (evs : List Ev) :
    ∀ s ∈ ctxHist (World.history cfg evs), s.start.quota = s.start.recvMax →
      P_C10 s.start.recvMax s.obs = true := by
  intro s hs hq
  rw [(segment_is_one_served_history cfg evs s hs).2.1]
  exact quota_invariant _ _ hq rfl _

/-- **A segment that starts right after a CONNACK has its quota full**: it starts in `handleConnack k` of the state the
    previous segment ended in, with `quota = recvMax = k.receiveMax` (65535 when the CONNACK does not say), so C10 holds
    for its whole history with `R` = the Receive Maximum of that CONNACK. This is the segment of a first connection (the
    `run()` prelude does nothing) and of every reconnect without a recorded disconnection. -/
theorem c10_segment_after_connack (cfg : Cfg) (evs : List Ev) (k : ConnackRx) :
    ∀ s ∈ ctxHist (World.history cfg evs), s.cause = .connack k →
      (∃ a ∈ ctxHist (World.history cfg evs), s.start = a.endCtx.handleConnack k) ∧
      s.start.quota = k.receiveMax ∧ s.start.recvMax = k.receiveMax ∧ P_C10 k.receiveMax s.obs = true := by
  intro s hs hc
  obtain ⟨_, hl, ⟨s0, rest, e0, hc0, _⟩, _⟩ := segments_partition_the_history cfg evs
  have hst : ∃ a ∈ ctxHist (World.history cfg evs), s.start = a.endCtx.handleConnack k := by
    rcases w9_linked_pred hl hs with ⟨rest', e⟩ | ⟨a, ha, hla⟩
    · rw [e0] at e; cases e; rw [hc0] at hc; cases hc
    · refine ⟨a, ha, ?_⟩
      unfold SegLink at hla
      rw [hc] at hla
      exact hla
  obtain ⟨a, _, e⟩ := hst
  have h1 : s.start.quota = k.receiveMax := by rw [e]; exact (quota_after_connack _ k).1
  have h2 : s.start.recvMax = k.receiveMax := by rw [e]; exact (quota_after_connack _ k).2.1
  refine ⟨⟨a, ‹_›, e⟩, h1, h2, ?_⟩
  have := c10_every_segment cfg evs s hs (by rw [h1, h2])
  rwa [h2] at this

/-- **A RESUMED session** (the prelude of `run()` found a recorded disconnection): the segment starts in `c.resume.1`
    where `c` is the state the previous segment ended in; the quota and the limit are those of `c` — the prelude does not
    touch them. In particular, when the previous segment is the (empty) one opened by the CONNACK `k` of the reconnect, the
    quota is re-armed to `k.receiveMax` ALTHOUGH the packets of the retransmit queue have just been re-sent and are in
    flight: the monitor started with nothing outstanding (`P_C10`) accepts the segment, but it does not count the re-sent
    packets (see `c10_true_monitor` and the examples below: this is the limitation noted in DESIGN.md §8). -/
theorem c10_resumed_segment (cfg : Cfg) (evs : List Ev) (pre post : List CtxSeg) (a b : CtxSeg) (c : Ctx)
    (hh : ctxHist (World.history cfg evs) = pre ++ a :: b :: post) (hb : b.cause = .resumed c) :
    c = a.endCtx ∧ c.disc ≠ none ∧ b.start = c.resume.1 ∧ b.start.quota = c.quota ∧ b.start.recvMax = c.recvMax ∧
    (∀ k, a.cause = .connack k → a.calls = [] →
      b.start.quota = k.receiveMax ∧ b.start.recvMax = k.receiveMax ∧ P_C10 k.receiveMax b.obs = true ∧
      (∀ e, c.disc = some e → c.sessionExpired e = true → b.start.retx = []) ∧
      (∀ e, c.disc = some e → c.sessionExpired e = false → b.start.retx = a.start.retx)) := by
  obtain ⟨_, hl, _, _⟩ := segments_partition_the_history cfg evs
  rw [hh] at hl
  have hla := w9_linked_adjacent hl
  unfold SegLink at hla
  rw [hb] at hla
  obtain ⟨h1, h2, h3⟩ : c = a.endCtx ∧ a.endCtx.disc ≠ none ∧ b.start = a.endCtx.resume.1 := hla
  subst h1
  have hq : a.endCtx.resume.1.quota = a.endCtx.quota ∧ a.endCtx.resume.1.recvMax = a.endCtx.recvMax := by
    rcases Ctx.resume_fst_cases a.endCtx with e | e | e <;> rw [e] <;> exact ⟨rfl, rfl⟩
  refine ⟨rfl, h2, h3, by rw [h3]; exact hq.1, by rw [h3]; exact hq.2, ?_⟩
  intro k hk hcalls
  have ha : a ∈ ctxHist (World.history cfg evs) := by rw [hh]; simp
  have hbm : b ∈ ctxHist (World.history cfg evs) := by rw [hh]; simp
  obtain ⟨_, h4, h5, _⟩ := c10_segment_after_connack cfg evs k a ha hk
  have hend : a.endCtx = a.start := by simp [CtxSeg.endCtx, CtxSeg.ins, hcalls]
  have h6 : b.start.quota = k.receiveMax := by rw [h3, hq.1, hend, h4]
  have h7 : b.start.recvMax = k.receiveMax := by rw [h3, hq.2, hend, h5]
  refine ⟨h6, h7, ?_, ?_, ?_⟩
  · have := c10_every_segment cfg evs b hbm (by rw [h6, h7])
    rwa [h7] at this
  · intro e hd hx
    rw [h3]; exact (resume_expired _ e hd hx).2.2.2.2.2.1
  · intro e hd hx
    rw [h3, (resume_not_expired _ e hd hx).2.2.2.2.2.1, hend]

/-- **The monitor that also counts the re-sent packets.** Start the monitor with the QoS>0 PUBLISH packets of the
    retransmit queue of the segment's start state as outstanding (`inflightOf`: after a resumption they have just been
    re-sent). It accepts the whole history of the segment whenever the quota accounts for them
    (`quota + in flight = recvMax`). With an empty retransmit queue at the start — every first connection, every session
    that expired, every session with nothing unfinished — this is `P_C10` itself: C10 holds exactly. Otherwise, after a
    CONNACK re-armed the quota, the hypothesis fails and the monitor CAN reject (example below). -/
theorem c10_true_monitor (cfg : Cfg) (evs : List Ev) :
    ∀ s ∈ ctxHist (World.history cfg evs),
      (s.start.quota + (inflightOf s.start.retx).length = s.start.recvMax →
        ({ out := inflightOf s.start.retx, R := s.start.recvMax } : QMon).scan s.obs = true) ∧
      (s.start.retx = [] → s.start.quota = s.start.recvMax →
        ({ out := inflightOf s.start.retx, R := s.start.recvMax } : QMon).scan s.obs = P_C10 s.start.recvMax s.obs ∧
        P_C10 s.start.recvMax s.obs = true) := by
  intro s hs
  constructor
  · intro hq
    rw [(segment_is_one_served_history cfg evs s hs).2.1]
    exact serve_sim _ _ _ ⟨hq, rfl⟩
  · intro hr hq
    exact ⟨by rw [hr]; rfl, c10_every_segment cfg evs s hs hq⟩

/-! ## 3. C08 for every script -/

/-- **C08 in every connection segment, across all its polls**: every handled inbound packet of the script is answered
    with exactly the acknowledgement owed and every handled request with nothing or its own packet (`P_C08`), and the
    acknowledgements written during the segment are the ones owed, in arrival order (`pktWrites = pktOwed`); the packets
    handed to the transport during the segment (`CtxSeg.pkts`) are exactly `CtxSeg.wire`. -/
theorem c08_every_segment (cfg : Cfg) (evs : List Ev) :
    ∀ s ∈ ctxHist (World.history cfg evs),
      P_C08 s.obs = true ∧ pktWrites s.obs = pktOwed s.obs ∧ s.pkts = s.wire := by
  intro s hs
  obtain ⟨_, h2, _, _, _, hwf⟩ := segment_is_one_served_history cfg evs s hs
  refine ⟨?_, ?_, ?_⟩
  · rw [h2]; exact acks_exact _ _ hwf
  · rw [h2]; exact acks_in_arrival_order _ _ hwf
  · unfold CtxSeg.pkts CtxSeg.wire
    rw [h2]
    exact congrArg _ (histWrites_eq_wire _ _ hwf)

/-- **The bytes of a script are the writes of its history, segment by segment.** With an unlimited transport, everything
    the script hands to the transport (`World.sent`: the `W` / `WRAW` lines of the log and the bytes of the packet not yet
    complete) is exactly, in order: for each connection segment the request or the re-sent packets that opened it, then for
    each inbound packet handled in it the acknowledgement owed, for each request handled in it what it wrote — nothing else,
    nothing missing, nothing between the polls. -/
theorem c08_bytes_of_a_script (cfg : Cfg) (evs : List Ev) (hl : cfg.wlimit = none) :
    (evs.foldl World.step { cfg := cfg }).sent =
      ((ctxHist (World.history cfg evs)).flatMap CtxSeg.wire).flatten ∧
    (evs.foldl World.step { cfg := cfg }).sent = (evPkts (World.history cfg evs)).flatten := by
  have h1 := World.scriptEvs_sent evs { cfg := cfg } hl
  have h0 : ({ cfg := cfg } : World).sent = [] := rfl
  rw [h0, List.nil_append] at h1
  refine ⟨?_, h1⟩
  have h2 := segs_pkts (World.history cfg evs) ⟨.init, {}, []⟩
  have h3 : (⟨.init, {}, []⟩ : CtxSeg).pkts = [] := rfl
  rw [h3, List.nil_append] at h2
  have h4 : (ctxHist (World.history cfg evs)).flatMap CtxSeg.wire =
      (ctxHist (World.history cfg evs)).flatMap CtxSeg.pkts := by
    have hall : ∀ s ∈ ctxHist (World.history cfg evs), s.wire = s.pkts :=
      fun s hs => ((c08_every_segment cfg evs s hs).2.2).symm
    generalize ctxHist (World.history cfg evs) = l at hall
    induction l with
    | nil => rfl
    | cons a t ih =>
      rw [List.flatMap_cons, List.flatMap_cons, hall a (by simp), ih (fun s hs => hall s (by simp [hs]))]
  rw [h4]
  show _ = (List.flatMap CtxSeg.pkts (segs _ _)).flatten
  rw [h2]; exact h1

/-! ## 5. C17 for every script -/

/-- **The retransmit queue is the unfinished handshakes of the WHOLE session**, in every world a script reaches: the
    accepted-and-written QoS>0 PUBLISH (DUP set) and PUBREL requests of all handler calls since the session started —
    across polls, `run()` calls, connections and segments —, in order, minus those whose PUBACK / PUBREC / PUBCOMP was
    handled. Likewise the inbound QoS 2 identifiers kept are those pending in the whole session. The observations of the
    session are a suffix of the observations of the script. -/
theorem c17_retx_is_session_unfinished (cfg : Cfg) (evs : List Ev) :
    (evs.foldl World.step { cfg := cfg }).c.retx = unfinished (sessionObs (World.history cfg evs)) ∧
    (evs.foldl World.step { cfg := cfg }).c.inQos2 = pendingQ2 (sessionObs (World.history cfg evs)) ∧
    sessionObs (World.history cfg evs) <:+ (World.history cfg evs).filterMap HEv.obs? := by
  obtain ⟨hch, hc, _⟩ := script_history_chained cfg evs
  refine ⟨by rw [hc]; exact session_retx _ hch, by rw [hc]; exact session_inQos2 _ hch, ?_⟩
  have := sessFrom_suffix (World.history cfg evs) []
  simpa [sessionObs] using this

/-- **C17 at every `run()` prelude of every script.** Let `HEv.resume c` be any prelude event of the history, `pre` the
    events before it. Then `c` is the state they left, its retransmit queue is the unfinished handshakes of the session
    history `sessionObs pre`, and
    * no disconnection recorded: nothing is re-sent, nothing is dropped, the context is unchanged;
    * disconnection recorded `e` seconds ago, session not expired: the packets re-sent are exactly the unfinished
      handshakes of the whole session so far, DUP-marked PUBLISH and PUBREL, in their original order; no waiter and no
      stream is dropped; the queue, the waiters, the subscriptions and the quota are kept;
    * session expired: nothing is re-sent, the oneshot of every waiter and the sender of every subscription is dropped,
      and the session starts empty. -/
theorem c17_every_run_prelude (cfg : Cfg) (evs : List Ev) (pre post : List HEv) (c : Ctx)
    (hh : World.history cfg evs = pre ++ .resume c :: post) :
    c = lastCtx {} pre ∧ c.retx = unfinished (sessionObs pre) ∧
    (c.disc = none → c.resume = (c, [], [])) ∧
    (∀ e, c.disc = some e → c.sessionExpired e = false →
      c.resume.2.2 = (unfinished (sessionObs pre)).map (·.2) ∧ c.resume.2.1 = [] ∧
      c.resume.1.retx = c.retx ∧ c.resume.1.awaiting = c.awaiting ∧ c.resume.1.subs = c.subs ∧
      c.resume.1.quota = c.quota) ∧
    (∀ e, c.disc = some e → c.sessionExpired e = true →
      c.resume.2.2 = [] ∧ (∀ as ∈ c.awaiting, Eff.dropSlot as.2 ∈ c.resume.2.1) ∧
      (∀ sc ∈ c.subs, Eff.dropChan sc.2 ∈ c.resume.2.1) ∧
      c.resume.1.awaiting = [] ∧ c.resume.1.retx = [] ∧ c.resume.1.subs = [] ∧ c.resume.1.inQos2 = []) := by
  obtain ⟨hch, _, _⟩ := script_history_chained cfg evs
  rw [hh] at hch
  obtain ⟨h1, h2⟩ := (chained_append _ _ _).mp hch
  have hc : c = lastCtx {} pre := h2.1 c rfl
  have hr : c.retx = unfinished (sessionObs pre) := by rw [hc]; exact session_retx _ h1
  refine ⟨hc, hr, resume_first_connection c, ?_, ?_⟩
  · intro e hd hx
    obtain ⟨_, a, b, c1, c2, c3, c4, _⟩ := resume_not_expired c e hd hx
    exact ⟨by rw [a, hr], b, c3, c1, c2, c4⟩
  · intro e hd hx
    obtain ⟨a, _, b, c1, c2, c3, c4, c5, _⟩ := resume_expired c e hd hx
    exact ⟨a, b, c1, c2, c3, c4, c5⟩

/-- **… and the re-sent packets come before anything else of that `run()` call.** With an unlimited transport the bytes the
    script hands to the transport are: the packets of the events before the prelude, then the re-sent packets of the
    prelude, then the packets of the later events (the handler calls of that `run()` call and everything after it). -/
theorem c17_resent_before_anything_else (cfg : Cfg) (evs : List Ev) (hl : cfg.wlimit = none) (pre post : List HEv)
    (c : Ctx) (hh : World.history cfg evs = pre ++ .resume c :: post) :
    (evs.foldl World.step { cfg := cfg }).sent =
      (evPkts pre).flatten ++ c.resume.2.2.flatten ++ (evPkts post).flatten := by
  rw [(c08_bytes_of_a_script cfg evs hl).2, hh]
  simp [HEv.pkts]

/-- **… as seen from the world**: in any world a script reaches in which `run()` was called and not polled yet, with a
    disconnection recorded `e` seconds ago and the session not expired, the first poll of `run()` hands to the (unlimited)
    transport, before anything else, exactly the unfinished handshakes of the whole session history; then it serves a
    history from the context with the disconnection cleared. -/
theorem c17_first_poll_resends_session_unfinished (cfg : Cfg) (evs : List Ev) (e : Nat) :
    let w := evs.foldl World.step { cfg := cfg }
    w.task = .running false → w.c.disc = some e → w.c.sessionExpired e = false →
    w.c.resume.2.2 = (unfinished (sessionObs (World.history cfg evs))).map (·.2) ∧
    ∃ is : List CIn, (∀ i ∈ is, i.wf) ∧
      w.pollCtx.c = (({ w.c with disc := none } : Ctx).serve is).1 ∧
      (cfg.wlimit = none → w.pollCtx.sent =
        w.sent ++ ((unfinished (sessionObs (World.history cfg evs))).map (·.2)).flatten ++
          ((({ w.c with disc := none } : Ctx).serve is).2.flatMap obsWire).flatten) := by
  intro w ht hd hx
  have hr := (c17_retx_is_session_unfinished cfg evs).1
  obtain ⟨h0, h1, _⟩ := resume_not_expired w.c e hd hx
  have hres : w.c.resume.2.2 = (unfinished (sessionObs (World.history cfg evs))).map (·.2) := by
    rw [h1]; exact congrArg _ hr
  refine ⟨hres, ?_⟩
  obtain ⟨is, hwf, hc, _, _, _, _, hs⟩ := world_run_poll_is_serve w false ht
  have e1 : w.c.resume.1 = { w.c with disc := none } := by rw [h0]
  simp only [Bool.false_eq_true, ↓reduceIte] at hc hs
  rw [e1] at hc hs
  refine ⟨is, hwf, hc, fun hl => ?_⟩
  have hcfg : w.cfg = cfg := by
    show (evs.foldl World.step { cfg := cfg }).cfg = cfg
    have : ∀ (l : List Ev) (w0 : World), (l.foldl World.step w0).cfg = w0.cfg := by
      intro l
      induction l with
      | nil => intro w0; rfl
      | cons a t ih => intro w0; rw [List.foldl_cons, ih, World.step_cfg]
    exact this evs _
  rw [hs (by rw [hcfg]; exact hl), hres]

/-! ## 4. C09 for every script -/

/-- **The script is a trace of stream moves whose context labels are the effectful events of its history.** For every
    script with pairwise distinct `OP` identifiers there is a trace `tr` of the moves of Lemmas/WorldStream.lean from the
    initial world to the world reached that issues every identifier at most once and whose `.ctx src` labels are, in order,
    exactly the handler calls, `run()` preludes, drop and creation of the context of `World.history cfg evs`; the ghost
    `delivered id tr` of the conservation law of C07World is what the handler calls of the history deliver into `id`. -/
theorem script_trace_matches_history (cfg : Cfg) (evs : List Ev) (hn : (opIds evs).Nodup) :
    ∃ tr, STrace { cfg := cfg } tr (evs.foldl World.step { cfg := cfg }) ∧ (issuedOf tr).Nodup ∧
      (issuedOf tr).Sublist (opIds evs) ∧ ctxSrcs tr = evSrcs (World.history cfg evs) ∧
      ∀ id, delivered id tr = (World.history cfg evs).flatMap (HEv.gives id) :=
  World.script_trace_of_history cfg evs hn

/-- **What a stream holds is what the handler calls of the history gave it** (the conservation law of C07World, in terms
    of the history). For every script with distinct `OP` identifiers and every channel `id`: if the channel (still)
    exists, the messages its stream has yielded followed by the messages still buffered are exactly the messages the
    handler calls of the history delivered into `id`, event by event, in order (`HEv.gives id`); in any case what the
    stream has yielded is a prefix of that. -/
theorem c09_stream_holds_what_the_history_gave (cfg : Cfg) (evs : List Ev) (hn : (opIds evs).Nodup) (id : Nat) :
    (∀ ch, (evs.foldl World.step { cfg := cfg }).chan id = some ch →
      itemsOf id (evs.foldl World.step { cfg := cfg }).out ++ ch.buf =
        (World.history cfg evs).flatMap (HEv.gives id)) ∧
    (∃ rest, itemsOf id (evs.foldl World.step { cfg := cfg }).out ++ rest =
        (World.history cfg evs).flatMap (HEv.gives id)) := by
  obtain ⟨tr, st, hnd, _, _, hd⟩ := script_trace_matches_history cfg evs hn
  have := st.conservation (fun _ => False) id (chanWf_init cfg) (fun n h => absurd rfl h) rfl rfl hnd
    (fun _ _ h => h)
  rw [hd id] at this
  exact this

/-- **Every inbound QoS 2 PUBLISH of every script is delivered exactly once per (delivery … release) cycle.** Take any
    handler call of the history that handles a QoS 2 PUBLISH `pb` with identifier `pid`, in context state `c`; let `a` be
    the events before it. Then `c` is the state `a` left and its `inbound_qos2` is `pendingQ2` of the session history
    (the `q2Step` fold over ALL observations of the session, across polls, `run()` calls and segments), and
    * if `pid` is pending there — an earlier QoS 2 PUBLISH of the session carried it and no PUBREL released it since — the
      call gives NOTHING to any stream (`HEv.gives id = []` for every `id`), writes exactly the PUBREC again, and leaves
      the context unchanged: what every stream holds is what it would hold without this re-delivery;
    * otherwise the message goes through exactly the delivery loop of a QoS 0/1 message over the subscriptions registered
      in `c`, then the PUBREC is written, and `pid` is pending from then on. -/
theorem c09_every_qos2_publish (cfg : Cfg) (evs : List Ev) (a b : List HEv) (c : Ctx) (pb : PublishRx)
    (dead : List Nat) (wok : Bool) (pid : Nat)
    (hh : World.history cfg evs = a ++ .handler c (.pkt (.publish pb) dead wok) :: b)
    (hq : pb.qos = 2) (hp : pb.packetId = some pid) :
    let ev := HEv.handler c (.pkt (.publish pb) dead wok)
    let effs := (c.stepIn (.pkt (.publish pb) dead wok)).2.effs
    c = lastCtx {} a ∧ c.inQos2 = pendingQ2 (sessionObs a) ∧
    (pid ∈ pendingQ2 (sessionObs a) →
      (∀ id, ev.gives id = []) ∧ deliversOf effs = [] ∧ writesOf effs = [ackBytes 0x50 pid] ∧ ev.after = c ∧
      ∀ id, (World.history cfg evs).flatMap (HEv.gives id) = (a ++ b).flatMap (HEv.gives id)) ∧
    (pid ∉ pendingQ2 (sessionObs a) →
      effs = (Ctx.dispatch (fun ch => ch ∉ dead) pb pb.subIds c.subs).2 ++ [.write (ackBytes 0x50 pid)] ∧
      pid ∈ pendingQ2 (sessionObs (a ++ [ev])) ∧
      ((c.subs.map (·.1)).Nodup → ∀ id, ev.gives id =
        (pb.subIds.filter fun sid => lookupFirst sid c.subs == some id && decide (id ∉ dead)).map fun _ => pb)) := by
  intro ev effs
  obtain ⟨hch, _, _⟩ := script_history_chained cfg evs
  rw [hh] at hch
  obtain ⟨h1, h2⟩ := (chained_append _ _ _).mp hch
  have hc : c = lastCtx {} a := h2.1 c rfl
  have hi : c.inQos2 = pendingQ2 (sessionObs a) := by rw [hc]; exact session_inQos2 _ h1
  refine ⟨hc, hi, ?_, ?_⟩
  · intro hin
    rw [← hi] at hin
    obtain ⟨d1, d2, d3⟩ := redelivery_suppressed c (fun ch => ch ∉ dead) pb pid wok hq hp hin
    have hg : ∀ id, ev.gives id = [] := by
      intro id
      show deliversTo id effs = []
      rw [deliversTo_eq]
      show List.filterMap _ (deliversOf (c.handlePkt (fun ch => decide (ch ∉ dead)) (.publish pb) wok).2.1) = []
      rw [d1]; rfl
    refine ⟨hg, d1, d2, d3, fun id => ?_⟩
    rw [hh]
    exact World.w9_flatMap_gives_remove id a b ev (hg id)
  · intro hout
    rw [← hi] at hout
    obtain ⟨f1, f2⟩ := first_delivery c (fun ch => ch ∉ dead) pb pid wok hq hp hout
    refine ⟨f1, ?_, fun hnd id => ?_⟩
    · rw [World.sessionObs_snoc_handler, pendingQ2, List.foldl_append]
      show pid ∈ q2Step (pendingQ2 (sessionObs a)) (c.stepIn (.pkt (.publish pb) dead wok)).2
      rw [← hi, ← step_inQos2]
      exact f2
    · show deliversTo id effs = _
      rw [show effs = (c.stepIn (.pkt (.publish pb) dead wok)).2.effs from rfl,
        deliversTo_stepIn_publish c pb dead wok id hnd]
      unfold pubDelivers
      rw [if_neg]
      rintro ⟨_, h⟩
      rw [hp] at h
      exact hout h

/-- **A PUBREL releases the identifier for the rest of the session**: after a handler call of the history that handles a
    PUBREL for `pid` — with `a` the events before it — `pid` is not pending in the session history any more, so by
    `c09_every_qos2_publish` the next QoS 2 PUBLISH carrying `pid` is delivered again, as a new message; the PUBREL itself
    gives nothing to any stream and is answered with exactly one PUBCOMP. -/
theorem c09_pubrel_releases (cfg : Cfg) (evs : List Ev) (a b : List HEv) (c : Ctx) (ack : AckRx)
    (dead : List Nat) (wok : Bool)
    (hh : World.history cfg evs = a ++ .handler c (.pkt (.pubrel ack) dead wok) :: b) :
    ack.packetId ∉ pendingQ2 (sessionObs (a ++ [.handler c (.pkt (.pubrel ack) dead wok)])) ∧
    (∀ q, q ≠ ack.packetId →
      (q ∈ pendingQ2 (sessionObs (a ++ [.handler c (.pkt (.pubrel ack) dead wok)])) ↔ q ∈ pendingQ2 (sessionObs a))) ∧
    (∀ id, (HEv.handler c (.pkt (.pubrel ack) dead wok)).gives id = []) ∧
    writesOf (c.stepIn (.pkt (.pubrel ack) dead wok)).2.effs = [ackBytes 0x70 ack.packetId] := by
  have e : pendingQ2 (sessionObs (a ++ [.handler c (.pkt (.pubrel ack) dead wok)])) =
      (pendingQ2 (sessionObs a)).filter (· ≠ ack.packetId) := by
    rw [World.sessionObs_snoc_handler, pendingQ2, List.foldl_append]
    rfl
  refine ⟨by rw [e]; simp, fun q hq => by rw [e]; simp [hq], fun id => ?_, (pubrel_releases c _ ack wok).2.2⟩
  exact deliversTo_stepIn_other c (.pubrel ack) dead wok id (fun pb h => by cases h)

/-! ## non-vacuity -/

namespace HistEx
open Ex

/-- the history of `scrA`: creation, the prelude of `run()`, the two handler calls — chained -/
example : World.history {} scrA =
    [.fresh, .resume {}, .handler {} (.msg (.awaitAck (actionId 4 1) [0x32, 6, 0, 1, 0x61, 0, 1, 0] 2) true),
     .handler cPub (.msg (.ff [0xE0, 2, 0, 0] 4) true)] := by decide

/-- its segments: the initial one, the one opened by `setup` with both handler calls (the prelude of `run()` without a
    recorded disconnection does not cut), and the one after the DISCONNECT ended `run()` -/
example : (ctxHist (World.history {} scrA)).map (fun s => (s.cause, s.start, s.ins.length)) =
    [(.init, {}, 0), (.fresh, {}, 2), (.exited, cPub, 0)] := by decide

/-- the hypothesis of `c10_every_segment` holds for the segment with the two calls, and its history is not empty -/
example : ∃ s ∈ ctxHist (World.history {} scrA), s.start.quota = s.start.recvMax ∧ s.obs.length = 2 := by decide

/-- the bytes of `scrA` on an unlimited transport, through `c08_bytes_of_a_script` -/
example : (scrA.foldl World.step {}).sent = [0x32, 6, 0, 1, 0x61, 0, 1, 0, 0xE0, 2, 0, 0] := by
  rw [(c08_bytes_of_a_script {} scrA rfl).1]; decide

/-- the segments of `scrB`: after the first `run()` returned — `markDisc`, the CONNECT request, and the segment of the
    RESUMED session (cause `resumed c` with `c` = the context with the disconnection recorded and the 60 s session) with
    one handler call -/
example : (ctxHist (World.history { wlimit := some 12 } scrB)).map (fun s => (s.cause, s.ins.length)) =
    [(.init, 0), (.fresh, 2), (.exited, 0), (.disc, 0),
     (.request [16, 19, 0, 4, 77, 81, 84, 84, 5, 0, 0, 0, 5, 17, 0, 0, 0, 60, 0, 1, 99], 0),
     (.resumed { cPub with disc := some 5, sei := 60 }, 1), (.exited, 0)] := by decide

/-- C17 across segments in `scrB`: the two `run()` preludes — the first re-sends nothing, the second (disconnection
    recorded 5 s ago, session of 60 s) re-sends the PUBLISH of the FIRST segment, DUP-marked -/
example : (World.history { wlimit := some 12 } scrB).filterMap
      (fun e => match e with | .resume c => some (c.disc, c.sessionExpired 5, c.resume.2.2) | _ => none) =
    [(none, true, []), (some 5, false, [[0x3A, 6, 0, 1, 0x61, 0, 1, 0]])] := by decide

/-- … which is the unfinished handshake of the session history of `scrB` (three observations: the whole session) -/
example :
    (unfinished (sessionObs (World.history { wlimit := some 12 } scrB))).map (·.2) = [[0x3A, 6, 0, 1, 0x61, 0, 1, 0]] ∧
    (sessionObs (World.history { wlimit := some 12 } scrB)).length = 3 := by decide

/-- a poll of `connect()` that handles the CONNACK contributes the `connack` event -/
example : World.ctxEvs (wConn connackOk) = [.connack {} kOk] := by
  simp [World.ctxEvs, World.firstEvs, wConn, pn_connackOk, dec_connackOk]

/-- a poll of `run()` that handles an inbound PINGRESP contributes that handler call -/
example : World.ctxEvs (wServe [.data pingresp]) = [.handler {} (.pkt .pingresp [] true)] := by
  have h : World.loopHist 10 (wServe [.data pingresp]) = [(wServe [.data pingresp]).inPkt .pingresp] :=
    World.loopHist_one_frame 8 _ pingresp .pingresp rfl (by decide) pn_pingresp dec_pingresp
  have hf : (wServe [.data pingresp]).loopFuel = 10 := by decide
  have hi : (wServe [.data pingresp]).inPkt .pingresp = .pkt .pingresp [] true := by decide
  rw [poll_events_of_run _ true rfl]
  simp only [↓reduceIte, hf, h, hi]
  rfl

/-- `cRe` is what `handle_connack` leaves when the slot of PUBLISH 1 was taken before -/
example : cRe = ({ cRe with quota := 0 } : Ctx).handleConnack k1 := by decide

/-- **The limitation on a resumed session, made concrete.** Receive Maximum is 1. The segment opened by the CONNACK is
    followed by the segment of the resumed session: PUBLISH 1 is re-sent (in flight again), the quota is 1 = Receive
    Maximum, and the handler WRITES PUBLISH 2 — two QoS>0 publishes outstanding. `P_C10 1` (nothing outstanding at the start
    of the segment) accepts the segment; the monitor that counts the re-sent packet rejects it. -/
example :
    let s : CtxSeg := ⟨.resumed cRe, cRe.resume.1, callsOf cRe.resume.1 [.msg pub2 true]⟩
    segs ⟨.connack k1, cRe, []⟩ (World.ctxEvs wRe) = [⟨.connack k1, cRe, []⟩, s] ∧
    s.start.quota = 1 ∧ s.start.recvMax = 1 ∧ inflightOf s.start.retx = [(1, 1)] ∧
    s.opening = [[0x3A, 6, 0, 1, 0x61, 0, 1, 0]] ∧
    writesOf ((s.obs.map CObs.effs).flatten) = [[0x32, 6, 0, 1, 0x61, 0, 2, 0]] ∧
    P_C10 1 s.obs = true ∧ ({ out := inflightOf s.start.retx, R := 1 } : QMon).scan s.obs = false := by
  rw [wRe_evs]; decide

/-- **The limitation on a resumed session, in a whole script** (`scrR`, history computed in Lemmas/WorldHistEx.lean:
    connect, CONNACK with Receive Maximum 1, `run()`, PUBLISH 1 served; `run()` cancelled, disconnection recorded, new
    transport, connect, CONNACK with Receive Maximum 1, PUBLISH 2 requested, `run()`). For each segment: quota and limit at
    its start, the publishes of its retransmit queue, the number of handler calls, the verdict of `P_C10`, the verdict of
    the monitor that counts the re-sent packets. In the last segment — the resumed session, opened right after the
    (empty) segment of the second CONNACK, which re-armed the quota to 1 — PUBLISH 1 has been re-sent and PUBLISH 2 is
    written: two QoS>0 publishes are outstanding with Receive Maximum 1. `P_C10 1` accepts the segment (it starts counting
    at the CONNACK's quota), the monitor that knows about the re-sent PUBLISH rejects it. -/
example :
    (ctxHist (World.history {} scrR)).map
        (fun s => (s.start.quota, s.start.recvMax, inflightOf s.start.retx, s.ins.length)) =
      [(65535, 65535, [], 0), (65535, 65535, [], 0), (65535, 65535, [], 0), (1, 1, [], 1), (0, 1, [(1, 1)], 0),
       (0, 1, [(1, 1)], 0), (1, 1, [(1, 1)], 0), (1, 1, [(1, 1)], 1)] ∧
    (ctxHist (World.history {} scrR)).map (fun s => (P_C10 s.start.recvMax s.obs,
        ({ out := inflightOf s.start.retx, R := s.start.recvMax } : QMon).scan s.obs)) =
      [(true, true), (true, true), (true, true), (true, true), (true, true), (true, true), (true, true),
       (true, false)] := by
  rw [scrR_history]; decide

/-- the hypotheses of `c10_resumed_segment` hold in `scrR`: the segment of cause `resumed cRe` (one handler call)
    follows the segment opened by the CONNACK `kR1`, which has no handler call -/
theorem scrR_last_two_segments :
    ctxHist (World.history {} scrR) = (ctxHist (World.history {} scrR)).take 6 ++
      ⟨.connack kR1, cRe, []⟩ :: ⟨.resumed cRe, cRe.resume.1, callsOf cRe.resume.1 [.msg pub2 true]⟩ :: [] := by
  rw [scrR_history]; decide

/-- … so the theorem applies: quota and limit of the resumed segment are the CONNACK's Receive Maximum, 1 -/
example : (⟨.resumed cRe, cRe.resume.1, callsOf cRe.resume.1 [.msg pub2 true]⟩ : CtxSeg).start.quota = kR1.receiveMax :=
  ((c10_resumed_segment {} scrR _ [] _ _ cRe scrR_last_two_segments rfl).2.2.2.2.2 kR1 rfl rfl).1

/-- the bytes of `scrR`: CONNECT, PUBLISH 1, CONNECT, then — before anything else of the second `run()` — PUBLISH 1
    again with DUP set, then PUBLISH 2 -/
example : (scrR.foldl World.step {}).sent =
    connect60 ++ [0x32, 6, 0, 1, 0x61, 0, 1, 0] ++ connect60 ++ [0x3A, 6, 0, 1, 0x61, 0, 1, 0] ++
      [0x32, 6, 0, 1, 0x61, 0, 2, 0] := by
  rw [(c08_bytes_of_a_script {} scrR rfl).2, scrR_history]; decide

/-- a script with a CONNACK (`scrC`: CONNECT, CONNACK, `run()`, a QoS 1 PUBLISH — its history is computed in
    Lemmas/WorldHistEx.lean): the segment opened by the CONNACK holds the handler call; the prelude of `run()` did not cut -/
example : (ctxHist (World.history {} scrC)).map (fun s => (s.cause, s.ins.length)) =
    [(.init, 0), (.fresh, 0), (.request connectBytes, 0), (.connack kOk, 1)] := by
  rw [scrC_history]; decide

/-- the hypothesis of `c10_segment_after_connack` holds for it -/
example : ∃ s ∈ ctxHist (World.history {} scrC), s.cause = .connack kOk ∧ s.obs.length = 1 := by
  rw [scrC_history]; decide

/-- the bytes of `scrC`, segment by segment: the CONNECT, then the PUBLISH -/
example : (scrC.foldl World.step {}).sent = connectBytes ++ [0x32, 6, 0, 1, 0x61, 0, 1, 0] := by
  rw [(c08_bytes_of_a_script {} scrC rfl).1, scrC_history]; decide

/-- C09 on `scrQ2` (QoS 2 PUBLISH 9, the same again, PUBREL 9, PUBLISH 9 again; history computed in
    Lemmas/WorldHistEx.lean): the pending identifiers of the session history before each of the four handler calls -/
example :
    pendingQ2 (sessionObs ((World.history {} scrQ2).take 2)) = [] ∧
    pendingQ2 (sessionObs ((World.history {} scrQ2).take 3)) = [9] ∧
    pendingQ2 (sessionObs ((World.history {} scrQ2).take 4)) = [9] ∧
    pendingQ2 (sessionObs ((World.history {} scrQ2).take 5)) = [] := by
  rw [scrQ2_history]; decide

/-- the re-delivery (second handler call) satisfies the hypotheses of `c09_every_qos2_publish` with 9 pending: it gives
    nothing to any stream -/
example (id : Nat) : (HEv.handler c9 (.pkt (.publish q2pub) [] true)).gives id = [] :=
  ((c09_every_qos2_publish {} scrQ2
      [.fresh, .resume {}, .handler {} (.pkt (.publish q2pub) [] true)]
      [.handler c9 (.pkt (.pubrel { packetId := 9 }) [] true), .handler {} (.pkt (.publish q2pub) [] true)]
      c9 q2pub [] true 9 (by rw [scrQ2_history]; rfl) rfl rfl).2.2.1 (by decide)).1 id

/-- the PUBLISH after the PUBREL (fourth handler call) satisfies them with 9 NOT pending: it goes through the delivery
    loop and 9 is pending again afterwards -/
example : 9 ∈ pendingQ2 (sessionObs (World.history {} scrQ2)) := by
  have h := (c09_every_qos2_publish {} scrQ2
      [.fresh, .resume {}, .handler {} (.pkt (.publish q2pub) [] true), .handler c9 (.pkt (.publish q2pub) [] true),
       .handler c9 (.pkt (.pubrel { packetId := 9 }) [] true)] []
      {} q2pub [] true 9 (by rw [scrQ2_history]; rfl) rfl rfl).2.2.2 (by decide)
  rw [scrQ2_history]
  exact h.2.1

/-- `c09_stream_holds_what_the_history_gave` applies to `scrQ2` (it issues no operation at all) -/
example : (opIds scrQ2).Nodup := by decide

end HistEx

#print axioms script_history_chained
#print axioms script_history_append
#print axioms poll_events_of_run
#print axioms segment_is_one_served_history
#print axioms segments_partition_the_history
#print axioms restarted_run_continues_its_segment
#print axioms c10_every_segment
#print axioms c10_segment_after_connack
#print axioms c10_resumed_segment
#print axioms c10_true_monitor
#print axioms c08_every_segment
#print axioms c08_bytes_of_a_script
#print axioms c17_retx_is_session_unfinished
#print axioms c17_every_run_prelude
#print axioms c17_resent_before_anything_else
#print axioms c17_first_poll_resends_session_unfinished
#print axioms HistEx.scrR_last_two_segments
#print axioms script_trace_matches_history
#print axioms c09_stream_holds_what_the_history_gave
#print axioms c09_every_qos2_publish
#print axioms c09_pubrel_releases

end Poster
