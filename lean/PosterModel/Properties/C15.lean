/-
  Properties/C15.lean — a cancelled operation never disturbs the connection or other callers.

  C15: "Dropping the future of any pending handle operation at any point (before it is first polled, while it
  awaits its acknowledgement, or between the two phases of a QoS 2 publish), or dropping a subscription stream,
  never makes run() return and never prevents other operations and streams from completing with their own
  acknowledgements and messages. The late acknowledgement of the abandoned operation is absorbed silently while
  still freeing its flow-control slot."

  Model: `World.dropOp` (drop of a handle future), `World.apply (.drop (.st id))` (drop of a stream),
  `World.sendSlot` / `World.dropSlotTx` (the context completing a oneshot), `Ctx.handlePkt`, `Ctx.dispatch`.
  Helper lemmas: PosterModel/Lemmas/World.lean, Lemmas/WorldFrame.lean.
-/
import PosterModel.Lemmas.World
import PosterModel.Lemmas.WorldEx

set_option linter.unusedVariables false
set_option linter.unusedSimpArgs false

namespace Poster
open Framing

/-- **Dropping a handle future is invisible to the connection and to everybody else.**
    Whatever state the operation `id` is in (absent, not yet polled, waiting for its acknowledgement — including
    the second phase of a QoS 2 publish), `dropOp`:
    leaves the session state `c`, the message queue (a message the operation had already queued stays there and
    is still handled), the context task (`run()` does not return), the observation log, the transport
    (`wirePend`, `written`), the framing state, the handles and the streams untouched;
    leaves every other operation's state untouched; leaves every oneshot other than the operation's own
    untouched; leaves every subscription channel other than the one of its own pending SUBSCRIBE (channel `id`)
    untouched, and all channels when it is not a pending SUBSCRIBE. -/
theorem dropOp_frame (w : World) (id : Nat) :
    (w.dropOp id).c = w.c ∧ (w.dropOp id).queue = w.queue ∧ (w.dropOp id).task = w.task ∧
    (w.dropOp id).out = w.out ∧ (w.dropOp id).wirePend = w.wirePend ∧ (w.dropOp id).written = w.written ∧
    (w.dropOp id).rx = w.rx ∧ (w.dropOp id).reader = w.reader ∧ (w.dropOp id).handles = w.handles ∧
    (w.dropOp id).streams = w.streams ∧ (w.dropOp id).rsps = w.rsps ∧ (w.dropOp id).hasCtx = w.hasCtx ∧
    (∀ j, j ≠ id → (w.dropOp id).opSt j = w.opSt j) ∧
    (∀ s', (∀ s k, w.opSt id = some (.wait s k) → s' ≠ s) → (w.dropOp id).slot s' = w.slot s') ∧
    (∀ ch, ch ≠ id → (w.dropOp id).chan ch = w.chan ch) ∧
    ((∀ s, w.opSt id ≠ some (.wait s .suback)) → (w.dropOp id).chans = w.chans) := by
  unfold World.dropOp
  split
  · simp
  · refine ⟨by simp, by simp, by simp, by simp, by simp, by simp, by simp, by simp, by simp, by simp, by simp,
      by simp, ?_, ?_, ?_, ?_⟩
    · intro j hj; simp [World.opSt, lookupFirst_eraseFirst_ne _ _ _ hj]
    · intro s' _; simp [World.slot]
    · intro ch _; simp [World.chan]
    · intro _; simp
  · rename_i s k hop
    refine ⟨?_, ?_, ?_, ?_, ?_, ?_, ?_, ?_, ?_, ?_, ?_, ?_, ?_, ?_, ?_, ?_⟩
    all_goals try (cases k <;> simp <;> done)
    · intro j hj; cases k <;> simp [World.opSt, lookupFirst_eraseFirst_ne _ _ _ hj]
    · intro s' hs'
      have := hs' s k hop
      cases k <;> simp [World.slot, World.clearSlot, World.dropChanRx, lookupFirst_eraseFirst_ne _ _ _ this]
    · intro ch hch
      cases k <;> simp [World.chan, World.clearSlot, World.dropChanRx, lookupFirst_eraseFirst_ne _ _ _ hch]
    · intro hk
      cases k <;> simp [World.clearSlot, World.dropChanRx]
      exact absurd hop (hk s)

/-- **`run()` is not even woken** by a cancelled operation as long as one handle (or another pending
    operation) is alive: then `dropOp` changes nothing but the operation table, the operation's own oneshot
    (with its waker registration) and — for a pending SUBSCRIBE — its own channel. (If the dropped future held
    the very last sender of the message queue, the context is woken and `run()` returns `HandleClosed`, as
    documented for "every handle dropped".) -/
theorem dropOp_silent (w : World) (id : Nat) (h : (w.dropOp id).senders ≠ 0) :
    w.dropOp id = { w with ops := (w.dropOp id).ops, slots := (w.dropOp id).slots,
                           slotReg := (w.dropOp id).slotReg, chans := (w.dropOp id).chans } := by
  revert h
  unfold World.dropOp
  split
  · intro _; rfl
  · intro h
    rw [World.senderGone_of_pos _ (by simpa using h)]
  · rename_i s k hop
    intro h
    rw [World.senderGone_of_pos _ (by simpa using h)]
    cases k <;> rfl

/-- a live handle is enough for `dropOp_silent` -/
theorem dropOp_silent_of_handle (w : World) (id : Nat) (h : w.handles ≠ []) : (w.dropOp id).senders ≠ 0 := by
  have := (dropOp_frame w id).2.2.2.2.2.2.2.2.1
  simp only [World.senders, this]
  cases hh : w.handles with
  | nil => exact absurd hh h
  | cons a t => simp

/-- the dropped operation is removed from the operation table (first entry with that id; ids are unique) -/
theorem dropOp_ops (w : World) (id : Nat) (h : (w.opSt id).isSome) : (w.dropOp id).ops = eraseFirst id w.ops := by
  unfold World.dropOp
  split
  · simp_all
  · simp
  · rename_i s k _; cases k <;> simp [World.clearSlot, World.dropChanRx]

/-- **A late acknowledgement is absorbed silently.** Completing (or dropping the sender of) the oneshot of an
    abandoned operation — its entry no longer exists — changes nothing at all. -/
theorem late_ack_absorbed (w : World) (s : Nat) (v : SlotVal) (h : w.slot s = none) :
    w.sendSlot s v = w ∧ w.dropSlotTx s = w := by
  simp [World.sendSlot, World.dropSlotTx, h]

/-- the oneshot of a dropped waiting operation is indeed gone (so `late_ack_absorbed` applies), provided slot
    identifiers are unique -/
theorem dropOp_slot_gone (w : World) (id s : Nat) (k : Wait) (h : w.opSt id = some (.wait s k))
    (hu : (w.slots.map (·.1)).Nodup) : (w.dropOp id).slot s = none := by
  unfold World.dropOp
  simp only [h]
  cases k <;> simp [World.slot, World.clearSlot, World.dropChanRx, lookupFirst_eraseFirst_self _ _ hu]

/-- **The bookkeeping of an acknowledgement does not depend on anybody waiting.** `handle_packet` never
    looks at a oneshot: for PUBACK / PUBREC / PUBCOMP the quota is given back (`bump`; for PUBREC only when it
    carries an error), the retransmission entry and the `awaiting` entry are removed and `run()` goes on —
    the same whether or not the caller's future still exists. The only trace of the waiter is the `send`
    effect, which `late_ack_absorbed` turns into a no-op. -/
theorem bookkeeping_independent_of_waiter (c : Ctx) (alive : Nat → Bool) (a : AckRx) (wok : Bool) :
    ((c.handlePkt alive (.puback a) wok).1.quota = c.bump.quota ∧
     (c.handlePkt alive (.puback a) wok).1.retx = eraseFirst (actionId 4 a.packetId) c.retx ∧
     (c.handlePkt alive (.puback a) wok).1.awaiting = eraseFirst (actionId 4 a.packetId) c.awaiting ∧
     (c.handlePkt alive (.puback a) wok).2.2 = .cont) ∧
    ((c.handlePkt alive (.pubrec a) wok).1.quota = (if a.reason ≥ 128 then c.bump.quota else c.quota) ∧
     (c.handlePkt alive (.pubrec a) wok).1.retx = eraseFirst (actionId 5 a.packetId) c.retx ∧
     (c.handlePkt alive (.pubrec a) wok).1.awaiting = eraseFirst (actionId 5 a.packetId) c.awaiting ∧
     (c.handlePkt alive (.pubrec a) wok).2.2 = .cont) ∧
    ((c.handlePkt alive (.pubcomp a) wok).1.quota = c.bump.quota ∧
     (c.handlePkt alive (.pubcomp a) wok).1.retx = eraseFirst (actionId 7 a.packetId) c.retx ∧
     (c.handlePkt alive (.pubcomp a) wok).1.awaiting = eraseFirst (actionId 7 a.packetId) c.awaiting ∧
     (c.handlePkt alive (.pubcomp a) wok).2.2 = .cont) := by
  refine ⟨?_, ?_, ?_⟩
  · simp [Ctx.handlePkt, Ctx.complete_fst]
  · by_cases hr : a.reason ≥ 128 <;> simp [Ctx.handlePkt, Ctx.complete_fst, hr]
  · simp [Ctx.handlePkt, Ctx.complete_fst]

/-- one iteration of the dispatch loop on a subscription whose stream is gone: the entry is removed
    (`subscriptions.remove(pos)`), its sender dropped, and the loop goes on with the remaining identifiers. -/
theorem dispatch_dead_step (alive : Nat → Bool) (p : PublishRx) (sid ch : Nat) (rest : List Nat)
    (subs : List (Nat × Nat)) (hl : lookupFirst sid subs = some ch) (hd : alive ch = false) :
    Ctx.dispatch alive p (sid :: rest) subs =
      ((Ctx.dispatch alive p rest (eraseFirst sid subs)).1,
        .dropChan ch :: (Ctx.dispatch alive p rest (eraseFirst sid subs)).2) := by
  simp [Ctx.dispatch, hl, hd]

/-- **A PUBLISH for a dropped stream only unregisters it.** A (not re-delivered) PUBLISH addressed to the
    subscription `sid` whose stream has been dropped removes that entry from the subscriptions, drops its
    sender, still writes the acknowledgement the server is owed, and `run()` goes on. -/
theorem dead_stream_only_unregisters (c : Ctx) (alive : Nat → Bool) (pb : PublishRx) (sid ch : Nat)
    (hs : pb.subIds = [sid]) (hl : lookupFirst sid c.subs = some ch) (hd : alive ch = false)
    (hq : ¬ (pb.qos = 2 ∧ pb.packetId.getD 0 ∈ c.inQos2)) :
    (c.handlePkt alive (.publish pb) true).1.subs = eraseFirst sid c.subs ∧
    (c.handlePkt alive (.publish pb) true).2.1 =
      .dropChan ch :: (match pb.packetId with
        | none => []
        | some pid => [.write (ackBytes (if pb.qos = 1 then 0x40 else 0x50) pid)]) ∧
    (c.handlePkt alive (.publish pb) true).2.2 = .cont := by
  have hl' : ∀ x, lookupFirst sid ({ c with inQos2 := x } : Ctx).subs = some ch := fun _ => hl
  cases hp : pb.packetId <;> by_cases h2 : pb.qos = 2 <;>
    simp_all [Ctx.handlePkt, Ctx.dispatch]

/-- **Every PUBLISH is acknowledged as owed, whatever happens to its streams**: the only transport write of
    the PUBLISH arm is the PUBACK / PUBREC for its packet identifier (none for QoS 0), whether the addressed
    streams are alive, dropped or unknown; the dispatch loop itself only delivers to live channels and drops
    the senders of dead ones; and with the write accepted `run()` goes on. -/
theorem publish_always_acknowledged (c : Ctx) (alive : Nat → Bool) (pb : PublishRx) (wok : Bool) :
    writesOf (c.handlePkt alive (.publish pb) wok).2.1 =
      (match pb.packetId with
        | none => []
        | some pid => [ackBytes (if pb.qos = 1 then 0x40 else 0x50) pid]) ∧
    sendsOf (c.handlePkt alive (.publish pb) wok).2.1 = [] ∧
    (wok = true → (c.handlePkt alive (.publish pb) wok).2.2 = .cont) := by
  obtain ⟨effs0, h0, h1, h2⟩ := Ctx.handlePkt_publish c alive pb wok
  obtain ⟨hw, hs⟩ := Ctx.writesOf_of_dispatchLike alive pb effs0 h0
  rw [h1, h2]
  cases hp : pb.packetId <;> simp only [Ctx.writesOf_append, Ctx.sendsOf_append, hw, hs]
  · simp [writesOf, sendsOf]
  · refine ⟨by simp [writesOf], by simp [sendsOf], fun h => by simp [h]⟩

/-- **Dropping a stream touches nothing but that stream**: the stream table and the channel `id`. -/
theorem drop_stream_frame (w : World) (id : Nat) :
    w.apply (.drop (.st id)) =
      { w with streams := (w.apply (.drop (.st id))).streams, chans := (w.apply (.drop (.st id))).chans } ∧
    (∀ ch, ch ≠ id → (w.apply (.drop (.st id))).chan ch = w.chan ch) ∧
    (∀ j, j ≠ id → (j ∈ (w.apply (.drop (.st id))).streams ↔ j ∈ w.streams)) := by
  simp only [World.apply]
  split
  · refine ⟨rfl, ?_, ?_⟩
    · intro ch hch; simp [World.chan, World.dropChanRx, lookupFirst_eraseFirst_ne _ _ _ hch]
    · intro j hj; simp [World.dropChanRx, hj]
  · exact ⟨rfl, fun _ _ => rfl, fun _ _ => Iff.rfl⟩

/-- **The handlers never consult the caller's side.** `runHandler` feeds the handler nothing of the world
    but one bit — whether the transport can take the handler's write: the new session state and what `run()`
    does next are `h b` for that bit `b`. In particular a queued message of a dropped operation is handled
    exactly like any other (same bytes written, same bookkeeping). -/
theorem runHandler_c (w : World) (h : Bool → Ctx × List Eff × Flow) :
    (w.runHandler h).1.c = (h (w.canWrite (World.writeNeed (h true).2.1))).1 ∧
    (w.runHandler h).2 = (h (w.canWrite (World.writeNeed (h true).2.1))).2.2 := by
  rw [World.runHandler_eq]; simp

/-! ## Non-vacuity: the hypotheses are satisfiable and the conclusions are not trivial (worlds of Lemmas/WorldEx.lean) -/
section NonVacuity
open Ex

/-- dropping the waiting operation 1 of `wRun`: its oneshot is gone, the session, the queue, the task and the
    other operation are as before, `run()` is not woken -/
example : (wRun.dropOp 1).slot 2 = none ∧ (wRun.dropOp 1).c = wRun.c ∧ (wRun.dropOp 1).task = .running true ∧
    (wRun.dropOp 1).opSt 5 = some (.fresh 0 .ping) ∧ (wRun.dropOp 1).woken = [] ∧
    (wRun.dropOp 1).senders ≠ 0 := by decide
/-- the late PUBACK: bookkeeping done (`awaiting`, `retx` entry removed, quota 4 → 5) whoever waits … -/
example : (cFlight.handlePkt (fun _ => true) (.puback { packetId := 1 }) true).1 =
    { cFlight with awaiting := [], retx := [], quota := 5 } ∧
    (cFlight.handlePkt (fun _ => true) (.puback { packetId := 1 }) true).2.1 =
      [.send 2 (.pkt (.puback { packetId := 1 }))] := by decide
/-- … and completing the oneshot of the dropped operation changes nothing (`late_ack_absorbed` applies) -/
example : (wRun.dropOp 1).sendSlot 2 (.pkt (.puback { packetId := 1 })) = wRun.dropOp 1 :=
  (late_ack_absorbed _ 2 _ (by decide)).1
/-- a PUBLISH (QoS 1, packet 9) for subscription 7 whose stream 3 was dropped: the entry is removed, the sender
    dropped, the PUBACK still written (`dead_stream_only_unregisters`) -/
example : (wRun.c.handlePkt (fun _ => false) (.publish { topic := [0x61], qos := 1, packetId := some 9, subIds := [7] })
    true) = ({ wRun.c with subs := [] }, [.dropChan 3, .write (ackBytes 0x40 9)], .cont) := by decide
/-- dropping stream 3 of `wRun` removes the stream and its channel and nothing else -/
example : (wRun.apply (.drop (.st 3))).streams = [] ∧ (wRun.apply (.drop (.st 3))).chan 3 = none ∧
    (wRun.apply (.drop (.st 3))).c = wRun.c ∧ (wRun.apply (.drop (.st 3))).ops = wRun.ops := by decide

end NonVacuity

#print axioms dropOp_frame
#print axioms dropOp_silent
#print axioms dropOp_silent_of_handle
#print axioms dropOp_ops
#print axioms late_ack_absorbed
#print axioms dropOp_slot_gone
#print axioms bookkeeping_independent_of_waiter
#print axioms dispatch_dead_step
#print axioms dead_stream_only_unregisters
#print axioms publish_always_acknowledged
#print axioms drop_stream_frame
#print axioms runHandler_c

end Poster
