/-
  Properties/C16.lean — progress relies only on wakeups; spurious polls have no effect.

  C16: "Polling any future or stream obtained from the library while its waker has not fired has no observable
  effect (nothing is written, nothing completes, nothing is lost), wherever such extra polls are inserted.
  Conversely, whenever the library returns Pending it has arranged a wakeup for every event that can let it
  proceed, so an executor that polls only woken tasks reaches exactly the same bytes, results and stream items
  as one that additionally polls every task at every step."

  Model: `World.pollOp`, `World.pollStream`, `World.pollCtx` (one poll of a handle future / a stream / the
  context future); registration flags `slotReg` (oneshot wakers), `Chan.reg` (stream waker), `queueReg`
  (message queue waker), `readerReg` (transport waker); `World.woken` = the wakers that have fired.
  Helper lemmas: PosterModel/Lemmas/World.lean, WorldFrame.lean, WorldRun.lean.
-/
import PosterModel.Lemmas.WorldRun
import PosterModel.Lemmas.WorldSweep
import PosterModel.Properties.C03
import PosterModel.Lemmas.WorldEx

set_option linter.unusedVariables false
set_option linter.unusedSimpArgs false

namespace Poster
open Framing

/-! ## spurious polls -/

/-- **A spurious poll of a handle future does nothing.** An operation waiting on a oneshot that has no value
    yet: the poll only (re-)registers the waker — no observation, nothing written, nothing completed, the
    operation still waits; and if the waker was registered already the world is literally unchanged. -/
theorem pollOp_spurious (w : World) (id s : Nat) (k : Wait) (hop : w.opSt id = some (.wait s k))
    (hs : w.slot s = some .empty) :
    w.pollOp id = { w with slotReg := if s ∈ w.slotReg then w.slotReg else w.slotReg ++ [s] } ∧
    s ∈ (w.pollOp id).slotReg ∧
    (s ∈ w.slotReg → w.pollOp id = w) := by
  have e : w.pollOp id = { w with slotReg := if s ∈ w.slotReg then w.slotReg else w.slotReg ++ [s] } := by
    simp [World.pollOp, hop, hs]
  refine ⟨e, ?_, ?_⟩
  · rw [e]; simp only; split <;> simp [*]
  · intro h; rw [e]; simp [h]

/-- **A spurious poll of a stream does nothing.** A stream whose channel is empty and whose sender is alive:
    the poll only sets the waker registration of that channel — no item, no end, every other channel and
    everything else untouched; and if the waker was registered already the world is unchanged. -/
theorem pollStream_spurious (w : World) (id : Nat) (ch : Chan) (hst : id ∈ w.streams)
    (hc : w.chan id = some ch) (hb : ch.buf = []) (ht : ch.txAlive = true) :
    w.pollStream id = { w with chans := World.setAssoc id { ch with reg := true } w.chans } ∧
    (∀ j, j ≠ id → (w.pollStream id).chan j = w.chan j) ∧
    (w.pollStream id).chan id = some { ch with reg := true } ∧
    (ch.reg = true → w.pollStream id = w) := by
  have e : w.pollStream id = { w with chans := World.setAssoc id { ch with reg := true } w.chans } := by
    simp [World.pollStream, hst, hc, hb, ht, World.setChan]
  refine ⟨e, ?_, ?_, ?_⟩
  · intro j hj; rw [e]; simp [World.chan, lookupFirst_setAssoc_ne _ _ _ _ hj]
  · rw [e]; simp [World.chan, lookupFirst_setAssoc_self]
  · intro hr
    rw [e]
    have : ({ ch with reg := true } : Chan) = ch := by cases ch; simp_all
    rw [this, setAssoc_lookup_self _ _ _ hc]

/-- **A spurious poll of `run()` does nothing**: nothing queued, nothing readable, a sender alive, the framing
    machine idle — the poll only (re-)arms the two wakeup sources of the `select!`; no observation, nothing
    written, session state, framing state and queue unchanged. -/
theorem pollCtx_spurious_running (w : World) (ht : w.task = .running true) (hq : w.queue = [])
    (hr : w.reader = []) (hs : 0 < w.senders) (hi : w.rx.st = .idle) :
    w.pollCtx = { w with readerReg := true, queueReg := true } ∧
    pollNext w.rx [] = (w.rx, [], .pending) := by
  have hp := World.pollNext_idle_nil w.rx hi
  refine ⟨?_, hp⟩
  have hf : w.loopFuel = (w.loopFuel - 1) + 1 := by simp only [World.loopFuel]; omega
  have hs' : w.senders ≠ 0 := by omega
  simp only [World.pollCtx, ht, World.pollRun, ↓reduceIte]
  rw [hf, World.runLoop_succ]
  simp only [World.runIter, hq, hs', hr, hp, ↓reduceIte]
  simp [ht]

/-- **A spurious poll of `connect()` / `authorize()` does nothing** while the response has not arrived: only
    the transport waker is (re-)registered. -/
theorem pollCtx_spurious_connecting (w : World) (call : Call) (t : ConnectTx) (a : AuthTx)
    (ht : w.task = .connecting call t a true) (hr : w.reader = []) (hi : w.rx.st = .idle) :
    w.pollCtx = { w with readerReg := true } := by
  have hp := World.pollNext_idle_nil w.rx hi
  simp only [World.pollCtx, ht, World.pollConnect, ↓reduceIte, World.awaitFirst, hr, hp]

/-! ## `Pending` only with the wakers registered -/

/-- **`run()` / `connect()` pending ⇒ wakers armed.** Whenever a poll of the context future leaves it alive
    (from a framing state satisfying the invariant): the transport waker is registered with nothing left to
    read, or the task has woken itself (the reader yielded); and for `run()` additionally the message-queue
    waker is registered and the queue has been drained. -/
theorem pending_implies_registered (w : World) (hok : w.rx.Ok) (h : (w.pollCtx).task ≠ .none) :
    (((w.pollCtx).reader = [] ∧ (w.pollCtx).readerReg = true) ∨ .ctx ∈ (w.pollCtx).woken) ∧
    ((∃ s, w.task = .running s) → (w.pollCtx).queueReg = true ∧ (w.pollCtx).queue = []) := by
  unfold World.pollCtx at h ⊢
  cases ht : w.task with
  | none => simp [ht] at h
  | connecting call t a started =>
    simp only [ht] at h ⊢
    refine ⟨?_, fun ⟨s, hs⟩ => by cases hs⟩
    cases started with
    | true =>
      simp only [World.pollConnect, ↓reduceIte] at h ⊢
      rcases World.firstEnd_out (World.awaitFirst_spec w call t a) with ⟨h1, _⟩ | ⟨_, _, _, _, h5, _⟩
      · exact absurd h1 h
      · exact h5
    | false =>
      rcases World.pollConnect_prelude w call t a with ⟨_, h2⟩ | ⟨_, w0, _, _, _, _, _, _, _, h2 | h2⟩
      · rw [h2] at h; exact absurd rfl h
      · rw [h2] at h ⊢
        rcases World.firstEnd_out (World.awaitFirst_spec w0 call t a) with ⟨h1, _⟩ | ⟨_, _, _, _, h5, _⟩
        · exact absurd h1 h
        · exact h5
      · rw [h2] at h; exact absurd rfl h
  | running started =>
    simp only [ht] at h ⊢
    cases started with
    | true =>
      simp only [World.pollRun, ↓reduceIte] at h ⊢
      obtain ⟨_, _, h3, h4, h5, _⟩ := World.runLoop_alive_facts w hok h
      exact ⟨h5, fun _ => ⟨h3, h4⟩⟩
    | false =>
      obtain ⟨w0, a1, _, _, _, _, _, _, h2 | h2⟩ := World.pollRun_prelude w
      · rw [h2] at h ⊢
        obtain ⟨_, _, h3, h4, h5, _⟩ := World.runLoop_alive_facts w0 (a1 ▸ hok) h
        exact ⟨h5, fun _ => ⟨h3, h4⟩⟩
      · rw [h2] at h; exact absurd rfl h

/-- **A handle future either completes or is registered.** A poll of a live operation either removes it from
    the operation table (it completed, with a `DONE` or — never, see C04 — a panic) or leaves it waiting on a
    oneshot whose waker is registered. -/
theorem pollOp_completes_or_registers (w : World) (id : Nat) (h : (w.opSt id).isSome) :
    (w.pollOp id).ops = eraseFirst id w.ops ∨
    ∃ s k, (w.pollOp id).opSt id = some (.wait s k) ∧ s ∈ (w.pollOp id).slotReg := by
  have hawait : ∀ (w' : World) (s : Nat) (k : Wait),
      (w'.awaitSlot id s k).opSt id = some (.wait s k) ∧ s ∈ (w'.awaitSlot id s k).slotReg := by
    intro w' s k
    refine ⟨by simp [World.awaitSlot, World.opSt, lookupFirst_setAssoc_self], ?_⟩
    simp only [World.awaitSlot]; split <;> simp [*]
  have hsend : ∀ (w' w'' : World) (m : Msg), w'.sendMsg m = some w'' → w''.ops = w'.ops := by
    intro w' w'' m hm
    simp only [World.sendMsg] at hm
    split at hm
    · cases hm
    · simp only [Option.some.injEq] at hm; subst hm; split <;> simp
  unfold World.pollOp
  cases hop : w.opSt id with
  | none => simp [hop] at h
  | some st =>
    cases st with
    | fresh hh req =>
      simp only
      cases req with
      | publish t =>
        simp only [World.startOp]
        split
        · split
          · left; simp
          · split
            · left; simp
            · right; exact ⟨_, _, hawait _ _ _⟩
        · split
          · left; simp
          · split
            · left; simp
            · right; exact ⟨_, _, hawait _ _ _⟩
      | subscribe t =>
        simp only [World.startOp]
        split
        · left; simp
        · split
          · left; simp [World.dropChanRx, World.setChan]
          · right; exact ⟨_, _, hawait _ _ _⟩
      | unsubscribe t =>
        simp only [World.startOp]
        split
        · left; simp
        · split
          · left; simp
          · right; exact ⟨_, _, hawait _ _ _⟩
      | ping =>
        simp only [World.startOp]
        split
        · left; simp
        · right; exact ⟨_, _, hawait _ _ _⟩
      | disconnect t =>
        simp only [World.startOp]
        split
        · left; simp
        · right; exact ⟨_, _, hawait _ _ _⟩
    | wait s k =>
      simp only
      split
      · rename_i v hv
        simp only [World.resumeOp]
        split
        · left; simp [World.clearSlot]
        · left; simp [World.clearSlot]
        · split <;> (left; simp [World.clearSlot])
        · split
          · split <;> (left; simp [World.clearSlot])
          · split
            · left; simp [World.clearSlot]
            · split
              · left; simp [World.clearSlot]
              · right; exact ⟨_, _, hawait _ _ _⟩
          · split <;> (left; simp [World.clearSlot])
          · left; simp [World.clearSlot]
          · left; simp [World.clearSlot]
          · left; simp [World.clearSlot]
          · left; simp [World.clearSlot]
      · left; simp [World.clearSlot]
      · right
        refine ⟨s, k, by simpa [World.opSt] using hop, ?_⟩
        simp only; split <;> simp [*]

/-- **A stream either yields, ends, or is registered.** If a poll of a live stream produces no observation
    and the stream is still alive afterwards, its channel's waker is registered. -/
theorem pollStream_pending_registered (w : World) (id : Nat) (ch : Chan) (hst : id ∈ w.streams)
    (hc : w.chan id = some ch) (hout : (w.pollStream id).out = w.out) :
    ∃ ch', (w.pollStream id).chan id = some ch' ∧ ch'.reg = true ∧ ch'.buf = [] ∧ ch'.txAlive = true := by
  revert hout
  simp only [World.pollStream, hst, not_true_eq_false, ↓reduceIte, hc]
  split
  · intro hout; simp [World.emit] at hout
  · split
    · rename_i hb ht
      intro _
      exact ⟨{ ch with reg := true }, by simp [World.chan, World.setChan, lookupFirst_setAssoc_self], rfl, hb, ht⟩
    · intro hout; simp [World.emit, World.dropChanRx] at hout

/-! ## every event that a task could act on fires its waker -/

/-- completing a oneshot (with a value, or by dropping its sender) whose receiver has registered wakes that
    operation's task and consumes the registration -/
theorem slot_event_wakes (w : World) (s : Nat) (v : SlotVal) (he : w.slot s = some .empty) (hr : s ∈ w.slotReg) :
    .op (s / 2) ∈ (w.sendSlot s v).woken ∧ .op (s / 2) ∈ (w.dropSlotTx s).woken ∧
    (w.sendSlot s v).slot s = some (.full v) ∧ (w.dropSlotTx s).slot s = some .closed := by
  simp only [World.sendSlot, World.dropSlotTx, he, World.setSlot, hr, ↓reduceIte]
  exact ⟨World.mem_wake_self _ _, World.mem_wake_self _ _,
    by simp [World.slot, lookupFirst_setAssoc_self], by simp [World.slot, lookupFirst_setAssoc_self]⟩

/-- pushing a message into a subscription channel, or dropping its sender, wakes the stream if it has
    registered, and consumes the registration -/
theorem chan_event_wakes (w : World) (c : Nat) (p : PublishRx) (ch : Chan) (hc : w.chan c = some ch)
    (hr : ch.reg = true) :
    .st c ∈ (w.deliver c p).woken ∧ .st c ∈ (w.dropChanTx c).woken ∧
    (w.deliver c p).chan c = some { ch with buf := ch.buf ++ [p], reg := false } ∧
    (w.dropChanTx c).chan c = some { ch with txAlive := false, reg := false } := by
  simp only [World.deliver, World.dropChanTx, hc, hr, ↓reduceIte]
  exact ⟨World.mem_wake_self _ _, World.mem_wake_self _ _,
    by simp [World.chan, World.setChan, lookupFirst_setAssoc_self],
    by simp [World.chan, World.setChan, lookupFirst_setAssoc_self]⟩

/-- **Wakers fire on every event.** No input that a task could act on arrives without that task's flag being
    set: a oneshot completed or abandoned by the context wakes the registered operation; a message pushed into
    a subscription channel, or its sender dropped, wakes the registered stream; a message queued by a handle,
    or the last sender of the queue going away, wakes `run()` if its queue waker is registered; bytes (or an
    end / error event) arriving at the transport wake the context task if its transport waker is registered. -/
theorem wake_on_every_event (w : World) :
    (∀ s v, w.slot s = some .empty → s ∈ w.slotReg →
      .op (s / 2) ∈ (w.sendSlot s v).woken ∧ .op (s / 2) ∈ (w.dropSlotTx s).woken) ∧
    (∀ c p ch, w.chan c = some ch → ch.reg = true →
      .st c ∈ (w.deliver c p).woken ∧ .st c ∈ (w.dropChanTx c).woken) ∧
    (∀ m w', w.sendMsg m = some w' → w.queueReg = true → .ctx ∈ w'.woken) ∧
    (w.senders = 0 → w.hasCtx = true → w.queueReg = true → .ctx ∈ (w.senderGone).woken) ∧
    (∀ evs, w.readerReg = true → .ctx ∈ (w.feedEvents evs).woken) := by
  refine ⟨fun s v he hr => ?_, fun c p ch hc hr => ?_, fun m w' hm hq => ?_, fun h1 h2 h3 => ?_, fun evs hr => ?_⟩
  · obtain ⟨a, b, _⟩ := slot_event_wakes w s v he hr; exact ⟨a, b⟩
  · obtain ⟨a, b, _⟩ := chan_event_wakes w c p ch hc hr; exact ⟨a, b⟩
  · rw [World.sendMsg_eq] at hm
    split at hm
    · simp only [Option.some.injEq] at hm; subst hm
      simp only [hq, ↓reduceIte]; exact World.mem_wake_self _ _
    · cases hm
  · simp only [World.senderGone, h1, h2, h3, and_self, ↓reduceIte]
    exact World.mem_wake_self _ _
  · simp only [World.feedEvents, hr, ↓reduceIte]
    exact World.mem_wake_self _ _

/-- events that do not concern a task leave its flag alone: the primitive channel operations only ever ADD
    wakeups (so a wakeup, once given, is not lost before the executor consumes it with `unwake`) -/
theorem wakeups_only_added (w : World) (t : Task) (h : t ∈ w.woken) :
    (∀ s v, t ∈ (w.sendSlot s v).woken) ∧ (∀ s, t ∈ (w.dropSlotTx s).woken) ∧
    (∀ c p, t ∈ (w.deliver c p).woken) ∧ (∀ c, t ∈ (w.dropChanTx c).woken) ∧
    t ∈ (w.senderGone).woken ∧ (∀ evs, t ∈ (w.feedEvents evs).woken) := by
  refine ⟨fun s v => ?_, fun s => ?_, fun c p => ?_, fun c => ?_, ?_, fun evs => ?_⟩
  · simp only [World.sendSlot]; split
    · split
      · exact World.mem_wake_of_mem _ _ _ h
      · exact h
    · exact h
  · simp only [World.dropSlotTx]; split
    · split
      · exact World.mem_wake_of_mem _ _ _ h
      · exact h
    · exact h
  · simp only [World.deliver]; split
    · split
      · exact World.mem_wake_of_mem _ _ _ h
      · exact h
    · exact h
  · simp only [World.dropChanTx]; split
    · split
      · exact World.mem_wake_of_mem _ _ _ h
      · exact h
    · exact h
  · simp only [World.senderGone]; split
    · exact World.mem_wake_of_mem _ _ _ h
    · exact h
  · simp only [World.feedEvents]; split
    · exact World.mem_wake_of_mem _ _ _ h
    · exact h

/-- **The framing layer returns `Pending` only when the reader did** (restated from C03): from a state
    satisfying the invariant, `poll_next` returns `Pending` only with the reader queue empty (the reader holds
    the waker) or right after consuming one yield of the reader (which woke the task itself); in both cases all
    the data in front has been buffered, the machine is idle and no complete frame is buffered. -/
theorem framing_pending_only_from_reader (s : Rx) (rs : List ReadEv) (s' : Rx) (rs' : List ReadEv) (hs : s.Ok)
    (h : pollNext s rs = (s', rs', .pending)) :
    (rs' = [] ∨ ∃ pre, rs = pre ++ .pending :: rs' ∧ AllData pre) ∧ s'.st = .idle ∧
    frames s'.valid = some ([], s'.valid) := by
  obtain ⟨h1, h2, h3⟩ := framing_no_lost_wakeup s rs s' rs' hs h
  refine ⟨?_, h2, h3⟩
  rcases h1 with ⟨a, _, _⟩ | ⟨pre, a, b, _⟩
  · exact Or.inl a
  · exact Or.inr ⟨pre, a, b⟩

/-- **A sweep over a quiescent world is a no-op.** Suppose every live task is waiting and nothing it waits
    for has happened: the context future (if any) has an empty queue, nothing to read, a live sender and an
    idle framing machine; every operation waits on a oneshot without a value; every stream has an empty channel
    whose sender is alive. Then `exec=sweep` — polling every live task that is not flagged, once — changes
    nothing but waker registrations: after erasing the registrations (`eraseRegs`: transport waker, queue
    waker, oneshot wakers, stream wakers) the world is the same. In particular nothing is observed or written,
    no task is woken, no state of the session, the framing layer, an operation, a oneshot or a stream moves. -/
theorem sweep_of_quiescent_is_noop (w : World)
    (hctx : w.task = .none ∨
      (w.task = .running true ∧ w.queue = [] ∧ w.reader = [] ∧ 0 < w.senders ∧ w.rx.st = .idle) ∨
      (∃ call t a, w.task = .connecting call t a true ∧ w.reader = [] ∧ w.rx.st = .idle))
    (hops : ∀ id st, w.opSt id = some st → ∃ s k, st = .wait s k ∧ w.slot s = some .empty)
    (hsts : ∀ id, id ∈ w.streams → ∃ ch, w.chan id = some ch ∧ ch.buf = [] ∧ ch.txAlive = true) :
    World.eraseRegs w.sweep = World.eraseRegs w ∧
    w.sweep.out = w.out ∧ w.sweep.wirePend = w.wirePend ∧ w.sweep.written = w.written ∧
    w.sweep.woken = w.woken ∧ w.sweep.task = w.task ∧ w.sweep.c = w.c ∧ w.sweep.rx = w.rx ∧
    w.sweep.reader = w.reader ∧ w.sweep.queue = w.queue ∧ w.sweep.ops = w.ops ∧ w.sweep.slots = w.slots ∧
    w.sweep.streams = w.streams ∧
    (∀ id, (w.sweep.chan id).map (fun c => (c.buf, c.txAlive, c.rxAlive)) =
      (w.chan id).map (fun c => (c.buf, c.txAlive, c.rxAlive))) := by
  have h := World.sweep_quiescent w ⟨hctx, hops, hsts⟩
  refine ⟨h, ?_, ?_, ?_, ?_, ?_, ?_, ?_, ?_, ?_, ?_, ?_, ?_, ?_⟩
  · have := congrArg World.out h; exact this
  · have := congrArg World.wirePend h; exact this
  · have := congrArg World.written h; exact this
  · have := congrArg World.woken h; exact this
  · have := congrArg World.task h; exact this
  · have := congrArg World.c h; exact this
  · have := congrArg World.rx h; exact this
  · have := congrArg World.reader h; exact this
  · have := congrArg World.queue h; exact this
  · have := congrArg World.ops h; exact this
  · have := congrArg World.slots h; exact this
  · have := congrArg World.streams h; exact this
  · intro id
    have hc : w.sweep.chans.map (fun kc => (kc.1, { kc.2 with reg := false })) =
        w.chans.map (fun kc => (kc.1, { kc.2 with reg := false })) := by
      have := congrArg World.chans h; exact this
    have e1 := World.lookupFirst_map_eraseReg id w.sweep.chans
    have e2 := World.lookupFirst_map_eraseReg id w.chans
    rw [hc, e2] at e1
    simp only [World.chan]
    cases h1 : lookupFirst id w.chans <;> cases h2 : lookupFirst id w.sweep.chans <;>
      simp_all

/-! ## Non-vacuity: the hypotheses are satisfiable and the conclusions are not trivial (worlds of Lemmas/WorldEx.lean) -/
section NonVacuity
open Ex

/-- the hypotheses of the `*_spurious` theorems hold in `wRun` for operation 1, stream 3 and `run()` … -/
example : wRun.opSt 1 = some (.wait 2 .puback) ∧ wRun.slot 2 = some .empty ∧ 2 ∈ wRun.slotReg ∧
    3 ∈ wRun.streams ∧ wRun.chan 3 = some { buf := [], reg := true } ∧ wRun.task = .running true ∧
    wRun.queue = [] ∧ wRun.reader = [] ∧ 0 < wRun.senders ∧ wRun.rx.st = .idle := by decide
/-- … so extra polls of the registered operation and stream leave the world literally unchanged -/
example : wRun.pollOp 1 = wRun ∧ wRun.pollStream 3 = wRun :=
  ⟨(pollOp_spurious wRun 1 2 .puback (by decide) (by decide)).2.2 (by decide),
   (pollStream_spurious wRun 3 { buf := [], reg := true } (by decide) (by decide) rfl rfl).2.2.2 rfl⟩
/-- … and an extra poll of `run()` only arms its two wakers -/
example : wRun.pollCtx = { wRun with readerReg := true, queueReg := true } :=
  (pollCtx_spurious_running wRun rfl rfl rfl (by decide) rfl).1
/-- the PUBACK arriving wakes operation 1; a PUBLISH delivered wakes stream 3 (`wake_on_every_event`) -/
example : Task.op 1 ∈ (wRun.sendSlot 2 (.pkt (.puback { packetId := 1 }))).woken ∧
    Task.st 3 ∈ (wRun.deliver 3 { topic := [0x61] }).woken := by decide
/-- a handle queueing a message wakes a registered `run()`; bytes arriving wake a registered reader -/
example : ∀ w', ({ wRun with queueReg := true } : World).sendMsg (.ff [0xC0, 0] 8) = some w' → Task.ctx ∈ w'.woken :=
  fun w' h => (wake_on_every_event _).2.2.1 _ w' h rfl
example : Task.ctx ∈ (({ wRun with readerReg := true } : World).feedEvents [.data [0xD0, 0]]).woken :=
  (wake_on_every_event _).2.2.2.2 _ rfl
/-- the woken operation then completes: the value is not lost -/
example : ((wRun.sendSlot 2 (.pkt (.puback { packetId := 1 }))).pollOp 1).out = [.done 1 .ok] := by decide
/-- `wRun` satisfies the hypotheses of `sweep_of_quiescent_is_noop` (apart from its not-yet-polled operation 5,
    removed here), so a sweep leaves it as it is -/
example : World.eraseRegs ({ wRun with ops := [(1, .wait 2 .puback)] } : World).sweep =
    World.eraseRegs { wRun with ops := [(1, .wait 2 .puback)] } := by
  refine (sweep_of_quiescent_is_noop _ (Or.inr (Or.inl ⟨rfl, rfl, rfl, by decide, rfl⟩)) ?_ ?_).1
  · intro id st h
    simp only [World.opSt, wRun, lookupFirst] at h
    split at h
    · simp only [Option.some.injEq] at h; subst h; exact ⟨2, .puback, rfl, by decide⟩
    · cases h
  · intro id hid
    simp only [wRun, List.mem_singleton] at hid
    subst hid
    exact ⟨{ buf := [], reg := true }, by decide, rfl, rfl⟩

end NonVacuity

#print axioms pollOp_spurious
#print axioms pollStream_spurious
#print axioms pollCtx_spurious_running
#print axioms pollCtx_spurious_connecting
#print axioms pending_implies_registered
#print axioms pollOp_completes_or_registers
#print axioms pollStream_pending_registered
#print axioms slot_event_wakes
#print axioms chan_event_wakes
#print axioms wake_on_every_event
#print axioms wakeups_only_added
#print axioms framing_pending_only_from_reader
#print axioms sweep_of_quiescent_is_noop

end Poster
