/-
  Properties/C02.lean — C02: well-formed inbound packets decode to exactly what the server sent.

  C02: "For every well-formed MQTT 5 packet a server may send (CONNACK, AUTH, PUBLISH, PUBACK, PUBREC, PUBREL, PUBCOMP,
  SUBACK, UNSUBACK, PINGRESP, DISCONNECT), including the shortened forms the standard allows, any legal set of
  properties in any order and repeated user properties, the client accepts the packet. Every value it then exposes …
  equals the value that was encoded, and absent properties read as the defaults the standard prescribes."

  `Spec.encodeServer` / `Spec.WF` / `Spec.expected` (PosterModel/Spec/Server.lean) are written from the standard;
  `decodeRx` (PosterModel/Rx.lean) is the code-shaped model of `RxPacket::try_decode`.
  Helper lemmas: PosterModel/Lemmas/{CodecRx,RxFold,RxPackets}.lean. This file: property theorems and non-vacuity examples only.
-/
import PosterModel.Lemmas.RxPackets

namespace Poster
open Spec Spec.Server

/-- **CONNACK** (§3.2). Any of the 22 reason codes, Session Present 0/1, any subset of the 17 CONNACK properties in any
    order with any number of user properties: accepted; every field is the value sent, absent properties read as
    Receive Maximum 65535, Topic Alias Maximum 0, Maximum QoS 2, the four "available" flags true, the rest `none`. -/
theorem dec_connack_of_spec (flags reason : Nat) (props : List Property) (h : WF (.connack flags reason props)) :
    decodeRx (encodeServer (.connack flags reason props)) = .ok (expected (.connack flags reason props)) := by
  simp only [WF, wf, Bool.and_eq_true, decide_eq_true_eq] at h
  obtain ⟨hlen, ⟨hf, hr⟩, hps⟩ := h
  obtain ⟨hok, hr256⟩ := table_ok (ok := connectReasonOk) (by decide) hr
  simp only [encodeServer, header, decodeRx_frame _ _ (by decide : 32 < 256)]
  rw [decConnack_spec flags reason props hf hr256 hok hps hlen]
  simp [expected, Res.map]

/-- **PUBLISH** (§3.3). Every DUP / QoS 0..2 / RETAIN combination, packet identifier 1..65535 exactly when QoS > 0, any
    topic and payload, any subset and order of the 8 PUBLISH properties with repeated user properties and repeated
    subscription identifiers: accepted; flags, topic, identifier, payload and every property value are those sent,
    user properties and subscription identifiers in wire order. -/
theorem dec_publish_of_spec (dup : Bool) (qos : Nat) (retain : Bool) (topic : Bytes) (pid : Option Nat)
    (props : List Property) (payload : Bytes) (h : WF (.publish dup qos retain topic pid props payload)) :
    decodeRx (encodeServer (.publish dup qos retain topic pid props payload)) =
      .ok (expected (.publish dup qos retain topic pid props payload)) := by
  simp only [WF, wf, Bool.and_eq_true, decide_eq_true_eq] at h
  obtain ⟨hlen, ⟨⟨hq, ht⟩, hpid⟩, hps⟩ := h
  obtain ⟨hH, h16, hq', hd, hr⟩ := pubHdr_facts dup qos retain hq
  have hnone : pid = none → qos = 0 := by
    intro e; subst e; simpa using hpid
  have hsome : ∀ i, pid = some i → qos > 0 ∧ pidOk i = true := by
    intro i e; subst e; simpa using hpid
  simp only [encodeServer, header, decodeRx_frame _ _ hH, h16]
  rw [decPublish_spec _ dup qos retain topic pid props payload hH h16 hq' hd hr hq ht hnone hsome hps hlen]
  simp [expected, Res.map]

/-- **PUBACK** (§3.4). All three forms — full (with properties), reason only (remaining length 3), identifier
    only (remaining length 2, reason reads as 0x00 Success) — with every reason code of the type's table and every
    identifier 1..65535: accepted, and identifier, reason, reason string and user properties (in order) are those sent. -/
theorem dec_puback_of_spec (form : AckForm) (pid reason : Nat) (props : List Property)
    (h : WF (.puback form pid reason props)) :
    decodeRx (encodeServer (.puback form pid reason props)) = .ok (expected (.puback form pid reason props)) := by
  simp only [WF, wf, Bool.and_eq_true, decide_eq_true_eq] at h
  obtain ⟨hlen, hok⟩ := h
  simp only [encodeServer, header, decodeRx_frame _ _ (by decide : 0x40 < 256)]
  simp only [body] at hlen ⊢
  rw [decAck_spec 0x40 pubackReasonOk pubackReasonCodes form pid reason props (by decide) (by decide) hok hlen]
  simp [expected, Res.map]

/-- **PUBREC** (§3.5). All three forms — full (with properties), reason only (remaining length 3), identifier
    only (remaining length 2, reason reads as 0x00 Success) — with every reason code of the type's table and every
    identifier 1..65535: accepted, and identifier, reason, reason string and user properties (in order) are those sent. -/
theorem dec_pubrec_of_spec (form : AckForm) (pid reason : Nat) (props : List Property)
    (h : WF (.pubrec form pid reason props)) :
    decodeRx (encodeServer (.pubrec form pid reason props)) = .ok (expected (.pubrec form pid reason props)) := by
  simp only [WF, wf, Bool.and_eq_true, decide_eq_true_eq] at h
  obtain ⟨hlen, hok⟩ := h
  simp only [encodeServer, header, decodeRx_frame _ _ (by decide : 0x50 < 256)]
  simp only [body] at hlen ⊢
  rw [decAck_spec 0x50 pubrecReasonOk pubrecReasonCodes form pid reason props (by decide) (by decide) hok hlen]
  simp [expected, Res.map]

/-- **PUBREL** (§3.6). All three forms — full (with properties), reason only (remaining length 3), identifier
    only (remaining length 2, reason reads as 0x00 Success) — with every reason code of the type's table and every
    identifier 1..65535: accepted, and identifier, reason, reason string and user properties (in order) are those sent. -/
theorem dec_pubrel_of_spec (form : AckForm) (pid reason : Nat) (props : List Property)
    (h : WF (.pubrel form pid reason props)) :
    decodeRx (encodeServer (.pubrel form pid reason props)) = .ok (expected (.pubrel form pid reason props)) := by
  simp only [WF, wf, Bool.and_eq_true, decide_eq_true_eq] at h
  obtain ⟨hlen, hok⟩ := h
  simp only [encodeServer, header, decodeRx_frame _ _ (by decide : 0x62 < 256)]
  simp only [body] at hlen ⊢
  rw [decAck_spec 0x62 pubrelReasonOk pubrelReasonCodes form pid reason props (by decide) (by decide) hok hlen]
  simp [expected, Res.map]

/-- **PUBCOMP** (§3.7). All three forms — full (with properties), reason only (remaining length 3), identifier
    only (remaining length 2, reason reads as 0x00 Success) — with every reason code of the type's table and every
    identifier 1..65535: accepted, and identifier, reason, reason string and user properties (in order) are those sent. -/
theorem dec_pubcomp_of_spec (form : AckForm) (pid reason : Nat) (props : List Property)
    (h : WF (.pubcomp form pid reason props)) :
    decodeRx (encodeServer (.pubcomp form pid reason props)) = .ok (expected (.pubcomp form pid reason props)) := by
  simp only [WF, wf, Bool.and_eq_true, decide_eq_true_eq] at h
  obtain ⟨hlen, hok⟩ := h
  simp only [encodeServer, header, decodeRx_frame _ _ (by decide : 0x70 < 256)]
  simp only [body] at hlen ⊢
  rw [decAck_spec 0x70 pubcompReasonOk pubcompReasonCodes form pid reason props (by decide) (by decide) hok hlen]
  simp [expected, Res.map]

/-- **SUBACK** (§3.9). Identifier 1..65535, reason string and user properties, any list of reason codes of the
    type's table: accepted; identifier, properties and the reason codes (in order) are those sent. -/
theorem dec_suback_of_spec (pid : Nat) (props : List Property) (reasons : List Nat)
    (h : WF (.suback pid props reasons)) :
    decodeRx (encodeServer (.suback pid props reasons)) = .ok (expected (.suback pid props reasons)) := by
  simp only [WF, wf, Bool.and_eq_true, decide_eq_true_eq, List.all_eq_true] at h
  obtain ⟨hlen, ⟨hp, hps⟩, hrs⟩ := h
  have hrs' : ∀ r ∈ reasons, subackReasonOk r = true ∧ r < 256 :=
    fun r hr => table_ok (l := subackReasonCodes) (by decide) (hrs r hr)
  simp only [encodeServer, header, decodeRx_frame _ _ (by decide : 0x90 < 256)]
  simp only [body] at hlen ⊢
  rw [decSubackLike_spec 0x90 subackReasonOk pid props reasons (by decide) hp hps hrs' hlen]
  simp [expected, Res.map]

/-- **UNSUBACK** (§3.11). Identifier 1..65535, reason string and user properties, any list of reason codes of the
    type's table: accepted; identifier, properties and the reason codes (in order) are those sent. -/
theorem dec_unsuback_of_spec (pid : Nat) (props : List Property) (reasons : List Nat)
    (h : WF (.unsuback pid props reasons)) :
    decodeRx (encodeServer (.unsuback pid props reasons)) = .ok (expected (.unsuback pid props reasons)) := by
  simp only [WF, wf, Bool.and_eq_true, decide_eq_true_eq, List.all_eq_true] at h
  obtain ⟨hlen, ⟨hp, hps⟩, hrs⟩ := h
  have hrs' : ∀ r ∈ reasons, unsubackReasonOk r = true ∧ r < 256 :=
    fun r hr => table_ok (l := unsubackReasonCodes) (by decide) (hrs r hr)
  simp only [encodeServer, header, decodeRx_frame _ _ (by decide : 0xB0 < 256)]
  simp only [body] at hlen ⊢
  rw [decSubackLike_spec 0xB0 unsubackReasonOk pid props reasons (by decide) hp hps hrs' hlen]
  simp [expected, Res.map]

/-- **PINGRESP** (§3.13): `d0 00` is accepted. -/
theorem dec_pingresp_of_spec : decodeRx (encodeServer .pingresp) = .ok (expected .pingresp) := by
  simp only [encodeServer, header, decodeRx_frame _ _ (by decide : 0xD0 < 256), dU8_frame _ _ (by decide : 0xD0 < 256)]
  simp [expected]

/-- **DISCONNECT** (§3.14). Full form with Reason String / Server Reference / user properties, reason only (remaining
    length 1), and the empty form (remaining length 0, reason reads as 0x00): accepted; Session Expiry Interval reads
    as 0 (a server never sends it). -/
theorem dec_disconnect_of_spec (form : DiscForm) (reason : Nat) (props : List Property)
    (h : WF (.disconnect form reason props)) :
    decodeRx (encodeServer (.disconnect form reason props)) = .ok (expected (.disconnect form reason props)) := by
  simp only [WF, wf, Bool.and_eq_true, decide_eq_true_eq] at h
  obtain ⟨hlen, hr, hf⟩ := h
  obtain ⟨hok, hr256⟩ := table_ok (ok := disconnectReasonOk) (by decide) hr
  simp only [encodeServer, header, decodeRx_frame _ _ (by decide : 0xE0 < 256)]
  cases form with
  | full =>
    rw [decDisconnect_full reason props hr256 hok hf hlen]
    simp [expected, Res.map]
  | reasonOnly =>
    simp only [List.isEmpty_iff] at hf; subst hf
    rw [decDisconnect_reasonOnly reason hr256 hok]
    simp [expected, Res.map]
  | empty =>
    simp only [Bool.and_eq_true, beq_iff_eq, List.isEmpty_iff] at hf
    obtain ⟨rfl, rfl⟩ := hf
    rw [decDisconnect_empty]
    simp [expected, Res.map]

/-- **AUTH** (§3.15). Full form with an Authentication Method (Authentication Data, Reason String, user properties
    optional) and the empty form (remaining length 0, reason reads as 0x00): accepted, values as sent. -/
theorem dec_auth_of_spec (form : AuthForm) (reason : Nat) (props : List Property)
    (h : WF (.auth form reason props)) :
    decodeRx (encodeServer (.auth form reason props)) = .ok (expected (.auth form reason props)) := by
  simp only [WF, wf, Bool.and_eq_true, decide_eq_true_eq] at h
  obtain ⟨hlen, hr, hf⟩ := h
  obtain ⟨hok, hr256⟩ := table_ok (ok := authReasonOk) (by decide) hr
  simp only [encodeServer, header, decodeRx_frame _ _ (by decide : 0xF0 < 256)]
  cases form with
  | full =>
    simp only [Bool.and_eq_true] at hf
    rw [decAuth_full reason props hr256 hok hf.1 hf.2 hlen]
    simp [expected, Res.map]
  | empty =>
    simp only [Bool.and_eq_true, beq_iff_eq, List.isEmpty_iff] at hf
    obtain ⟨rfl, rfl⟩ := hf
    rw [decAuth_empty]
    simp [expected, Res.map]

/-- **C02.** Every well-formed server packet is accepted by `RxPacket::try_decode`, and the decoded record is exactly
    `Spec.expected`: the values that were encoded, the standard's defaults for absent properties. -/
theorem dec_of_spec (p : ServerPacket) (h : WF p) : decodeRx (encodeServer p) = .ok (expected p) := by
  cases p with
  | connack flags reason props => exact dec_connack_of_spec flags reason props h
  | publish dup qos retain topic pid props payload => exact dec_publish_of_spec dup qos retain topic pid props payload h
  | puback form pid reason props => exact dec_puback_of_spec form pid reason props h
  | pubrec form pid reason props => exact dec_pubrec_of_spec form pid reason props h
  | pubrel form pid reason props => exact dec_pubrel_of_spec form pid reason props h
  | pubcomp form pid reason props => exact dec_pubcomp_of_spec form pid reason props h
  | suback pid props reasons => exact dec_suback_of_spec pid props reasons h
  | unsuback pid props reasons => exact dec_unsuback_of_spec pid props reasons h
  | pingresp => exact dec_pingresp_of_spec
  | disconnect form reason props => exact dec_disconnect_of_spec form reason props h
  | auth form reason props => exact dec_auth_of_spec form reason props h

/-! ## non-vacuity: a concrete well-formed packet of every type (properties out of table order, two user properties)

`a` = 97, `b` = 98, … ; `wf_concrete` unfolds `WF` (see Lemmas/RxPackets.lean). -/

/-- CONNACK, Session Present, success, 9 properties: Receive Maximum 10, a user property, Retain Available = 0,
    Assigned Client Identifier "hi", a second user property, Maximum QoS 1, Session Expiry 3600, Shared Subscription
    Available = 0, Server Keep Alive 60 -/
example : WF (.connack 1 0
    [⟨33, .num 10⟩, ⟨38, .pair [97] [98]⟩, ⟨37, .bool false⟩, ⟨18, .bytes [104, 105]⟩, ⟨38, .pair [97] [99]⟩,
     ⟨36, .num 1⟩, ⟨17, .num 3600⟩, ⟨42, .bool false⟩, ⟨19, .num 60⟩]) := by wf_concrete

/-- CONNACK refusing the connection (0x87 Not authorized) with a Reason String "é" (two-byte UTF-8) -/
example : WF (.connack 0 0x87 [⟨31, .bytes [0xC3, 0xA9]⟩]) := by wf_concrete

/-- PUBLISH, DUP, QoS 1, identifier 7, topic "t", two Subscription Identifiers (300 takes two bytes), two user
    properties, Payload Format Indicator, Content Type, Message Expiry, payload 01 02 03 -/
example : WF (.publish true 1 false [116] (some 7)
    [⟨11, .var 300 2⟩, ⟨38, .pair [97] [98]⟩, ⟨3, .bytes [120]⟩, ⟨11, .var 5 1⟩, ⟨1, .bool true⟩,
     ⟨38, .pair [97] [98]⟩, ⟨2, .num 4294967295⟩] [1, 2, 3]) := by wf_concrete

/-- PUBLISH, QoS 0 (no identifier), RETAIN, Topic Alias 65535, Response Topic, Correlation Data, empty payload -/
example : WF (.publish false 0 true [] none
    [⟨35, .num 65535⟩, ⟨8, .bytes [114]⟩, ⟨9, .bytes [0, 255]⟩] []) := by wf_concrete

/-- PUBACK, full form, 0x10 No matching subscribers, user property / Reason String / user property -/
example : WF (.puback .full 7 0x10
    [⟨38, .pair [97] [98]⟩, ⟨31, .bytes [104, 105]⟩, ⟨38, .pair [97] [99]⟩]) := by wf_concrete
/-- PUBACK, identifier only (remaining length 2) -/
example : WF (.puback .idOnly 65535 0 []) := by wf_concrete

/-- PUBREC, reason only (remaining length 3), 0x97 Quota exceeded -/
example : WF (.pubrec .reasonOnly 1 0x97 []) := by wf_concrete
/-- PUBREC, full form with two user properties around a Reason String -/
example : WF (.pubrec .full 2 0x80
    [⟨38, .pair [107] [118]⟩, ⟨31, .bytes [110, 111]⟩, ⟨38, .pair [107] [119]⟩]) := by wf_concrete

/-- PUBREL, full form, 0x92 Packet Identifier not found -/
example : WF (.pubrel .full 9 0x92
    [⟨31, .bytes [120]⟩, ⟨38, .pair [97] [98]⟩, ⟨38, .pair [97] [98]⟩]) := by wf_concrete

/-- PUBCOMP, full form without properties (remaining length 4) and with them -/
example : WF (.pubcomp .full 9 0 []) := by wf_concrete
example : WF (.pubcomp .full 9 0x92
    [⟨38, .pair [] []⟩, ⟨38, .pair [97] []⟩, ⟨31, .bytes []⟩]) := by wf_concrete

/-- SUBACK for three filters: granted QoS 1, granted QoS 2, 0x87 Not authorized -/
example : WF (.suback 3 [⟨38, .pair [97] [98]⟩, ⟨31, .bytes [111, 107]⟩, ⟨38, .pair [99] [100]⟩]
    [0x01, 0x02, 0x87]) := by wf_concrete

/-- UNSUBACK: success, 0x11 No subscription existed -/
example : WF (.unsuback 4 [⟨38, .pair [97] [98]⟩, ⟨38, .pair [97] [98]⟩, ⟨31, .bytes [120]⟩] [0x00, 0x11]) := by
  wf_concrete

/-- PINGRESP -/
example : WF .pingresp := by wf_concrete

/-- DISCONNECT 0x9C Use another server, with Server Reference, two user properties and a Reason String -/
example : WF (.disconnect .full 0x9C
    [⟨38, .pair [97] [98]⟩, ⟨28, .bytes [104, 58, 49]⟩, ⟨38, .pair [99] [100]⟩, ⟨31, .bytes [109]⟩]) := by
  wf_concrete
/-- DISCONNECT short forms: reason only (0x8B Server shutting down) and empty (remaining length 0) -/
example : WF (.disconnect .reasonOnly 0x8B []) := by wf_concrete
example : WF (.disconnect .empty 0 []) := by wf_concrete

/-- AUTH 0x18 Continue authentication: user property, Authentication Data, Authentication Method, user property,
    Reason String -/
example : WF (.auth .full 0x18
    [⟨38, .pair [97] [98]⟩, ⟨22, .bytes [1, 2, 3]⟩, ⟨21, .bytes [83, 67, 82, 65, 77]⟩, ⟨38, .pair [97] [99]⟩,
     ⟨31, .bytes [114]⟩]) := by wf_concrete
/-- AUTH with a method and no data (legal, §3.15.2.2.3), and the empty form -/
example : WF (.auth .full 0 [⟨21, .bytes [120]⟩]) := by wf_concrete
example : WF (.auth .empty 0 []) := by wf_concrete

/-- the encoder's bytes for two of the packets above (what the test driver feeds to the implementation) -/
example : encodeServer (.puback .full 7 0x10
    [⟨38, .pair [97] [98]⟩, ⟨31, .bytes [104, 105]⟩, ⟨38, .pair [97] [99]⟩]) =
    [0x40, 0x17, 0x00, 0x07, 0x10, 0x13, 0x26, 0x00, 0x01, 0x61, 0x00, 0x01, 0x62, 0x1f, 0x00, 0x02, 0x68, 0x69,
     0x26, 0x00, 0x01, 0x61, 0x00, 0x01, 0x63] := by decide
example : encodeServer (.disconnect .empty 0 []) = [0xE0, 0x00] := by decide

/-- WF is not trivially true: a zero packet identifier, a duplicated Reason String, Maximum QoS 2, a PUBLISH property in
    a PUBACK, QoS 1 without identifier, a short form hiding a non-zero reason, AUTH without a method -/
example : ¬ WF (.puback .idOnly 0 0 []) := by wf_concrete
example : ¬ WF (.puback .full 1 0 [⟨31, .bytes [120]⟩, ⟨31, .bytes [121]⟩]) := by wf_concrete
example : ¬ WF (.connack 0 0 [⟨36, .num 2⟩]) := by wf_concrete
example : ¬ WF (.puback .full 1 0 [⟨1, .bool true⟩]) := by wf_concrete
example : ¬ WF (.publish false 1 false [116] none [] []) := by wf_concrete
example : ¬ WF (.disconnect .empty 0x8B []) := by wf_concrete
example : ¬ WF (.auth .full 0x18 [⟨22, .bytes [1]⟩]) := by wf_concrete

end Poster

#print axioms Poster.dec_connack_of_spec
#print axioms Poster.dec_publish_of_spec
#print axioms Poster.dec_puback_of_spec
#print axioms Poster.dec_pubrec_of_spec
#print axioms Poster.dec_pubrel_of_spec
#print axioms Poster.dec_pubcomp_of_spec
#print axioms Poster.dec_suback_of_spec
#print axioms Poster.dec_unsuback_of_spec
#print axioms Poster.dec_pingresp_of_spec
#print axioms Poster.dec_disconnect_of_spec
#print axioms Poster.dec_auth_of_spec
#print axioms Poster.dec_of_spec
