/-
  Properties/C01Tx.lean — C01, last clause: "The wire as a whole is always a concatenation of whole packets in submission
  order, however the transport fragments or delays writes" — and C16's half for the writing side.

  `TxPacketStream::write` is `write_all` (TxStream.lean). The theorems below are for EVERY writer oracle: any split of a
  packet into accepted pieces (`accept n`, any `n`), any number of `Pending` answers anywhere, errors and zero-length
  writes anywhere, a transport that stops answering.

    * nothing is duplicated, reordered or skipped: what the transport has taken, followed by what the future still
      holds, is the packet (`write_all_conserves`, also per single poll);
    * `Ok(())` only when the transport has taken the whole packet (`write_all_ok_means_everything_written`);
    * an error only from the transport (`write_all_fails_only_on_a_transport_fault`); a transport without faults that
      takes at least one byte per answer lets every write complete (`write_all_completes`);
    * `Pending` answers are invisible in the outcome (`delays_are_invisible`), so is the fragmentation
      (`fragmentation_is_invisible`);
    * `Pending` of the future only when the transport itself said `Pending` (it holds the waker) or has nothing more to
      say (`write_pending_only_from_the_transport`); `poll_write` is never called with an empty buffer and at most
      once per byte in one poll (`at_most_one_call_per_byte`);
    * a sequence of packets written one `write_all` after the other: the wire is the concatenation of the completed
      packets, in submission order, followed by a proper prefix of the next one iff that write has not completed
      (`wire_is_whole_packets_then_a_proper_prefix`), it is a prefix of the concatenation of everything submitted
      (`wire_is_a_prefix_of_the_submitted_packets`), and the reference framing of the standard reads it back as
      exactly those packets (`wire_frames_to_the_completed_packets`);
    * composed with C01World (`World.sent = (World.submitted cfg evs).flatten`, the model's transport taking whole
      packets): under ANY writer oracle the bytes on the wire are a prefix of the model's `sent`, all of it once every
      write has completed (`any_transport_yields_the_models_wire`), and the mock transports of the correspondence run
      (`wr=all|one|pend|pendone`) are such oracles (`mock_transport_writes_everything`); a transport with a byte budget
      (`werr=`, `wzero=`) leaves exactly the first `L` bytes of the packet, as `World.writeBytes` does
      (`budgeted_transport_takes_the_budget`, `exhausted_transport_takes_nothing`);
    * the `WCALLS` line the driver prints for a connection (TxMock.lean: the harness's mock as a generator of oracle answers,
      whatever state the previous write left it in) is always that of completed writes, its byte count the total length of the
      packets (`mock_connection_statistics_are_of_completed_writes`) — the line itself is compared with the implementation's
      on every script without a byte budget.
-/
import PosterModel.Lemmas.TxStream
import PosterModel.Lemmas.TxMock
import PosterModel.Properties.C01World

namespace Poster
open Poster.TxStream Poster.Framing

/-- **Conservation, one poll**: after any single poll of the `write_all` future, under any transport, the bytes taken
    followed by the bytes still held are the packet. -/
theorem write_poll_conserves (buf : Bytes) (evs : List WEv) :
    (pollWriteAll buf evs).acc ++ (pollWriteAll buf evs).rest = buf :=
  pollWriteAll_conserves_aux evs buf

/-- **Conservation, whole call**. -/
theorem write_all_conserves (buf : Bytes) (evs : List WEv) :
    (writeAll buf evs).1.acc ++ (writeAll buf evs).1.rest = buf :=
  writeAll_conserves_aux evs buf

/-- **`Ok(())` means the whole packet is on the wire.** -/
theorem write_all_ok_means_everything_written (buf : Bytes) (evs : List WEv)
    (h : (writeAll buf evs).1.out = .done) : (writeAll buf evs).1.acc = buf := by
  have := write_all_conserves buf evs
  rwa [writeAll_done_aux evs buf h, List.append_nil] at this

/-- one poll: `Ready(Ok(()))` only with everything taken -/
theorem write_poll_ok_means_everything_written (buf : Bytes) (evs : List WEv)
    (h : (pollWriteAll buf evs).out = .done) : (pollWriteAll buf evs).acc = buf := by
  have := write_poll_conserves buf evs
  rwa [pollWriteAll_done_aux evs buf h, List.append_nil] at this

/-- **Not completed ⇒ a PROPER prefix is on the wire** (never the whole packet without `Ok`). -/
theorem write_all_unfinished_is_a_proper_prefix (buf : Bytes) (evs : List WEv)
    (h : (writeAll buf evs).1.out ≠ .done) :
    (writeAll buf evs).1.acc <+: buf ∧ (writeAll buf evs).1.acc.length < buf.length := by
  have hc := write_all_conserves buf evs
  have hr := writeAll_notdone_aux evs buf h
  refine ⟨⟨_, hc⟩, ?_⟩
  have := congrArg List.length hc
  have hpos : 0 < (writeAll buf evs).1.rest.length := List.length_pos_iff.2 hr
  simp only [List.length_append] at this
  omega

/-- **An error comes only from the transport**: an I/O error or a zero-length write. -/
theorem write_all_fails_only_on_a_transport_fault (buf : Bytes) (evs : List WEv)
    (h : (writeAll buf evs).1.out = .err) : ∃ e ∈ evs, e = WEv.err ∨ e = WEv.zero := by
  obtain ⟨e, h1, h2⟩ := writeAll_err_aux evs buf h
  refine ⟨e, h1, ?_⟩
  cases e <;> simp [WEv.isFault] at h2 ⊢

/-- **Liveness**: a transport without faults that answers `accept` (at least one byte each) at least once per byte
    completes the write, whatever `Pending` answers lie in between. -/
theorem write_all_completes (buf : Bytes) (evs : List WEv)
    (hf : ∀ e ∈ evs, e ≠ WEv.err ∧ e ≠ WEv.zero)
    (hl : buf.length ≤ (evs.filter WEv.isAccept).length) :
    (writeAll buf evs).1.out = .done ∧ (writeAll buf evs).1.acc = buf := by
  have hd : (writeAll buf evs).1.out = .done := by
    apply writeAll_completes_aux evs buf _ hl
    intro e he
    have := hf e he
    cases e <;> simp_all [WEv.isFault]
  exact ⟨hd, write_all_ok_means_everything_written buf evs hd⟩

/-- **Delays are invisible**: removing every `Pending` answer changes neither the bytes taken, nor what is left, nor the
    outcome. -/
theorem delays_are_invisible (buf : Bytes) (evs : List WEv) :
    (writeAll buf evs).1.acc = (writeAll buf (evs.filter (· ≠ WEv.pending))).1.acc ∧
    (writeAll buf evs).1.rest = (writeAll buf (evs.filter (· ≠ WEv.pending))).1.rest ∧
    (writeAll buf evs).1.out = (writeAll buf (evs.filter (· ≠ WEv.pending))).1.out :=
  writeAll_delays_aux evs buf

/-- **Fragmentation is invisible**: two fault-free transports that keep accepting put the same bytes on the wire, however
    differently they cut the packet. -/
theorem fragmentation_is_invisible (buf : Bytes) (evs evs' : List WEv)
    (hf : ∀ e ∈ evs, e ≠ WEv.err ∧ e ≠ WEv.zero) (hf' : ∀ e ∈ evs', e ≠ WEv.err ∧ e ≠ WEv.zero)
    (hl : buf.length ≤ (evs.filter WEv.isAccept).length) (hl' : buf.length ≤ (evs'.filter WEv.isAccept).length) :
    (writeAll buf evs).1.acc = (writeAll buf evs').1.acc ∧ (writeAll buf evs).1.out = (writeAll buf evs').1.out := by
  obtain ⟨a, b⟩ := write_all_completes buf evs hf hl
  obtain ⟨a', b'⟩ := write_all_completes buf evs' hf' hl'
  exact ⟨by rw [b, b'], by rw [a, a']⟩

/-- **C16 for writes: `Pending` only from the transport.** When one poll of the future returns `Pending`, the transport
    answered `accept` some number of times and then `Pending` (it has the waker), or it has no further answer at all; the
    packet is then not completely written. -/
theorem write_pending_only_from_the_transport (buf : Bytes) (evs : List WEv)
    (h : (pollWriteAll buf evs).out = .pending) :
    (pollWriteAll buf evs).rest ≠ [] ∧
    ∃ pre, (∀ e ∈ pre, ∃ n, e = WEv.accept n) ∧
      (evs = pre ++ WEv.pending :: (pollWriteAll buf evs).evs ∨ (evs = pre ∧ (pollWriteAll buf evs).evs = [])) := by
  refine ⟨pollWriteAll_notdone_aux evs buf (by rw [h]; simp), ?_⟩
  obtain ⟨pre, h1, h2⟩ := pollWriteAll_pending_aux evs buf h
  refine ⟨pre, fun e he => ?_, h2⟩
  have := h1 e he
  cases e <;> simp [WEv.isAccept] at this ⊢

/-- `poll_write` is never called with an empty buffer, and at most once per byte of the packet in one poll -/
theorem at_most_one_call_per_byte (buf : Bytes) (evs : List WEv) : (pollWriteAll buf evs).calls ≤ buf.length :=
  pollWriteAll_calls_aux evs buf

/-- an empty packet completes without touching the transport -/
theorem empty_write_touches_nothing (evs : List WEv) :
    pollWriteAll [] evs = ⟨[], [], evs, .done, 0⟩ := pollWriteAll_nil_buf evs

/-! ## a connection: packet after packet -/

/-- **The wire is whole packets in submission order, then a proper prefix of the next one** — for every list of packets
    and every transport. `completed` packets are on the wire entirely; if not all writes completed, the next packet is on
    the wire as a proper prefix (possibly empty), and nothing of any later packet. -/
theorem wire_is_whole_packets_then_a_proper_prefix (pkts : List Bytes) (evs : List WEv) :
    (writeSeq pkts evs).completed ≤ pkts.length ∧
    ∃ pre, (writeSeq pkts evs).wire = (pkts.take (writeSeq pkts evs).completed).flatten ++ pre ∧
      ((writeSeq pkts evs).out = .done → (writeSeq pkts evs).completed = pkts.length ∧ pre = []) ∧
      ((writeSeq pkts evs).out ≠ .done →
        ∃ p, pkts[(writeSeq pkts evs).completed]? = some p ∧ pre <+: p ∧ pre.length < p.length) :=
  writeSeq_shape pkts evs

/-- the wire never holds anything but a prefix of the submitted packets' concatenation -/
theorem wire_is_a_prefix_of_the_submitted_packets (pkts : List Bytes) (evs : List WEv) :
    (writeSeq pkts evs).wire <+: pkts.flatten := by
  obtain ⟨hle, pre, hw, hd, hn⟩ := writeSeq_shape pkts evs
  rw [hw]
  by_cases ho : (writeSeq pkts evs).out = .done
  · obtain ⟨a, b⟩ := hd ho
    rw [b, a]; simp
  · obtain ⟨p, hp, ⟨t, ht⟩, _⟩ := hn ho
    have hlt : (writeSeq pkts evs).completed < pkts.length := by
      rcases List.getElem?_eq_some_iff.1 hp with ⟨h, _⟩; exact h
    have hsplit : pkts = pkts.take (writeSeq pkts evs).completed ++ p :: pkts.drop ((writeSeq pkts evs).completed + 1) := by
      have hp' : pkts[(writeSeq pkts evs).completed] = p := by
        rcases List.getElem?_eq_some_iff.1 hp with ⟨_, h⟩; exact h
      rw [← hp', List.getElem_cons_drop, List.take_append_drop]
    refine ⟨t ++ (pkts.drop ((writeSeq pkts evs).completed + 1)).flatten, ?_⟩
    conv => rhs; rw [hsplit]
    simp only [List.flatten_append, List.flatten_cons, List.append_assoc, ← ht]

/-- all writes completed ⇒ the wire is exactly the concatenation of the submitted packets -/
theorem wire_is_the_concatenation_when_all_complete (pkts : List Bytes) (evs : List WEv)
    (h : (writeSeq pkts evs).out = .done) : (writeSeq pkts evs).wire = pkts.flatten := by
  obtain ⟨_, pre, hw, hd, _⟩ := writeSeq_shape pkts evs
  obtain ⟨a, b⟩ := hd h
  rw [hw, b, a]; simp

/-- whole frames followed by something the framing leaves alone -/
theorem frames_flatten_then_part (qs : List Bytes) (pre : Bytes) (hall : ∀ p ∈ qs, OneFrame p)
    (hpre : frames pre = some ([], pre)) : frames (qs.flatten ++ pre) = some (qs, pre) := by
  induction qs with
  | nil => simpa using hpre
  | cons q qs ih =>
    rw [List.flatten_cons, List.append_assoc, frames_append_oneFrame q (hall q (by simp)),
      ih (fun p hp => hall p (by simp [hp]))]
    rfl

/-- **Read back with the reference framing of the standard**: if every submitted packet is one frame (C01World: every
    packet the client builds is), the wire frames to exactly the completed packets, the tail being the proper prefix of the
    packet in progress. -/
theorem wire_frames_to_the_completed_packets (pkts : List Bytes) (evs : List WEv) (h1 : ∀ p ∈ pkts, OneFrame p) :
    ∃ pre, frames (writeSeq pkts evs).wire = some (pkts.take (writeSeq pkts evs).completed, pre) ∧
      ((writeSeq pkts evs).out = .done → pre = []) := by
  obtain ⟨_, pre, hw, hd, hn⟩ := writeSeq_shape pkts evs
  refine ⟨pre, ?_, fun ho => (hd ho).2⟩
  have hall : ∀ p ∈ pkts.take (writeSeq pkts evs).completed, OneFrame p :=
    fun p hp => h1 p (List.mem_of_mem_take hp)
  have hpre : frames pre = some ([], pre) := by
    by_cases ho : (writeSeq pkts evs).out = .done
    · rw [(hd ho).2]; exact frames_nil
    · obtain ⟨p, hp, hpp, hlen⟩ := hn ho
      exact frames_of_noFrame _ (noFrame_of_part _ p (h1 p (List.mem_of_getElem? hp)) hpp hlen)
  rw [hw]
  exact frames_flatten_then_part _ pre hall hpre

/-! ## composition with the model's whole-packet transport -/

/-- **Any transport yields the model's wire.** The model hands whole packets to its transport (`World.sent`, equal to the
    concatenation of the submitted packets by `wire_is_submitted`). Whatever real transport carries those submissions —
    any fragmentation, any delays, faults anywhere — the bytes on the wire are a prefix of the model's `sent`, and all of it
    once every write has completed. -/
theorem any_transport_yields_the_models_wire (cfg : Cfg) (evs : List Ev) (hl : cfg.wlimit = none) (tr : List WEv) :
    (writeSeq (World.submitted cfg evs) tr).wire <+: (evs.foldl World.step { cfg := cfg }).sent ∧
    ((writeSeq (World.submitted cfg evs) tr).out = .done →
      (writeSeq (World.submitted cfg evs) tr).wire = (evs.foldl World.step { cfg := cfg }).sent) := by
  rw [wire_is_submitted cfg evs hl]
  exact ⟨wire_is_a_prefix_of_the_submitted_packets _ tr, wire_is_the_concatenation_when_all_complete _ tr⟩

/-- the mock transports of the correspondence run (`wr=all`, `one`, `pend`, `pendone`, no byte budget) complete every
    write with exactly the packet on the wire -/
theorem mock_transport_writes_everything (one pend : Bool) (buf : Bytes) :
    (writeAll buf (mockEvs one pend buf.length)).1.out = .done ∧
    (writeAll buf (mockEvs one pend buf.length)).1.acc = buf := by
  apply write_all_completes
  · intro e he
    have := mockEvs_noFault one pend buf.length e he
    cases e <;> simp [WEv.isFault] at this ⊢
  · exact mockEvs_accepts one pend buf.length

/-- **A transport with a byte budget** (the harness's `werr=<n>` / `wzero=<n>`: it takes `L` more bytes, then fails): the
    bytes on the wire are the first `L` bytes of the packet and the write fails — what `World.writeBytes` puts on the wire
    (`bs.take k`) when the budget does not cover the packet. -/
theorem budgeted_transport_takes_the_budget (bs : Bytes) (L : Nat) (fault : WEv) (hf : fault = .err ∨ fault = .zero)
    (tr : List WEv) (h0 : 0 < L) (hL : L < bs.length) :
    (writeAll bs (.accept (L - 1) :: fault :: tr)).1.acc = bs.take L ∧
    (writeAll bs (.accept (L - 1) :: fault :: tr)).1.out = .err := by
  have hne : bs ≠ [] := by intro h; simp [h] at hL
  have e : L - 1 + 1 = L := by omega
  have hnl : ¬ bs.length ≤ L := by omega
  rcases hf with rfl | rfl <;> simp [writeAll, hne, e, hnl]

/-- the budget already used up: nothing of the packet reaches the wire -/
theorem exhausted_transport_takes_nothing (bs : Bytes) (fault : WEv) (hf : fault = .err ∨ fault = .zero) (tr : List WEv)
    (hne : bs ≠ []) :
    (writeAll bs (fault :: tr)).1.acc = [] ∧ (writeAll bs (fault :: tr)).1.out = .err := by
  rcases hf with rfl | rfl <;> simp [writeAll, hne]

namespace TxStream
/-- **The mock transports of the correspondence run take every packet whole**, whatever the policy and the state the
    previous write left: the statistics the driver prints (`WCALLS`) are those of completed writes, and `bytes` is the
    total length of the packets. -/
theorem mock_connection_statistics_are_of_completed_writes (pkts : List Bytes) : ∀ (m : MockW),
    (mockStats m pkts).ok = true ∧ (mockStats m pkts).bytes = (pkts.map List.length).sum := by
  suffices h : ∀ (pkts : List Bytes) (acc : WStats) (m : MockW),
      let r := (pkts.foldl (fun (acc : WStats × MockW) p =>
        let (evs, m') := acc.2.answers (2 * p.length + 2) p.length
        let (r, polls) := writeAll p evs
        ({ calls := acc.1.calls + r.calls, pend := acc.1.pend + (polls - 1), bytes := acc.1.bytes + r.acc.length,
           ok := acc.1.ok && r.out == .done }, m')) (acc, m)).1
      r.ok = acc.ok ∧ r.bytes = acc.bytes + (pkts.map List.length).sum by
    intro m
    have := h pkts {} m
    simpa [mockStats] using this
  intro pkts
  induction pkts with
  | nil => intro acc m; simp
  | cons p ps ih =>
    intro acc m
    simp only [List.foldl_cons, List.map_cons, List.sum_cons]
    have hc := answers_complete (2 * p.length + 2) m p (by split <;> omega)
    have := ih { calls := acc.calls + (writeAll p (m.answers (2 * p.length + 2) p.length).1).1.calls,
                 pend := acc.pend + ((writeAll p (m.answers (2 * p.length + 2) p.length).1).2 - 1),
                 bytes := acc.bytes + (writeAll p (m.answers (2 * p.length + 2) p.length).1).1.acc.length,
                 ok := acc.ok && (writeAll p (m.answers (2 * p.length + 2) p.length).1).1.out == .done }
               (m.answers (2 * p.length + 2) p.length).2
    simp only [] at this ⊢
    rw [this.1, this.2, hc.1, hc.2.1]
    simp [Nat.add_assoc]

end TxStream

/-! ## non-vacuity: concrete runs -/

example : TxStream.mockStats { one := true, pend := true } [[0xc0, 0x00], [0x40, 0x02, 0x00, 0x07]] = ⟨12, 6, 6, true⟩ := by decide

example : (writeAll [1, 2, 3, 4] [.accept 1, .zero]).1.acc = [1, 2] := by decide

/-- a PINGREQ and a PUBACK through a transport that takes one byte, delays, takes the rest, delays, takes one byte, fails: the PINGREQ is whole, the
    PUBACK a proper prefix -/
example : writeSeq [[0xc0, 0x00], [0x40, 0x02, 0x00, 0x07]] [.accept 0, .pending, .accept 1, .pending, .accept 0, .err] =
    ⟨[0xc0, 0x00, 0x40], 1, .err⟩ := by decide

example : (writeAll [1, 2, 3] [.pending, .accept 0, .pending, .pending, .accept 5]).1.acc = [1, 2, 3] := by decide
example : (pollWriteAll [1, 2, 3] [.accept 0, .pending, .accept 5]).out = .pending := by decide
example : (writeAll [1, 2, 3] [.accept 0, .zero]).1.out = .err := by decide
example : (writeAll [1, 2, 3] (mockEvs true true 3)).1 = ⟨[1, 2, 3], [], [.pending, .accept 0], .done, 6⟩ := by decide

end Poster

#print axioms Poster.write_poll_conserves
#print axioms Poster.write_all_conserves
#print axioms Poster.write_all_ok_means_everything_written
#print axioms Poster.write_poll_ok_means_everything_written
#print axioms Poster.write_all_unfinished_is_a_proper_prefix
#print axioms Poster.write_all_fails_only_on_a_transport_fault
#print axioms Poster.write_all_completes
#print axioms Poster.delays_are_invisible
#print axioms Poster.fragmentation_is_invisible
#print axioms Poster.write_pending_only_from_the_transport
#print axioms Poster.at_most_one_call_per_byte
#print axioms Poster.empty_write_touches_nothing
#print axioms Poster.wire_is_whole_packets_then_a_proper_prefix
#print axioms Poster.wire_is_a_prefix_of_the_submitted_packets
#print axioms Poster.wire_is_the_concatenation_when_all_complete
#print axioms Poster.frames_flatten_then_part
#print axioms Poster.wire_frames_to_the_completed_packets
#print axioms Poster.any_transport_yields_the_models_wire
#print axioms Poster.mock_transport_writes_everything
#print axioms Poster.TxStream.mock_connection_statistics_are_of_completed_writes
#print axioms Poster.budgeted_transport_takes_the_budget
#print axioms Poster.exhausted_transport_takes_nothing
