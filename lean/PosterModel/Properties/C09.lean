/-
  Properties/C09.lean — an inbound QoS 2 message is delivered to the application exactly once.

  Model: the PUBLISH and PUBREL arms of `Ctx.handlePkt` (= `handle_packet`, src/client/context.rs); `c.inQos2` is
  `session.inbound_qos2`, the identifiers answered with PUBREC and not yet released by PUBREL.
  Specification, from the history alone (CtxRun.lean): `pendingQ2 t` = the identifiers of the handled QoS 2 PUBLISH
  packets of `t` that have no handled PUBREL after them (`q2Step` adds on a QoS 2 PUBLISH, removes on a PUBREL).

  `deliversOf effs` are the messages pushed into subscription streams; `Ctx.dispatch alive pb pb.subIds subs` is the
  delivery loop every PUBLISH (QoS 0, 1, 2) goes through: one `deliver` per subscription identifier of the message that is
  registered and whose stream is alive.
-/
import PosterModel.Lemmas.CtxPkt

set_option linter.unusedVariables false
set_option linter.unusedSimpArgs false

namespace Poster

/-- one step: `inbound_qos2` moves exactly as the specification `q2Step` says, for every input -/
theorem step_inQos2 (c : Ctx) (i : CIn) : (c.stepIn i).1.inQos2 = q2Step c.inQos2 (c.stepIn i).2 := by
  cases i with
  | msg m wok => simp only [Ctx.stepIn, q2Step]; exact (Ctx.handleMsg_frame c m wok).2.2
  | pkt p dead wok =>
    simp only [Ctx.stepIn]
    rw [Ctx.handlePkt_inQos2]
    cases p <;> simp [q2Step]

/-- **The set the client keeps is the set the protocol defines.** After any history (no assumption on the inputs),
    `inbound_qos2` is exactly the list of QoS 2 identifiers received and not yet released, computed from the history alone:
    nothing is forgotten (a re-delivery would be yielded twice) and nothing lingers (a new message reusing the identifier
    after PUBREL would be swallowed). From the fresh context that is `pendingQ2`. -/
theorem inQos2_is_pending (c : Ctx) (is : List CIn) :
    (c.serve is).1.inQos2 = (c.serve is).2.foldl q2Step c.inQos2 ∧
    (({} : Ctx).serve is).1.inQos2 = pendingQ2 (({} : Ctx).serve is).2 :=
  ⟨Ctx.serve_fold (·.inQos2) q2Step step_inQos2 c is, Ctx.serve_fold (·.inQos2) q2Step step_inQos2 {} is⟩

/-- **Re-delivery suppressed.** A QoS 2 PUBLISH whose identifier is pending (PUBREC sent, PUBREL not yet received) is
    answered with PUBREC again, nothing is pushed into any stream, and the context is unchanged. -/
theorem redelivery_suppressed (c : Ctx) (alive : Nat → Bool) (pb : PublishRx) (pid : Nat) (wok : Bool)
    (h : pb.qos = 2) (hp : pb.packetId = some pid) (hin : pid ∈ c.inQos2) :
    deliversOf (c.handlePkt alive (.publish pb) wok).2.1 = [] ∧
    writesOf (c.handlePkt alive (.publish pb) wok).2.1 = [ackBytes 0x50 pid] ∧
    (c.handlePkt alive (.publish pb) wok).1 = c := by
  rw [Ctx.handlePkt_publish_redelivered c alive pb wok pid h hp hin]; simp

/-- **First delivery.** A QoS 2 PUBLISH whose identifier is not pending goes through exactly the delivery loop a QoS 0/1
    message goes through (same streams, same order), then PUBREC is written, and the identifier becomes pending. -/
theorem first_delivery (c : Ctx) (alive : Nat → Bool) (pb : PublishRx) (pid : Nat) (wok : Bool)
    (h : pb.qos = 2) (hp : pb.packetId = some pid) (hout : pid ∉ c.inQos2) :
    (c.handlePkt alive (.publish pb) wok).2.1 =
      (Ctx.dispatch alive pb pb.subIds c.subs).2 ++ [.write (ackBytes 0x50 pid)] ∧
    pid ∈ (c.handlePkt alive (.publish pb) wok).1.inQos2 := by
  rw [Ctx.handlePkt_publish_first c alive pb wok pid h hp hout]; simp

/-- the delivery loop is indeed the one of a QoS 0/1 message: for those the effects are the same dispatch, followed by
    the PUBACK when there is an identifier -/
theorem qos01_delivery (c : Ctx) (alive : Nat → Bool) (pb : PublishRx) (wok : Bool) (h : pb.qos ≠ 2) :
    deliversOf (c.handlePkt alive (.publish pb) wok).2.1 = deliversOf (Ctx.dispatch alive pb pb.subIds c.subs).2 := by
  rw [Ctx.handlePkt_publish_other c alive pb wok h]
  cases pb.packetId <;> simp

/-- **PUBREL releases.** After a PUBREL the identifier is no longer pending (a later PUBLISH with it is a new message),
    every other identifier is untouched, and exactly one PUBCOMP with the identifier is written. -/
theorem pubrel_releases (c : Ctx) (alive : Nat → Bool) (a : AckRx) (wok : Bool) :
    a.packetId ∉ (c.handlePkt alive (.pubrel a) wok).1.inQos2 ∧
    (∀ q, q ≠ a.packetId → (q ∈ (c.handlePkt alive (.pubrel a) wok).1.inQos2 ↔ q ∈ c.inQos2)) ∧
    writesOf (c.handlePkt alive (.pubrel a) wok).2.1 = [ackBytes 0x70 a.packetId] := by
  refine ⟨?_, ?_, ?_⟩
  · simp [Ctx.handlePkt]
  · intro q hq; simp [Ctx.handlePkt, hq]
  · simp [Ctx.handlePkt]

/-- **Exactly once, on histories.** Start with no pending identifier and serve ANY inputs. Take any handled QoS 2 PUBLISH
    with identifier `pid` in the history and let `pre` be everything handled before it.
    If `pid` is pending in `pre` — an earlier QoS 2 PUBLISH with that identifier has no PUBREL after it — the message is not
    delivered to any stream (it is the broker's re-delivery; PUBREC is repeated).
    Otherwise it is a new message: its effects are exactly the delivery loop over the subscriptions registered at that
    moment (the state reached by serving the inputs before it) followed by the PUBREC. Hence between two PUBRELs of `pid` at most one of the PUBLISH packets carrying `pid`
    reaches the application, and the first one does. -/
theorem qos2_delivered_once (c : Ctx) (is : List CIn) (hc : c.inQos2 = [])
    (pre post : List CObs) (pb : PublishRx) (pid : Nat) (effs : List Eff) (fl : Flow)
    (hh : (c.serve is).2 = pre ++ .pkt (.publish pb) effs fl :: post)
    (hq : pb.qos = 2) (hp : pb.packetId = some pid) :
    (pid ∈ pendingQ2 pre → deliversOf effs = [] ∧ writesOf effs = [ackBytes 0x50 pid]) ∧
    (pid ∉ pendingQ2 pre → ∃ (is1 : List CIn) (alive : Nat → Bool), is1 <+: is ∧ (c.serve is1).2 = pre ∧
        effs = (Ctx.dispatch alive pb pb.subIds (c.serve is1).1.subs).2 ++ [.write (ackBytes 0x50 pid)]) := by
  obtain ⟨is1, i, is2, rfl, hpre, ho⟩ := Ctx.serve_split c _ pre post _ hh
  have hpend : (c.serve is1).1.inQos2 = pendingQ2 pre := by
    rw [(inQos2_is_pending c is1).1, hpre, hc]; rfl
  cases i with
  | msg m wok => simp [Ctx.stepIn] at ho
  | pkt p dead wok =>
    simp only [Ctx.stepIn, CObs.pkt.injEq] at ho
    obtain ⟨rfl, rfl, _⟩ := ho
    constructor
    · intro hin
      rw [← hpend] at hin
      have := redelivery_suppressed (c.serve is1).1 (fun ch => ch ∉ dead) pb pid wok hq hp hin
      exact ⟨this.1, this.2.1⟩
    · intro hout
      rw [← hpend] at hout
      exact ⟨is1, fun ch => decide (ch ∉ dead), List.prefix_append _ _, hpre,
        (first_delivery (c.serve is1).1 (fun ch => ch ∉ dead) pb pid wok hq hp hout).1⟩

/-- PUBLISH 9 (delivered to channel 1), PUBLISH 9 again (suppressed), PUBREL 9, PUBLISH 9 (a new message: delivered) -/
example :
    let pb : PublishRx := { topic := [], qos := 2, packetId := some 9, subIds := [4] }
    let r := ({ subs := [(4, 1)] } : Ctx).serve
      [.pkt (.publish pb) [] true, .pkt (.publish pb) [] true, .pkt (.pubrel { packetId := 9 }) [] true,
       .pkt (.publish pb) [] true]
    r.2.map (fun o => ((deliversOf o.effs).map (·.1), writesOf o.effs)) =
      [([1], [[0x50, 2, 0, 9]]), ([], [[0x50, 2, 0, 9]]), ([], [[0x70, 2, 0, 9]]), ([1], [[0x50, 2, 0, 9]])] ∧
    r.1.inQos2 = [9] := by decide

#print axioms step_inQos2
#print axioms inQos2_is_pending
#print axioms redelivery_suppressed
#print axioms first_delivery
#print axioms qos01_delivery
#print axioms pubrel_releases
#print axioms qos2_delivered_once

end Poster
