/-
  Properties/C06.lean — C06: outbound QoS 1/2 publishes follow the MQTT handshake and report its outcome.

  `ContextHandle::publish` (World.startOp / resumeOp) builds one PUBLISH, hands it to the context together with
  the action identifier of the acknowledgement it expects, and (QoS 2) answers a successful PUBREC with one PUBREL
  carrying the same packet identifier. The context (`Ctx.handleMsg`) writes the packet once, as encoded.
-/
import PosterModel.Lemmas.UserCtx

namespace Poster
open World User

/-! ## what `publish()` hands to the context -/

/-- A valid QoS 0 publish queues exactly one fire-and-forget message with the encoded packet, takes no packet
    identifier, and then waits for the "written" notification on its oneshot `2*id`. -/
theorem startOp_publish_qos0 (w : World) (id : Nat) (t : PublishTx) (hv : t.valid = true) (hq : t.qos = 0)
    (hc : w.hasCtx = true) :
    (w.startOp id (.publish t)).queue = w.queue ++ [.ff t.encode (2 * id)] ∧
    (w.startOp id (.publish t)).pidCtr = w.pidCtr ∧
    (w.startOp id (.publish t)).opSt id = some (.wait (2 * id) .ff) ∧
    (w.startOp id (.publish t)).out = w.out := by
  rw [startOp_publish0 w id t hq]
  simp only [hv, Bool.not_true, Bool.false_eq_true, if_false]
  obtain ⟨wk, qr, e⟩ := sendAwait_ctx w (.ff t.encode (2 * id)) id (2 * id) .ff hc
  rw [e]
  exact ⟨rfl, rfl, lookupFirst_setAssoc_self _ _ _, rfl⟩

/-- A valid QoS 1 or QoS 2 publish takes the next packet identifier `pid`, queues exactly one message: the PUBLISH
    encoded with that identifier, registered for the acknowledgement `PUBACK pid` (QoS 1) resp. `PUBREC pid`
    (QoS 2), and waits for that acknowledgement. Nothing is reported yet. -/
theorem startOp_publish_qos12 (w : World) (id : Nat) (t : PublishTx) (hq : t.qos = 1 ∨ t.qos = 2)
    (hv : ({ t with packetId := some w.pidCtr } : PublishTx).valid = true) (hc : w.hasCtx = true) :
    (w.startOp id (.publish t)).queue = w.queue ++
      [.awaitAck (actionId (if t.qos = 1 then 4 else 5) w.pidCtr)
         ({ t with packetId := some w.pidCtr } : PublishTx).encode (2 * id)] ∧
    (w.startOp id (.publish t)).opSt id = some (.wait (2 * id) (if t.qos = 1 then .puback else .pubrec)) ∧
    (w.startOp id (.publish t)).out = w.out := by
  rw [startOp_publish12 w id t (by omega)]
  simp only [hv, Bool.not_true, Bool.false_eq_true, if_false]
  obtain ⟨wk, qr, e⟩ := sendAwait_ctx (w.allocPid.2)
    (.awaitAck (actionId (if t.qos = 1 then 4 else 5) w.pidCtr) ({ t with packetId := some w.pidCtr } : PublishTx).encode (2 * id))
    id (2 * id) (if t.qos = 1 then .puback else .pubrec) hc
  rw [e]
  exact ⟨rfl, lookupFirst_setAssoc_self _ _ _, rfl⟩

/-- The validity of the packet with the identifier filled in only depends on the topic being present. -/
theorem publish_valid_with_pid (t : PublishTx) (pid : Nat) :
    ({ t with packetId := some pid } : PublishTx).valid = t.topic.isSome := by
  simp [PublishTx.valid]

/-! ## what the context writes -/

/-- **Written exactly once, as encoded.** An accepted PUBLISH (size ok, quota left, write succeeds) causes exactly
    one write, of exactly the bytes the caller's encoder produced; nothing is sent to the oneshot yet; the copy kept
    for retransmission has the DUP bit set; the send quota goes down by one; the waiter is registered. -/
theorem publish_written_once_dup0 (c : Ctx) (aid : Nat) (pkt : Bytes) (slot : Nat)
    (hs : c.sizeOk pkt = true) (hq : c.quota ≠ 0) (ht : pktType pkt = 3) :
    c.handleMsg (.awaitAck aid pkt slot) true =
      ({ c with quota := c.quota - 1, awaiting := c.awaiting ++ [(aid, slot)],
                retx := c.retx ++ [(aid, setDup pkt)] }, [.write pkt], .cont) ∧
    writesOf (c.handleMsg (.awaitAck aid pkt slot) true).2.1 = [pkt] := by
  have : c.handleMsg (.awaitAck aid pkt slot) true =
      ({ c with quota := c.quota - 1, awaiting := c.awaiting ++ [(aid, slot)],
                retx := c.retx ++ [(aid, setDup pkt)] }, [.write pkt], .cont) := by
    simp [Ctx.handleMsg, hs, hq, ht]
  rw [this]; exact ⟨rfl, rfl⟩

/-- A message is written at most once and only as given: whatever the message and the outcome, the bytes
    written by `handle_message` are either nothing or exactly the message's packet. -/
theorem handleMsg_writes (c : Ctx) (m : Msg) (wok : Bool) :
    writesOf (c.handleMsg m wok).2.1 = [] ∨ writesOf (c.handleMsg m wok).2.1 = [m.pkt] := by
  cases m with
  | ff pkt s =>
    simp only [Ctx.handleMsg]
    split
    · simp
    · split <;> simp [Msg.pkt]
  | awaitAck aid pkt s =>
    simp only [Ctx.handleMsg]
    split
    · simp
    · split
      · split
        · simp
        · split <;> simp [Msg.pkt]
      · split <;> split <;> simp [Msg.pkt]
  | subscribe aid sid pkt s ch => simp only [Ctx.handleMsg]; split <;> simp [Msg.pkt]

/-- **DUP = 0 on the first transmission.** The encoder puts the caller's DUP flag into bit 3 of the first byte;
    a publish built with `dup = false` (the builder default; `publish()` never sets it) has that bit clear, and
    the byte is the PUBLISH type with the requested QoS and RETAIN bits. -/
theorem encode_dup_clear (t : PublishTx) (h : t.dup = false) (hq : t.qos ≤ 2) :
    ∃ rest, t.encode = UInt8.ofNat t.fixedHdr :: rest ∧ t.fixedHdr / 8 % 2 = 0 ∧
      (UInt8.ofNat t.fixedHdr).toNat = 48 + t.qos * 2 + b2n t.retain ∧ pktType t.encode = 3 := by
  have hf : t.fixedHdr = 48 + t.qos * 2 + b2n t.retain := by simp [PublishTx.fixedHdr, h, b2n]
  have hr : b2n t.retain ≤ 1 := by unfold b2n; split <;> omega
  refine ⟨_, by simp only [PublishTx.encode, encU8, List.append_assoc, List.cons_append, List.nil_append]; rfl, ?_, ?_, ?_⟩
  · omega
  · rw [UInt8.toNat_ofNat']; omega
  · simp only [PublishTx.encode, List.append_assoc, pktType_encU8_append]; omega

/-- The retransmission copy differs from the written packet only in the DUP bit of the first byte. -/
theorem setDup_first_byte (b : UInt8) (rest : Bytes) :
    setDup (b :: rest) = UInt8.ofNat (b.toNat ||| 8) :: rest := rfl

/-! ## completion -/

/-- **QoS 0 completes once written.** The fire-and-forget message, handled with a successful write and within
    the size limit, writes the packet and notifies its oneshot with `unit` in the same step; the future resumed
    with `unit` reports success. -/
theorem qos0_completes_when_written (c : Ctx) (pkt : Bytes) (slot : Nat) (hs : c.sizeOk pkt = true)
    (w : World) (id s : Nat) :
    (c.handleMsg (.ff pkt slot) true).2.1 = [.write pkt, .send slot .unit] ∧
    (c.handleMsg (.ff pkt slot) true).1 = c ∧
    (w.resumeOp id s .ff .unit).out = w.out ++ [.done id .ok] := by
  refine ⟨by simp [Ctx.handleMsg, hs], by simp [Ctx.handleMsg, hs], by simp [resumeOp, clearSlot]⟩

/-- **PUBACK outcome.** Reason ≥ 0x80: `publish()` fails with `PubackError` carrying the packet's reason, reason
    string and user properties; any smaller reason is success. Nothing is queued. -/
theorem puback_outcome (w : World) (id s : Nat) (a : AckRx) :
    (w.resumeOp id s .puback (.pkt (.puback a))).out = w.out ++ [.done id
      (if a.reason ≥ 128 then .errAck .pubackError a.reason a.reasonString a.userProps else .ok)] ∧
    (w.resumeOp id s .puback (.pkt (.puback a))).queue = w.queue := by
  simp only [resumeOp, ackErr]; split <;> simp [clearSlot]

/-- **PUBCOMP outcome.** Same rule with `PubcompError`. -/
theorem pubcomp_outcome (w : World) (id s : Nat) (a : AckRx) :
    (w.resumeOp id s .pubcomp (.pkt (.pubcomp a))).out = w.out ++ [.done id
      (if a.reason ≥ 128 then .errAck .pubcompError a.reason a.reasonString a.userProps else .ok)] ∧
    (w.resumeOp id s .pubcomp (.pkt (.pubcomp a))).queue = w.queue := by
  simp only [resumeOp, ackErr]; split <;> simp [clearSlot]

/-- **PUBREC outcome.** Reason ≥ 0x80: `publish()` fails with `PubrecError` carrying the reason, and NO message
    is queued — after a failing PUBREC no PUBREL is ever sent. Reason < 0x80 (context alive): exactly one message is
    appended to the queue, the PUBREL with the PUBREC's packet identifier, registered for `PUBCOMP` with the same
    identifier; nothing is reported yet and the future now waits for the PUBCOMP on its second oneshot. -/
theorem pubrec_outcome (w : World) (id s : Nat) (a : AckRx) :
    (a.reason ≥ 128 →
      (w.resumeOp id s .pubrec (.pkt (.pubrec a))).out = w.out ++ [.done id
        (.errAck .pubrecError a.reason a.reasonString a.userProps)] ∧
      (w.resumeOp id s .pubrec (.pkt (.pubrec a))).queue = w.queue) ∧
    (a.reason < 128 → w.hasCtx = true →
      (w.resumeOp id s .pubrec (.pkt (.pubrec a))).queue = w.queue ++
        [.awaitAck (actionId 7 a.packetId) (ackBytes 0x62 a.packetId) (s + 1)] ∧
      (w.resumeOp id s .pubrec (.pkt (.pubrec a))).out = w.out ∧
      (w.resumeOp id s .pubrec (.pkt (.pubrec a))).opSt id = some (.wait (s + 1) .pubcomp)) := by
  constructor
  · intro h; simp [resumeOp, ackErr, h, clearSlot]
  · intro h hc
    have hn : ¬ a.reason ≥ 128 := by omega
    have e0 : w.resumeOp id s .pubrec (.pkt (.pubrec a)) =
        (w.clearSlot s).sendAwait (.awaitAck (actionId 7 a.packetId) (ackBytes 0x62 a.packetId) (s + 1))
          id (s + 1) .pubcomp := by
      simp only [resumeOp, hn, if_false]; rfl
    obtain ⟨wk, qr, e⟩ := sendAwait_ctx (w.clearSlot s)
      (.awaitAck (actionId 7 a.packetId) (ackBytes 0x62 a.packetId) (s + 1)) id (s + 1) .pubcomp hc
    rw [e0, e]
    exact ⟨rfl, rfl, lookupFirst_setAssoc_self _ _ _⟩

/-- The PUBREL is a PUBREL: packet type 6 with the reserved flags 0010. -/
theorem pubrel_bytes (pid : Nat) : ∃ rest, ackBytes 0x62 pid = 0x62 :: rest ∧ pktType (ackBytes 0x62 pid) = 6 := by
  obtain ⟨rest, e⟩ := ackBytes_head 0x62 pid
  exact ⟨rest, e, by rw [pktType_ackBytes]⟩

/-- **A PUBREL is only ever queued in answer to a successful PUBREC.**
    (1) Starting an operation queues at most one message and never a PUBREL (packet type 6) — for a publish whose
        QoS is one of 0, 1, 2, which is all the `QoS` enum of the library has.
    (2) Resuming a future leaves the queue alone, except in the one case of `pubrec_outcome`: the future waits for
        a PUBREC, is resumed with a PUBREC whose reason is < 0x80, and then appends exactly that PUBREL.
    `sendMsg` is used nowhere else on the user side, and the context writes messages as given
    (`handleMsg_writes`); so however long the future is left unpolled in between (`pending_stays_pending`: a
    poll without a value changes nothing), a PUBREL reaches the wire only after a PUBREC with reason < 0x80 was
    delivered to that operation. -/
theorem pubrel_only_from_pubrec (w : World) (id : Nat) :
    (∀ req, (∀ t, req = .publish t → t.qos ≤ 2) →
      (w.startOp id req).queue = w.queue ∨
      ∃ m, (w.startOp id req).queue = w.queue ++ [m] ∧ pktType m.pkt ≠ 6) ∧
    (∀ s k v,
      (w.resumeOp id s k v).queue = w.queue ∨
      ∃ a, k = .pubrec ∧ v = .pkt (.pubrec a) ∧ a.reason < 128 ∧ w.hasCtx = true ∧
        (w.resumeOp id s k v).queue = w.queue ++
          [.awaitAck (actionId 7 a.packetId) (ackBytes 0x62 a.packetId) (s + 1)]) := by
  have sa : ∀ (w0 : World) (m : Msg) (s : Nat) (k : Wait), w0.queue = w.queue → pktType m.pkt ≠ 6 →
      (w0.sendAwait m id s k).queue = w.queue ∨
      ∃ m', (w0.sendAwait m id s k).queue = w.queue ++ [m'] ∧ pktType m'.pkt ≠ 6 := by
    intro w0 m s k hq hm
    by_cases hc : w0.hasCtx = true
    · obtain ⟨wk, qr, e⟩ := sendAwait_ctx w0 m id s k hc
      right; exact ⟨m, by rw [e, ← hq], hm⟩
    · left; rw [sendAwait_no_ctx w0 m id s k (by simpa using hc)]; simpa using hq
  constructor
  · intro req hreq
    cases req with
    | publish t =>
      have hq2 := hreq t rfl
      have hr : b2n t.retain ≤ 1 := by unfold b2n; split <;> omega
      have hd : b2n t.dup ≤ 1 := by unfold b2n; split <;> omega
      by_cases hq : t.qos = 0
      · rw [startOp_publish0 w id t hq]
        split
        · left; simp
        · apply sa w _ _ _ rfl
          simp only [Msg.pkt, PublishTx.encode, List.append_assoc, pktType_encU8_append, PublishTx.fixedHdr]
          omega
      · rw [startOp_publish12 w id t hq]
        split
        · left; simp [allocPid]
        · apply sa (w.allocPid.2) _ _ _ rfl
          simp only [Msg.pkt, PublishTx.encode, List.append_assoc, pktType_encU8_append, PublishTx.fixedHdr]
          omega
    | subscribe t =>
      rw [startOp_subscribe]
      simp only []
      split
      · left; simp [allocPid, allocSub]
      · split
        · left; simp [allocPid, allocSub, dropChanRx, setChan]
        · next w' hs =>
          by_cases hc : w.hasCtx = true
          · obtain ⟨wk, qr, e⟩ := sendMsg_shape (((w.allocPid.2).allocSub.2).setChan id {})
              (.subscribe (actionId 9 w.pidCtr) w.subCtr
                ({ t with packetId := w.pidCtr, subId := some w.subCtr } : SubscribeTx).encode (2 * id) id) hc
            rw [e] at hs; cases hs
            right
            refine ⟨_, rfl, ?_⟩
            simp [Msg.pkt, SubscribeTx.encode]
          · rw [sendMsg_none _ _ (by simpa [setChan, allocPid, allocSub] using hc)] at hs; cases hs
    | unsubscribe t =>
      rw [startOp_unsubscribe]
      split
      · left; simp [allocPid]
      · apply sa (w.allocPid.2) _ _ _ rfl
        simp [Msg.pkt, UnsubscribeTx.encode]
    | ping => rw [startOp_ping]; exact sa w _ _ _ rfl (by simp [Msg.pkt, pingreqBytes, pktType])
    | disconnect t =>
      rw [startOp_disconnect]; apply sa w _ _ _ rfl
      simp [Msg.pkt, DisconnectTx.encode]
  · intro s k v
    cases v with
    | errSize => left; simp [resumeOp, clearSlot]
    | errQuota => left; simp [resumeOp, clearSlot]
    | unit => left; cases k <;> simp [resumeOp, clearSlot]
    | pkt p =>
      have panic : (({ (w.clearSlot s) with ops := eraseFirst id (w.clearSlot s).ops }).emit
          (.panic (.op id) "unreachable") |>.senderGone).queue = w.queue := by
        obtain ⟨wk, qr, e⟩ := senderGone_shape
          (({ (w.clearSlot s) with ops := eraseFirst id (w.clearSlot s).ops }).emit (.panic (.op id) "unreachable"))
        rw [e]; rfl
      cases k <;> cases p <;>
        first
        | (left; exact panic)
        | (left; simp only [resumeOp, ackErr]; split <;> simp [clearSlot]; done)
        | (left; simp [resumeOp, clearSlot]; done)
        | skip
      -- remaining: k = .pubrec, p = .pubrec a
      next a =>
        by_cases h : a.reason ≥ 128
        · left; simp [resumeOp, ackErr, h, clearSlot]
        · have e0 : w.resumeOp id s .pubrec (.pkt (.pubrec a)) =
              (w.clearSlot s).sendAwait (.awaitAck (actionId 7 a.packetId) (ackBytes 0x62 a.packetId) (s + 1))
                id (s + 1) .pubcomp := by
            simp only [resumeOp, h, if_false]; rfl
          by_cases hc : w.hasCtx = true
          · obtain ⟨wk, qr, e⟩ := sendAwait_ctx (w.clearSlot s)
              (.awaitAck (actionId 7 a.packetId) (ackBytes 0x62 a.packetId) (s + 1)) id (s + 1) .pubcomp hc
            right; exact ⟨a, rfl, rfl, by omega, hc, by rw [e0, e]; rfl⟩
          · left; rw [e0, sendAwait_no_ctx _ _ _ _ _ (by simpa [clearSlot] using hc)]; simp [clearSlot]

/-- The context itself never originates a PUBREL: the packets `handle_packet` writes on its own are the
    acknowledgements PUBACK / PUBREC (for an inbound PUBLISH) and PUBCOMP (for an inbound PUBREL). -/
theorem handlePkt_never_writes_pubrel (c : Ctx) (alive : Nat → Bool) (p : RxPacket) (wok : Bool) :
    ∀ b ∈ writesOf (c.handlePkt alive p wok).2.1, pktType b ≠ 6 := by
  intro b hb
  cases p with
  | publish pb =>
    simp only [Ctx.handlePkt] at hb
    split at hb <;> split at hb <;> split at hb <;>
      simp [(dispatch_sendsOf _ _ _ _).2] at hb <;> subst hb <;> rw [pktType_ackBytes] <;> split <;> decide
  | pubrel a =>
    simp [Ctx.handlePkt] at hb; subst hb; rw [pktType_ackBytes]; decide
  | puback a => simp [Ctx.handlePkt] at hb
  | pubrec a => simp [Ctx.handlePkt] at hb
  | pubcomp a => simp [Ctx.handlePkt] at hb
  | suback a => simp [Ctx.handlePkt] at hb
  | unsuback a => simp [Ctx.handlePkt] at hb
  | pingresp => simp [Ctx.handlePkt] at hb
  | connack k => simp [Ctx.handlePkt] at hb
  | auth a => simp [Ctx.handlePkt] at hb
  | disconnect d => simp [Ctx.handlePkt] at hb

/-! ## non-vacuity -/

/-- a QoS 2 publish: PUBLISH queued with identifier 1 for PUBREC 1; after PUBREC(0) the PUBREL 1 is queued -/
example :
    let t : PublishTx := { qos := 2, topic := some [97] }
    let w : World := { hasCtx := true }
    (w.startOp 3 (.publish t)).queue = [.awaitAck (actionId 5 1) ({ t with packetId := some 1 } : PublishTx).encode 6] ∧
    ((w.startOp 3 (.publish t)).resumeOp 3 6 .pubrec (.pkt (.pubrec { packetId := 1 }))).queue.length = 2 ∧
    ((w.startOp 3 (.publish t)).resumeOp 3 6 .pubrec (.pkt (.pubrec { packetId := 1, reason := 0x80 }))).queue.length = 1 := by
  decide

example : ({ qos := 1, topic := some [97], retain := true } : PublishTx).fixedHdr / 8 % 2 = 0 := by decide

#print axioms startOp_publish_qos0
#print axioms startOp_publish_qos12
#print axioms publish_valid_with_pid
#print axioms publish_written_once_dup0
#print axioms handleMsg_writes
#print axioms encode_dup_clear
#print axioms setDup_first_byte
#print axioms qos0_completes_when_written
#print axioms puback_outcome
#print axioms pubcomp_outcome
#print axioms pubrec_outcome
#print axioms pubrel_bytes
#print axioms pubrel_only_from_pubrec
#print axioms handlePkt_never_writes_pubrel

end Poster
