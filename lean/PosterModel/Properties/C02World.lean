/-
  Properties/C02World.lean — C02 at the level of the whole client: what the caller SEES of a well-formed server packet.

  C02: "For every well-formed MQTT 5 packet a server may send (…), including the shortened forms the standard allows, any
  legal set of properties in any order and repeated user properties, the client accepts the packet. Every value it then
  exposes through its response, error and message accessors equals the value that was encoded, and absent properties read
  as the defaults the standard prescribes."

  Properties/C02.lean proves `decodeRx (encodeServer p) = .ok (expected p)` for every well-formed `p`. Here the decoded
  record is followed to the observation through which the caller reads it:
  * an acknowledgement (PUBACK, PUBREC, PUBCOMP, SUBACK, UNSUBACK, PINGRESP) read by the `run()` loop reaches the oneshot
    of the operation registered under its action identifier, and the `DONE id r` logged by that operation's next poll
    carries exactly the values of the specification-level packet (`*_accessors`): the error kind with the reason code,
    the Reason String, the User Properties in wire order including repeats, the SUBACK / UNSUBACK reason codes; absent
    properties read as `none` / `[]`, the short forms as reason 0 without properties;
  * a server DISCONNECT makes `run()` return `Disconnected` with the specification-level reason and properties, or `Ok`
    for the reason code 0, in all three forms (`disconnect_accessors`);
  * the CONNACK / AUTH answering `connect()` / `authorize()` is returned as `ConnectRsp` / `ConnectError` / `AuthRsp` with
    the specification-level values, and the standard's defaults for absent properties (`connack_accessors`,
    `auth_accessors`);
  * a PUBLISH is delivered to the stream registered under its Subscription Identifier with the specification-level
    values (`publish_accessors`).
  Helper lemmas: Lemmas/WorldResume.lean (namespace `Poster.World.W13`): `Awaits`, `doneOf`, `pollOp_done`,
  `pollCtx_disconnect`, `find_none_of_legal`, …
-/
import PosterModel.Lemmas.WorldResume
import PosterModel.Properties.C02
import PosterModel.Properties.C13
import PosterModel.Properties.C17World
import PosterModel.Properties.C07World
import PosterModel.Lemmas.WorldStreamEx

set_option linter.unusedVariables false
set_option linter.unusedSimpArgs false

namespace Poster
open Framing World Spec Spec.Server

/-! ## 1. acknowledgements -/

/-- **A well-formed acknowledgement reaches the future registered for it, unchanged.** `W13.Awaits w fr aid s id k`:
    the `run()` loop of `w` is about to read the frame `fr`, and operation `id` waits with kind `k` on the empty oneshot
    `s`, the first waiter registered under the action identifier `aid`. If `fr` is the encoding of a well-formed server
    packet `p` whose decoded form has the action identifier `aid` (and is not a PUBREL), then after the poll of `run()`
    the oneshot holds exactly `expected p`, and — if that is the acknowledgement `k` waits for, with result `r` — the next
    poll of the operation logs `DONE id r` and removes it. -/
theorem server_ack_reaches_its_future (w : World) (p : ServerPacket) (aid s id : Nat) (k : Wait) (r : DoneRes)
    (hwf : WF p) (h : W13.Awaits w (encodeServer p) aid s id k)
    (haid : rxActionId (expected p) = some aid) (hrel : ∀ a, expected p ≠ .pubrel a)
    (hr : W13.doneOf k (expected p) = some r) :
    w.pollCtx.slot s = some (.full (.pkt (expected p))) ∧
    (w.pollCtx.pollOp id).out = w.pollCtx.out ++ [.done id r] ∧
    (w.pollCtx.pollOp id).ops = eraseFirst id w.pollCtx.ops := by
  obtain ⟨rx', rd', hp⟩ := h.frame
  obtain ⟨a1, a2, _, _⟩ := ack_completes_waiting_future w h.own h.task rx' rd' _ (expected p) aid s id k h.queue h.senders hp
    (dec_of_spec p hwf) haid hrel h.first h.op h.empty
  exact ⟨a1, (W13.pollOp_done w.pollCtx id s k (expected p) r a2 a1 hr).2⟩

/-- **PUBACK accessors.** A well-formed PUBACK (any of the three forms) for packet identifier `pid`, read by the loop
    while the QoS 1 publish `id` waits for it: `publish()` returns `Ok` for a reason code below 0x80 and otherwise the
    error `PubackError` carrying the reason code sent, the Reason String sent (`none` if absent) and the User
    Properties sent, in wire order with repeats. -/
theorem puback_accessors (w : World) (form : AckForm) (pid reason : Nat) (props : List Property) (s id : Nat)
    (hwf : WF (.puback form pid reason props))
    (h : W13.Awaits w (encodeServer (.puback form pid reason props)) (actionId 4 pid) s id .puback) :
    (w.pollCtx.pollOp id).out = w.pollCtx.out ++ [.done id
      (if reason ≥ 128 then .errAck .pubackError reason (getBytes 31 props) (users props) else .ok)] :=
  (server_ack_reaches_its_future w _ _ s id .puback _ hwf h rfl (fun a e => by cases e) rfl).2.1

/-- **PUBREC accessors.** A well-formed PUBREC for `pid` while the QoS 2 publish `id` waits for it: with a reason code
    of 0x80 or above `publish()` returns `PubrecError` with the reason code, Reason String and User Properties sent;
    with a reason code below 0x80 nothing is returned yet — the future queues the PUBREL for the SAME packet identifier,
    registered under the PUBCOMP's action identifier, and waits on its second oneshot. -/
theorem pubrec_accessors (w : World) (form : AckForm) (pid reason : Nat) (props : List Property) (s id : Nat)
    (hwf : WF (.pubrec form pid reason props))
    (h : W13.Awaits w (encodeServer (.pubrec form pid reason props)) (actionId 5 pid) s id .pubrec) :
    (reason ≥ 128 → (w.pollCtx.pollOp id).out = w.pollCtx.out ++ [.done id
      (.errAck .pubrecError reason (getBytes 31 props) (users props))]) ∧
    (reason < 128 → (w.pollCtx.pollOp id).out = w.pollCtx.out ∧
      (w.pollCtx.pollOp id).opSt id = some (.wait (s + 1) .pubcomp) ∧
      (w.pollCtx.pollOp id).queue = w.pollCtx.queue ++ [.awaitAck (actionId 7 pid) (ackBytes 0x62 pid) (s + 1)]) := by
  obtain ⟨rx', rd', hp⟩ := h.frame
  obtain ⟨a1, a2, _, _⟩ := ack_completes_waiting_future w h.own h.task rx' rd' _ _ (actionId 5 pid) s id .pubrec h.queue
    h.senders hp (dec_of_spec _ hwf) rfl (fun a e => by cases e) h.first h.op h.empty
  refine ⟨fun hr => ?_, fun hr => ?_⟩
  · exact (W13.pollOp_done w.pollCtx id s .pubrec _ _ a2 a1 (by simp [expected, expectedAck, W13.doneOf, hr])).2.1
  · have hc : w.pollCtx.hasCtx = true := by
      rw [(hand_pollCtx w).act.hasCtx_eq]
      exact (h.own.waitOwn id s .pubrec h.op h.empty).1
    obtain ⟨b1, b2, b3⟩ := W13.pollOp_pubrec_goes_on w.pollCtx id s (expectedAck pid reason props) a2 a1 hr hc
    exact ⟨b2, b1, b3⟩

/-- **PUBCOMP accessors.** A well-formed PUBCOMP for `pid` while the QoS 2 publish `id` waits for it (second phase):
    `publish()` returns `Ok`, or `PubcompError` with the reason code, Reason String and User Properties sent. -/
theorem pubcomp_accessors (w : World) (form : AckForm) (pid reason : Nat) (props : List Property) (s id : Nat)
    (hwf : WF (.pubcomp form pid reason props))
    (h : W13.Awaits w (encodeServer (.pubcomp form pid reason props)) (actionId 7 pid) s id .pubcomp) :
    (w.pollCtx.pollOp id).out = w.pollCtx.out ++ [.done id
      (if reason ≥ 128 then .errAck .pubcompError reason (getBytes 31 props) (users props) else .ok)] :=
  (server_ack_reaches_its_future w _ _ s id .pubcomp _ hwf h rfl (fun a e => by cases e) rfl).2.1

/-- **SUBACK accessors.** A well-formed SUBACK for `pid` while the `subscribe()` future `id` waits for it: the response
    exposes the Reason String sent (`none` if absent), the User Properties sent in wire order, and the reason codes of
    the payload, one per topic filter, in order. -/
theorem suback_accessors (w : World) (pid : Nat) (props : List Property) (reasons : List Nat) (s id : Nat)
    (hwf : WF (.suback pid props reasons))
    (h : W13.Awaits w (encodeServer (.suback pid props reasons)) (actionId 9 pid) s id .suback) :
    (w.pollCtx.pollOp id).out = w.pollCtx.out ++ [.done id (.okAck false (getBytes 31 props) (users props) reasons)] :=
  (server_ack_reaches_its_future w _ _ s id .suback _ hwf h rfl (fun a e => by cases e) rfl).2.1

/-- **UNSUBACK accessors**: likewise for `unsubscribe()`. -/
theorem unsuback_accessors (w : World) (pid : Nat) (props : List Property) (reasons : List Nat) (s id : Nat)
    (hwf : WF (.unsuback pid props reasons))
    (h : W13.Awaits w (encodeServer (.unsuback pid props reasons)) (actionId 11 pid) s id .unsuback) :
    (w.pollCtx.pollOp id).out = w.pollCtx.out ++ [.done id (.okAck true (getBytes 31 props) (users props) reasons)] :=
  (server_ack_reaches_its_future w _ _ s id .unsuback _ hwf h rfl (fun a e => by cases e) rfl).2.1

/-- **PINGRESP**: `ping()` returns `Ok`. -/
theorem pingresp_accessors (w : World) (s id : Nat)
    (h : W13.Awaits w (encodeServer .pingresp) (actionId 13 0) s id .pingresp) :
    (w.pollCtx.pollOp id).out = w.pollCtx.out ++ [.done id .ok] :=
  (server_ack_reaches_its_future w .pingresp _ s id .pingresp _ (by decide) h rfl (fun a e => by cases e) rfl).2.1

/-- **The short forms and absent properties read as the defaults.** In a well-formed acknowledgement the identifier-only
    form (remaining length 2) stands for reason code 0 without properties — so the call returns `Ok` —, the reason-only
    form (remaining length 3) has no properties; and whenever the Reason String (resp. every User Property) is absent
    from the property list, the accessor yields `none` (resp. the empty list). -/
theorem ack_short_forms_and_absent_properties (codes : List Nat) (form : AckForm) (pid reason : Nat)
    (props : List Property) (h : ackOk codes form pid reason props = true) :
    (form = .idOnly → reason = 0 ∧ props = []) ∧ (form = .reasonOnly → props = []) ∧
    ((∀ q ∈ props, q.id ≠ 31) → getBytes 31 props = none) ∧ ((∀ q ∈ props, q.id ≠ 38) → users props = []) ∧
    getBytes 31 [] = none ∧ users [] = [] := by
  refine ⟨?_, ?_, fun h31 => W13.getBytes_none_of_find (W13.find_absent 31 props h31),
    fun h38 => W13.users_absent props h38, rfl, rfl⟩
  · rintro rfl
    simp only [ackOk, Bool.and_eq_true, beq_iff_eq, List.isEmpty_iff] at h
    exact h.2
  · rintro rfl
    simp only [ackOk, Bool.and_eq_true, List.isEmpty_iff] at h
    exact h.2

/-! ## 2. DISCONNECT -/

/-- **DISCONNECT accessors.** `run()` has been polled before, nothing is queued, a handle is alive, and the next frame
    is a well-formed server DISCONNECT (full form, reason only, or the empty form). Then this poll of `run()` returns:
    `Ok` if the reason code is 0 (in each of the three forms), and otherwise `Disconnected` carrying the reason code sent,
    the Reason String and Server Reference sent (`none` if absent), the User Properties sent in wire order, and Session
    Expiry Interval 0 (a server never sends one). Exactly that `RET` line is logged and the future is finished. -/
theorem disconnect_accessors (w : World) (rx' : Rx) (rd' : List ReadEv) (form : DiscForm) (reason : Nat)
    (props : List Property) (hwf : WF (.disconnect form reason props)) (ht : w.task = .running true)
    (hq : w.queue = []) (hsn : w.senders ≠ 0)
    (hp : pollNext w.rx w.reader = (rx', rd', .item (encodeServer (.disconnect form reason props)))) :
    w.pollCtx.out = w.out ++ [.ret .run (if reason = 0 then .ok else .disconnected
      { reason := reason, sessionExpiry := 0, reasonString := getBytes 31 props,
        serverReference := getBytes 28 props, userProps := users props })] ∧
    w.pollCtx.task = .none ∧ w.pollCtx.c = w.c := by
  have h17 : getNum 17 props = none := by
    simp only [WF, wf, Bool.and_eq_true, decide_eq_true_eq] at hwf
    obtain ⟨_, _, hf⟩ := hwf
    cases form with
    | full => exact W13.getNum_none_of_find (W13.find_none_of_legal _ _ 17 (by decide) props hf)
    | reasonOnly => simp only [List.isEmpty_iff] at hf; subst hf; rfl
    | empty =>
      simp only [Bool.and_eq_true, beq_iff_eq, List.isEmpty_iff] at hf
      obtain ⟨_, rfl⟩ := hf; rfl
  have hdec := dec_disconnect_of_spec form reason props hwf
  simp only [expected, h17, Option.getD_none] at hdec
  rw [W13.pollCtx_disconnect w rx' rd' _ _ ht hq hsn hp hdec]
  exact ⟨rfl, rfl, rfl⟩

/-! ## 3. the first response: CONNACK and AUTH -/

/-- **CONNACK accessors.** `connect()` (or `authorize()`) has sent its request and the first frame it reads is a
    well-formed CONNACK. With a reason code below 0x80 (and subscription identifiers available — otherwise the documented
    assertion fires) the call returns `ConnectRsp`, with a reason code of 0x80 or above `ConnectError`; in both cases the
    response exposes exactly: Session Present = bit 0 of the flags byte, the reason code sent, and every property as sent
    — or, when absent, the default of the standard: Receive Maximum 65535, Topic Alias Maximum 0, Maximum QoS 2, Retain /
    Wildcard Subscription / Subscription Identifier / Shared Subscription Available = true, everything else `none`; User
    Properties in wire order. The session takes over the CONNACK's limits. -/
theorem connack_accessors (w : World) (call : Call) (t : ConnectTx) (a : AuthTx) (rx' : Rx) (rd' : List ReadEv)
    (flags reason : Nat) (props : List Property) (hwf : WF (.connack flags reason props))
    (ht : w.task = .connecting call t a true)
    (hp : pollNext w.rx w.reader = (rx', rd', .item (encodeServer (.connack flags reason props))))
    (k : ConnackRx)
    (hk : k = { sessionPresent := flags == 1, reason := reason,
                wildcardSubAvail := (getBool 40 props).getD true, subIdAvail := (getBool 41 props).getD true,
                sharedSubAvail := (getBool 42 props).getD true, maxQos := (getNum 36 props).getD 2,
                retainAvail := (getBool 37 props).getD true, serverKeepAlive := getNum 19 props,
                receiveMax := (getNum 33 props).getD 65535, topicAliasMax := (getNum 34 props).getD 0,
                sessionExpiry := getNum 17 props, maxPacketSize := getNum 39 props, authData := getBytes 22 props,
                assignedClientId := getBytes 18 props, reasonString := getBytes 31 props,
                responseInfo := getBytes 26 props, serverReference := getBytes 28 props,
                authMethod := getBytes 21 props, userProps := users props }) :
    (reason < 128 → (getBool 41 props).getD true = true →
      w.pollCtx.out = w.out ++ [.ret call (.connack k)] ∧ w.pollCtx.task = .none ∧
      w.pollCtx.c = w.c.handleConnack k) ∧
    (reason ≥ 128 →
      w.pollCtx.out = w.out ++ [.ret call (.connectError k)] ∧ w.pollCtx.task = .none ∧
      w.pollCtx.c = w.c.handleConnack k) := by
  have hdec : decodeRx (encodeServer (.connack flags reason props)) = .ok (.connack k) := by
    rw [dec_connack_of_spec flags reason props hwf, hk]; rfl
  have e0 : w.pollCtx = w.awaitFirst call t a := by simp [pollCtx, ht, pollConnect]
  obtain ⟨m1, m2, _⟩ := first_response_mapping w call t a rx' rd'
  refine ⟨fun hr hs => ?_, fun hr => ?_⟩
  · rw [e0, m1 _ k hp hdec (by rw [hk]; exact hr) (by rw [hk]; exact hs)]
    exact ⟨rfl, rfl, rfl⟩
  · rw [e0, m2 _ k hp hdec (by rw [hk]; exact hr)]
    exact ⟨rfl, rfl, rfl⟩

/-- a CONNACK without properties: every accessor reads as the standard's default -/
theorem connack_absent_properties_read_as_defaults (flags reason : Nat) :
    expected (.connack flags reason []) = .connack { sessionPresent := flags == 1, reason := reason } ∧
    ({ sessionPresent := flags == 1, reason := reason } : ConnackRx).receiveMax = 65535 ∧
    ({ sessionPresent := flags == 1, reason := reason } : ConnackRx).maxQos = 2 ∧
    ({ sessionPresent := flags == 1, reason := reason } : ConnackRx).retainAvail = true ∧
    ({ sessionPresent := flags == 1, reason := reason } : ConnackRx).topicAliasMax = 0 ∧
    ({ sessionPresent := flags == 1, reason := reason } : ConnackRx).subIdAvail = true ∧
    ({ sessionPresent := flags == 1, reason := reason } : ConnackRx).wildcardSubAvail = true ∧
    ({ sessionPresent := flags == 1, reason := reason } : ConnackRx).sharedSubAvail = true :=
  ⟨rfl, rfl, rfl, rfl, rfl, rfl, rfl, rfl⟩

/-- **AUTH accessors.** The first frame `connect()` / `authorize()` reads is a well-formed AUTH (full form with an
    Authentication Method, or the empty form): the call returns `AuthRsp` exposing the reason code sent (0 in the empty
    form), the Authentication Method and Data, the Reason String (each `none` if absent) and the User Properties sent. -/
theorem auth_accessors (w : World) (call : Call) (t : ConnectTx) (a : AuthTx) (rx' : Rx) (rd' : List ReadEv)
    (form : AuthForm) (reason : Nat) (props : List Property) (hwf : WF (.auth form reason props))
    (ht : w.task = .connecting call t a true)
    (hp : pollNext w.rx w.reader = (rx', rd', .item (encodeServer (.auth form reason props)))) :
    w.pollCtx.out = w.out ++ [.ret call (.auth
      { reason := reason, authMethod := getBytes 21 props, authData := getBytes 22 props,
        reasonString := getBytes 31 props, userProps := users props })] ∧
    w.pollCtx.task = .none ∧ w.pollCtx.c = w.c := by
  have hdec := dec_auth_of_spec form reason props hwf
  simp only [expected] at hdec
  have e0 : w.pollCtx = w.awaitFirst call t a := by simp [pollCtx, ht, pollConnect]
  obtain ⟨_, _, m3, _⟩ := first_response_mapping w call t a rx' rd'
  rw [e0, m3 _ _ hp hdec]
  exact ⟨rfl, rfl, rfl⟩

/-! ## 4. PUBLISH -/

/-- **Message accessors.** `run()` has been polled before, nothing is queued, a handle is alive and the next frame is a
    well-formed server PUBLISH (not a re-delivery of a QoS 2 message already received). Let `sid` be one of its
    Subscription Identifiers, registered (once) for the channel `ch`, whose receiver exists. Then after this poll of
    `run()` the channel holds what it held, followed by the message `pb` — nothing has been yielded meanwhile — where `pb`
    has exactly the values of the packet sent: DUP, QoS, RETAIN, topic, packet identifier, payload, Payload Format
    Indicator, Message Expiry Interval, Topic Alias, Response Topic, Correlation Data, Content Type (each `none` if
    absent), all Subscription Identifiers and all User Properties in wire order with repeats (`[]` if absent). If the
    channel was empty and its stream exists, the stream's next poll logs `ITEM ch pb`. -/
theorem publish_accessors (w : World) (wf : World.ChanWf w) (hn : (w.c.subs.map (·.1)).Nodup) (rx' : Rx)
    (rd' : List ReadEv) (dup : Bool) (qos : Nat) (retain : Bool) (topic : Bytes) (pid : Option Nat)
    (props : List Property) (payload : Bytes) (hwf : WF (.publish dup qos retain topic pid props payload))
    (ht : w.task = .running true) (hq : w.queue = []) (hsn : w.senders ≠ 0)
    (hp : pollNext w.rx w.reader = (rx', rd', .item (encodeServer (.publish dup qos retain topic pid props payload))))
    (hnew : ¬ (qos = 2 ∧ pid.getD 0 ∈ w.c.inQos2)) (sid ch : Nat) (c0 : Chan) (hsid : sid ∈ subIds props)
    (hreg : lookupFirst sid w.c.subs = some ch) (hc : w.chan ch = some c0) (pb : PublishRx)
    (hpb : pb = { dup := dup, retain := retain, qos := qos, topic := topic, packetId := pid,
                  pfi := getBool 1 props, topicAlias := getNum 35 props, mei := getNum 2 props,
                  subIds := subIds props, correlationData := getBytes 9 props, responseTopic := getBytes 8 props,
                  contentType := getBytes 3 props, userProps := users props, payload := payload }) :
    ∃ c1 rest, w.pollCtx.chan ch = some c1 ∧ c1.buf = c0.buf ++ pb :: rest ∧
      itemsOf ch w.pollCtx.out = itemsOf ch w.out ∧
      (c0.buf = [] → ch ∈ w.streams → (w.pollCtx.pollStream ch).out = w.pollCtx.out ++ [.item ch pb]) := by
  have hdec : decodeRx (encodeServer (.publish dup qos retain topic pid props payload)) = .ok (.publish pb) := by
    rw [dec_publish_of_spec dup qos retain topic pid props payload hwf, hpb]; rfl
  obtain ⟨c1, rest, hc1, hb, hit⟩ := W13.pollCtx_pkt_buffer w wf rx' rd' _ (.publish pb) ht hq hsn hp hdec ch c0 hc
  have hd := (publish_delivers_in_world w wf hn pb ch).2 (by rw [hc]; simp)
  have hnr : ¬ (pb.qos = 2 ∧ pb.packetId.getD 0 ∈ w.c.inQos2) := by rw [hpb]; exact hnew
  rw [if_neg hnr] at hd
  have hmem : sid ∈ pb.subIds.filter (fun sid => lookupFirst sid w.c.subs == some ch) := by
    rw [List.mem_filter]
    exact ⟨by rw [hpb]; exact hsid, by simp [hreg]⟩
  obtain ⟨x, t, hxt⟩ : ∃ x t, pb.subIds.filter (fun sid => lookupFirst sid w.c.subs == some ch) = x :: t := by
    cases hl : pb.subIds.filter (fun sid => lookupFirst sid w.c.subs == some ch) with
    | nil => rw [hl] at hmem; cases hmem
    | cons x t => exact ⟨x, t, rfl⟩
  rw [hxt, List.map_cons] at hd
  rw [hd] at hb
  refine ⟨c1, t.map (fun _ => pb) ++ rest, hc1, by rw [hb]; simp, hit, fun he hst => ?_⟩
  have hst' : ch ∈ w.pollCtx.streams := by rw [(hand_pollCtx w).act.streams_eq]; exact hst
  obtain ⟨wk, e⟩ := User.pollStream_item w.pollCtx ch c1 pb (t.map (fun _ => pb) ++ rest) hst' hc1
    (by rw [hb, he]; simp)
  rw [e]

/-! ## non-vacuity: concrete well-formed packets (short forms included) through concrete worlds -/
section NonVacuity
open Ex W13

/-- PUBACK, full form, 0x87 Not authorized, user property / Reason String "hi" / user property with the same key, read
    while operation 1 waits for PUBACK 7 (`W13.wWait`): `publish()` returns `PubackError` with exactly these values -/
example :
    let p := ServerPacket.puback .full 7 0x87 [⟨38, .pair [97] [98]⟩, ⟨31, .bytes [104, 105]⟩, ⟨38, .pair [97] [99]⟩]
    (((wWait (actionId 4 7) .puback (encodeServer p)).pollCtx).pollOp 1).out =
      (wWait (actionId 4 7) .puback (encodeServer p)).pollCtx.out ++
        [.done 1 (.errAck .pubackError 0x87 (some [104, 105]) [([97], [98]), ([97], [99])])] :=
  puback_accessors _ .full 7 0x87 [⟨38, .pair [97] [98]⟩, ⟨31, .bytes [104, 105]⟩, ⟨38, .pair [97] [99]⟩] 2 1
    (by wf_concrete) (wWait_awaits _ _ _ (by decide) (by decide) (by decide))

/-- PUBACK, identifier only (remaining length 2): reason 0, no properties — `publish()` returns `Ok` -/
example :
    (((wWait (actionId 4 7) .puback (encodeServer (.puback .idOnly 7 0 []))).pollCtx).pollOp 1).out =
      (wWait (actionId 4 7) .puback (encodeServer (.puback .idOnly 7 0 []))).pollCtx.out ++ [.done 1 .ok] :=
  puback_accessors _ .idOnly 7 0 [] 2 1 (by wf_concrete) (wWait_awaits _ _ _ (by decide) (by decide) (by decide))

/-- PUBREC, reason only (remaining length 3), 0x97 Quota exceeded: `PubrecError` with the reason code and the defaults -/
example :
    (((wWait (actionId 5 7) .pubrec (encodeServer (.pubrec .reasonOnly 7 0x97 []))).pollCtx).pollOp 1).out =
      (wWait (actionId 5 7) .pubrec (encodeServer (.pubrec .reasonOnly 7 0x97 []))).pollCtx.out ++
        [.done 1 (.errAck .pubrecError 0x97 none [])] :=
  (pubrec_accessors _ .reasonOnly 7 0x97 [] 2 1 (by wf_concrete)
    (wWait_awaits _ _ _ (by decide) (by decide) (by decide))).1 (by decide)

/-- PUBREC, identifier only: success — the future queues PUBREL 7 and waits for the PUBCOMP on its second oneshot -/
example :
    (((wWait (actionId 5 7) .pubrec (encodeServer (.pubrec .idOnly 7 0 []))).pollCtx).pollOp 1).opSt 1 =
      some (.wait 3 .pubcomp) :=
  ((pubrec_accessors _ .idOnly 7 0 [] 2 1 (by wf_concrete)
    (wWait_awaits _ _ _ (by decide) (by decide) (by decide))).2 (by decide)).2.1

/-- SUBACK for three filters (granted QoS 1, granted QoS 2, 0x87 Not authorized) with a Reason String between two user
    properties: the response exposes all of it, in order -/
example :
    let p := ServerPacket.suback 3 [⟨38, .pair [97] [98]⟩, ⟨31, .bytes [111, 107]⟩, ⟨38, .pair [99] [100]⟩] [1, 2, 0x87]
    (((wWait (actionId 9 3) .suback (encodeServer p)).pollCtx).pollOp 1).out =
      (wWait (actionId 9 3) .suback (encodeServer p)).pollCtx.out ++
        [.done 1 (.okAck false (some [111, 107]) [([97], [98]), ([99], [100])] [1, 2, 0x87])] :=
  suback_accessors _ 3 [⟨38, .pair [97] [98]⟩, ⟨31, .bytes [111, 107]⟩, ⟨38, .pair [99] [100]⟩] [1, 2, 0x87] 2 1
    (by wf_concrete) (wWait_awaits _ _ _ (by decide) (by decide) (by decide))

/-- UNSUBACK without properties: Reason String `none`, no user properties, the two reason codes -/
example :
    (((wWait (actionId 11 4) .unsuback (encodeServer (.unsuback 4 [] [0, 0x11]))).pollCtx).pollOp 1).out =
      (wWait (actionId 11 4) .unsuback (encodeServer (.unsuback 4 [] [0, 0x11]))).pollCtx.out ++
        [.done 1 (.okAck true none [] [0, 0x11])] :=
  unsuback_accessors _ 4 [] [0, 0x11] 2 1 (by wf_concrete) (wWait_awaits _ _ _ (by decide) (by decide) (by decide))

/-- PINGRESP -/
example :
    (((wWait (actionId 13 0) .pingresp (encodeServer .pingresp)).pollCtx).pollOp 1).out =
      (wWait (actionId 13 0) .pingresp (encodeServer .pingresp)).pollCtx.out ++ [.done 1 .ok] :=
  pingresp_accessors _ 2 1 (wWait_awaits _ _ _ (by decide) (by decide) (by decide))

/-- DISCONNECT 0x9C Use another server, with Server Reference "h:1", two user properties and a Reason String, read by a
    serving `run()` (`Ex.wServe`): `Disconnected` with exactly these values -/
example :
    let p := ServerPacket.disconnect .full 0x9C
      [⟨38, .pair [97] [98]⟩, ⟨28, .bytes [104, 58, 49]⟩, ⟨38, .pair [99] [100]⟩, ⟨31, .bytes [109]⟩]
    (wServe [.data (encodeServer p)]).pollCtx.out = [.ret .run (.disconnected
      { reason := 0x9C, sessionExpiry := 0, reasonString := some [109], serverReference := some [104, 58, 49],
        userProps := [([97], [98]), ([99], [100])] })] :=
  (disconnect_accessors _ {} [] .full 0x9C
    [⟨38, .pair [97] [98]⟩, ⟨28, .bytes [104, 58, 49]⟩, ⟨38, .pair [99] [100]⟩, ⟨31, .bytes [109]⟩] (by wf_concrete)
    rfl rfl (by decide) (pollNext_whole _ (by decide) (by decide) (by decide))).1

/-- DISCONNECT, the empty form (remaining length 0) and the reason-only form with reason 0: `run()` returns `Ok` -/
example : (wServe [.data (encodeServer (.disconnect .empty 0 []))]).pollCtx.out = [.ret .run .ok] :=
  (disconnect_accessors _ {} [] .empty 0 [] (by wf_concrete) rfl rfl (by decide)
    (pollNext_whole _ (by decide) (by decide) (by decide))).1
example : (wServe [.data (encodeServer (.disconnect .reasonOnly 0 []))]).pollCtx.out = [.ret .run .ok] :=
  (disconnect_accessors _ {} [] .reasonOnly 0 [] (by wf_concrete) rfl rfl (by decide)
    (pollNext_whole _ (by decide) (by decide) (by decide))).1
/-- … and the reason-only form with 0x8B Server shutting down: `Disconnected`, everything else at its default -/
example : (wServe [.data (encodeServer (.disconnect .reasonOnly 0x8B []))]).pollCtx.out =
    [.ret .run (.disconnected { reason := 0x8B })] :=
  (disconnect_accessors _ {} [] .reasonOnly 0x8B [] (by wf_concrete) rfl rfl (by decide)
    (pollNext_whole _ (by decide) (by decide) (by decide))).1

/-- CONNACK, Session Present, Receive Maximum 10, a user property, Retain Available = 0, Assigned Client Identifier
    "hi", a second user property, Maximum QoS 1, answering `connect()` (`Ex.wConn`): `ConnectRsp` with these values and
    the defaults for everything else (Topic Alias Maximum 0, the other three flags true, …) -/
example :
    let p := ServerPacket.connack 1 0
      [⟨33, .num 10⟩, ⟨38, .pair [97] [98]⟩, ⟨37, .bool false⟩, ⟨18, .bytes [104, 105]⟩, ⟨38, .pair [97] [99]⟩,
       ⟨36, .num 1⟩]
    (wConn (encodeServer p)).pollCtx.out = [.ret .connect (.connack
      { sessionPresent := true, reason := 0, receiveMax := 10, retainAvail := false, maxQos := 1,
        assignedClientId := some [104, 105], userProps := [([97], [98]), ([97], [99])] })] :=
  ((connack_accessors _ .connect {} {} {} [] 1 0
    [⟨33, .num 10⟩, ⟨38, .pair [97] [98]⟩, ⟨37, .bool false⟩, ⟨18, .bytes [104, 105]⟩, ⟨38, .pair [97] [99]⟩,
     ⟨36, .num 1⟩] (by wf_concrete) rfl
    (pollNext_whole _ (by decide) (by decide) (by decide)) _ rfl).1 (by decide) (by decide)).1

/-- CONNACK refusing the connection (0x87) without properties: `ConnectError`, every accessor at its default -/
example : (wConn (encodeServer (.connack 0 0x87 []))).pollCtx.out =
    [.ret .connect (.connectError { sessionPresent := false, reason := 0x87 })] :=
  ((connack_accessors _ .connect {} {} {} [] 0 0x87 [] (by wf_concrete) rfl
    (pollNext_whole _ (by decide) (by decide) (by decide)) _ rfl).2 (by decide)).1

/-- AUTH 0x18 Continue authentication with method "SCRAM", data 01 02 03, and the empty form -/
example :
    (wConn (encodeServer (.auth .full 0x18 [⟨22, .bytes [1, 2, 3]⟩, ⟨21, .bytes [83, 67, 82, 65, 77]⟩]))).pollCtx.out =
      [.ret .connect (.auth { reason := 0x18, authMethod := some [83, 67, 82, 65, 77], authData := some [1, 2, 3] })] :=
  (auth_accessors _ .connect {} {} {} [] .full 0x18 [⟨22, .bytes [1, 2, 3]⟩, ⟨21, .bytes [83, 67, 82, 65, 77]⟩]
    (by wf_concrete) rfl (pollNext_whole _ (by decide) (by decide) (by decide))).1
example : (wConn (encodeServer (.auth .empty 0 []))).pollCtx.out = [.ret .connect (.auth {})] :=
  (auth_accessors _ .connect {} {} {} [] .empty 0 [] (by wf_concrete) rfl
    (pollNext_whole _ (by decide) (by decide) (by decide))).1

/-- PUBLISH, QoS 0, topic "a", Subscription Identifier 1, read by `Ex.wPub` (stream 1 asleep on its empty channel,
    registered under identifier 1): the message is delivered and the stream's next poll logs it, every accessor at the
    value sent or its default -/
example : encodeServer (.publish false 0 false [0x61] none [⟨11, .var 1 1⟩] []) = pubFrame := by decide
example : ∃ c1 rest, wPub.pollCtx.chan 1 = some c1 ∧ c1.buf = pubA :: rest ∧
    (wPub.pollCtx.pollStream 1).out = wPub.pollCtx.out ++ [.item 1 pubA] := by
  have hw : World.ChanWf wPub := wPub_sInv.wf
  obtain ⟨c1, rest, h1, h2, _, h5⟩ := publish_accessors wPub hw (by decide) {} [] false 0 false [0x61] none
    [⟨11, .var 1 1⟩] [] (by wf_concrete) rfl rfl (by decide)
    (pollNext_whole _ (by decide) (by decide) (by decide)) (by decide) 1 1 { buf := [], reg := true } (by decide)
    (by decide) (by decide) pubA (by decide)
  exact ⟨c1, rest, h1, by simpa using h2, h5 rfl (by decide)⟩

end NonVacuity

#print axioms server_ack_reaches_its_future
#print axioms puback_accessors
#print axioms pubrec_accessors
#print axioms pubcomp_accessors
#print axioms suback_accessors
#print axioms unsuback_accessors
#print axioms pingresp_accessors
#print axioms ack_short_forms_and_absent_properties
#print axioms disconnect_accessors
#print axioms connack_accessors
#print axioms connack_absent_properties_read_as_defaults
#print axioms auth_accessors
#print axioms publish_accessors

end Poster
