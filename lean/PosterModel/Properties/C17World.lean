/-
  Properties/C17World.lean — C17, second half, at the level of the whole client (`World`).

  C17: "… the original publish() futures then complete on the acknowledgements received on the new connection. If the
  session has expired (expiry interval 0, or the interval has elapsed) nothing is re-sent and the abandoned operations
  fail instead of hanging."

  Properties/C17.lean proves the `Ctx`-level facts about the prelude of `run()` (`Ctx.resume`), Properties/HistWorld.lean
  places every prelude in the history of a script. This file follows the senders the session owns through the world:

  1. EXPIRED session — the first poll of `run()` (`World.pollCtx` with `task = .running false`, a recorded disconnection
     and `sessionExpired`) closes the oneshot of every waiter of the session and shuts every subscription channel of the
     session (`expired_session_closes_every_waiter`, `expired_session_shuts_every_subscription`), re-sends nothing
     (`expired_session_resends_nothing`, `expired_session_resends_nothing_script`); a poll of such an operation then logs
     `DONE id Err(ContextExited)`, a stream yields its buffer and ends; and in the script step in which that first poll
     happens all of them do complete unless the script holds them back
     (`expired_session_fails_abandoned_operations`, `expired_session_fails_abandoned_operations_on_poll`,
     `expired_session_ends_abandoned_streams`).
  2. LIVE session — the loop of the first poll starts with every waiter still registered
     (`live_session_keeps_every_waiter`), so an acknowledgement arriving on the new connection is sent to the oneshot of
     the ORIGINAL future, which completes with its content at its next poll
     (`ack_on_new_connection_completes_original_future`, `ack_completes_waiting_future`,
     `original_future_returns_the_acknowledgement`); what was acknowledged before the disconnection has left the
     retransmit queue (`c17_acknowledged_leaves_the_queue`, at the level of the history of a script). The non-vacuity
     section ends with a whole script evaluated end to end (`W13.scrRe`): publish, connection lost, reconnect within the
     session, DUP re-send, PUBACK on the new connection, `DONE 1 Ok`.
  Helper lemmas: Lemmas/WorldResume.lean (namespace `Poster.World.W13`).
-/
import PosterModel.Lemmas.WorldResume
import PosterModel.Lemmas.WorldOwnEx
import PosterModel.Lemmas.WorldHistEx
import PosterModel.Properties.C05
import PosterModel.Properties.C14
import PosterModel.Properties.C17
import PosterModel.Properties.C04World
import PosterModel.Properties.CtxLift
import PosterModel.Properties.HistWorld

set_option linter.unusedVariables false
set_option linter.unusedSimpArgs false

namespace Poster
open Framing World

/-! ## 1. the session has expired -/

/-- **An expired session closes the oneshot of every abandoned operation.** Let `w` satisfy the sender-ownership
    invariant (every reachable world does: `ownInv_script`), with `run()` called and not polled yet, a disconnection
    recorded `e` seconds ago and the session expired. After the first poll of `run()`, for every operation `id` waiting
    on a oneshot `s` whose sender the SESSION owned (`(aid, s) ∈ awaiting_ack`):
    * the operation is still in the table, untouched, and is flagged for the executor;
    * its oneshot is `closed` if it had no value — or still holds the value it already had; it is never left `empty`;
    * if the oneshot is closed, a poll of the operation logs exactly `DONE id Err(ContextExited)` and removes it:
      the abandoned operation fails instead of hanging. -/
theorem expired_session_closes_every_waiter (w : World) (ho : OwnInv w) (e : Nat) (ht : w.task = .running false)
    (hd : w.c.disc = some e) (hx : w.c.sessionExpired e = true)
    (id s : Nat) (k : Wait) (aid : Nat) (hm : (id, OpSt.wait s k) ∈ w.ops) (ha : (aid, s) ∈ w.c.awaiting) :
    w.pollCtx.opSt id = some (.wait s k) ∧ w.pollCtx.ops = w.ops ∧ Task.op id ∈ w.pollCtx.woken ∧
    (w.slot s = some .empty → w.pollCtx.slot s = some .closed) ∧
    (∀ v, w.slot s = some (.full v) → w.pollCtx.slot s = some (.full v)) ∧
    w.pollCtx.slot s ≠ some .empty ∧
    (w.pollCtx.slot s = some .closed →
      (w.pollCtx.pollOp id).out = w.pollCtx.out ++ [.done id (.err .contextExited)] ∧
      (w.pollCtx.pollOp id).ops = eraseFirst id w.pollCtx.ops ∧ (w.pollCtx.pollOp id).opSt id = none) := by
  have hop := ho.opSt_of_mem hm
  have hact := (hand_pollCtx w).act
  have ho' := own_pollCtx w ho
  obtain ⟨s1, s2, s3⟩ := W13.expired_poll_slot w e ht hd hx aid s ha
  have hop' : w.pollCtx.opSt id = some (.wait s k) := by simp only [opSt, hact.ops_eq]; exact hop
  refine ⟨hop', hact.ops_eq, ho'.waitDone id s k hop' s3, s1, fun v hv => hact.slotFull s v hv, s3, fun hc => ?_⟩
  obtain ⟨_, c2, c3, c4⟩ := closed_slot_completes w.pollCtx id s k hop' hc
  exact ⟨c2, c3, c4 ho'.nodup⟩

/-- **An expired session shuts every subscription it owned.** In the same situation, for every subscription
    `(sid, ch)` of the session: after the first poll of `run()` the channel `ch` has no sender any more; right after the
    prelude it holds exactly the messages it held before; and if a stream reads from it (both invariants assumed), the
    stream is flagged for the executor, and polling it yields the buffered messages in order, then `END`, after which the
    stream is gone — it does not hang either. -/
theorem expired_session_shuts_every_subscription (w : World) (hb : World.Both w) (e : Nat)
    (ht : w.task = .running false) (hd : w.c.disc = some e) (hx : w.c.sessionExpired e = true)
    (sid ch : Nat) (ha : (sid, ch) ∈ w.c.subs) :
    (∀ c1, w.pollCtx.chan ch = some c1 → c1.txAlive = false) ∧
    (∀ c0, w.chan ch = some c0 → ∃ c1, w.resumed.chan ch = some c1 ∧ c1.buf = c0.buf ∧ c1.txAlive = false) ∧
    (ch ∈ w.streams → ∃ c1, w.pollCtx.chan ch = some c1 ∧ c1.txAlive = false ∧ Task.st ch ∈ w.pollCtx.woken ∧
      (World.pollStreamTimes ch (c1.buf.length + 1) w.pollCtx).out =
        w.pollCtx.out ++ c1.buf.map (Obs.item ch) ++ [.endStream ch] ∧
      ch ∉ (World.pollStreamTimes ch (c1.buf.length + 1) w.pollCtx).streams) := by
  obtain ⟨g1, g2, g3⟩ := W13.expired_poll_chan w e ht hd hx sid ch ha
  have hact := (hand_pollCtx w).act
  refine ⟨g1, fun c0 hc0 => ?_, fun hin => ?_⟩
  · obtain ⟨c1, a, b, c, _⟩ := g2 c0 hc0
    exact ⟨c1, a, b, c⟩
  · obtain ⟨c0, hc0, hfl⟩ := hb.str.strOk ch hin
    obtain ⟨c1, hc1, _, _⟩ := hact.chanSome ch c0 hc0
    have hin' : ch ∈ w.pollCtx.streams := by rw [hact.streams_eq]; exact hin
    have hw : Task.st ch ∈ w.pollCtx.woken := by
      rcases hfl with hfl | ⟨_, hreg, hta⟩
      · exact hact.wokenMono _ hfl
      · exact g3 c0 hc0 hta hreg
    obtain ⟨e1, e2, _⟩ := stream_ends_after_n_plus_one w.pollCtx ch c1 hin' hc1 (g1 c1 hc1)
    exact ⟨c1, hc1, g1 c1 hc1, hw, e1, e2⟩

/-- **An expired session re-sends nothing**: the prelude hands no packet to the transport, the session the loop then
    serves is empty (no waiter, no subscription, nothing to retransmit, no pending inbound QoS 2 identifier), and on an
    unlimited transport everything this poll writes is what its own loop writes for the inputs `is` it handles. -/
theorem expired_session_resends_nothing (w : World) (e : Nat) (ht : w.task = .running false)
    (hd : w.c.disc = some e) (hx : w.c.sessionExpired e = true) :
    w.c.resume.2.2 = [] ∧ writesOf w.c.resume.2.1 = [] ∧
    w.c.resume.1 = { w.c with awaiting := [], subs := [], retx := [], inQos2 := [], disc := none } ∧
    ∃ is : List CIn, (∀ i ∈ is, i.wf) ∧ w.pollCtx.c = (w.c.resume.1.serve is).1 ∧
      (w.cfg.wlimit = none → w.pollCtx.sent = w.sent ++ (((w.c.resume.1.serve is).2.flatMap obsWire).flatten)) := by
  obtain ⟨r1, r2, _⟩ := resume_expired w.c e hd hx
  have r3 : w.c.resume.1 = { w.c with awaiting := [], subs := [], retx := [], inQos2 := [], disc := none } := by
    rw [W13.resume_expired_eq w.c e hd hx]
  refine ⟨r1, r2, r3, ?_⟩
  obtain ⟨is, hwf, hc, _, _, _, _, hs⟩ := world_run_poll_is_serve w false ht
  simp only [Bool.false_eq_true, ↓reduceIte] at hc hs
  refine ⟨is, hwf, hc, fun hl => ?_⟩
  rw [hs hl, r1]
  simp

/-- … at script level: if the history of a script contains the prelude `HEv.resume c` of a `run()` call on an expired
    session, the bytes handed to the (unlimited) transport are those of the events before it followed directly by those
    of the events after it — the prelude contributes nothing. -/
theorem expired_session_resends_nothing_script (cfg : Cfg) (evs : List Ev) (hl : cfg.wlimit = none)
    (pre post : List HEv) (c : Ctx) (e : Nat) (hh : World.history cfg evs = pre ++ .resume c :: post)
    (hd : c.disc = some e) (hx : c.sessionExpired e = true) :
    (evs.foldl World.step { cfg := cfg }).sent = (evPkts pre).flatten ++ (evPkts post).flatten := by
  rw [c17_resent_before_anything_else cfg evs hl pre post c hh, (resume_expired c e hd hx).1]
  simp

/-- **The abandoned operations fail in the very step in which `run()` is first polled.** Take any script `evs` and a
    next event `e` such that, once `e` has been applied (`w0`), the executor's first choice is the context task, `run()`
    has not been polled yet, a disconnection is recorded and the session has expired (e.g. `e = run` after `markDisc`,
    or `release ctx`). Then for every operation `id` that waits on a oneshot `s` owned by the session:
    * at the end of the step the operation is no longer waiting on `s`, unless the script holds it back (`HOLD op id`);
    * if the oneshot had no value and the script does not hold the operation, `DONE id Err(ContextExited)` was logged
      during this step (after the `EV` line of `e`). -/
theorem expired_session_fails_abandoned_operations (cfg : Cfg) (evs : List Ev) (e : Ev) (el : Nat) :
    let w := evs.foldl World.step { cfg := cfg }
    let w0 := (w.emit (.ev e)).apply e
    w.bad = false → w0.bad = false → w0.pick = some .ctx → w0.task = .running false → w0.c.disc = some el →
    w0.c.sessionExpired el = true →
    ∀ id s k aid, (id, OpSt.wait s k) ∈ w0.ops → (aid, s) ∈ w0.c.awaiting →
      ((id, OpSt.wait s k) ∈ (w.step e).ops → Task.op id ∈ (w.step e).held) ∧
      (w0.slot s = some .empty → Task.op id ∉ w0.held →
        ∃ pre post, (w.step e).out = pre ++ Obs.done id (.err .contextExited) :: post ∧ w0.out.length ≤ pre.length) := by
  intro w w0 hb hb1 hp ht hd hx id s k aid hm ha
  have hq : w.pick = none := by
    rcases executor_idle_after_every_step cfg evs with h | h
    · rw [hb] at h; cases h
    · exact h
  exact W13.step_expired_ops w e (ownInv_script cfg evs) (regInv_script cfg evs) hq hb el hb1 hp ht hd hx id s k aid hm ha

/-- **… also when the script polls the context itself.** If `run()` has been called on an expired session but its task
    is held back by the script (so the executor has not polled it), the script event `POLL ctx` is the first poll: in that
    step every operation waiting on a oneshot of the session stops waiting there unless the script holds it, and logs
    `DONE id Err(ContextExited)` (after the `EV` line) if its oneshot had no value and it is not held. -/
theorem expired_session_fails_abandoned_operations_on_poll (cfg : Cfg) (evs : List Ev) (el : Nat) :
    let w := evs.foldl World.step { cfg := cfg }
    w.bad = false → w.task = .running false → w.c.disc = some el → w.c.sessionExpired el = true →
    ∀ id s k aid, (id, OpSt.wait s k) ∈ w.ops → (aid, s) ∈ w.c.awaiting →
      ((id, OpSt.wait s k) ∈ (w.step (.poll .ctx)).ops → Task.op id ∈ (w.step (.poll .ctx)).held) ∧
      (w.slot s = some .empty → Task.op id ∉ w.held →
        ∃ pre post, (w.step (.poll .ctx)).out = pre ++ Obs.done id (.err .contextExited) :: post ∧
          w.out.length + 1 ≤ pre.length) := by
  intro w hb ht hd hx id s k aid hm ha
  have hq : w.pick = none := by
    rcases executor_idle_after_every_step cfg evs with h | h
    · rw [hb] at h; cases h
    · exact h
  exact W13.step_expired_ops_poll w (ownInv_script cfg evs) (regInv_script cfg evs) hq hb el ht hd hx id s k aid hm ha

/-- **… and the abandoned streams end in that step** (general form: from any idle world `w` in which the invariants
    hold — `World.Both`: sender ownership and the stream invariant; `World.RegInv` — and an event `e` that does not start an
    operation under the identifier of a live stream). In the situation of `expired_session_fails_abandoned_operations`,
    every stream that reads from a subscription `(sid, ch)` of the expired session has ended by the end of the step (it
    yielded what it had buffered, then `END`: `stream_ends_after_n_plus_one`), unless the script holds it back; in any
    case its channel has no sender any more, so it ends as soon as it is polled. -/
theorem expired_session_ends_abandoned_streams_from (w : World) (hbo : World.Both w) (hr : World.RegInv w)
    (hq : w.pick = none) (e : Ev) (hf : World.opFresh w e) (el : Nat) (hb : w.bad = false)
    (hb1 : ((w.emit (.ev e)).apply e).bad = false) (hp : ((w.emit (.ev e)).apply e).pick = some .ctx)
    (ht : ((w.emit (.ev e)).apply e).task = .running false) (hd : ((w.emit (.ev e)).apply e).c.disc = some el)
    (hx : ((w.emit (.ev e)).apply e).c.sessionExpired el = true) :
    ∀ sid ch, (sid, ch) ∈ ((w.emit (.ev e)).apply e).c.subs → ch ∈ (w.step e).streams →
      Task.st ch ∈ (w.step e).held ∧ ∀ c1, (w.step e).chan ch = some c1 → c1.txAlive = false :=
  fun sid ch ha hin => W13.step_expired_streams w e hbo hf hr hq hb el hb1 hp ht hd hx sid ch ha hin

/-- … for whole scripts: with pairwise distinct `OP` identifiers the invariants hold in every world a script reaches. -/
theorem expired_session_ends_abandoned_streams (cfg : Cfg) (evs : List Ev) (e : Ev) (el : Nat)
    (hn : (World.opIds (evs ++ [e])).Nodup) :
    let w := evs.foldl World.step { cfg := cfg }
    let w0 := (w.emit (.ev e)).apply e
    w.bad = false → w0.bad = false → w0.pick = some .ctx → w0.task = .running false → w0.c.disc = some el →
    w0.c.sessionExpired el = true →
    ∀ sid ch, (sid, ch) ∈ w0.c.subs → ch ∈ (w.step e).streams →
      Task.st ch ∈ (w.step e).held ∧ ∀ c1, (w.step e).chan ch = some c1 → c1.txAlive = false := by
  intro w w0 hb hb1 hp ht hd hx sid ch ha hin
  have hq : w.pick = none := by
    rcases executor_idle_after_every_step cfg evs with h | h
    · rw [hb] at h; cases h
    · exact h
  have hg := (W13.goodFrom_append evs [e] { cfg := cfg }).1 (World.goodFrom_script cfg (evs ++ [e]) hn)
  have hbo : World.Both w := World.both_steps evs _ ⟨ownInv_init cfg, strInv_init cfg⟩ hg.1
  exact expired_session_ends_abandoned_streams_from w hbo (regInv_script cfg evs) hq e hg.2.1 el hb hb1 hp ht hd hx
    sid ch ha hin

/-! ## 2. the session has not expired -/

/-- **A live session keeps every waiter.** `run()` called and not polled yet, a disconnection recorded `e` seconds ago,
    the session NOT expired. The prelude drops nothing; the world in which the loop of this first poll starts
    (`w.resent`: prelude done, unfinished handshakes re-sent) has the context of `w` with only the recorded disconnection
    cleared — `awaiting_ack`, the subscriptions, the retransmit queue, the quota are those of the old connection — and
    the operation table, the oneshots, the registered wakers, the message queue and the transport of `w`; the poll is that
    loop (when the transport takes the re-sent packets); and whatever the poll does, no operation leaves the table. -/
theorem live_session_keeps_every_waiter (w : World) (e : Nat) (ht : w.task = .running false)
    (hd : w.c.disc = some e) (hx : w.c.sessionExpired e = false) :
    w.c.resume.2.1 = [] ∧ w.resent.c = { w.c with disc := none } ∧ w.resent.c.awaiting = w.c.awaiting ∧
    w.resent.c.subs = w.c.subs ∧ w.resent.ops = w.ops ∧ (∀ s, w.resent.slot s = w.slot s) ∧
    w.resent.slotReg = w.slotReg ∧ w.resent.queue = w.queue ∧ w.resent.reader = w.reader ∧ w.resent.rx = w.rx ∧
    (w.resumed.canWrite ((w.c.resume.2.2.map List.length).sum) = true →
      w.pollCtx = runLoop w.resent.loopFuel w.resent) ∧
    w.pollCtx.ops = w.ops := by
  obtain ⟨a1, a2, a3, a4, a5, a6, a7, _, _, _, _⟩ := W13.resent_alive w e hd hx
  refine ⟨(resume_not_expired w.c e hd hx).2.2.1, a1, by rw [a1], by rw [a1], a2, fun s => by simp [slot, a3], a4, a5,
    a6, a7, fun hw => W13.pollCtx_alive_eq w ht hw, (hand_pollCtx w).act.ops_eq⟩

/-- **An acknowledgement received on the new connection completes the ORIGINAL future.** In a world satisfying the
    ownership invariant, `run()` called on a reconnect within the session and not polled yet (the transport takes the
    re-sent packets): nothing is queued, a handle is alive, and the next frame on the new connection decodes to an
    acknowledgement `p` (not a PUBREL) whose action identifier `aid` — its packet type and packet identifier — has the
    oneshot `s` as first registered waiter in the `awaiting_ack` of the OLD connection; operation `id` — the future
    created before the disconnection — still waits on `s`. Then after the first poll of `run()` that oneshot holds `p`,
    the operation is still in the table and flagged, and its next poll resumes it with exactly `p`. -/
theorem ack_on_new_connection_completes_original_future (w : World) (ho : OwnInv w) (e : Nat)
    (ht : w.task = .running false) (hd : w.c.disc = some e) (hx : w.c.sessionExpired e = false)
    (hw : w.resumed.canWrite ((w.c.resume.2.2.map List.length).sum) = true)
    (rx' : Rx) (rd' : List ReadEv) (fr : Bytes) (p : RxPacket) (aid s id : Nat) (k : Wait)
    (hq : w.queue = []) (hsn : w.senders ≠ 0) (hp : pollNext w.rx w.reader = (rx', rd', .item fr))
    (hdec : decodeRx fr = .ok p) (haid : rxActionId p = some aid) (hrel : ∀ a, p ≠ .pubrel a)
    (hl : lookupFirst aid w.c.awaiting = some s) (hop : w.opSt id = some (.wait s k))
    (hs : w.slot s = some .empty) :
    w.pollCtx.slot s = some (.full (.pkt p)) ∧ w.pollCtx.opSt id = some (.wait s k) ∧
    Task.op id ∈ w.pollCtx.woken ∧ w.pollCtx.pollOp id = w.pollCtx.resumeOp id s k (.pkt p) := by
  obtain ⟨a1, a2, a3, a4, a5, a6, a7, a8, _, _, _⟩ := W13.resent_alive w e hd hx
  rw [W13.pollCtx_alive_eq w ht hw]
  have hf : ∃ f, w.resent.loopFuel = f + 1 :=
    ⟨w.resent.queue.length + 2 * (evBytes w.resent.reader + w.resent.reader.length + w.resent.rx.valid.length) + 3, rfl⟩
  obtain ⟨f, hf⟩ := hf
  rw [hf]
  have hsn' : w.resent.senders ≠ 0 := by simpa [senders, a8, a2] using hsn
  obtain ⟨r1, r2, r3⟩ := W13.runLoop_ack_result f w.resent rx' rd' fr p aid s (by rw [a5]; exact hq) hsn'
    (by rw [a7, a6]; exact hp) hdec haid hrel (by rw [a1]; exact hl) (by simp only [slot, a3]; exact hs)
  have hop' : (runLoop (f + 1) w.resent).opSt id = some (.wait s k) := by simp only [opSt, r2, a2]; exact hop
  refine ⟨r1, hop', ?_, by simp [pollOp, hop', r1]⟩
  have := r3 (by rw [a4]; exact ho.waitReg id s k hop hs)
  rwa [(ho.slotOf id s k hop).half] at this

/-- **… and on every later poll as well.** The same for a `run()` future that has already been polled: whenever the
    next frame decodes to an acknowledgement whose action identifier has `s` as first registered waiter, the poll sends it
    to `s`, and the operation waiting there is resumed with it at its next poll. -/
theorem ack_completes_waiting_future (w : World) (ho : OwnInv w) (ht : w.task = .running true)
    (rx' : Rx) (rd' : List ReadEv) (fr : Bytes) (p : RxPacket) (aid s id : Nat) (k : Wait)
    (hq : w.queue = []) (hsn : w.senders ≠ 0) (hp : pollNext w.rx w.reader = (rx', rd', .item fr))
    (hdec : decodeRx fr = .ok p) (haid : rxActionId p = some aid) (hrel : ∀ a, p ≠ .pubrel a)
    (hl : lookupFirst aid w.c.awaiting = some s) (hop : w.opSt id = some (.wait s k))
    (hs : w.slot s = some .empty) :
    w.pollCtx.slot s = some (.full (.pkt p)) ∧ w.pollCtx.opSt id = some (.wait s k) ∧
    Task.op id ∈ w.pollCtx.woken ∧ w.pollCtx.pollOp id = w.pollCtx.resumeOp id s k (.pkt p) := by
  have e0 : w.pollCtx = runLoop w.loopFuel w := by simp [pollCtx, ht, pollRun]
  rw [e0]
  have hf : ∃ f, w.loopFuel = f + 1 :=
    ⟨w.queue.length + 2 * (evBytes w.reader + w.reader.length + w.rx.valid.length) + 3, rfl⟩
  obtain ⟨f, hf⟩ := hf
  rw [hf]
  obtain ⟨r1, r2, r3⟩ := W13.runLoop_ack_result f w rx' rd' fr p aid s hq hsn hp hdec haid hrel hl hs
  have hop' : (runLoop (f + 1) w).opSt id = some (.wait s k) := by simp only [opSt, r2]; exact hop
  refine ⟨r1, hop', ?_, by simp [pollOp, hop', r1]⟩
  have := r3 (ho.waitReg id s k hop hs)
  rwa [(ho.slotOf id s k hop).half] at this

/-- **What was acknowledged before the disconnection is not re-sent** (script level). Take any handler call of the
    history of a script that handles a PUBACK, a PUBREC (any reason code) or a PUBCOMP `p`, in context state `c`, with `a`
    the events before it. Then `c` is the state `a` left, its retransmit queue is the unfinished handshakes of the session
    history so far, and — the queued action identifiers being pairwise distinct (`nodup_preserved`) — the queue the call
    leaves has no entry under the action identifier of `p` — a `run()` prelude that follows re-sends nothing for it —
    while every entry under another identifier stays queued. -/
theorem c17_acknowledged_leaves_the_queue (cfg : Cfg) (evs : List Ev) (a b : List HEv) (c : Ctx) (p : RxPacket)
    (dead : List Nat) (wok : Bool) (aid : Nat)
    (hh : World.history cfg evs = a ++ .handler c (.pkt p dead wok) :: b)
    (hk : (∃ x, p = .puback x) ∨ (∃ x, p = .pubrec x) ∨ (∃ x, p = .pubcomp x)) (haid : rxActionId p = some aid)
    (hnd : (c.retx.map (·.1)).Nodup) :
    c = lastCtx {} a ∧ c.retx = unfinished (sessionObs a) ∧
    (∀ e ∈ (HEv.handler c (.pkt p dead wok)).after.retx, e.1 ≠ aid) ∧
    (∀ e ∈ c.retx, e.1 ≠ aid → e ∈ (HEv.handler c (.pkt p dead wok)).after.retx) := by
  obtain ⟨hch, _, _⟩ := script_history_chained cfg evs
  rw [hh] at hch
  obtain ⟨h1, h2⟩ := (chained_append _ _ _).mp hch
  have hc : c = lastCtx {} a := h2.1 c rfl
  refine ⟨hc, by rw [hc]; exact session_retx _ h1, ?_, fun e he hne => ?_⟩
  · rcases hk with ⟨x, rfl⟩ | ⟨x, rfl⟩ | ⟨x, rfl⟩ <;>
      simp only [rxActionId, Option.some.injEq] at haid <;> subst haid
    · exact (acked_not_resent c (fun ch => ch ∉ dead) x wok hnd).1
    · exact (acked_not_resent c (fun ch => ch ∉ dead) x wok hnd).2.1
    · exact (acked_not_resent c (fun ch => ch ∉ dead) x wok hnd).2.2
  · exact unacked_still_queued c (fun ch => ch ∉ dead) p wok e he (fun k hk' => by
      rw [haid] at hk'; cases hk'; exact hne)

/-- **The original future returns the content of that acknowledgement.** A future waiting for `k` whose oneshot holds
    the packet `p`: if `p` is the acknowledgement it waits for (`W13.doneOf k p = some r`: PUBACK for a QoS 1 publish,
    PUBREC with a failure code or PUBCOMP for QoS 2, SUBACK, UNSUBACK, PINGRESP), its poll logs exactly `DONE id r` —
    success, or the error of its kind with the packet's reason code, reason string and user properties, or the
    SUBACK/UNSUBACK reason string, user properties and reason codes — and the operation leaves the table; a QoS 2 publish
    whose PUBREC is good queues its PUBREL and waits on its second oneshot for the PUBCOMP, to which the same applies. -/
theorem original_future_returns_the_acknowledgement (w : World) (id s : Nat) (k : Wait) (p : RxPacket)
    (hop : w.opSt id = some (.wait s k)) (hs : w.slot s = some (.full (.pkt p))) :
    (∀ r, W13.doneOf k p = some r →
      (w.pollOp id).out = w.out ++ [.done id r] ∧ (w.pollOp id).ops = eraseFirst id w.ops) ∧
    (∀ a, k = .pubrec → p = .pubrec a → a.reason < 128 → w.hasCtx = true →
      (w.pollOp id).opSt id = some (.wait (s + 1) .pubcomp) ∧ (w.pollOp id).out = w.out ∧
      (w.pollOp id).queue = w.queue ++ [.awaitAck (actionId 7 a.packetId) (ackBytes 0x62 a.packetId) (s + 1)]) := by
  refine ⟨fun r hr => (W13.pollOp_done w id s k p r hop hs hr).2, ?_⟩
  rintro a rfl rfl ha hc
  exact W13.pollOp_pubrec_goes_on w id s a hop hs ha hc

/-! ## non-vacuity -/
section NonVacuity
open Ex W13 HistEx

/-- the script `W13.scrExp` (a QoS 1 PUBLISH and a DISCONNECT served by a first `run()`, then the disconnection is
    recorded; no session expiry was ever negotiated, so the session has expired) reaches `W13.wExp`; with `e = run` the
    hypotheses of `expired_session_fails_abandoned_operations` hold in `W13.wExp0`: operation 1 still waits for its
    PUBACK on the empty oneshot 2, registered in `awaiting_ack`, and is not held -/
example : wExp.bad = false ∧ wExp0.bad = false ∧ wExp0.pick = some .ctx ∧ wExp0.task = .running false ∧
    wExp0.c.disc = some 5 ∧ wExp0.c.sessionExpired 5 = true ∧ (1, OpSt.wait 2 .puback) ∈ wExp0.ops ∧
    (actionId 4 1, 2) ∈ wExp0.c.awaiting ∧ wExp0.slot 2 = some .empty ∧ Task.op 1 ∉ wExp0.held := by decide

/-- … so the theorem applies: in the step of that `run` the abandoned publish fails with `ContextExited` -/
example : ∃ pre post, ((scrExp.foldl World.step {}).step .run).out =
    pre ++ Obs.done 1 (.err .contextExited) :: post := by
  have h := expired_session_fails_abandoned_operations {} scrExp .run 5
  simp only [scrExp_foldl, wExp_run] at h
  obtain ⟨pre, post, e, _⟩ := (h (by decide) (by decide) (by decide) (by decide) (by decide) (by decide) 1 2 .puback
    (actionId 4 1) (by decide) (by decide)).2 (by decide) (by decide)
  exact ⟨pre, post, by rw [scrExp_foldl]; exact e⟩

/-- the one-poll theorem on the world right before that first poll: its hypotheses hold, and the oneshot of the
    abandoned publish is closed, its future flagged -/
example : (wExp0.unwake .ctx).pollCtx.slot 2 = some .closed ∧ Task.op 1 ∈ (wExp0.unwake .ctx).pollCtx.woken := by
  have ho : OwnInv (wExp0.unwake .ctx) := by
    have h0 : OwnInv wExp0 := by
      rw [← wExp_run, ← scrExp_foldl]
      exact own_apply _ .run (own_emit _ _ (ownInv_script {} scrExp))
    exact own_congr h0 rfl rfl rfl rfl rfl rfl rfl rfl rfl (fun n hn => by simp [unwake, hn]) (by decide)
  have h := expired_session_closes_every_waiter (wExp0.unwake .ctx) ho 5 (by decide) (by decide) (by decide) 1 2 .puback
    (actionId 4 1) (by decide) (by decide)
  exact ⟨h.2.2.2.1 (by decide), h.2.2.1⟩

/-- a stream asleep on a subscription of an expired session (`W13.wSubExp`): the hypotheses of
    `expired_session_shuts_every_subscription` hold, so after the first poll of `run()` stream 1 is flagged and a single
    poll ends it (its buffer is empty) -/
example : ∃ c1, wSubExp.pollCtx.chan 1 = some c1 ∧ c1.txAlive = false ∧ Task.st 1 ∈ wSubExp.pollCtx.woken :=
  let ⟨c1, a, b, c, _⟩ := (expired_session_shuts_every_subscription wSubExp wSubExp_both 5 (by decide) (by decide)
    (by decide) 1 1 (by decide)).2.2 (by decide)
  ⟨c1, a, b, c⟩

/-- `expired_session_ends_abandoned_streams_from` applies to `W13.wSubD` (stream 1 asleep on a subscription of the
    session, `run()` cancelled, disconnection recorded, interval 0) and the event `run`: in that step the stream ends — it
    is not held, so it is gone afterwards -/
example : 1 ∉ (wSubD.step .run).streams := by
  intro hin
  have h := (expired_session_ends_abandoned_streams_from wSubD wSubD_both wSubD_reg (by decide) .run trivial 5 (by decide)
    (by decide) (by decide) (by decide) (by decide) (by decide) 1 1 (by decide) hin).1
  have hh : (wSubD.step .run).held = [] := by
    have e := W13.polls_held (W13.polls_afterDrains ((wSubD.emit (.ev .run)).apply .run))
    rcases W13.step_eq_afterDrains wSubD .run (by decide) (by decide) with hs | hs
    · rw [hs, e]; decide
    · rw [hs]; show (W13.afterDrains _).held = []; rw [e]; decide
  rw [hh] at h
  cases h

/-- the resumed world `W13.wAck` (session of 60 s, disconnection 5 s ago, PUBLISH 1 unacknowledged, PUBACK 1 readable)
    satisfies the hypotheses of `live_session_keeps_every_waiter` and `ack_on_new_connection_completes_original_future` … -/
example : wAck.task = .running false ∧ wAck.c.disc = some 5 ∧ wAck.c.sessionExpired 5 = false ∧
    wAck.resumed.canWrite ((wAck.c.resume.2.2.map List.length).sum) = true ∧ wAck.queue = [] ∧ wAck.senders ≠ 0 ∧
    rxActionId (.puback { packetId := 1 }) = some (actionId 4 1) ∧
    lookupFirst (actionId 4 1) wAck.c.awaiting = some 2 ∧ wAck.opSt 1 = some (.wait 2 .puback) ∧
    wAck.slot 2 = some .empty ∧ wAck.c.resume.2.2 = [[0x3A, 6, 0, 1, 0x61, 0, 1, 0]] := by decide

/-- … so after its first poll of `run()` the oneshot of the ORIGINAL publish holds the PUBACK received on the new
    connection, and the next poll of that future logs `DONE 1 Ok` -/
example : wAck.pollCtx.slot 2 = some (.full (.pkt (.puback { packetId := 1 }))) ∧
    (wAck.pollCtx.pollOp 1).out = wAck.pollCtx.out ++ [.done 1 .ok] := by
  obtain ⟨h1, h2, _, _⟩ := ack_on_new_connection_completes_original_future wAck wAck_own 5 (by decide) (by decide)
    (by decide) (by decide) {} [] puback1 (.puback { packetId := 1 }) (actionId 4 1) 2 1 .puback (by decide) (by decide)
    pn_puback1 dec_puback1 rfl (fun a h => by cases h) (by decide) (by decide) (by decide)
  exact ⟨h1, ((original_future_returns_the_acknowledgement _ 1 2 .puback _ h2 h1).1 .ok rfl).1⟩

/-- `expired_session_fails_abandoned_operations_on_poll`: `W13.scrExpH` (`W13.scrExp`, then the context task is held
    back and `run()` is called — the executor does not poll it) reaches `W13.wExpH`, in which the hypotheses hold; so the
    script's `POLL ctx` fails the abandoned publish -/
example : ∃ pre post, ((scrExpH.foldl World.step {}).step (.poll .ctx)).out =
    pre ++ Obs.done 1 (.err .contextExited) :: post := by
  have h := expired_session_fails_abandoned_operations_on_poll {} scrExpH 5
  simp only [scrExpH_foldl] at h
  obtain ⟨pre, post, e, _⟩ := (h (by decide) (by decide) (by decide) (by decide) 1 2 .puback (actionId 4 1) (by decide)
    (by decide)).2 (by decide) (by decide)
  exact ⟨pre, post, by rw [scrExpH_foldl]; exact e⟩

/-- **A whole script, end to end** (`W13.scrRe`, evaluated stage by stage in Lemmas/WorldResume.lean; the transport
    takes 12 bytes per connection). A QoS 1 PUBLISH is sent and `run()` returns before its PUBACK arrives; the
    disconnection is recorded; `connect()` on a new transport asks for a 60 s session; on a third transport `run()` is
    called again: it re-sends the PUBLISH with DUP set (0x32 → 0x3A) and nothing else; then the broker's PUBACK arrives on
    the NEW connection and the ORIGINAL `publish()` future — operation 1, created before the disconnection — completes
    with `Ok`. -/
example : (World.run cfgRe scrRe).drop 14 =
    [.ev .run, .wire [0x3A, 6, 0, 1, 0x61, 0, 1, 0], .ev (.feed [puback1]), .done 1 .ok] := by
  unfold World.run
  rw [scrRe_foldl]
  decide

/-- … and `c17_acknowledged_leaves_the_queue` applies to the handler call of that PUBACK (the last event of the history of
    `W13.scrRe`): afterwards nothing is left to re-send -/
example : ∀ e ∈ (HEv.handler { cRe0 with disc := none } (.pkt (.puback { packetId := 1 }) [] true)).after.retx,
    e.1 ≠ actionId 4 1 :=
  (c17_acknowledged_leaves_the_queue cfgRe scrRe _ [] _ (.puback { packetId := 1 }) [] true (actionId 4 1)
    (by rw [scrRe_history]) (Or.inl ⟨_, rfl⟩) rfl (by decide)).2.2.1

end NonVacuity

#print axioms expired_session_closes_every_waiter
#print axioms expired_session_shuts_every_subscription
#print axioms expired_session_resends_nothing
#print axioms expired_session_resends_nothing_script
#print axioms expired_session_fails_abandoned_operations
#print axioms expired_session_fails_abandoned_operations_on_poll
#print axioms expired_session_ends_abandoned_streams_from
#print axioms expired_session_ends_abandoned_streams
#print axioms c17_acknowledged_leaves_the_queue
#print axioms live_session_keeps_every_waiter
#print axioms ack_on_new_connection_completes_original_future
#print axioms ack_completes_waiting_future
#print axioms original_future_returns_the_acknowledgement

end Poster
